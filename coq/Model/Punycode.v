(* encode_punycode / decode_punycode (src/stdlib/{encode,decode}_punycode.rs; crate idna 1.1.0).

   Modelled in full: the `validate: false` paths — the VRL glue (ASCII pass-through, splitting on '.',
   the "xn--" prefix, lower-casing, the fall-backs when the library returns None) and the RFC 3492
   bootstring encoder/decoder of idna::punycode (`encode_str`, `decode_to_string`, external-caller flavour:
   u32 arithmetic with checked operations, upper-case digits accepted when decoding).
   Not modelled: `validate: true` (idna::domain_to_ascii / domain_to_unicode = UTS #46 processing); it appears
   in Model/CodecGlue.v as a library function with an assumed law.

   Deviations from a line-by-line transcription, both checked by the correspondence run:
   * the decoder's `insertions` vector (positions shifted on every insertion, sorted at the end, merged with
     the basic code points by the `Decode` iterator) is modelled as direct insertion into the output list, as
     RFC 3492 section 6.2 states it;
   * `str::to_lowercase` is modelled by `lower_cp`: ASCII, Latin-1, Greek (without capital sigma, whose
     lower-casing is context dependent) and basic Cyrillic capitals; every other code point is taken to be
     caseless.  The generator draws non-ASCII text from these ranges plus caseless scripts only.
   Definitions only. *)
From Coq Require Import List NArith Bool.
From VRL Require Import Base.Bytes Model.Base16 Model.Base64 Model.CodecUtf8.
Import ListNotations.
Local Open Scope N_scope.

Definition u32_max : N := 4294967295.

(* ---------- bootstring parameters (RFC 3492 section 5) ---------- *)
Definition thr (k bias : N) : N :=
  if k <=? bias then 1 else if bias + 26 <=? k then 26 else k - bias.

Fixpoint adapt_loop (fuel : nat) (delta k : N) : N * N :=
  match fuel with
  | O => (delta, k)
  | S f => if 455 <? delta then adapt_loop f (delta / 35) (k + 36) else (delta, k)
  end.

Definition adapt (delta num_points : N) (first : bool) : N :=
  let d := delta / (if first then 700 else 2) in
  let d := d + d / num_points in
  let '(d, k) := adapt_loop 8 d 0 in
  k + (36 * d) / (d + 38).

Definition to_digit (v : N) : N := if v <? 26 then 97 + v else 22 + v.      (* a-z, 0-9 *)

Definition digit_of (b : N) : option N :=
  if (48 <=? b) && (b <=? 57) then Some (b - 22)
  else if (65 <=? b) && (b <=? 90) then Some (b - 65)
  else if (97 <=? b) && (b <=? 122) then Some (b - 97)
  else None.

(* ---------- encoder ---------- *)
(* generalized variable-length integer; each step divides q by at least 10 *)
Fixpoint enc_vli (fuel : nat) (q k bias : N) : bytes :=
  match fuel with
  | O => []
  | S f =>
      let t := thr k bias in
      if q <? t then [to_digit q]
      else to_digit (t + (q - t) mod (36 - t)) :: enc_vli f ((q - t) / (36 - t)) (k + 36) bias
  end.

Definition enc_state := (N * N * N * bytes)%type.       (* delta, bias, processed, output *)

(* `for c in input.clone()` of one outer round *)
Fixpoint enc_inner (input : list N) (cp basic_len : N) (st : enc_state) : option enc_state :=
  match input with
  | [] => Some st
  | c :: r =>
      let '(delta, bias, processed, out) := st in
      let delta1 := if c <? cp then delta + 1 else delta in
      if u32_max <? delta1 then None
      else if c =? cp then
        enc_inner r cp basic_len
          (0, adapt delta1 (processed + 1) (processed =? basic_len), processed + 1,
           out ++ enc_vli 12 delta1 36 bias)
      else enc_inner r cp basic_len (delta1, bias, processed, out)
  end.

Definition min_ge (input : list N) (cp : N) : option N :=
  fold_left (fun acc c => if cp <=? c then
                            match acc with Some m => Some (N.min m c) | None => Some c end
                          else acc) input None.

Fixpoint enc_outer (fuel : nat) (input : list N) (input_len basic_len cp : N) (st : enc_state)
  : option bytes :=
  let '(delta, bias, processed, out) := st in
  if processed <? input_len then
    match fuel with
    | O => None
    | S f =>
        match min_ge input cp with
        | None => None
        | Some m =>
            let prod := (m - cp) * (processed + 1) in
            if u32_max <? prod then None
            else if u32_max <? delta + prod then None
            else
              match enc_inner input m basic_len (delta + prod, bias, processed, out) with
              | None => None
              | Some (delta', bias', processed', out') =>
                  if u32_max <? delta' + 1 then None
                  else enc_outer f input input_len basic_len (m + 1) (delta' + 1, bias', processed', out')
              end
        end
    end
  else Some out.

(* idna::punycode::encode_str on the code points of a string *)
Definition puny_encode (cps : list N) : option bytes :=
  let basic := filter (fun c => c <? 128) cps in
  let out0 := if is_nil basic then [] else basic ++ [45] in
  let bl := N.of_nat (length basic) in
  enc_outer (S (length cps)) cps (N.of_nat (length cps)) bl 128 (0, 72, bl, out0).

(* ---------- decoder ---------- *)
(* split at the last '-' *)
Fixpoint rsplit_dash (s : bytes) : option (bytes * bytes) :=
  match s with
  | [] => None
  | c :: r =>
      match rsplit_dash r with
      | Some (b, a) => Some (c :: b, a)
      | None => if c =? 45 then Some ([], r) else None
      end
  end.

Definition split_basic (s : bytes) : bytes * bytes :=
  match rsplit_dash s with
  | Some (b, a) => if is_nil b then ([], s) else (b, a)     (* position 0: nothing is skipped *)
  | None => ([], s)
  end.

Fixpoint dec_vli (s : bytes) (i w k bias : N) : option (N * bytes) :=
  match s with
  | [] => None                                   (* end of input inside a delta *)
  | b :: r =>
      match digit_of b with
      | None => None
      | Some d =>
          if u32_max <? d * w then None
          else if u32_max <? i + d * w then None
          else
            let t := thr k bias in
            if d <? t then Some (i + d * w, r)
            else if u32_max <? w * (36 - t) then None
            else dec_vli r (i + d * w) (w * (36 - t)) (k + 36) bias
      end
  end.

Fixpoint insert_at {A} (n : nat) (x : A) (l : list A) : list A :=
  match n, l with
  | O, _ => x :: l
  | S n', y :: r => y :: insert_at n' x r
  | S _, [] => [x]
  end.

Fixpoint dec_loop (fuel : nat) (s : bytes) (out : list N) (cp bias i : N) : option (list N) :=
  match s with
  | [] => Some out
  | _ :: _ =>
      match fuel with
      | O => None
      | S f =>
          match dec_vli s i 1 36 bias with
          | None => None
          | Some (i', rest) =>
              let len1 := N.of_nat (length out) + 1 in
              let bias' := adapt (i' - i) len1 (i =? 0) in
              let cp' := cp + i' / len1 in
              if u32_max <? cp' then None
              else if is_scalar_cp cp' then
                let pos := i' mod len1 in
                dec_loop f rest (insert_at (N.to_nat pos) cp' out) cp' bias' (pos + 1)
              else None
          end
      end
  end.

(* idna::punycode::decode_to_string on the bytes of a string; the result as code points *)
Definition puny_decode (s : bytes) : option (list N) :=
  let '(base, rest) := split_basic s in
  if forallb (fun c => c <? 128) base then dec_loop (length rest) rest base 128 72 0 else None.

(* ---------- string helpers ---------- *)
Fixpoint starts_with (p s : bytes) : bool :=
  match p, s with
  | [], _ => true
  | a :: p', b :: s' => (a =? b) && starts_with p' s'
  | _ :: _, [] => false
  end.

Fixpoint contains (p s : bytes) : bool :=
  starts_with p s || match s with [] => false | _ :: r => contains p r end.

(* str::split on a one-byte separator: always at least one part *)
Fixpoint split_on (sep : N) (s : bytes) : list bytes :=
  match s with
  | [] => [[]]
  | c :: r =>
      if c =? sep then [] :: split_on sep r
      else match split_on sep r with
           | p :: ps => (c :: p) :: ps
           | [] => [[c]]
           end
  end.

Fixpoint join_with (sep : N) (parts : list bytes) : bytes :=
  match parts with
  | [] => []
  | [p] => p
  | p :: ps => p ++ sep :: join_with sep ps
  end.

Definition xn_prefix : bytes := [120; 110; 45; 45].          (* "xn--" *)
Definition dot : N := 46.

Definition is_ascii_bytes (s : bytes) : bool := forallb (fun c => c <? 128) s.

(* char::to_lowercase restricted as described in the header *)
Definition lower_cp (c : N) : N :=
  if (65 <=? c) && (c <=? 90) then c + 32
  else if (192 <=? c) && (c <=? 222) && negb (c =? 215) then c + 32
  else if (913 <=? c) && (c <=? 937) && negb (c =? 930) && negb (c =? 931) then c + 32
  else if (1040 <=? c) && (c <=? 1071) then c + 32
  else if (1024 <=? c) && (c <=? 1039) then c + 80
  else c.

Definition to_lowercase (s : bytes) : bytes := utf8_of_cps (map lower_cp (utf8_chars s)).

Definition plain_char (c : N) : bool :=           (* is_ascii_lowercase || is_ascii_digit || '.' *)
  ((97 <=? c) && (c <=? 122)) || ((48 <=? c) && (c <=? 57)) || (c =? 46).

(* ---------- the VRL functions with validate: false ---------- *)
Definition encode_part (part : bytes) : bytes :=
  if starts_with xn_prefix part || is_ascii_bytes part then to_lowercase part
  else
    let low := to_lowercase part in
    xn_prefix ++ match puny_encode (utf8_chars low) with Some e => e | None => low end.

Definition encode_punycode_novalidate (v : bytes) : res :=
  let s := utf8_lossy v in
  if forallb plain_char s then ROk s
  else ROk (join_with dot (map encode_part (split_on dot s))).

Definition decode_part (part : bytes) : bytes :=
  if starts_with xn_prefix part then
    match puny_decode (skipn 4 part) with
    | Some cps => utf8_of_cps cps
    | None => part
    end
  else part.

Definition decode_punycode_novalidate (v : bytes) : res :=
  let s := utf8_lossy v in
  if negb (contains xn_prefix s) then ROk s
  else ROk (join_with dot (map decode_part (split_on dot s))).
