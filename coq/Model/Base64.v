(* encode_base64 / decode_base64 (src/stdlib/{encode,decode}_base64.rs; crate base64-simd 0.8.0,
   src/stdlib/util.rs Base64Charset).

   encode_base64(value, padding, charset): RFC 4648 encoding with the `standard` or `url_safe` alphabet,
     with or without '=' padding (base64_simd::{STANDARD, STANDARD_NO_PAD, URL_SAFE, URL_SAFE_NO_PAD}).
   decode_base64(value, charset): strips *every* trailing '=' (value[0..pos], pos = one past the last byte
     that is not '='; when every byte is '=' nothing is stripped: `rev().position(..)` is None and
     `map_or(value.len(), ..)` keeps the whole value, which then fails to decode), then decodes with the NO_PAD engine of the alphabet: length mod 4 = 1 is an error,
     every byte must be in the alphabet, and the unused low bits of the last sextet must be zero
     (base64-simd decode_extra with forgiving = false).
   An unknown charset string is a runtime error in both ("unknown charset").
   Definitions only. *)
From Coq Require Import List NArith Bool.
From VRL Require Import Base.Bytes Model.Base16.
Import ListNotations.
Local Open Scope N_scope.

(* sextet -> character (STANDARD_CHARSET / URL_SAFE_CHARSET) *)
Definition b64_char (url : bool) (s : N) : N :=
  if s <? 26 then 65 + s                (* A-Z *)
  else if s <? 52 then 71 + s           (* a-z : 97 + (s-26) *)
  else if s <? 62 then s - 4            (* 0-9 : 48 + (s-52) *)
  else if s =? 62 then (if url then 45 else 43)     (* '-' / '+' *)
  else (if url then 95 else 47).                    (* '_' / '/' *)

(* character -> sextet (decode_table; 0xff = not in the alphabet) *)
Definition b64_val (url : bool) (c : N) : option N :=
  if (65 <=? c) && (c <=? 90) then Some (c - 65)
  else if (97 <=? c) && (c <=? 122) then Some (c - 71)
  else if (48 <=? c) && (c <=? 57) then Some (c + 4)
  else if c =? (if url then 45 else 43) then Some 62
  else if c =? (if url then 95 else 47) then Some 63
  else None.

Definition pad1 (pad : bool) : bytes := if pad then [61] else [].
Definition pad2 (pad : bool) : bytes := if pad then [61; 61] else [].

Fixpoint b64_encode (url pad : bool) (b : bytes) : bytes :=
  match b with
  | [] => []
  | [x] => b64_char url (x / 4) :: b64_char url ((x mod 4) * 16) :: pad2 pad
  | [x; y] => b64_char url (x / 4) :: b64_char url ((x mod 4) * 16 + y / 16)
              :: b64_char url ((y mod 16) * 4) :: pad1 pad
  | x :: y :: z :: r =>
      b64_char url (x / 4) :: b64_char url ((x mod 4) * 16 + y / 16)
      :: b64_char url ((y mod 16) * 4 + z / 64) :: b64_char url (z mod 64) :: b64_encode url pad r
  end.

Definition is_nil {A} (l : list A) : bool := match l with [] => true | _ => false end.

(* value[0..pos]: drop the maximal all-'=' suffix *)
Fixpoint strip_eq (s : bytes) : bytes :=
  match s with
  | [] => []
  | c :: r => let r' := strip_eq r in if (c =? 61) && is_nil r' then [] else c :: r'
  end.

Definition all_eq (s : bytes) : bool := forallb (fun c => c =? 61) s.
(* value[0..pos] with pos = map_or(value.len(), ..) *)
Definition strip_trailing (v : bytes) : bytes := if all_eq v then v else strip_eq v.

(* the NO_PAD engine *)
Fixpoint b64_decode_nopad (url : bool) (s : bytes) : option bytes :=
  match s with
  | [] => Some []
  | [_] => None                                                         (* n % 4 == 1 *)
  | [a; b] =>
      match b64_val url a, b64_val url b with
      | Some p, Some q => if q mod 16 =? 0 then Some [p * 4 + q / 16] else None
      | _, _ => None
      end
  | [a; b; c] =>
      match b64_val url a, b64_val url b, b64_val url c with
      | Some p, Some q, Some r =>
          if r mod 4 =? 0 then Some [p * 4 + q / 16; (q mod 16) * 16 + r / 4] else None
      | _, _, _ => None
      end
  | a :: b :: c :: d :: rest =>
      match b64_val url a, b64_val url b, b64_val url c, b64_val url d, b64_decode_nopad url rest with
      | Some p, Some q, Some r, Some t, Some out =>
          Some (p * 4 + q / 16 :: (q mod 16) * 16 + r / 4 :: (r mod 4) * 64 + t :: out)
      | _, _, _, _, _ => None
      end
  end.

(* Base64Charset::from_slice *)
Definition cs_standard : bytes := [115; 116; 97; 110; 100; 97; 114; 100].          (* "standard" *)
Definition cs_url_safe : bytes := [117; 114; 108; 95; 115; 97; 102; 101].          (* "url_safe" *)
Definition charset_of (name : bytes) : option bool :=
  if bytes_eqb name cs_standard then Some false
  else if bytes_eqb name cs_url_safe then Some true
  else None.

Definition encode_base64 (pad : bool) (charset : bytes) (v : bytes) : res :=
  match charset_of charset with
  | Some url => ROk (b64_encode url pad v)
  | None => RErr
  end.

Definition decode_base64 (charset : bytes) (v : bytes) : res :=
  match charset_of charset with
  | Some url => of_option (b64_decode_nopad url (strip_trailing v))
  | None => RErr
  end.
