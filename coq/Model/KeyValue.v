(* C24 — model of the key-value / logfmt encoder and parser.  Definitions only.

   Text is a list of Unicode scalar values (`str := list N`, one element per Rust `char`): every
   special character of the code is ASCII, `satisfy` / `take(1)` / `chars()` / `trim` / `is_whitespace`
   work per `char`, and `tag` / `str::find` / `ends_with` on valid UTF-8 coincide with their code-point
   versions (UTF-8 is prefix-free and self-synchronising).  The byte <-> code-point conversion
   (String::from_utf8_lossy on the way in, UTF-8 on the way out) is applied in Corr/C24.v with the
   definitions of Model/CodecUtf8.v, so that the correspondence is byte for byte.

   Encoder  = src/core/encode_key_value.rs  (to_string / encode_field / encode_string) for a flat object of
              strings, `fields_order = []` (stdlib default); encode_logfmt.rs = the "=" / " " instance
              (flatten_boolean only concerns boolean values).  A BTreeMap is its key-sorted entry list.
   Parser   = src/stdlib/parse_key_value.rs, the nom 8 combinators re-expressed as recursive descent:
              a parser is a function  str -> option (result * rest)  (None = nom::Err::Error; no
              combinator used here produces Failure: many_m_n is only called with min <= max).
              parse_logfmt.rs = the "=" / " " / lenient / standalone-key instance. *)
From Coq Require Import List NArith Bool.
From VRL Require Import Base.Bytes.
Import ListNotations.
Local Open Scope N_scope.

Definition str := bytes.

(* ---------------------------------------------------------------- characters *)
Definition c_tab : N := 9.   Definition c_nl : N := 10.   Definition c_cr : N := 13.
Definition c_sp : N := 32.   Definition c_dq : N := 34.   Definition c_sq : N := 39.
Definition c_eq : N := 61.   Definition c_bs : N := 92.   Definition c_n : N := 110.

(* char::is_whitespace: the Unicode White_Space property *)
Definition is_ws (c : N) : bool :=
  ((9 <=? c) && (c <=? 13)) || (c =? 32) || (c =? 133) || (c =? 160) || (c =? 5760)
  || ((8192 <=? c) && (c <=? 8202)) || (c =? 8232) || (c =? 8233) || (c =? 8239) || (c =? 8287)
  || (c =? 12288).

(* nom `space0`: spaces and tabs *)
Definition is_sptab (c : N) : bool := (c =? c_sp) || (c =? c_tab).

(* equality and the BTreeMap key order: Base/Bytes.v (lexicographic on the elements; UTF-8 preserves
   code-point order, so this is the order of KeyString) *)
Notation str_eqb := bytes_eqb.
Notation str_cmp := bytes_cmp.

Definition is_nil {A} (l : list A) : bool := match l with [] => true | _ => false end.

(* ---------------------------------------------------------------- encoder *)
(* encode_string: needs_quoting = any char is whitespace, a double quote or '=' *)
Definition needs_quoting (s : str) : bool :=
  existsb (fun c => is_ws c || (c =? c_dq) || (c =? c_eq)) s.

Definition esc_char (c : N) : str :=
  if c =? c_bs then [c_bs; c_bs]                 (* backslash => two backslashes *)
  else if c =? c_dq then [c_bs; c_dq]            (* double quote => backslash, double quote *)
  else if c =? c_nl then [c_bs; c_bs; c_n]       (* newline => backslash, backslash, n (the raw string has three characters) *)
  else [c].

Definition escape_body (s : str) : str := flat_map esc_char s.

Definition encode_string (s : str) : str :=
  if needs_quoting s then c_dq :: escape_body s ++ [c_dq] else escape_body s.

Definition encode_field (kvd : str) (k v : str) : str :=
  encode_string k ++ kvd ++ encode_string v.

Fixpoint ends_with (s suf : str) : bool :=
  if str_eqb s suf then true
  else match s with [] => false | _ :: r => ends_with r suf end.

(* the second loop of to_string (fields_order is empty) followed by the truncation of one trailing
   field delimiter *)
Definition encode_fields (kvd fd : str) (o : list (str * str)) : str :=
  flat_map (fun kv => encode_field kvd (fst kv) (snd kv) ++ fd) o.

Definition to_string (kvd fd : str) (o : list (str * str)) : str :=
  let out := encode_fields kvd fd o in
  if ends_with out fd then firstn (length out - length fd) out else out.

Definition encode_logfmt (o : list (str * str)) : str := to_string [c_eq] [c_sp] o.

(* ---------------------------------------------------------------- parser: primitives *)
(* tag(p) *)
Fixpoint strip_prefix (p s : str) : option str :=
  match p with
  | [] => Some s
  | x :: p' => match s with
               | y :: s' => if x =? y then strip_prefix p' s' else None
               | [] => None
               end
  end.

(* space0 *)
Fixpoint space0 (s : str) : str :=
  match s with
  | c :: r => if is_sptab c then space0 r else s
  | [] => []
  end.

(* many0(tag(" ")) *)
Fixpoint many_sp (s : str) : str :=
  match s with
  | c :: r => if c =? c_sp then many_sp r else s
  | [] => []
  end.

(* str::trim *)
Fixpoint trim_start (s : str) : str :=
  match s with
  | c :: r => if is_ws c then trim_start r else s
  | [] => []
  end.
Definition trim_end (s : str) : str := rev (trim_start (rev s)).
Definition trim (s : str) : str := trim_end (trim_start s).

(* take_until(pat): the text before the first occurrence of pat; Error when there is none *)
Fixpoint take_until (pat s : str) : option (str * str) :=
  match strip_prefix pat s with
  | Some _ => Some ([], s)
  | None =>
      match s with
      | [] => None
      | c :: r => match take_until pat r with
                  | Some (a, b) => Some (c :: a, b)
                  | None => None
                  end
      end
  end.

(* str::contains(pat) *)
Definition contains (pat s : str) : bool :=
  match take_until pat s with Some _ => true | None => false end.

(* parse_field_delimiter: " " => many1(tag(" ")); otherwise many0(tag(" ")) then tag(fd) *)
Definition parse_field_delimiter (fd : str) (s : str) : option str :=
  if str_eqb fd [c_sp] then
    match s with
    | c :: r => if c =? c_sp then Some (many_sp r) else None
    | [] => None
    end
  else strip_prefix fd (many_sp s).

(* ---------------------------------------------------------------- parser: quoted strings *)
(* nom::bytes::complete::escaped(satisfy(c != '\\' && c != delim), '\\', take(1)):
   the loop of Escaped::process.  Result = (consumed text, rest). *)
Fixpoint esc_go (delim : N) (i : str) : option (str * str) :=
  match i with
  | [] => Some ([], [])                                  (* whole input consumed *)
  | c :: t =>
      if negb (c =? c_bs) && negb (c =? delim) then      (* `normal` succeeded on one char *)
        match esc_go delim t with Some (a, b) => Some (c :: a, b) | None => None end
      else if c =? c_bs then                             (* control char *)
        match t with
        | [] => None                                     (* next >= input_len: ErrorKind::Escaped *)
        | d :: t' =>                                     (* escapable = take(1): any one char *)
            match esc_go delim t' with Some (a, b) => Some (c :: d :: a, b) | None => None end
        end
      else Some ([], i)                                  (* the delimiter: stop here *)
  end.

Definition escaped (delim : N) (input : str) : option (str * str) :=
  match esc_go delim input with
  | Some ([], r) => if is_nil input then Some ([], []) else None      (* index == 0 => ErrorKind::Escaped *)
  | x => x
  end.

(* escape_str / escape_char *)
Fixpoint unescape (s : str) : str :=
  match s with
  | [] => []
  | c :: r =>
      if c =? c_bs then
        match r with
        | d :: r' =>
            if d =? c_n then c_nl :: unescape r'
            else if d =? c_bs then c_bs :: unescape r'
            else if d =? c_dq then c_dq :: unescape r'
            else c :: unescape r
        | [] => [c]
        end
      else c :: unescape r
  end.

Definition escape_str (s : str) : str :=
  if existsb (fun c => c =? c_bs) s then unescape s else s.

(* parse_delimited(delim, field_terminator) *)
Definition parse_delimited (delim : N) (term : str) (s : str) : option (str * str) :=
  match s with
  | c :: r =>
      if c =? delim then
        (* map(opt(escaped(..)), |inner| inner.map_or("", escape_str)) *)
        let '(inner, r1) := match escaped delim r with
                            | Some (a, b) => (escape_str a, b)
                            | None => ([], r)
                            end in
        match r1 with
        | d :: r2 =>
            if d =? delim then
              (* peek(alt((parse_field_delimiter(term), preceded(space0, eof)))) *)
              match parse_field_delimiter term r2 with
              | Some _ => Some (inner, r2)
              | None => if is_nil (space0 r2) then Some (inner, r2) else None
              end
            else None
        | [] => None
        end
      else None
  | [] => None
  end.

(* parse_undelimited(fd): alt((take_until(fd), rest)) then trim; never fails *)
Definition parse_undelimited (fd : str) (s : str) : str * str :=
  match take_until fd s with
  | Some (a, b) => (trim a, b)
  | None => (trim s, [])
  end.

(* parse_value(fd) *)
Definition parse_value (fd : str) (s : str) : str * str :=
  match parse_delimited c_sq fd s with
  | Some x => x
  | None => match parse_delimited c_dq fd s with
            | Some x => x
            | None => parse_undelimited fd s
            end
  end.

(* parse_key *)
Definition first_some {A} (a b : option A) : option A := match a with Some _ => a | None => b end.

Definition parse_key (kvd fd : str) (standalone : bool) (s : str) : option (str * str) :=
  let r :=
    if standalone then
      first_some (parse_delimited c_sq kvd s)
      (first_some (parse_delimited c_sq fd s)
      (first_some (parse_delimited c_dq kvd s)
      (first_some (parse_delimited c_dq fd s)
      (let '(k, r) := parse_undelimited kvd s in
       if negb (is_nil k) && negb (contains fd k) then Some (k, r)
       else Some (parse_undelimited fd s)))))
    else
      first_some (parse_delimited c_sq kvd s)
      (first_some (parse_delimited c_dq kvd s)
      (Some (parse_undelimited kvd s))) in
  match r with
  | Some (k, rest) => if is_nil k then None else Some (k, rest)      (* verify(.., !key.is_empty()) *)
  | None => None
  end.

Inductive wsmode := Strict | Lenient.
Inductive pval := PStr (s : str) | PTrue | PArr (l : list str).

(* parse_key_value_ : one `key<kvd>value` / `key<kvd>` / standalone `key` *)
Definition parse_sep (kvd : str) (ws : wsmode) (s : str) : option str :=
  match ws with
  | Strict => strip_prefix kvd s
  | Lenient => match strip_prefix kvd (space0 s) with Some r => Some (space0 r) | None => None end
  end.

Definition parse_kv (kvd fd : str) (ws : wsmode) (standalone : bool) (s : str) : option ((str * pval) * str) :=
  match parse_key kvd fd standalone (space0 s) with
  | None => None
  | Some (k, r1) =>
      (* many_m_n(usize::from(!standalone), 1, sep) *)
      let seps := match parse_sep kvd ws r1 with
                  | Some r2 => if Nat.eqb (length r2) (length r1) then None      (* infinite-loop check *)
                               else Some (true, r2)
                  | None => if standalone then Some (false, r1) else None
                  end in
      match seps with
      | None => None
      | Some (has_sep, r2) =>
          let '(v, r3) := parse_value fd r2 in
          Some ((k, if has_sep then PStr v else PTrue), r3)
      end
  end.

(* separated_list1(parse_field_delimiter(fd), parse_kv): the loop after the first element *)
Inductive loopres := LDone (rest : str) (acc : list (str * pval)) | LErr | LFuel.

Fixpoint sep_loop (kvd fd : str) (ws : wsmode) (standalone : bool) (fuel : nat) (i : str)
         (acc : list (str * pval)) : loopres :=
  match fuel with
  | O => LFuel
  | S f =>
      match parse_field_delimiter fd i with
      | None => LDone i acc
      | Some i1 =>
          match parse_kv kvd fd ws standalone i1 with
          | None => LDone i acc
          | Some (o, i2) =>
              if Nat.eqb (length i2) (length i) then LErr            (* ErrorKind::SeparatedList *)
              else sep_loop kvd fd ws standalone f i2 (acc ++ [o])
          end
      end
  end.

Definition parse_line (kvd fd : str) (ws : wsmode) (standalone : bool) (s : str) : loopres :=
  match parse_kv kvd fd ws standalone s with
  | None => LErr
  | Some (o, i1) => sep_loop kvd fd ws standalone (S (length s)) i1 [o]
  end.

(* ---------------------------------------------------------------- parser: building the object *)
Definition merge_val (existing new : pval) : pval :=
  match new with
  | PTrue => existing                                   (* "We are done" *)
  | PStr v =>
      match existing with
      | PTrue => new
      | PArr l => PArr (l ++ [v])
      | PStr e => PArr [e; v]
      end
  | PArr _ => existing                                  (* the parser never produces arrays *)
  end.

Fixpoint map_insert (k : str) (v : pval) (m : list (str * pval)) : list (str * pval) :=
  match m with
  | [] => [(k, v)]
  | (k', v') :: r =>
      match str_cmp k k' with
      | Lt => (k, v) :: m
      | Eq => (k', merge_val v' v) :: r
      | Gt => (k', v') :: map_insert k v r
      end
  end.

Definition build_map (l : list (str * pval)) : list (str * pval) :=
  fold_left (fun m kv => map_insert (fst kv) (snd kv) m) l [].

Inductive presult := POk (o : list (str * pval)) | PErr | PFuel.

(* parse + the grouping loop of parse_key_value *)
Definition parse_key_value (kvd fd : str) (ws : wsmode) (standalone : bool) (s : str) : presult :=
  match parse_line kvd fd ws standalone s with
  | LDone rest l => if is_nil (trim rest) then POk (build_map l) else PErr
  | LErr => PErr
  | LFuel => PFuel
  end.

Definition parse_logfmt (s : str) : presult := parse_key_value [c_eq] [c_sp] Lenient true s.

(* ---------------------------------------------------------------- the classes of the theorems *)
Definition has (c : N) (s : str) : bool := existsb (fun x => x =? c) s.
Definition head_is (c : N) (s : str) : bool := match s with x :: _ => x =? c | [] => false end.
Definition has_head_of (d s : str) : bool := match d with c :: _ => has c s | [] => false end.

(* delimiters the round trip can work with at all *)
Definition good_delims (kvd fd : str) : bool :=
  match kvd, fd with
  | k :: _, f :: _ => negb (is_sptab k) && (str_eqb fd [c_sp] || negb (f =? c_sp))
  | _, _ => false
  end.

(* the known defect classes (notes/C24.md); `unq s` = encode_string leaves s unquoted *)
Definition unq (s : str) : bool := negb (needs_quoting s).
Definition known_backslash (o : list (str * str)) : bool :=
  existsb (fun kv => (unq (fst kv) && has c_bs (fst kv)) || (unq (snd kv) && has c_bs (snd kv))) o.
Definition known_newline (o : list (str * str)) : bool :=
  existsb (fun kv => has c_nl (fst kv) || has c_nl (snd kv)) o.
Definition known_squote (o : list (str * str)) : bool :=
  existsb (fun kv => (unq (fst kv) && head_is c_sq (fst kv)) || (unq (snd kv) && head_is c_sq (snd kv))) o.
Definition known_delim (kvd fd : str) (o : list (str * str)) : bool :=
  existsb (fun kv => (unq (fst kv) && (has_head_of kvd (fst kv) || has_head_of fd (fst kv)))
                     || (unq (snd kv) && has_head_of fd (snd kv))) o.

Definition kv_safe (kvd fd : str) (o : list (str * str)) : bool :=
  negb (known_backslash o) && negb (known_newline o) && negb (known_squote o) && negb (known_delim kvd fd o).

Definition nonempty_strings (o : list (str * str)) : bool :=
  forallb (fun kv => negb (is_nil (fst kv)) && negb (is_nil (snd kv))) o.

Fixpoint sorted_keys (o : list (str * str)) : bool :=
  match o with
  | [] => true
  | (k, _) :: r =>
      match r with
      | [] => true
      | (k', _) :: _ => match str_cmp k k' with Lt => sorted_keys r | _ => false end
      end
  end.

Definition as_parsed (o : list (str * str)) : list (str * pval) := map (fun kv => (fst kv, PStr (snd kv))) o.
