(* Byte strings as lists of N (each element < 256 when well-formed).
   Lexicographic order = Rust's Ord on [u8] / str (BTreeMap<KeyString,_> iteration order). *)
From Coq Require Import List NArith ZArith Bool Lia.
Import ListNotations.

Definition bytes := list N.

Fixpoint bytes_eqb (a b : bytes) : bool :=
  match a, b with
  | [], [] => true
  | x :: a', y :: b' => N.eqb x y && bytes_eqb a' b'
  | _, _ => false
  end.

Fixpoint bytes_cmp (a b : bytes) : comparison :=
  match a, b with
  | [], [] => Eq
  | [], _ :: _ => Lt
  | _ :: _, [] => Gt
  | x :: a', y :: b' =>
      match N.compare x y with
      | Eq => bytes_cmp a' b'
      | c => c
      end
  end.

Definition bytes_ltb (a b : bytes) : bool :=
  match bytes_cmp a b with Lt => true | _ => false end.

Definition wf_bytes (b : bytes) : bool := forallb (fun x => N.ltb x 256) b.

Lemma bytes_eqb_eq a b : bytes_eqb a b = true <-> a = b.
Proof.
  revert b; induction a as [|x a IH]; intros [|y b]; cbn; try (split; congruence).
  rewrite andb_true_iff, N.eqb_eq, IH. split; [intros [-> ->]; reflexivity | intros H; inversion H; auto].
Qed.

Lemma bytes_eqb_refl a : bytes_eqb a a = true.
Proof. apply bytes_eqb_eq; reflexivity. Qed.

Lemma bytes_eqb_neq a b : bytes_eqb a b = false <-> a <> b.
Proof.
  split.
  - intros H E. apply bytes_eqb_eq in E. congruence.
  - intros H. destruct (bytes_eqb a b) eqn:E; [apply bytes_eqb_eq in E; contradiction | reflexivity].
Qed.

Lemma bytes_eqb_sym a b : bytes_eqb a b = bytes_eqb b a.
Proof.
  destruct (bytes_eqb a b) eqn:E.
  - apply bytes_eqb_eq in E; subst; symmetry; apply bytes_eqb_refl.
  - symmetry; apply bytes_eqb_neq; apply bytes_eqb_neq in E; congruence.
Qed.

Lemma bytes_cmp_eq a b : bytes_cmp a b = Eq <-> a = b.
Proof.
  revert b; induction a as [|x a IH]; intros [|y b]; cbn; try (split; congruence).
  destruct (N.compare_spec x y) as [E|L|G].
  - subst. rewrite IH. split; [intros ->; reflexivity | intros H; inversion H; auto].
  - split; [discriminate | intros H; inversion H; lia].
  - split; [discriminate | intros H; inversion H; lia].
Qed.

Lemma bytes_cmp_refl a : bytes_cmp a a = Eq.
Proof. apply bytes_cmp_eq; reflexivity. Qed.

Lemma bytes_cmp_antisym a b : bytes_cmp b a = CompOpp (bytes_cmp a b).
Proof.
  revert b; induction a as [|x a IH]; intros [|y b]; cbn; auto.
  rewrite (N.compare_antisym x y). destruct (N.compare x y); cbn; auto.
Qed.

Lemma bytes_cmp_lt_trans a b c :
  bytes_cmp a b = Lt -> bytes_cmp b c = Lt -> bytes_cmp a c = Lt.
Proof.
  revert b c; induction a as [|x a IH]; intros [|y b] [|z c]; cbn; try congruence.
  destruct (N.compare_spec x y) as [E|L|G]; try discriminate.
  - subst y. destruct (N.compare_spec x z); try discriminate; auto. intros; eapply IH; eauto.
  - intros _. destruct (N.compare_spec y z) as [E|L'|G]; try discriminate.
    + subst. intros _. destruct (N.compare_spec x z); try lia; auto.
    + intros _. destruct (N.compare_spec x z); try lia; auto.
Qed.

(* exactly one of <, =, > *)
Lemma bytes_cmp_trichotomy a b :
  (bytes_cmp a b = Lt /\ a <> b /\ bytes_cmp b a = Gt) \/
  (bytes_cmp a b = Eq /\ a = b) \/
  (bytes_cmp a b = Gt /\ a <> b /\ bytes_cmp b a = Lt).
Proof.
  rewrite (bytes_cmp_antisym a b).
  destruct (bytes_cmp a b) eqn:E; cbn.
  - right; left; split; auto. apply bytes_cmp_eq; auto.
  - left; repeat split; auto. intros H; apply bytes_cmp_eq in H; congruence.
  - right; right; repeat split; auto. intros H; apply bytes_cmp_eq in H; congruence.
Qed.
