(* Literal helpers for harness-written case files: hex strings -> bytes, IEEE-754 bits <-> spec_float. *)
From Coq Require Import List NArith ZArith Bool String Ascii Lia.
From Coq Require Import Floats.SpecFloat.
From VRL Require Import Base.Bytes.
Import ListNotations.

Definition hexval (c : ascii) : N :=
  let n := N_of_ascii c in
  if (48 <=? n)%N && (n <=? 57)%N then n - 48
  else if (97 <=? n)%N && (n <=? 102)%N then n - 87
  else if (65 <=? n)%N && (n <=? 70)%N then n - 55
  else 0.

Fixpoint hx (s : string) : bytes :=
  match s with
  | String a (String b r) => (hexval a * 16 + hexval b)%N :: hx r
  | _ => []
  end.

(* binary64 *)
Definition prec := 53%Z.
Definition emax := 1024%Z.

Definition f64_of_bits (bits : Z) : spec_float :=
  let s := Z.testbit bits 63 in
  let e := Z.land (Z.shiftr bits 52) 2047 in
  let m := Z.land bits (2^52 - 1) in
  if (e =? 0)%Z then
    match m with
    | Zpos p => S754_finite s p (-1074)
    | _ => S754_zero s
    end
  else if (e =? 2047)%Z then
    (if (m =? 0)%Z then S754_infinity s else S754_nan)
  else
    match (m + 2^52)%Z with
    | Zpos p => S754_finite s p (e - 1075)
    | _ => S754_nan
    end.

Definition f64_to_bits (f : spec_float) : Z :=
  let sb (s : bool) := if s then (2^63)%Z else 0%Z in
  match f with
  | S754_zero s => sb s
  | S754_infinity s => (sb s + 2047 * 2^52)%Z
  | S754_nan => (2047 * 2^52 + 2^51)%Z
  | S754_finite s m e =>
      if (Zpos m <? 2^52)%Z then (sb s + Zpos m)%Z
      else (sb s + (e + 1075) * 2^52 + (Zpos m - 2^52))%Z
  end.

Fixpoint mismatches_from {A} (f : A -> bool) (l : list A) (i : N) : list N :=
  match l with
  | [] => []
  | x :: r => if f x then mismatches_from f r (i + 1)%N else i :: mismatches_from f r (i + 1)%N
  end.
Definition mismatches {A} (f : A -> bool) (l : list A) : list N := mismatches_from f l 0%N.
