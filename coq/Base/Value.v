(* VRL values (src/value/value.rs `enum Value`) and the BTreeMap / Vec primitives the
   implementation uses on them.  Objects are association lists kept sorted by key bytes
   (BTreeMap<KeyString,_> order); none of the laws proved about them needs sortedness. *)
From Coq Require Import List NArith ZArith Bool Lia.
From Coq Require Import Floats.SpecFloat.
From VRL Require Import Base.Bytes.
Import ListNotations.

Inductive value :=
| VBytes (b : bytes)
| VRegex (src : bytes)
| VInt (z : Z)
| VFloat (f : spec_float)
| VBool (b : bool)
| VTs (ns : Z)                         (* nanoseconds since the epoch, UTC *)
| VObj (kvs : list (bytes * value))
| VArr (vs : list value)
| VNull.

Section value_ind_nested.
  Variable P : value -> Prop.
  Hypothesis Hbytes : forall b, P (VBytes b).
  Hypothesis Hregex : forall b, P (VRegex b).
  Hypothesis Hint : forall z, P (VInt z).
  Hypothesis Hfloat : forall f, P (VFloat f).
  Hypothesis Hbool : forall b, P (VBool b).
  Hypothesis Hts : forall n, P (VTs n).
  Hypothesis Hobj : forall kvs, Forall (fun kv => P (snd kv)) kvs -> P (VObj kvs).
  Hypothesis Harr : forall vs, Forall P vs -> P (VArr vs).
  Hypothesis Hnull : P VNull.

  Fixpoint value_ind' (v : value) : P v :=
    match v with
    | VBytes b => Hbytes b
    | VRegex b => Hregex b
    | VInt z => Hint z
    | VFloat f => Hfloat f
    | VBool b => Hbool b
    | VTs n => Hts n
    | VObj kvs =>
        Hobj kvs ((fix go (l : list (bytes * value)) : Forall (fun kv => P (snd kv)) l :=
                     match l with
                     | [] => Forall_nil _
                     | kv :: l' => Forall_cons kv (value_ind' (snd kv)) (go l')
                     end) kvs)
    | VArr vs =>
        Harr vs ((fix go (l : list value) : Forall P l :=
                    match l with
                    | [] => Forall_nil _
                    | x :: l' => Forall_cons x (value_ind' x) (go l')
                    end) vs)
    | VNull => Hnull
    end.
End value_ind_nested.

(* ---------- structural equality ---------- *)

Definition sf_eqb (a b : spec_float) : bool :=
  match a, b with
  | S754_zero s, S754_zero t => Bool.eqb s t
  | S754_infinity s, S754_infinity t => Bool.eqb s t
  | S754_nan, S754_nan => true
  | S754_finite s m e, S754_finite t n f => Bool.eqb s t && Pos.eqb m n && Z.eqb e f
  | _, _ => false
  end.

Lemma sf_eqb_eq a b : sf_eqb a b = true <-> a = b.
Proof.
  destruct a, b; cbn; try (split; congruence).
  - rewrite Bool.eqb_true_iff. split; congruence.
  - rewrite Bool.eqb_true_iff. split; congruence.
  - rewrite !andb_true_iff, Bool.eqb_true_iff, Pos.eqb_eq, Z.eqb_eq.
    split; [intros [[-> ->] ->]; reflexivity | intros H; inversion H; auto].
Qed.

Fixpoint value_eqb (a b : value) {struct a} : bool :=
  match a, b with
  | VBytes x, VBytes y => bytes_eqb x y
  | VRegex x, VRegex y => bytes_eqb x y
  | VInt x, VInt y => Z.eqb x y
  | VFloat x, VFloat y => sf_eqb x y
  | VBool x, VBool y => Bool.eqb x y
  | VTs x, VTs y => Z.eqb x y
  | VObj x, VObj y =>
      (fix go (l1 l2 : list (bytes * value)) {struct l1} : bool :=
         match l1, l2 with
         | [], [] => true
         | (k1, v1) :: r1, (k2, v2) :: r2 => bytes_eqb k1 k2 && value_eqb v1 v2 && go r1 r2
         | _, _ => false
         end) x y
  | VArr x, VArr y =>
      (fix go (l1 l2 : list value) {struct l1} : bool :=
         match l1, l2 with
         | [], [] => true
         | v1 :: r1, v2 :: r2 => value_eqb v1 v2 && go r1 r2
         | _, _ => false
         end) x y
  | VNull, VNull => true
  | _, _ => false
  end.

Lemma value_eqb_eq a : forall b, value_eqb a b = true <-> a = b.
Proof.
  induction a using value_ind'; intros [ ]; cbn; try (split; congruence).
  - rewrite bytes_eqb_eq; split; congruence.
  - rewrite bytes_eqb_eq; split; congruence.
  - rewrite Z.eqb_eq; split; congruence.
  - rewrite sf_eqb_eq; split; congruence.
  - rewrite Bool.eqb_true_iff; split; congruence.
  - rewrite Z.eqb_eq; split; congruence.
  - rename kvs0 into l2. revert l2.
    induction H as [|[k1 v1] r1 Hv Hr IH]; intros [|[k2 v2] r2]; try (split; congruence).
    rewrite !andb_true_iff, bytes_eqb_eq. cbn in Hv. rewrite Hv.
    specialize (IH r2). split.
    + intros [[-> ->] Hgo]. apply IH in Hgo. congruence.
    + intros E. inversion E; subst. repeat split; auto. apply IH. reflexivity.
  - rename vs0 into l2. revert l2.
    induction H as [|v1 r1 Hv Hr IH]; intros [|v2 r2]; try (split; congruence).
    rewrite !andb_true_iff, Hv. specialize (IH r2). split.
    + intros [-> Hgo]. apply IH in Hgo. congruence.
    + intros E. inversion E; subst. split; auto. apply IH. reflexivity.
Qed.

Lemma value_eqb_refl a : value_eqb a a = true.
Proof. apply value_eqb_eq; reflexivity. Qed.

(* ---------- BTreeMap<KeyString, Value> ---------- *)

Definition obj := list (bytes * value).

Fixpoint obj_get (m : obj) (k : bytes) : option value :=
  match m with
  | [] => None
  | (k', v) :: m' => if bytes_eqb k' k then Some v else obj_get m' k
  end.

(* BTreeMap::insert: replace in place, or insert at the sorted position *)
Fixpoint obj_set (m : obj) (k : bytes) (x : value) : obj :=
  match m with
  | [] => [(k, x)]
  | (k', v) :: m' =>
      match bytes_cmp k' k with
      | Lt => (k', v) :: obj_set m' k x
      | Eq => (k, x) :: m'
      | Gt => (k, x) :: (k', v) :: m'
      end
  end.

(* BTreeMap::remove (first occurrence; keys are unique in a sorted map) *)
Fixpoint obj_remove (m : obj) (k : bytes) : obj :=
  match m with
  | [] => []
  | (k', v) :: m' => if bytes_eqb k' k then m' else (k', v) :: obj_remove m' k
  end.

Fixpoint obj_sorted (m : obj) : bool :=
  match m with
  | [] => true
  | (k, _) :: m' =>
      match m' with
      | [] => true
      | (k', _) :: _ => bytes_ltb k k' && obj_sorted m'
      end
  end.

Definition obj_keys (m : obj) : list bytes := map fst m.

(* ---------- Vec<Value> ---------- *)

(* crud/mod.rs `array_index` *)
Definition arr_index (len : nat) (i : Z) : option nat :=
  if (0 <=? i)%Z then Some (Z.to_nat i)
  else let j := (Z.of_nat len + i)%Z in
       if (0 <=? j)%Z then Some (Z.to_nat j) else None.

Definition arr_get (a : list value) (i : Z) : option value :=
  match arr_index (length a) i with
  | Some n => nth_error a n
  | None => None
  end.

Fixpoint list_set {A} (l : list A) (n : nat) (x : A) : list A :=
  match l, n with
  | [], _ => []
  | _ :: l', O => x :: l'
  | y :: l', S n' => y :: list_set l' n' x
  end.

Fixpoint list_remove_nth {A} (l : list A) (n : nat) : list A :=
  match l, n with
  | [], _ => []
  | _ :: l', O => l'
  | y :: l', S n' => y :: list_remove_nth l' n'
  end.

(* `impl ValueCollection for Vec<Value>` insert_value: pad with nulls at the end for a
   non-negative index past the end, at the front for a negative index before the front *)
Definition arr_set (a : list value) (i : Z) (x : value) : list value :=
  let len := length a in
  if (0 <=? i)%Z then
    let n := Z.to_nat i in
    if Nat.leb len n then a ++ repeat VNull (n - len) ++ [x]
    else list_set a n x
  else
    let req := Z.to_nat (- i) in
    if Nat.ltb len req then x :: repeat VNull (req - 1 - len) ++ a
    else list_set a (len - req) x.

Definition arr_remove (a : list value) (i : Z) : option (value * list value) :=
  match arr_index (length a) i with
  | Some n => match nth_error a n with
              | Some x => Some (x, list_remove_nth a n)
              | None => None
              end
  | None => None
  end.

(* is_empty_collection, on a value that is a container *)
Definition is_empty_coll (v : value) : bool :=
  match v with
  | VObj [] => true
  | VArr [] => true
  | _ => false
  end.

(* ---------- paths ---------- *)
Inductive seg := SField (k : bytes) | SIndex (i : Z).
Definition path := list seg.

Definition seg_eqb (a b : seg) : bool :=
  match a, b with
  | SField x, SField y => bytes_eqb x y
  | SIndex x, SIndex y => Z.eqb x y
  | _, _ => false
  end.

Lemma seg_eqb_eq a b : seg_eqb a b = true <-> a = b.
Proof.
  destruct a, b; cbn; try (split; congruence).
  - rewrite bytes_eqb_eq; split; congruence.
  - rewrite Z.eqb_eq; split; congruence.
Qed.
