(* Correspondence glue shared by C01, C02, C12: a typed Core-VRL program case carries the program, the
   external kinds it was compiled against, the inputs, what Runtime::resolve did (as Corr/Core.v), the
   compiler's own type information (Program::final_type_info) and the harness's Rust-side membership
   verdicts.
   `tcheck`: the model reproduces the run and the type information (the tie to the code). *)
From Coq Require Import List NArith ZArith Bool.
From VRL Require Import Base.Bytes Base.Value Base.Lit Model.ValueCrud Model.Kind Model.KindCrud Model.Expr Model.Eval
  Model.EvalInst Model.TypeInfo Model.TypeInfoInst Model.TypeDomains Corr.Core.
Import ListNotations.

Record tcase := mkTCase {
  t_prog : list expr; t_ek : kind; t_mk : kind; t_ev : value; t_md : value; t_names : list ident;
  t_out : iout; t_nan : bool;        (* the run's outcome; t_nan: it failed with the NaN error of float arithmetic *)
  t_rev : value; t_rmd : value; t_rvars : list (option value);
  t_via_return : bool;
  t_fallible : bool;                 (* Program::info().fallible || abortable *)
  (* final_type_info *)
  t_kind : kind; t_tfal : bool; t_ret : kind; t_tgt : kind; t_mdk : kind;
  (* Rust-side membership: result, final event, final metadata, inputs *)
  t_mres : option bool; t_mev : bool; t_mmd : bool; t_min_ev : bool; t_min_md : bool }.

Definition model_run (c : tcase) := run_typed (t_prog c) (mkState [] (t_ev c) (t_md c) [] []).
Definition model_types (c : tcase) := program_type_info_inst (t_prog c) (ts0 (t_ek c) (t_mk c)).

(* the kind a successful result is judged against: a value position reads "missing" as null *)
Definition result_kind (c : tcase) : kind :=
  upgrade_undefined (if t_via_return c then t_ret c else t_kind c).

Definition run_check (c : tcase) : bool :=
  let '(o, s) := model_run c in
  out_sim o (t_out c) && vsim (ev s) (t_rev c) && vsim (md s) (t_rmd c)
  && all2 osim (map (var_get (vars s)) (t_names c)) (t_rvars c).

Definition types_check (c : tcase) : bool :=
  let '(s, r) := model_types c in
  kind_same (td_kind r) (t_kind c) && Bool.eqb (td_fal r) (t_tfal c) && kind_same (td_ret r) (t_ret c)
  && kind_same (tgt s) (t_tgt c) && kind_same (mdk s) (t_mdk c).

Definition member_check (c : tcase) : bool :=
  Bool.eqb (member (t_rev c) (t_tgt c)) (t_mev c) && Bool.eqb (member (t_rmd c) (t_mdk c)) (t_mmd c)
  && Bool.eqb (member (t_ev c) (t_ek c)) (t_min_ev c) && Bool.eqb (member (t_md c) (t_mk c)) (t_min_md c)
  && match t_out c, t_mres c with
     | ISuccess v, Some b => Bool.eqb (member v (result_kind c)) b
     | ISuccess _, None => false
     | _, _ => true
     end.

Definition tcheck (c : tcase) : bool := run_check c && types_check c && member_check c.

(* the inputs conform to the external kinds the program was compiled against *)
Definition conforms (c : tcase) : bool := member (t_ev c) (t_ek c) && member (t_md c) (t_mk c).

(* C01 judged on the implementation's outputs alone *)
Definition sound_run (c : tcase) : bool :=
  match t_out c with
  | ISuccess v => member v (result_kind c) && member (t_rev c) (t_tgt c) && member (t_rmd c) (t_mdk c)
  | _ => true
  end.

(* C02 judged on the implementation's outputs alone: a program the compiler reports as neither fallible
   nor abortable ends successfully (except for the NaN error) *)
Definition never_fails (c : tcase) : bool :=
  t_fallible c || match t_out c with ISuccess _ => true | IFailed => t_nan c | _ => false end.

Definition tmodel_out (c : tcase) :=
  let '(o, s) := model_run c in
  let '(ts, r) := model_types c in
  (o, ev s, md s, map (var_get (vars s)) (t_names c), (td_fal r, norm (td_kind r), norm (td_ret r), norm (tgt ts), norm (mdk ts))).

(* the known class of the first construct of the program that belongs to one (0 = none) *)
Definition treason (c : tcase) : N := program_reason binop_inst T_inst (t_prog c) (ts0 (t_ek c) (t_mk c)).
