(* Correspondence glue for C26.  The descriptor pools are Gallina terms rendered from what the harness dumps
   from the bundled .desc files (so they are prost-reflect's own reading of them); a case names its pool and
   message type.
   `check`  : the model's encode_proto produces the implementation's wire bytes (a message with a map of two
              or more entries: same length and same decoding, since HashMap iteration order is arbitrary), and the
              model's parse_proto on the implementation's bytes gives the implementation's value; error classes agree.
   `oracle` : the property on the implementation's outputs alone: for a message-shaped value
              parse_proto(encode_proto(v)) = strip_defaults(v); otherwise no panic. *)
From Coq Require Import String.
From Coq Require Import List NArith ZArith Bool Arith.
From VRL Require Import Base.Bytes Base.Value Base.Lit Model.Proto Model.ProtoGlue Proofs.ProtoShapedProofs.
Import ListNotations.

Inductive ires := IOk (b : bytes) | IErr | IPanic.
Inductive vres := VOk (v : value) | VErr | VPanic | VNone.

Inductive case :=
| CRt (P : pool) (ty : nat) (lossy : bool) (unordered : bool) (gen_shaped : bool) (v : value) (enc : ires) (dec : vres)
| CDec (P : pool) (ty : nat) (b : bytes) (dec : vres)
| CPool (P : pool).       (* the structural conditions the theorems assume of a descriptor pool *)

Definition vres_agrees (m : pres value) (i : vres) : bool :=
  match m, i with
  | POk x, VOk y => value_eqb x y
  | PErr, VErr => true
  | PUnmodelled, _ => true
  | _, _ => false
  end.

Definition pres_value_eqb (a b : pres value) : bool :=
  match a, b with
  | POk x, POk y => value_eqb x y
  | _, _ => false
  end.

(* same bytes up to order (fallback for reordered map entries whose message does not parse back, e.g. an enum number
   without a name) *)
Definition count_byte (x : N) (b : bytes) : nat := length (filter (N.eqb x) b).
Definition same_multiset (a b : bytes) : bool :=
  forallb (fun i => let x := N.of_nat i in Nat.eqb (count_byte x a) (count_byte x b)) (seq 0 256).

Definition both_err (a b : pres value) : bool :=
  match a, b with PErr, PErr => true | _, _ => false end.

Definition check (c : case) : bool :=
  match c with
  | CRt P ty lossy unordered _ v enc dec =>
      let d := get_msg P ty in
      match encode_proto P lossy d v with
      | PUnmodelled => true
      | PErr => match enc, dec with IErr, VNone => true | _, _ => false end
      | POk mb =>
          match enc with
          | IOk ib =>
              (bytes_eqb mb ib
               || (unordered && Nat.eqb (length mb) (length ib)
                   && (pres_value_eqb (parse_proto P d mb) (parse_proto P d ib)
                       || (both_err (parse_proto P d mb) (parse_proto P d ib) && same_multiset mb ib))))
              && vres_agrees (parse_proto P d ib) dec
          | _ => false
          end
      end
  | CDec P ty b dec => vres_agrees (parse_proto P (get_msg P ty) b) dec
  | CPool P => pool_okb P
  end.

Definition oracle (c : case) : bool :=
  match c with
  | CRt P ty lossy unordered gen_shaped v enc dec =>
      let d := get_msg P ty in
      if shaped P d v
      then match dec with VOk y => value_eqb y (strip_defaults P d v) | _ => false end
      else negb gen_shaped        (* a value the generator built as message-shaped must be `shaped` *)
           && match enc, dec with IPanic, _ | _, VPanic => false | _, _ => true end
  | CDec _ _ _ dec => match dec with VPanic => false | _ => true end
  | CPool _ => true
  end.

(* what the model says, for replay files: (encoding, its parse, shaped?, strip_defaults) *)
Definition model_out (c : case) :=
  match c with
  | CRt P ty lossy _ _ v enc dec =>
      let d := get_msg P ty in
      let e := encode_proto P lossy d v in
      (e, match enc with IOk ib => parse_proto P d ib | _ => PErr end, shaped P d v, strip_defaults P d v)
  | CDec P ty b dec => (POk b, parse_proto P (get_msg P ty) b, false, VNull)
  | CPool P => (PErr, PErr, pool_okb P, VNull)
  end.
