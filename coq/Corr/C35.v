(* Correspondence glue for C35.  A case is one conversion name and one text, converted under several default
   timezones.  Each run carries what the implementation answered (Conversion::parse, Conversion::convert) and the raw
   results of the chrono calls the conversion code is built on, made on the same text (`obs`): the model's abstract
   chrono functions are instantiated with these tables, so that `check` ties everything the VRL code adds -- the name
   table, trimming, the '|' split, format_has_zone, the dispatch, parse_bool, the integer / float text parsers, the
   order of the auto-detection lists, the unix-seconds branch, datetime_to_utc and its panic -- to the implementation.
   `oracle` is the property's own law on the implementation's answers alone: where a round trip is expected the answer
   is the value the text was rendered from; a format with an explicit zone gives the same answer under every default
   timezone; nothing panics. *)
From Coq Require Import String.
From Coq Require Import List NArith ZArith Bool.
From VRL Require Import Base.Bytes Base.Value Base.Lit Model.ConvRes Model.TsText Model.Conversion.
Import ListNotations.
Local Open Scope Z_scope.

Inductive ptag :=
| TUnknown | TBytes | TInteger | TFloat | TBoolean | TTimestamp
| TTsFmt (fmt : bytes) | TTsTzFmt (fmt : bytes).

Inductive ires := IOk (v : value) | IErr (e : cerr) | IPanic | INone.

Record obs := mkObs {
  o_local : list (bytes * option dt);      (* format -> parse + to_datetime_with_timezone(tz of the run) *)
  o_zoned : list (bytes * option dt);      (* format -> DateTime::parse_from_str *)
  o_3339 : option dt;
  o_2822 : option dt }.

Record run := mkRun {
  r_parse : ptag;
  r_res : ires;
  r_obs : obs;
  r_rt : bool }.       (* a round trip is expected under this run's timezone *)

(* canon = Some ns: the text is DateTime::<Utc>::to_rfc3339() of the timestamp ns *)
Inductive case := Case (name text : bytes) (runs : list run) (expect : option value) (zoned : bool) (canon : option Z).

Fixpoint lookup (fmt : bytes) (l : list (bytes * option dt)) : option dt :=
  match l with
  | [] => None
  | (f, r) :: l' => if bytes_eqb f fmt then r else lookup fmt l'
  end.

(* the model's chrono functions, read off the run's observations (the text is the case's text) *)
Definition m_parse (name : bytes) : option (conversion unit) := parse_conv unit name tt.

Definition m_convert (o : obs) (c : conversion unit) (text : bytes) : cres :=
  convert unit (fun _ _ fmt => lookup fmt (o_local o)) (fun _ fmt => lookup fmt (o_zoned o))
          (fun _ => o_3339 o) (fun _ => o_2822 o) c text.

Definition tag_of (c : option (conversion unit)) : ptag :=
  match c with
  | None => TUnknown
  | Some CBytes => TBytes
  | Some CInteger => TInteger
  | Some CFloat => TFloat
  | Some CBoolean => TBoolean
  | Some (CTimestamp _) => TTimestamp
  | Some (CTimestampFmt f _) => TTsFmt f
  | Some (CTimestampTzFmt f) => TTsTzFmt f
  end.

Definition ptag_eqb (a b : ptag) : bool :=
  match a, b with
  | TUnknown, TUnknown | TBytes, TBytes | TInteger, TInteger | TFloat, TFloat | TBoolean, TBoolean
  | TTimestamp, TTimestamp => true
  | TTsFmt f, TTsFmt g => bytes_eqb f g
  | TTsTzFmt f, TTsTzFmt g => bytes_eqb f g
  | _, _ => false
  end.

Definition cerr_eqb (a b : cerr) : bool :=
  match a, b with
  | EcBool, EcBool | EcInt, EcInt | EcNan, EcNan | EcFloat, EcFloat | EcTs, EcTs | EcAuto, EcAuto => true
  | _, _ => false
  end.

Definition ires_eqb (a b : ires) : bool :=
  match a, b with
  | IOk v, IOk w => value_eqb v w
  | IErr e, IErr f => cerr_eqb e f
  | IPanic, IPanic => true
  | INone, INone => true
  | _, _ => false
  end.

Definition ires_of (c : option cres) : ires :=
  match c with
  | None => INone
  | Some (COk v) => IOk v
  | Some (CErr e) => IErr e
  | Some CPanic => IPanic
  end.

Definition model_run (name text : bytes) (r : run) : ptag * ires :=
  let c := m_parse name in
  (tag_of c, ires_of (option_map (fun c => m_convert (r_obs r) c text) c)).

Definition check (c : case) : bool :=
  match c with
  | Case name text runs _ _ canon =>
      forallb (fun r => let '(t, x) := model_run name text r in
                        ptag_eqb t (r_parse r) && ires_eqb x (r_res r)) runs
      (* the text model the RFC 3339 theorem is stated about is what chrono prints *)
      && match canon with Some ns => bytes_eqb text (format_layout LRfc3339 ns) | None => true end
  end.

(* the auto-detecting conversion on a text that no zone-less format accepted under any of the timezones tried *)
Definition auto_zoned (runs : list run) : bool :=
  forallb (fun r => ptag_eqb (r_parse r) TTimestamp
                    && forallb (fun p => match snd p with None => true | Some _ => false end) (o_local (r_obs r))) runs.

Definition oracle (c : case) : bool :=
  match c with
  | Case name text runs expect zoned _ =>
      forallb (fun r => negb (ires_eqb (r_res r) IPanic)) runs
      && match expect with
         | Some v => forallb (fun r => if r_rt r then ires_eqb (r_res r) (IOk v) else true) runs
         | None => true
         end
      && (if zoned || auto_zoned runs then
            match runs with
            | [] => true
            | r0 :: rest => forallb (fun r => ires_eqb (r_res r) (r_res r0)) rest
            end
          else true)
  end.

(* what the model says, for replay files *)
Definition model_out (c : case) : list (ptag * ires) :=
  match c with
  | Case name text runs _ _ _ => map (model_run name text) runs
  end.
