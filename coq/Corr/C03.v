(* Correspondence glue for C03 (modelled functions) and C05 (zip). *)
From Coq Require Import List NArith ZArith Bool String.
From VRL Require Import Base.Bytes Base.Value Base.Lit Model.Expr Model.EvalInst Model.StdSig Model.Fuel.
Import ListNotations.

Inductive case :=
| CCall (name : string) (v : value) (impl : option value)          (* impl: Some result | None = error *)
| CSig (name : string) (param ret : N)                            (* Function::parameters()[0].kind, return_kind() *)
| CZip (its : list (list value)) (impl : list (list value)).

Definition opt_eqb (a b : option value) : bool :=
  match a, b with Some x, Some y => value_eqb x y | None, None => true | _, _ => false end.

Definition check (c : case) : bool :=
  match c with
  | CCall name v impl => opt_eqb (F_inst (nm name) [v]) impl
  | CSig name param ret =>
      existsb (fun sg => String.eqb (s_name sg) name && N.eqb (s_param sg) param && N.eqb (s_return sg) ret) sigs
  | CZip its impl =>
      match zip_all (S (S (min_len its))) its with
      | Some r => value_eqb (VArr (map VArr r)) (VArr (map VArr impl))
      | None => false
      end
  end.

Definition model_out (c : case) :=
  match c with
  | CCall name v _ => F_inst (nm name) [v]
  | CSig _ _ _ => None
  | CZip its _ => match zip_all (S (S (min_len its))) its with Some r => Some (VArr (map VArr r)) | None => None end
  end.
