(* Correspondence glue for C19.  A case carries the inputs and everything the implementation
   answered (result kinds read back through the public accessors, result values, and the verdicts of
   the harness's own Rust membership function).
   `check`  : the model computes the same kinds / values / membership verdicts (the tie to the code);
   `oracle` : soundness of the type abstraction judged on the implementation's outputs alone, with the
              specification `member` of Model/Kind.v (the search leg). *)
From Coq Require Import List NArith ZArith Bool.
From VRL Require Import Base.Bytes Base.Value Base.Lit Model.ValueCrud Model.Kind Model.KindCrud Model.KindDomains.
Import ListNotations.

Inductive case :=
| CGet (k : kind) (v : value) (p : path) (at_ get_ : kind) (val : option value) (m_in m_out : bool)
| CInsert (k : kind) (v : value) (p : path) (kx : kind) (x : value) (k' : kind) (v' : value)
          (m_v m_x m_out : bool)
| CRemove (k : kind) (v : value) (p : path) (cpt : bool) (k' rk : kind) (v' : value)
          (removed : option value) (m_v m_out : bool)
| CUnion (a b : kind) (v : value) (u : kind) (m_a m_b m_out : bool)
| CMerge (a b : kind) (ow : bool) (va vb : value) (m : kind) (m_a m_b m_out_a m_out_b : bool)
         (merged : option value)
| CSuperset (a b : kind) (v : value) (res m_a m_b : bool).

Definition opt_eqb (a b : option value) : bool :=
  match a, b with
  | Some x, Some y => value_eqb x y
  | None, None => true
  | _, _ => false
  end.

(* the `|` operator on two objects: right-biased shallow merge *)
Definition vmerge (va vb : value) : option value :=
  match va, vb with
  | VObj x, VObj y => Some (VObj (fold_left (fun acc kv => obj_set acc (fst kv) (snd kv)) y x))
  | _, _ => None
  end.

(* what a read that upgrades "missing" to null may report *)
Definition member_upgraded (o : option value) (k : kind) : bool :=
  match o with Some w => member w k | None => p_null (prims_of k) || is_never k end.

Definition check (c : case) : bool :=
  match c with
  | CGet k v p at_ get_ val m_in m_out =>
      kind_same (at_path k p) at_ && kind_same (kget k p) get_ && opt_eqb (get v p) val
      && Bool.eqb (member v k) m_in && Bool.eqb (member_opt val at_) m_out
  | CInsert k v p kx x k' v' m_v m_x m_out =>
      kind_same (kinsert k p kx) k' && value_eqb (insert v p x) v'
      && Bool.eqb (member v k) m_v && Bool.eqb (member x kx) m_x && Bool.eqb (member v' k') m_out
  | CRemove k v p cpt k' rk v' removed m_v m_out =>
      let '(k1, rk1, panicked) := kremove k p cpt in
      let '(r0, v0) := remove v p cpt in
      negb panicked && kind_same k1 k' && kind_same rk1 rk && value_eqb v0 v' && opt_eqb r0 removed
      && Bool.eqb (member v k) m_v && Bool.eqb (member v' k') m_out
  | CUnion a b v u m_a m_b m_out =>
      kind_same (union a b) u
      && Bool.eqb (member v a) m_a && Bool.eqb (member v b) m_b && Bool.eqb (member v u) m_out
  | CMerge a b ow va vb m m_a m_b m_out_a m_out_b merged =>
      kind_same (merge a b (if ow then Overwrite else Union)) m
      && Bool.eqb (member va a) m_a && Bool.eqb (member vb b) m_b
      && Bool.eqb (member va m) m_out_a && Bool.eqb (member vb m) m_out_b
      && opt_eqb (vmerge va vb) merged
  | CSuperset a b v res m_a m_b =>
      Bool.eqb (is_superset a b) res && Bool.eqb (member v a) m_a && Bool.eqb (member v b) m_b
  end.

Definition oracle (c : case) : bool :=
  match c with
  | CGet k v p at_ get_ val _ _ =>
      implb (member v k) (member_opt val at_ && member_upgraded val get_)
  | CInsert k v p kx x k' v' _ _ _ =>
      implb (member v k && member x kx) (member v' k')
  | CRemove k v p cpt k' rk v' removed _ _ =>
      implb (member v k) (member v' k' && member_upgraded removed rk)
  | CUnion a b v u _ _ _ =>
      implb (member v a || member v b) (member v u)
  | CMerge a b ow va vb m _ _ _ _ merged =>
      if ow then
        match merged with
        | Some w => implb (member va a && member vb b) (member w m)
        | None => true
        end
      else implb (member va a) (member va m) && implb (member vb b) (member vb m)
  | CSuperset a b v res _ _ =>
      implb (res && member v b) (member v a)
  end.

(* what the model says, for replay files *)
Definition model_out (c : case) : list kind * bool :=
  match c with
  | CGet k v p _ _ _ _ _ => ([at_path k p; kget k p], member v k)
  | CInsert k v p kx x _ _ _ _ _ => ([kinsert k p kx], member v k && member x kx)
  | CRemove k v p cpt _ _ _ _ _ _ => let '(k1, rk1, pk) := kremove k p cpt in ([k1; rk1], pk)
  | CUnion a b v _ _ _ _ => ([union a b], member v a || member v b)
  | CMerge a b ow _ _ _ _ _ _ _ _ => ([merge a b (if ow then Overwrite else Union)], ow)
  | CSuperset a b v _ _ _ => ([], is_superset a b)
  end.

(* the hypotheses under which Properties/C19.v proves each operation sound; `domain_ok` says: inside
   that domain the implementation's own outputs are sound (ties the theorems' side conditions to the
   implementation: an input inside a proved domain on which the implementation is unsound would mean
   the model and the implementation differ) *)
Definition in_domain (c : case) : bool :=
  match c with
  | CGet k v p _ _ _ _ _ => get_ok k p
  | CInsert k v p kx x _ _ _ _ _ => ins_ok false k p && wf_value v
  | CRemove k v p cpt _ _ _ _ _ _ => remove_ok k p cpt && wf_value v
  | CUnion a b v _ _ _ _ => union_compat a b
  | CMerge a b ow _ _ _ _ _ _ _ _ => negb ow && union_compat a b
  | CSuperset a b v _ _ _ => no_exact_any a
  end.
Definition domain_ok (c : case) : bool := implb (in_domain c) (oracle c).

(* ---------- known finding classes (known_findings/C19.json) ----------
   `finding_class c` = 0 when c lies inside the domain on which Properties/C19.v proves the operation
   sound; otherwise the number of the known class the first failing side condition belongs to:
     1  an exact unknown that admits values meets a non-`any` infinite (json) unknown in a merge
     2  insert at a negative index below the front of an array of exactly known length
     3  insert coerces a slot that need not hold the container, while the kind's container has
        required (or non-null) known entries
     4  insert pads over an optional known element that does not admit null
     5  at_path with a negative index into an array with optional known elements
     6  is_superset with an exact unknown whose kind has every state
     7  remove of an array element with more than one known element behind it (remove_shift)
     8  remove inside a field / element that is not known: the modification is discarded
     9  remove with compaction through more than one segment
     10 remove with a negative index into an array of unknown length or with optional elements
     12 merge with CollisionStrategy::Overwrite
     13 insert at a negative index into an array with unknown elements
     14 insert at a negative index where the kind does not determine the array length
     99 outside the domain for a reason not listed (never expected) *)
Definition first_nz (a b : N) : N := if N.eqb a 0 then b else a.

Fixpoint ins_reason (fresh : bool) (k : kind) (p : path) {struct p} : N :=
  match p with
  | [] => 0
  | SField f :: p' =>
      let c := match obj_of k with Some c => c | None => coll_empty end in
      let cur := coll_at bytes_eqb c f in
      if fresh || negb (is_some (obj_of k)) then
        (if others_optional bytes_eqb c f then ins_reason true cur p' else 3)
      else if negb (is_exact k || others_optional bytes_eqb c f) then 3
      else first_nz (ins_reason false cur p')
                    (if is_exact k && negb (p_undefined (prims_of cur)) then 0 else ins_reason true cur p')
  | SIndex i :: p' =>
      let c := match arr_of k with Some c => c | None => coll_empty end in
      if (i <? 0)%Z then
        if contains_any_defined (unknown_kind c) then 13
        else if fresh || negb (is_exact k) || negb (is_some (arr_of k)) || negb (all_required c) || negb (all_defined c) then 14
        else if negb (Nat.leb (Z.to_nat (- i)) (known_len c)) then 2
        else ins_reason false (coll_at Nat.eqb c (known_len c - Z.to_nat (- i))) p'
      else
        let idx := Z.to_nat i in
        let cur := coll_at Nat.eqb c idx in
        if fresh || negb (is_some (arr_of k)) then
          (if idx_fresh_ok c idx then ins_reason true cur p' else 3)
        else if negb (idx_pad_ok c idx) then 4
        else if negb (is_exact k || idx_fresh_ok c idx) then 3
        else first_nz (ins_reason false cur p')
                      (if is_exact k && negb (p_undefined (prims_of cur)) then 0 else ins_reason true cur p')
  end.

Fixpoint get_reason (k : kind) (p : path) {struct p} : N :=
  if is_never k then 0 else
  match p with
  | [] => 0
  | s :: p' =>
      if seg_ok k s then get_reason (at_seg k s) p'
      else match s, arr_of k with
           | SIndex _, Some c => if all_required c then 1 else 5
           | _, _ => 99
           end
  end.

Fixpoint rm_reason (k : kind) (p : path) {struct p} : N :=
  if is_never k then 0 else
  match p with
  | [] => 0
  | SField f :: p' =>
      match obj_of k with
      | None => 0
      | Some c =>
          match p' with
          | [] => if maybe_ok_o c f then 0 else 1
          | _ :: _ =>
              match aget bytes_eqb (known c) f with
              | Some child => rm_reason child p'
              | None => if contains_any_defined (unknown_kind c) then 8 else 0
              end
          end
      end
  | SIndex i :: p' =>
      match arr_of k with
      | None => 0
      | Some c =>
          match rm_index c i with
          | None => 10
          | Some None => 0
          | Some (Some idx) =>
              match p' with
              | [] => if negb (shift_ok c idx) then 7 else if maybe_ok_a c idx then 0 else 1
              | _ :: _ =>
                  match aget Nat.eqb (known c) idx with
                  | Some child => rm_reason child p'
                  | None => if contains_any_defined (unknown_kind c) then 8 else 0
                  end
              end
          end
      end
  end.

Definition or99 (r : N) : N := if N.eqb r 0 then 99%N else r.

Definition finding_class (c : case) : N :=
  if in_domain c then 0 else
  match c with
  | CGet k v p _ _ _ _ _ => or99 (get_reason k p)
  | CInsert k v p kx x _ _ _ _ _ => if wf_value v then or99 (ins_reason false k p) else 99
  | CRemove k v p cpt _ _ _ _ _ _ =>
      if negb (wf_value v) then 99
      else if cpt && negb (Nat.leb (length p) 1) then 9 else or99 (rm_reason k p)
  | CUnion a b v _ _ _ _ => 1
  | CMerge a b ow _ _ _ _ _ _ _ _ => if ow then 12 else 1
  | CSuperset a b v _ _ _ => 6
  end.
