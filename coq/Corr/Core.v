(* Correspondence glue for the Core-VRL program family (C06-C09, C13, ...):
   the model's run of the program vs what Runtime::resolve did on the implementation. *)
From Coq Require Import List NArith ZArith Bool.
From VRL Require Import Base.Bytes Base.Value Base.Lit Model.ValueCrud Model.Expr Model.Eval Model.EvalInst Model.Info Model.CodecUtf8.
Import ListNotations.

(* equal, except that the model's opaque error-message token matches any string *)
Fixpoint vsim (m i : value) {struct m} : bool :=
  match m, i with
  | VBytes x, VBytes y => bytes_eqb x [0; 69; 82; 82; 0]%N || bytes_eqb x y
  | VObj a, VObj b =>
      (fix go (l1 l2 : list (bytes * value)) {struct l1} : bool :=
         match l1, l2 with
         | [], [] => true
         | (k1, v1) :: r1, (k2, v2) :: r2 => bytes_eqb k1 k2 && vsim v1 v2 && go r1 r2
         | _, _ => false
         end) a b
  | VArr a, VArr b =>
      (fix go (l1 l2 : list value) {struct l1} : bool :=
         match l1, l2 with
         | [], [] => true
         | v1 :: r1, v2 :: r2 => vsim v1 v2 && go r1 r2
         | _, _ => false
         end) a b
  | _, _ => value_eqb m i
  end.

Definition osim (m i : option value) : bool :=
  match m, i with Some a, Some b => vsim a b | None, None => true | _, _ => false end.

Inductive iout := ISuccess (v : value) | IAborted (m : option bytes) | IFailed | IPanicked.

Record ccase := mkCase {
  c_prog : list expr; c_ev : value; c_md : value; c_names : list ident; c_faults : list bool;
  c_out : iout; c_rev : value; c_rmd : value; c_rvars : list (option value);
  c_log : list top;       (* the Target operations the implementation performed, oldest first *)
  c_q : list (prefix * path);    (* Program::info().target_queries *)
  c_a : list (prefix * path) }.  (* Program::info().target_assignments *)

Definition pfx_eqb (a b : prefix) : bool :=
  match a, b with PEvent, PEvent | PMeta, PMeta => true | _, _ => false end.

Fixpoint path_eqb (p q : path) : bool :=
  match p, q with
  | [], [] => true
  | a :: p', b :: q' => seg_eqb a b && path_eqb p' q'
  | _, _ => false
  end.

Definition top_eqb (a b : top) : bool :=
  match a, b with
  | TGet x p, TGet y q => pfx_eqb x y && path_eqb p q
  | TIns x p, TIns y q => pfx_eqb x y && path_eqb p q
  | TRem x p c, TRem y q d => pfx_eqb x y && path_eqb p q && Bool.eqb c d
  | _, _ => false
  end.

Definition out_sim (m : outcome) (i : iout) : bool :=
  match m, i with
  | Success v, ISuccess w => vsim v w
  | Aborted a, IAborted b =>
      (* Abort::resolve keeps the message as a String made with String::from_utf8_lossy *)
      match a, b with Some x, Some y => bytes_eqb (utf8_lossy x) y | None, None => true | _, _ => false end
  | Failed, IFailed => true
  | Panicked, IPanicked => true
  | _, _ => false
  end.

Fixpoint all2 {A B} (f : A -> B -> bool) (l1 : list A) (l2 : list B) : bool :=
  match l1, l2 with
  | [], [] => true
  | a :: r1, b :: r2 => f a b && all2 f r1 r2
  | _, _ => false
  end.

Definition pp_eqb (a b : prefix * path) : bool := pfx_eqb (fst a) (fst b) && path_eqb (snd a) (snd b).
Definition subset (l1 l2 : list (prefix * path)) : bool := forallb (fun a => existsb (pp_eqb a) l2) l1.
Definition same_set l1 l2 := subset l1 l2 && subset l2 l1.

(* the model of the compiler's report agrees with Program::info() (as sets) *)
Definition info_check (c : ccase) : bool :=
  same_set (query_paths (c_prog c)) (c_q c) && same_set (assigns_l (c_prog c)) (c_a c).

Definition check (c : ccase) : bool :=
  let '(o, s) := run_inst (c_prog c) (mkState [] (c_ev c) (c_md c) [] (c_faults c)) in
  out_sim o (c_out c) && vsim (ev s) (c_rev c) && vsim (md s) (c_rmd c)
  && all2 osim (map (var_get (vars s)) (c_names c)) (c_rvars c)
  && all2 top_eqb (rev (tlog s)) (c_log c) && info_check c.

Definition model_out (c : ccase) :=
  let '(o, s) := run_inst (c_prog c) (mkState [] (c_ev c) (c_md c) [] (c_faults c)) in
  (o, ev s, md s, map (var_get (vars s)) (c_names c), rev (tlog s)).
