(* Correspondence glue for C02 on the typed Core-VRL program family (Corr/Typed.v). *)
From Coq Require Import List NArith ZArith Bool.
From VRL Require Import Base.Bytes Base.Value Base.Lit Model.ValueCrud Model.Kind Model.KindCrud Model.Expr Model.Eval
  Model.EvalInst Model.TypeInfo Model.TypeInfoInst Corr.Core Corr.Typed.
Import ListNotations.

Definition case := tcase.
Definition check (c : case) : bool := tcheck c.
Definition oracle (c : case) : bool := implb (conforms c) (never_fails c).
Definition model_out (c : case) := tmodel_out c.
Definition finding_class (c : case) : N := treason c.
Definition domain_ok (c : case) : bool := negb (N.eqb (treason c) 0) || oracle c.
