(* Correspondence glue for C25.  A case is one composition g(f(x)) of two stdlib calls (or a single call
   f(x) when g is absent) together with what the implementation answered at each step.
   `check`  : the Gallina models reproduce both answers of the implementation (the tie to the code; the
              second model call is made on the implementation's first answer, so the two halves are tied
              independently);
   `oracle` : the property's law — inside the pair's domain the second answer is the input again — judged
              on the implementation's answers alone (the search for a failing input). *)
From Coq Require Import String.
From Coq Require Import List NArith ZArith Bool.
From VRL Require Import Base.Bytes Base.Value Base.Lit Model.ConvRes Model.IntText Model.Ip Model.Entries
  Model.Flatten Model.UnixTs Model.TsText.
Import ListNotations.
Local Open Scope Z_scope.

Inductive fn :=
| FFormatInt (base : option value)
| FParseInt (base : option value)
| FAton | FNtoa | FPton | FNtop | FTo6 | FTo4
| FToEntries | FFromEntries
| FFlatten (sep : option value) (except : list bytes)
| FUnflatten (sep recursive : option value)
| FToUnix (u : tunit)
| FFromUnix (u : tunit)
| FFormatTs (fmt : value)
| FParseTs (fmt : value).

Inductive step := SOk (v : value) | SErr | SPanic | SNone.

Inductive case := Case (f : fn) (g : option fn) (x : value) (fwd back : step).

Definition step_of_res (r : res value) : step :=
  match r with
  | ROk v => SOk v
  | RErr => SErr
  | RPanic => SPanic
  | RFuel => SNone          (* the model did not terminate within its fuel: never equal to an implementation answer *)
  end.

Definition dot : value := VBytes [46%N].
Definition dflt (o : option value) (d : value) : value := match o with Some v => v | None => d end.

(* the models; None = this call is not modelled (no tie claimed) *)
Definition apply (f : fn) (x : value) : option step :=
  match f with
  | FFormatInt b => Some (step_of_res (format_int_opt x b))
  | FParseInt b => Some (step_of_res (parse_int x b))
  | FAton => Some (step_of_res (ip_aton x))
  | FNtoa => Some (step_of_res (ip_ntoa x))
  | FPton => Some (step_of_res (ip_pton x))
  | FNtop => Some (step_of_res (ip_ntop x))
  | FTo6 => Some (step_of_res (ip_to_ipv6 x))
  | FTo4 => Some (step_of_res (ipv6_to_ipv4 x))
  | FToEntries => Some (step_of_res (to_entries x))
  | FFromEntries => Some (step_of_res (from_entries x))
  | FFlatten sep except => Some (step_of_res (flatten x (dflt sep dot) except))
  | FUnflatten sep r => Some (step_of_res (unflatten x (dflt sep dot) (dflt r (VBool true))))
  | FToUnix u => Some (step_of_res (to_unix_timestamp x u))
  | FFromUnix u => Some (step_of_res (from_unix_timestamp x u))
  | FFormatTs fmt => option_map step_of_res (format_timestamp x fmt)
  | FParseTs fmt => option_map step_of_res (parse_timestamp x fmt)
  end.

Definition step_eqb (a b : step) : bool :=
  match a, b with
  | SOk x, SOk y => value_eqb x y
  | SErr, SErr => true
  | SPanic, SPanic => true
  | SNone, SNone => true
  | _, _ => false
  end.

Definition agrees (m : option step) (impl : step) : bool :=
  match m with Some s => step_eqb s impl | None => true end.

Definition check (c : case) : bool :=
  let '(Case f g x fwd back) := c in
  agrees (apply f x) fwd
  && match g, fwd with
     | Some g', SOk y => agrees (apply g' y) back
     | _, _ => step_eqb back SNone
     end.

(* ---------- the domains of the pairs, decided on the input ---------- *)

Definition opt_value_eqb (a b : option value) : bool :=
  match a, b with
  | Some x, Some y => value_eqb x y
  | None, None => true
  | _, _ => false
  end.

Definition valid_base (b : option value) : bool :=
  match b with
  | None => true
  | Some (VInt n) => (2 <=? n) && (n <=? 36)
  | _ => false
  end.

Fixpoint contains (sep s : bytes) : bool :=
  match strip_prefix sep s with
  | Some _ => true
  | None => match s with [] => false | _ :: s' => contains sep s' end
  end.

(* every object in the value is a BTreeMap image: keys strictly increasing (the JSON case encoding could spell
   something else; such a case is not an input of the property) *)
Fixpoint sorted_deep (v : value) {struct v} : bool :=
  match v with
  | VObj m =>
      obj_sorted m
      && (fix go (l : list (bytes * value)) : bool :=
            match l with
            | [] => true
            | (_, x) :: l' => sorted_deep x && go l'
            end) m
  | VArr a =>
      (fix go (l : list value) : bool :=
         match l with
         | [] => true
         | x :: l' => sorted_deep x && go l'
         end) a
  | _ => true
  end.

(* every key of the object and of the objects nested in it (not through arrays) is free of the separator, and
   no nested object is empty *)
Fixpoint flat_domain_val (sep : bytes) (v : value) {struct v} : bool :=
  match v with
  | VObj m =>
      negb (match m with [] => true | _ => false end)
      && (fix go (l : list (bytes * value)) : bool :=
            match l with
            | [] => true
            | (k, x) :: l' => negb (contains sep k) && flat_domain_val sep x && go l'
            end) m
  | _ => true
  end.
Definition flat_domain (sep : bytes) (m : obj) : bool :=
  sorted_deep (VObj m)
  && (fix go (l : list (bytes * value)) : bool :=
        match l with
        | [] => true
        | (k, x) :: l' => negb (contains sep k) && flat_domain_val sep x && go l'
        end) m.

(* the array is exactly what to_entries produces for an object with strictly increasing keys *)
Fixpoint canonical_entries (prev : option bytes) (a : list value) : bool :=
  match a with
  | [] => true
  | VObj [(k1, VBytes k); (k2, _)] :: r =>
      bytes_eqb k1 k_key && bytes_eqb k2 k_value
      && match prev with Some p => bytes_ltb p k | None => true end
      && canonical_entries (Some k) r
  | _ => false
  end.

Definition starts_with (p s : bytes) : bool :=
  match strip_prefix p s with Some _ => true | None => false end.

Definition mapped_prefix : bytes := ascii_bytes "::ffff:"%string.

Definition same_ts_args (a b : value) : bool := value_eqb a b.

(* what the second answer has to be, when the input lies in the pair's domain *)
Definition expected (f : fn) (g : fn) (x : value) (fwd : step) : option step :=
  match f, g with
  | FFormatInt b, FParseInt b' =>
      match x with
      | VInt z =>
          if in_i64 z && valid_base b
             && (opt_value_eqb b b'
                 || opt_value_eqb (Some (dflt b (VInt 10))) b')     (* default base 10 made explicit on the parse side *)
          then Some (SOk x) else None
      | _ => None
      end
  | FNtoa, FAton =>
      match x with
      | VInt n => if (0 <=? n) && (n <? 4294967296) then Some (SOk x) else None
      | _ => None
      end
  | FAton, FNtoa => match fwd with SOk _ => Some (SOk x) | _ => None end
  | FNtop, FPton =>
      match x with
      | VBytes b => if (Nat.eqb (length b) 4 || Nat.eqb (length b) 16) && wf_bytes b then Some (SOk x) else None
      | _ => None
      end
  | FPton, FNtop =>
      match fwd with
      | SOk (VBytes o) => if Nat.eqb (length o) 4 then Some (SOk x) else None
      | _ => None
      end
  | FTo6, FTo4 =>
      match x, fwd with
      | VBytes s, SOk _ => if contains [58%N] s then None else Some (SOk x)
      | _, _ => None
      end
  | FTo4, FTo6 =>
      match x, fwd with
      | VBytes s, SOk _ => if starts_with mapped_prefix s && contains [46%N] s then Some (SOk x) else None
      | _, _ => None
      end
  | FToEntries, FFromEntries => match x with VObj _ => if sorted_deep x then Some (SOk x) else None | _ => None end
  | FFromEntries, FToEntries =>
      match x with VArr a => if canonical_entries None a then Some (SOk x) else None | _ => None end
  | FFlatten sep [], FUnflatten sep' r =>
      match x, dflt sep dot, r with
      | VObj m, VBytes s, (None | Some (VBool _)) =>
          if opt_value_eqb sep sep' && flat_domain s m then Some (SOk x) else None
      | _, _, _ => None
      end
  | FToUnix u, FFromUnix u' =>
      match x, u, u' with
      | VTs ns, Seconds, Seconds | VTs ns, Milliseconds, Milliseconds | VTs ns, Microseconds, Microseconds =>
          Some (SOk (VTs (ns - ns mod unit_ns u)))
      | VTs ns, Nanoseconds, Nanoseconds => if in_i64 ns then Some (SOk x) else None
      | _, _, _ => None
      end
  | FFromUnix u, FToUnix u' =>
      match x, fwd with
      | VInt _, SOk _ =>
          match u, u' with
          | Seconds, Seconds | Milliseconds, Milliseconds | Microseconds, Microseconds | Nanoseconds, Nanoseconds => Some (SOk x)
          | _, _ => None
          end
      | _, _ => None
      end
  | FFormatTs fmt, FParseTs fmt' =>
      match x with
      | VTs _ => if same_ts_args fmt fmt' && full_precision fmt then Some (SOk x) else None
      | _ => None
      end
  | _, _ => None
  end.

Definition oracle (c : case) : bool :=
  let '(Case f g x fwd back) := c in
  match g with
  | Some g' => match expected f g' x fwd with
               | Some e => step_eqb back e
               | None => true
               end
  | None => true
  end.

(* what the model says, for replay files *)
Definition model_out (c : case) : option step * option step :=
  let '(Case f g x fwd back) := c in
  (apply f x,
   match g, fwd with
   | Some g', SOk y => apply g' y
   | _, _ => None
   end).
