(* Correspondence glue for C10.  One case = one operand pair (x, y) with the implementation's answers for the six
   comparison operators, obtained three ways (harness/src/bin/arith.rs): `direct` (trait methods on Values),
   `e2e` (compiled program `.a <op> .b` on an event; error class not observable, rendered as EType),
   `conv` (integer/float pairs only: direct again with the integer replaced by `i as f64` computed by the harness).
   `check`  : the model reproduces every answer (the tie to the code);
   `oracle` : the laws of C10 judged on the implementation's answers alone, against formulations that do not use
              the model's operators (Z comparisons, IEEE bit patterns, bytes_cmp, structural equality). *)
From Coq Require Import List NArith ZArith Bool.
From Coq Require Import Floats.SpecFloat.
From VRL Require Import Base.Bytes Base.Value Base.Lit Model.Arith.
Import ListNotations.
Local Open Scope Z_scope.

Record cmp6 := Cmp6 { r_eq : outcome; r_ne : outcome; r_lt : outcome; r_le : outcome; r_gt : outcome; r_ge : outcome }.

Inductive case := Case (x y : value) (direct e2e : cmp6) (conv : option cmp6).

Definition err_eqb (a b : err) : bool :=
  match a, b with EDivZero, EDivZero | ENan, ENan | EType, EType => true | _, _ => false end.

(* results are compared bit for bit (value_eqb is structural: +0 and -0 differ) *)
Definition outcome_eqb (a b : outcome) : bool :=
  match a, b with
  | Ok v, Ok w => value_eqb v w
  | Err e, Err f => err_eqb e f
  | _, _ => false
  end.

(* the same, ignoring which error it is *)
Definition outcome_eqb_nc (a b : outcome) : bool :=
  match a, b with
  | Ok v, Ok w => value_eqb v w
  | Err _, Err _ => true
  | _, _ => false
  end.

Definition model_table (x y : value) : cmp6 :=
  Cmp6 (binop OEq x y) (binop ONe x y) (binop OLt x y) (binop OLe x y) (binop OGt x y) (binop OGe x y).

Definition table_eqb (eqb : outcome -> outcome -> bool) (a b : cmp6) : bool :=
  eqb (r_eq a) (r_eq b) && eqb (r_ne a) (r_ne b) && eqb (r_lt a) (r_lt b) && eqb (r_le a) (r_le b)
  && eqb (r_gt a) (r_gt b) && eqb (r_ge a) (r_ge b).

Definition converted (v : value) : value :=
  match v with VInt a => VFloat (of_i64 a) | v => v end.

Definition check (c : case) : bool :=
  match c with
  | Case x y d e cv =>
      table_eqb outcome_eqb (model_table x y) d
      && table_eqb outcome_eqb_nc (model_table x y) e
      && match cv with
         | Some t => table_eqb outcome_eqb (model_table (converted x) (converted y)) t
         | None => true
         end
  end.

(* ---------- the property judged on the implementation's answers ---------- *)

Definition as_bool (o : outcome) : option bool :=
  match o with Ok (VBool b) => Some b | _ => None end.

Definition is_err (o : outcome) : bool := match o with Err _ => true | _ => false end.

(* total order key of a non-NaN binary64 from its bit pattern: sign-magnitude -> signed integer; the two zeros
   both map to 0 *)
Definition fkey (f : spec_float) : Z :=
  let b := f64_to_bits f in
  if b <? 2 ^ 63 then b else - (b - 2 ^ 63).

(* what <, ==, > should be for two operands of one comparable kind: Some (lt, eq, gt) *)
Definition expected_order (x y : value) : option (bool * bool * bool) :=
  match x, y with
  | VInt a, VInt b => Some (a <? b, a =? b, b <? a)
  | VFloat f, VFloat g => Some (fkey f <? fkey g, fkey f =? fkey g, fkey g <? fkey f)
  | VBytes s, VBytes t => Some (bytes_ltb s t, bytes_eqb s t, bytes_ltb t s)
  | VTs s, VTs t => Some (s <? t, s =? t, t <? s)
  | _, _ => None
  end.

Definition is_mixed (x y : value) : bool :=
  match x, y with VInt _, VFloat _ | VFloat _, VInt _ => true | _, _ => false end.

Definition opt_bool_eqb (a : option bool) (b : bool) : bool :=
  match a with Some x => Bool.eqb x b | None => false end.

(* laws on one table of answers *)
Definition laws (x y : value) (t : cmp6) : bool :=
  match as_bool (r_eq t), as_bool (r_ne t) with
  | Some eq, Some ne =>
      Bool.eqb ne (negb eq)                                           (* != is the negation of == *)
      && match expected_order x y with
         | Some (elt, eeq, egt) =>
             (* comparable pair: all four orderings answer, exactly one of <, ==, > holds, <= and >= agree,
                and each answer is the one the kind's order dictates (for integers: exact 64-bit equality) *)
             match as_bool (r_lt t), as_bool (r_le t), as_bool (r_gt t), as_bool (r_ge t) with
             | Some lt, Some le, Some gt, Some ge =>
                 exactly_one lt eq gt && Bool.eqb le (lt || eq) && Bool.eqb ge (gt || eq)
                 && Bool.eqb lt elt && Bool.eqb eq eeq && Bool.eqb gt egt
             | _, _, _, _ => false
             end
         | None =>
             if is_mixed x y then
               (* integer/float: consistent among themselves (judged against `conv` below) *)
               match as_bool (r_lt t), as_bool (r_le t), as_bool (r_gt t), as_bool (r_ge t) with
               | Some lt, Some le, Some gt, Some ge =>
                   exactly_one lt eq gt && Bool.eqb le (lt || eq) && Bool.eqb ge (gt || eq)
               | _, _, _, _ => false
               end
             else
               (* anything else: equality is structural (the two zeros identified), no ordering exists *)
               Bool.eqb eq (value_eqb (norm_zero x) (norm_zero y))
               && is_err (r_lt t) && is_err (r_le t) && is_err (r_gt t) && is_err (r_ge t)
         end
  | _, _ => false
  end.

Definition oracle (c : case) : bool :=
  match c with
  | Case x y d e cv =>
      laws x y d && laws x y e && table_eqb outcome_eqb_nc d e
      && match cv with
         | Some t => table_eqb outcome_eqb d t       (* mixed = the float comparison on the converted integer *)
         | None => negb (is_mixed x y)
         end
  end.

(* what the model says, for replay files *)
Definition model_out (c : case) : cmp6 :=
  match c with Case x y _ _ _ => model_table x y end.
