(* Correspondence glue for C20.  A case carries the inputs and the implementation's outputs.
   `check`  : the model reproduces every output of the implementation (the tie to the code);
   `oracle` : the property's own laws judged on the implementation's outputs alone (the search leg). *)
From Coq Require Import List NArith ZArith Bool.
From VRL Require Import Base.Bytes Base.Value Base.Lit Model.PathText Model.VrlPathLex.
Import ListNotations.

(* compact literal for a text in case files: `nb k 0xHEX` = the k bytes of the big-endian numeral
   (reading a hex numeral is much cheaper for coqc than a string literal; the run ships ~10^5 texts) *)
Fixpoint nbf (k : nat) (n : N) (acc : list N) : list N :=
  match k with
  | O => acc
  | S k' => nbf k' (N.div n 256) (N.modulo n 256 :: acc)
  end.
Definition nb (k : nat) (n : N) : text := nbf k n [].

(* Program::info().target_queries *)
Inductive cres := COk (l : list tpath) | CErr | CPanic.

Inductive case :=
(* String::from(&path) and parse_value_path of that text *)
| CRenderV (p : path) (txt : text) (re : pres path)
(* OwnedTargetPath::to_string() and parse_target_path of that text *)
| CRenderT (tp : tpath) (txt : text) (re : pres tpath)
(* parse_value_path / parse_target_path of a text; on Ok also the re-rendered text and its re-parse *)
| CParse (t : text) (v : pres path) (vr : option (text * pres path))
         (tg : pres tpath) (tgr : option (text * pres tpath))
(* the text as a VRL program: the single external query of the AST (if that is what it is), the compiled
   program's target_queries, and parse_target_path of the same text *)
| CVrl (t : text) (ast : option tpath) (comp : cres) (tg : pres tpath)
(* a whole block of texts at once: every text pre ++ w, w a word of exactly n symbols of alpha (first symbol
   major).  `loud` = the texts of the block, in that order, on which the implementation returned anything but
   errors (parse kind: parse_value_path or parse_target_path not Err; vrl kind: a path AST, parse_target_path
   not Err, or a compiler panic).  Those texts are also shipped as individual CParse / CVrl cases; this case
   carries the claim about all the others. *)
| CExhaust (vrl : bool) (pre : text) (alpha : list text) (n : nat) (loud : list text).

Definition rerender_ok {A} (eqb : A -> A -> bool) (rend : A -> text) (parse : text -> pres A)
           (v : pres A) (vr : option (text * pres A)) : bool :=
  match v, vr with
  | POk p, Some (txt, re) => bytes_eqb (rend p) txt && pres_eqb eqb (parse txt) re
  | POk _, None => false
  | _, None => true
  | _, Some _ => false
  end.

Definition is_err {A} (r : pres A) : bool := match r with PErr => true | _ => false end.

(* the model says: nothing but errors on t *)
Definition quiet (vrl : bool) (t : text) : bool :=
  if vrl then is_err (parse_target_path t)
              && (if vrl_modelled t then match vrl_path t with None => true | Some _ => false end else true)
  else is_err (parse_value_path t) && is_err (parse_target_path t).

Inductive wres := WOk (rest : list text) | WBad (t : text).

(* walks the block in order, consuming the implementation's list of loud texts; stops at the first text that
   the implementation left out of the list although the model is not quiet on it *)
Fixpoint ex_walk (vrl : bool) (alpha : list text) (n : nat) (pre : text) (loud : list text) : wres :=
  match n with
  | O => match loud with
         | o :: rest => if bytes_eqb o pre then WOk rest
                        else if quiet vrl pre then WOk loud else WBad pre
         | [] => if quiet vrl pre then WOk [] else WBad pre
         end
  | S k => (fix go (syms : list text) (loud : list text) : wres :=
              match syms with
              | [] => WOk loud
              | a :: syms' => match ex_walk vrl alpha k (pre ++ a) loud with
                              | WOk rest => go syms' rest
                              | bad => bad
                              end
              end) alpha loud
  end.

Definition check (c : case) : bool :=
  match c with
  | CRenderV p txt re => bytes_eqb (render p) txt && pres_eqb path_eqb (parse_value_path txt) re
  | CRenderT tp txt re => bytes_eqb (render_target tp) txt && pres_eqb tpath_eqb (parse_target_path txt) re
  | CParse t v vr tg tgr =>
      pres_eqb path_eqb (parse_value_path t) v
      && rerender_ok path_eqb render parse_value_path v vr
      && pres_eqb tpath_eqb (parse_target_path t) tg
      && rerender_ok tpath_eqb render_target parse_target_path tg tgr
  | CVrl t ast comp tg =>
      pres_eqb tpath_eqb (parse_target_path t) tg
      && (if vrl_modelled t then opt_tpath_eqb (vrl_path t) ast else true)
  | CExhaust vrl pre alpha n loud =>
      match ex_walk vrl alpha n pre loud with WOk [] => true | _ => false end
  end.

Definition is_panic {A} (r : pres A) : bool := match r with PPanic => true | _ => false end.

Definition normal_form {A} (eqb : A -> A -> bool) (v : pres A) (vr : option (text * pres A)) : bool :=
  match v, vr with
  | POk p, Some (_, re) => pres_eqb eqb re (POk p)       (* what was parsed renders to a text that parses to it *)
  | POk _, None => false
  | PPanic, _ => false
  | _, _ => true
  end.

Definition oracle (c : case) : bool :=
  match c with
  | CRenderV p _ re => pres_eqb path_eqb re (POk p)
  | CRenderT tp _ re => pres_eqb tpath_eqb re (POk tp)
  | CParse _ v vr tg tgr => normal_form path_eqb v vr && normal_form tpath_eqb tg tgr
  | CVrl _ ast comp tg =>
      negb (is_panic tg)
      && (match ast, tg with
          | Some a, POk b => tpath_eqb a b               (* both parsers accept: same location *)
          | _, _ => true
          end)
      && (match ast, comp with
          | Some a, COk [b] => tpath_eqb a b             (* the compiled program queries exactly that path *)
          | Some _, _ => false
          | None, CPanic => false
          | None, _ => true
          end)
  | CExhaust _ _ _ _ _ => true        (* errors everywhere satisfy the laws; the loud texts have their own cases *)
  end.

(* what the model says, for replay files *)
Inductive mout :=
| MRender (txt : text) (re : pres tpath)
| MParse (v : pres path) (tg : pres tpath)
| MVrl (modelled : bool) (ast : option tpath) (tg : pres tpath)
| MExhaust (w : wres).      (* WBad t: the first text on which the model is not quiet but the implementation is *)

Definition lift_value (r : pres path) : pres tpath :=
  match r with POk p => POk (Event, p) | PErr => PErr | PPanic => PPanic | PUnreachable => PUnreachable end.

Definition model_out (c : case) : mout :=
  match c with
  | CRenderV p _ _ => MRender (render p) (lift_value (parse_value_path (render p)))
  | CRenderT tp _ _ => MRender (render_target tp) (parse_target_path (render_target tp))
  | CParse t _ _ _ _ => MParse (parse_value_path t) (parse_target_path t)
  | CVrl t _ _ _ => MVrl (vrl_modelled t) (vrl_path t) (parse_target_path t)
  | CExhaust vrl pre alpha n loud => MExhaust (ex_walk vrl alpha n pre loud)
  end.
