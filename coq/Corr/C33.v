(* Correspondence glue for C33.  A case is a source text and everything the implementation reported for it: whether
   compilation panicked, every diagnostic (the errors, or the warnings of a successful compilation) with its labels
   (positions, and what str::is_char_boundary says about them) and whether Formatter rendered it (plain, colored).
   `check`  : the model's is_boundary agrees with str::is_char_boundary on every label position, and, for the
              assignment cases (the generator knows the target's position and path), the E642 labels are exactly the
              spans the model of verify_overwritable computes;
   `oracle` : the property on the implementation's outputs alone -- no panic, every label ordered, inside the text and
              on character boundaries, every rendering succeeded. *)
From Coq Require Import String.
From Coq Require Import List NArith Bool.
From VRL Require Import Base.Bytes Base.Lit Model.SpanArith.
Import ListNotations.
Local Open Scope N_scope.

Record label := mkLabel { l_start : N; l_end : N; l_primary : bool; l_sb : bool; l_eb : bool }.

Inductive rstat := RendOk | RendErr | RendPanic.

Record diag := mkDiag { d_code : N; d_labels : list label; d_plain : rstat; d_colored : rstat }.

Inductive cstat := CompOk | CompErr | CompPanic.

(* an assignment whose target the generator placed itself: the target's span and its path segments (kind + length of
   the segment's Display text, the latter computed by the implementation's own Display) *)
Record assign := mkAssign { a_target : span; a_segs : list seg }.

Inductive case :=
  Case (src : bytes) (comp : cstat) (diags : list diag) (all_plain all_colored : rstat) (asg : option assign).

Definition rstat_ok (r : rstat) : bool := match r with RendOk => true | _ => false end.

Definition span_eqb (a : span) (s e : N) : bool := (s_start a =? s) && (s_end a =? e).

Definition labels_match (ls : list label) (ss ps : span) : bool :=
  match ls with
  | [l1; l2] => l_primary l1 && span_eqb ss (l_start l1) (l_end l1)
                && negb (l_primary l2) && span_eqb ps (l_start l2) (l_end l2)
  | _ => false
  end.

Definition check (c : case) : bool :=
  match c with
  | Case src comp diags _ _ asg =>
      forallb (fun d => forallb (fun l => Bool.eqb (is_boundary src (l_start l)) (l_sb l)
                                          && Bool.eqb (is_boundary src (l_end l)) (l_eb l)) (d_labels d)) diags
      && match asg with
         | None => true
         | Some a =>
             match verify_overwritable_spans (a_segs a) [] (a_target a) with
             | Some (ss, ps) => existsb (fun d => (d_code d =? 642) && labels_match (d_labels d) ss ps) diags
             | None => false
             end
         end
  end.

Definition label_ok (len : N) (l : label) : bool :=
  (l_start l <=? l_end l) && (l_end l <=? len) && l_sb l && l_eb l.

Definition oracle (c : case) : bool :=
  match c with
  | Case src comp diags ap ac _ =>
      let len := N.of_nat (length src) in
      match comp with CompPanic => false | _ => true end
      && forallb (fun d => forallb (label_ok len) (d_labels d) && rstat_ok (d_plain d) && rstat_ok (d_colored d)) diags
      && rstat_ok ap && rstat_ok ac
  end.

(* what the model says, for replay files: the spans of the assignment case, and the boundary predicate on every label *)
Definition model_out (c : case) : option (span * span) * list (list (bool * bool)) :=
  match c with
  | Case src _ diags _ _ asg =>
      (match asg with Some a => verify_overwritable_spans (a_segs a) [] (a_target a) | None => None end,
       map (fun d => map (fun l => (is_boundary src (l_start l), is_boundary src (l_end l))) (d_labels d)) diags)
  end.
