(* Correspondence glue for C27.  A case carries one call of a digest / checksum function (function, how the
   variant argument was written, the values of `value` and `key`, the optional encode_base16/64 wrapper),
   what the implementation returned, and — for documented names — what the independent Python reference
   (hashlib / hmac / zlib / hand-written CRC, xxHash, SeaHash; props/C27_ref.py) says it must return.
   `check`  : the VRL-level model (Model/DigestGlue.v: argument checks, name dispatch, defaults, encodings, with
              the Gallina specifications in the crates' place) reproduces the implementation's result;
   `oracle` : the property itself, judged on the implementation's result alone: for a documented name (or
              the documented default) the result equals the Python opinion (and `encode (spec name input)`
              computed from the Gallina specification directly — no name normalisation involved — where
              Python has none). *)
From Coq Require Import List NArith ZArith Bool String.
From VRL Require Import Base.Bytes Base.Value Base.Lit Model.DigestWord Model.DigestMd5 Model.DigestSha1
     Model.DigestSha2 Model.DigestSha3 Model.Hmac Model.Crc Model.XxHash Model.Seahash Model.DigestGlue.
Import ListNotations.
Local Open Scope N_scope.

Inductive fn := FMd5 | FSha1 | FSha2 | FSha3 | FHmac | FCrc | FXxhash | FSeahash.

(* what the implementation did *)
Inductive ires := IOk (v : value) | IErr | IAbort | ICompile | IPanic.

Inductive case :=
| CCall (f : fn) (a : varg) (x key : value) (w : wrap) (out : ires) (py : option value)
| CDirect (f : fn) (agrees : bool).     (* long inputs: compared with the Python reference outside Coq *)

Definition model (f : fn) (a : varg) (x key : value) (w : wrap) : res :=
  wrap_res w
    match f with
    | FMd5 => vrl_md5 x
    | FSha1 => vrl_sha1 x
    | FSha2 => vrl_sha2 a x
    | FSha3 => vrl_sha3 a x
    | FHmac => vrl_hmac a x key
    | FCrc => vrl_crc a x
    | FXxhash => vrl_xxhash a x
    | FSeahash => vrl_seahash x
    end.

Definition res_sim (m : res) (i : ires) : bool :=
  match m, i with
  | ROk a, IOk b => value_eqb a b
  | RErr _, IErr => true
  | RCompile, ICompile => true
  | _, _ => false
  end.

Definition check (c : case) : bool :=
  match c with
  | CCall f a x key w out _ => res_sim (model f a x key w) out
  | CDirect _ _ => true
  end.

(* the documented name the call asks for, if it is spelled exactly as documented *)
Definition documented_name (dflt : string) (a : varg) : option bytes :=
  match a with
  | ADefault => Some (str dflt)
  | ALit n => Some n
  | ADyn (VBytes n) => Some n
  | ADyn _ => None
  end.

(* the value the published algorithm prescribes, as documented; None = the property says nothing *)
Definition prescribed (f : fn) (a : varg) (x key : value) : option value :=
  match x with
  | VBytes b =>
      match f with
      | FMd5 => Some (VBytes (hex (md5 b)))
      | FSha1 => Some (VBytes (hex (sha1 b)))
      | FSeahash => Some (VInt (to_i64 (seahash b)))
      | FSha2 =>
          match a with
          | ADyn _ => None
          | _ => match documented_name "SHA-512/256" a with
                 | Some n => option_map (fun v => VBytes (hex (sha2_spec v b))) (lookup sha2_name sha2_all n)
                 | None => None
                 end
          end
      | FSha3 =>
          match a with
          | ADyn _ => None
          | _ => match documented_name "SHA3-512" a with
                 | Some n => option_map (fun v => VBytes (hex (sha3_spec v b))) (lookup sha3_name sha3_all n)
                 | None => None
                 end
          end
      | FHmac =>
          match key, documented_name "SHA-256" a with
          | VBytes k, Some n => option_map (fun al => VBytes (hmac_spec al k b)) (lookup hmac_name hmac_all n)
          | _, _ => None
          end
      | FCrc =>
          match documented_name "CRC_32_ISO_HDLC" a with
          | Some n => option_map (fun e => VBytes (dec (crc_spec e b))) (crc_lookup n)
          | None => None
          end
      | FXxhash =>
          match documented_name "XXH32" a with
          | Some n => option_map (fun v => xxh_spec v b) (lookup xxh_name xxh_all n)
          | None => None
          end
      end
  | _ => None
  end.

Definition wrap_value (w : wrap) (v : value) : option value :=
  match w, v with
  | WRaw, _ => Some v
  | _, VBytes b => Some (VBytes (wrap_bytes w b))
  | _, _ => None
  end.

Definition is_ok_eq (i : ires) (v : value) : bool :=
  match i with IOk u => value_eqb u v | _ => false end.
Definition not_panic (i : ires) : bool := match i with IPanic => false | _ => true end.

(* The judge of the search leg is the Python reference (an implementation unrelated to both the crates and
   the Gallina text); when it has no opinion although the name is a documented one, the Gallina specification
   judges.  (`check` above already compares every result with the Gallina specification through the glue
   model; evaluating it a second time here would double the cost of the run for no new information.) *)
Definition oracle (c : case) : bool :=
  match c with
  | CCall f a x key w out py =>
      not_panic out
      && match py with
         | Some v => is_ok_eq out v
         | None =>
             match prescribed f a x key with
             | Some v => match wrap_value w v with Some u => is_ok_eq out u | None => true end
             | None => true
             end
         end
  | CDirect _ agrees => agrees
  end.

Definition model_out (c : case) :=
  match c with
  | CCall f a x key w out py => (Some (model f a x key w), prescribed f a x key)
  | CDirect _ _ => (None, None)
  end.
