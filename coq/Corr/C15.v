(* Correspondence glue for C15: the model of the compiler's read-only checks vs the real compiler. *)
From Coq Require Import List NArith ZArith Bool.
From VRL Require Import Base.Bytes Base.Value Base.Lit Model.Expr Model.Info Model.ReadOnly.
Import ListNotations.

Record rocase := mkRoCase { rc_cfg : list ro_path; rc_prog : list expr; rc_impl_accepts : bool }.

Definition check (c : rocase) : bool := Bool.eqb (ro_accepts (rc_cfg c) (rc_prog c)) (rc_impl_accepts c).
Definition model_out (c : rocase) := (ro_accepts (rc_cfg c) (rc_prog c), writes (rc_prog c)).
