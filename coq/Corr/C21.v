(* Correspondence glue for C21: a case carries the inputs and the implementation's outputs.
   `check`  : the model reproduces every output of the implementation (the tie to the code):
              encode_json text byte for byte (compact and pretty; the text of each float / timestamp is taken
              from the implementation because zmij and chrono are not modelled), parse_json results bit for bit
              (floats included: the model runs serde_json's own float arithmetic), UTF-8 validity and the lossy
              conversion, the lossy:false variant, serde_json::from_str on Value.
   `oracle` : the property's law judged on the implementation's outputs alone (the search leg):
              parse_json(encode_json(v)) is v up to one ulp per float, in both modes, and serde agrees. *)
From Coq Require Import List NArith ZArith Bool.
From Coq Require Import Init.Byte.
From Coq Require Import Floats.SpecFloat.
From VRL Require Import Base.Bytes Base.Value Base.Lit Model.Json.
Import ListNotations.

Inductive pres := POk (v : value) | PErr.

Inductive case :=
| CEnc (v : value) (ftab : list (spec_float * bytes)) (ttab : list (Z * bytes))
       (c p : bytes)                 (* encode_json(.v), encode_json(.v, pretty: true) *)
       (rc rp : pres)                (* parse_json!(c), parse_json!(p) *)
       (serde_same : bool)           (* serde_json::to_string[_pretty] / from_str::<Value> gave the same four outputs *)
| CParse (s : bytes)
       (r strict : pres)             (* parse_json!(.s), parse_json!(.s, lossy: false) *)
       (serde : option pres)         (* serde_json::from_str::<Value>(s); None when s is not UTF-8 *)
       (lossy : bytes)               (* the lossy UTF-8 conversion Value::Bytes(s) is serialised through *)
       (again : option pres).        (* when r is Ok x: parse_json!(encode_json(x)) *)

(* n more levels of [v] / {"k": v} around v (the harness builds the same value; a case file cannot nest that deep) *)
Fixpoint wrapv (n : nat) (obj : bool) (v : value) : value :=
  match n with
  | O => v
  | S n' => wrapv n' obj (if obj then VObj [([107%N], v)] else VArr [v])
  end.

(* Hex texts of case files.  A `string` literal costs coqc ~18 constructors per character and a reduction of
   string_of_list_byte; this notation keeps the literal as the plain `list byte` the lexer produced (3x faster to
   elaborate), in pieces of a few thousand characters (one 60 000 character literal overflows coqc's stack). *)
Inductive bl := BL (l : list Byte.byte).
Definition unBL (x : bl) : list Byte.byte := match x with BL l => l end.
Declare Scope bl_scope.
Delimit Scope bl_scope with bl.
String Notation bl BL unBL : bl_scope.

Definition hexval_n (n : N) : N :=
  if (48 <=? n)%N && (n <=? 57)%N then n - 48
  else if (97 <=? n)%N && (n <=? 102)%N then n - 87
  else 0.

Fixpoint hx_bytes (l : list Byte.byte) : bytes :=
  match l with
  | a :: b :: r => (hexval_n (Byte.to_N a) * 16 + hexval_n (Byte.to_N b))%N :: hx_bytes r
  | _ => []
  end.

Definition hxb (l : list bl) : bytes := flat_map (fun x => hx_bytes (unBL x)) l.

Definition pres_of (o : option value) : pres := match o with Some v => POk v | None => PErr end.

Definition pres_eqb (a b : pres) : bool :=
  match a, b with
  | POk x, POk y => value_eqb x y
  | PErr, PErr => true
  | _, _ => false
  end.

Definition pres_close (v : value) (r : pres) : bool :=
  match r with
  | POk x => value_close v x
  | PErr => false
  end.

Definition check (c : case) : bool :=
  match c with
  | CEnc v ftab ttab c p rc rp _ =>
      let ff := table_f64 ftab in
      let ft := table_ts ttab in
      bytes_eqb (encode_json ff ft false v) c && bytes_eqb (encode_json ff ft true v) p
      && pres_eqb (pres_of (parse_json c)) rc && pres_eqb (pres_of (parse_json p)) rp
      (* the hypothesis of C21_roundtrip_floats on the texts the implementation printed: it holds exactly when
         the implementation brought the value back within one ulp *)
      && (if jrep (fun _ => true) v && (vdepth v <? 128)%N
          then Bool.eqb (jrep (fun f => float_text_ok (ff f) f) v)
                        (match rc with POk x => value_close v x | PErr => false end)
          else true)
  | CParse s r strict serde lossy again =>
      pres_eqb (pres_of (parse_json s)) r
      && pres_eqb (pres_of (parse_json_strict s)) strict
      && (match serde with
          | Some x => utf8_ok s && pres_eqb (pres_of (parse_doc s)) x
          | None => negb (utf8_ok s)
          end)
      && bytes_eqb (lossy_utf8 s) lossy
  end.

(* "JSON can represent v": no timestamps / regexes, UTF-8 strings, finite floats — judged without looking at
   how floats print *)
Definition representable (v : value) : bool := jrep (fun _ => true) v.

Definition has_bom (s : bytes) : bool :=
  match s with
  | 239%N :: 187%N :: 191%N :: _ => true
  | _ => false
  end.

Definition oracle (c : case) : bool :=
  match c with
  | CEnc v _ _ _ _ rc rp serde_same =>
      serde_same &&
      (if representable v then pres_close v rc && pres_close v rp
       else match rc, rp with POk _, POk _ => true | _, _ => false end)   (* what encode_json prints always parses *)
  | CParse s r strict serde lossy again =>
      (* serde's from_str and the VRL function agree on BOM-free UTF-8 text; strict = lossy on UTF-8 text *)
      (match serde with
       | Some x => (if has_bom s then true else pres_eqb r x && pres_eqb strict x)
       | None => true
       end)
      (* a parsed document is representable, so printing and parsing it again gives it back *)
      && (match r, again with
          | POk x, Some y => representable x && pres_close x y
          | POk _, None => false
          | PErr, _ => true
          end)
  end.

(* what the model says, for replay files *)
Definition model_out (c : case) : (bytes * bytes * pres * pres) + (pres * pres * pres * bytes) :=
  match c with
  | CEnc v ftab ttab c p _ _ _ =>
      let ff := table_f64 ftab in
      let ft := table_ts ttab in
      inl (encode_json ff ft false v, encode_json ff ft true v, pres_of (parse_json c), pres_of (parse_json p))
  | CParse s _ _ _ _ _ =>
      inr (pres_of (parse_json s), pres_of (parse_json_strict s), pres_of (parse_doc s), lossy_utf8 s)
  end.
