(* Correspondence glue for C28.  A case = (op, arguments, the implementation's outputs of the op's fixed list
   of VRL programs — see harness/src/bin/strfn.rs `programs`).
   `check`  : the model (Model/StrFns.v, Model/CollFns.v) reproduces every output;
   `oracle` : the property's laws judged on the implementation's outputs alone (written with different
              primitives than the model: index arithmetic, firstn/skipn, explicit membership). *)
From Coq Require Import List NArith ZArith Bool.
From VRL Require Import Base.Bytes Base.Value Base.Lit Model.CodecUtf8 Model.CaseTables Model.StrFns Model.CollFns Model.Casing.
Import ListNotations.

Inductive opk := OUpcase | ODowncase | OCasing | OStrip | OSplit | OJoin | OStartsWith | OEndsWith | OContains
| OTruncate | OStrlen | OSlice | OUnique | OCompact | OKvl | OLength | OMerge | OPush | OAppend | OFlatten | OChunks.

Inductive case :=
| CRun (op : opk) (args : list value) (outs : list res)
| CWs (lo hi : N) (ws : list N)
| CCaseSweep (lo hi : N) (bad_up bad_down bad_up_pt bad_down_pt : list N)
| CCaseTab (tab : list (N * list N * list N * bool * bool)).

(* ---------- comparing results; RUnmodelled on the model side claims nothing ---------- *)
Definition res_eqb (m i : res) : bool :=
  match m, i with
  | RUnmodelled, _ => true
  | ROk a, ROk b => value_eqb a b
  | RErr, RErr => true
  | _, _ => false
  end.

Fixpoint res_list_eqb (m i : list res) : bool :=
  match m, i with
  | [], [] => true
  | x :: m', y :: i' => res_eqb x y && res_list_eqb m' i'
  | _, _ => false
  end.

Definition strict_res_eqb (a b : res) : bool :=
  match a, b with
  | ROk x, ROk y => value_eqb x y
  | RErr, RErr => true
  | _, _ => false
  end.

(* ---------- the model side ---------- *)
Definition in_domain (s : bytes) : bool := forallb in_case_domain (chars s).

Definition on_bytes (v : value) (f : bytes -> res) : res :=
  match v with VBytes s => f s | _ => RErr end.

Definition bres (b : bytes) : res := ROk (VBytes b).

Definition guard_domain (vs : list value) (r : res) : res :=
  if forallb (fun v => match v with VBytes s => in_domain s | _ => true end) vs then r else
  match r with RErr => RErr | _ => RUnmodelled end.

Definition dc (v : value) : res := guard_domain [v] (on_bytes v (fun s => bres (downcase s))).

Definition model_run (op : opk) (args : list value) : list res :=
  match op with
  | OUpcase =>
      match args with
      | [a] => [guard_domain [a] (on_bytes a (fun s => bres (upcase s)));
                guard_domain [a] (on_bytes a (fun s => bres (upcase (upcase s))))]
      | _ => []
      end
  | ODowncase =>
      match args with
      | [a] => [dc a; guard_domain [a] (on_bytes a (fun s => bres (downcase (downcase s))))]
      | _ => []
      end
  | OCasing =>
      match args with
      | [VBytes s] =>
          (* convert_case crate: modelled on printable ASCII only (Model/Casing.v); elsewhere the oracle alone speaks *)
          if forallb printable s then
            flat_map (fun f => [bres (f s); bres (f (f s))])
                     [camelcase; pascalcase; snakecase; screamingsnakecase; kebabcase]
          else repeat RUnmodelled 10
      | [_] => repeat RErr 10
      | _ => []
      end
  | OStrip =>
      match args with
      | [a] => [on_bytes a (fun s => bres (strip_ws s)); on_bytes a (fun s => bres (strip_ws (strip_ws s)))]
      | _ => []
      end
  | OSplit =>
      let go s d n :=
        let r := fn_split s d n in
        [r; match r with ROk (VArr l) => fn_join (VArr l) (Some d) | r => r end] in
      match args with
      | [s; d] => go s d (VInt default_split_limit)
      | [s; d; n] => go s d n
      | _ => []
      end
  | OJoin =>
      match args with
      | [a] => [fn_join a None]
      | [a; d] => [fn_join a (Some d)]
      | _ => []
      end
  | OStartsWith =>
      match args with
      | [s; p] => [fn_starts_with s p true; guard_domain [s; p] (fn_starts_with s p false); dc s; dc p]
      | _ => []
      end
  | OEndsWith =>
      match args with
      | [s; p] => [fn_ends_with s p true; guard_domain [s; p] (fn_ends_with s p false); dc s; dc p]
      | _ => []
      end
  | OContains =>
      match args with
      | [s; p] => [fn_contains s p true; guard_domain [s; p] (fn_contains s p false); dc s; dc p]
      | _ => []
      end
  | OTruncate =>
      let lenr r := match r with ROk (VBytes t) => ROk (VInt (strlen t)) | r => r end in
      match args with
      | [s; n] =>
          let r := fn_truncate s n (VBytes []) in
          [r; lenr r; on_bytes s (fun b => ROk (VInt (strlen b)))]
      | [s; n; x] =>
          let r := fn_truncate s n x in
          [r; lenr r; on_bytes s (fun b => ROk (VInt (strlen b))); on_bytes x (fun b => ROk (VInt (strlen b)))]
      | _ => []
      end
  | OStrlen =>
      match args with
      | [s; _] => [on_bytes s (fun b => ROk (VInt (strlen b))); fn_length s]
      | _ => []
      end
  | OSlice =>
      match args with
      | [v; s] => [fn_slice v s None]
      | [v; s; e] => [fn_slice v s (Some e)]
      | _ => []
      end
  | OUnique =>
      match args with
      | [a] => let r := fn_unique a in [r; match r with ROk u => fn_unique u | r => r end]
      | _ => []
      end
  | OCompact =>
      match args with
      | [v] => let r := fn_compact v None in [r; match r with ROk u => fn_compact u None | r => r end]
      | v :: flags =>
          let r := fn_compact v (Some flags) in
          [r; match r with ROk u => fn_compact u (Some flags) | r => r end]
      | _ => []
      end
  | OKvl =>
      match args with
      | [o] => let l := match o with VObj _ => fn_length o | _ => RErr end in
               [fn_keys o; fn_values o; fn_length o; l; l]
      | _ => []
      end
  | OLength => match args with [v] => [fn_length v] | _ => [] end
  | OMerge =>
      match args with
      | [a; b] => [fn_merge a b None]
      | [a; b; d] => [fn_merge a b (Some d)]
      | _ => []
      end
  | OPush =>
      match args with
      | [a; x] => let r := fn_push a x in [r; match r with ROk u => fn_length u | r => r end]
      | _ => []
      end
  | OAppend =>
      match args with
      | [a; b] => let r := fn_append a b in [r; match r with ROk u => fn_length u | r => r end]
      | _ => []
      end
  | OFlatten =>
      match args with
      | [a] => let r := fn_flatten a in [r; match r with ROk u => fn_flatten u | r => r end]
      | _ => []
      end
  | OChunks => match args with [v; n] => [fn_chunks v n] | _ => [] end
  end.

(* ---------- sweeps ---------- *)
Definition ws_list : list N :=
  [9; 10; 11; 12; 13; 32; 133; 160; 5760; 8192; 8193; 8194; 8195; 8196; 8197; 8198; 8199; 8200; 8201; 8202;
   8232; 8233; 8239; 8287; 12288]%N.

Fixpoint strictly_increasing (l : list N) : bool :=
  match l with
  | x :: ((y :: _) as r) => N.ltb x y && strictly_increasing r
  | _ => true
  end.

Definition in_range_co (lo hi c : N) : bool := N.leb lo c && N.ltb c hi.

Definition list_N_eqb (a b : list N) : bool := bytes_eqb a b.

Definition tab_entry_ok (e : N * list N * list N * bool * bool) : bool :=
  let '(c, u, d, p1, p2) := e in
  if in_case_domain c then
    list_N_eqb (upper_cp c) u && list_N_eqb (lower_cp c) d
    && Bool.eqb (cased_cp c) p1 && Bool.eqb (ign_cp c) (negb p1 && p2)
  else true.

Definition check (c : case) : bool :=
  match c with
  | CRun op args outs => res_list_eqb (model_run op args) outs
  | CWs lo hi ws =>
      (* the implementation's whitespace set in [lo,hi) equals the model's *)
      forallb is_ws ws && forallb (in_range_co lo hi) ws && strictly_increasing ws
      && Nat.eqb (length ws) (length (filter (in_range_co lo hi) ws_list))
  | CCaseSweep _ _ _ _ _ _ => true
  | CCaseTab tab => forallb tab_entry_ok tab
  end.

(* ---------- the oracle ---------- *)
Definition ok_bytes (r : res) : option bytes := match r with ROk (VBytes b) => Some b | _ => None end.
Definition ok_bool (r : res) : option bool := match r with ROk (VBool b) => Some b | _ => None end.
Definition ok_int (r : res) : option Z := match r with ROk (VInt z) => Some z | _ => None end.
Definition ok_arr (r : res) : option (list value) := match r with ROk (VArr l) => Some l | _ => None end.
Definition ok_obj (r : res) : option obj := match r with ROk (VObj l) => Some l | _ => None end.
Definition is_err (r : res) : bool := match r with RErr => true | _ => false end.

Fixpoint pairs_equal (l : list res) : bool :=
  match l with
  | a :: b :: r => strict_res_eqb a b && pairs_equal r
  | [] => true
  | [_] => false
  end.

Fixpoint count_while {A} (f : A -> bool) (l : list A) : nat :=
  match l with
  | x :: r => if f x then S (count_while f r) else O
  | [] => O
  end.

(* strip_whitespace: the result is the input minus its maximal whitespace prefix and suffix (by index) *)
Definition strip_law (s r : bytes) : bool :=
  let cs := chars s in
  let i := count_while is_ws cs in
  let j := count_while is_ws (rev cs) in
  if Nat.eqb i (length cs) then match r with [] => true | _ => false end
  else bytes_eqb r (str (firstn (length cs - i - j) (skipn i cs))).

Definition sub_at (p s : bytes) (i : nat) : bool := bytes_eqb (firstn (length p) (skipn i s)) p.

Definition prefix_law (p s : bytes) : bool :=
  Nat.leb (length p) (length s) && sub_at p s 0.
Definition suffix_law (p s : bytes) : bool :=
  Nat.leb (length p) (length s) && sub_at p s (length s - length p).
Definition infix_law (p s : bytes) : bool :=
  Nat.leb (length p) (length s) && existsb (sub_at p s) (seq 0 (S (length s - length p))).

Definition all_vbytes (l : list value) : option (list bytes) :=
  fold_right (fun v acc => match v, acc with VBytes b, Some t => Some (b :: t) | _, _ => None end) (Some []) l.

Definition bytes_arg (v : value) : option bytes := match v with VBytes b => Some b | _ => None end.

(* search functions: outs = [case sensitive; case insensitive; downcase s; downcase p] *)
Definition search_law (kind : opk) (s p : bytes) (outs : list res) : bool :=
  match outs with
  | [rcs; rci; rds; rdp] =>
      match ok_bool rcs, ok_bool rci, ok_bytes rds, ok_bytes rdp with
      | Some cs, Some ci, Some ds, Some dp =>
          let is_sw := match kind with OStartsWith => true | _ => false end in
          let law := match kind with OStartsWith => prefix_law | OEndsWith => suffix_law | _ => infix_law end in
          let valid := if is_sw then valid_utf8 s && valid_utf8 p else true in
          (* agrees with substring position (starts_with compares raw bytes, the others the lossy strings) *)
          Bool.eqb cs (if is_sw then law p s else law (utf8_lossy p) (utf8_lossy s))
          (* a case-sensitive match is a case-insensitive match (starts_with walks chars: the needle must not end
             inside a char, i.e. be valid UTF-8; the haystack is arbitrary) *)
          && implb (if is_sw then valid_utf8 p else true) (implb cs ci)
          (* case-insensitive = the same predicate on the lowercased strings *)
          && implb valid (Bool.eqb ci (law dp ds))
      | _, _, _, _ => false
      end
  | _ => false
  end.

Fixpoint sum_len (l : list bytes) : nat := match l with [] => O | x :: r => (length x + sum_len r)%nat end.

Definition split_law (s d : bytes) (limit : option Z) (outs : list res) : bool :=
  match outs with
  | [r0; r1] =>
      match ok_arr r0 with
      | Some l =>
          match all_vbytes l with
          | Some pieces =>
              let lim_ok := match limit with Some n => Z.leb 1 n | None => true end in
              (* join(split(s, d), d) == s *)
              (if lim_ok then match ok_bytes r1 with Some j => bytes_eqb j (utf8_lossy s) | None => false end
               else true)
              (* at most `limit` pieces *)
              && match limit with
                 | Some n => Z.leb (Z.of_nat (length pieces)) (Z.max n 0)
                 | None => true
                 end
              (* without a limit no piece contains the (non-empty) delimiter *)
              && match limit, utf8_lossy d with
                 | None, (_ :: _) as p => forallb (fun x => negb (infix_law p x)) pieces
                 | _, _ => true
                 end
          | None => false
          end
      | None => false
      end
  | _ => false
  end.

Definition join_law (l : list value) (sep : bytes) (r : res) : bool :=
  match all_vbytes l with
  | Some parts =>
      match ok_bytes r with
      | Some j => Nat.eqb (length j)
                    (sum_len (map utf8_lossy parts) + (length parts - 1) * length (utf8_lossy sep))
      | None => false
      end
  | None => is_err r
  end.

Definition truncate_law (s : bytes) (limit : Z) (suffix : bytes) (r : bytes) (len_r len_s len_x : Z) : bool :=
  let n := Z.max limit 0 in
  let s' := utf8_lossy s in
  let x' := utf8_lossy suffix in
  Z.leb len_r (n + len_x)
  && (if Z.leb len_s n then bytes_eqb r s'
      else Z.eqb len_r (n + len_x)
           && Nat.leb (length x') (length r)
           && sub_at x' r (length r - length x')
           && prefix_law (firstn (length r - length x') r) s').

Definition is_cont_byte (b : N) : bool := N.leb 128 b && N.leb b 191.

Definition cps_arg (v : value) : option (list N) :=
  match v with
  | VArr l => fold_right (fun v acc => match v, acc with VInt z, Some t => Some (Z.to_N z :: t) | _, _ => None end)
                         (Some []) l
  | _ => None
  end.

Definition strlen_law (s : bytes) (cps : value) (n : Z) : bool :=
  (if valid_utf8 s then Z.eqb n (Z.of_nat (length (filter (fun b => negb (is_cont_byte b)) s))) else true)
  && match cps_arg cps with
     | Some l => if forallb is_scalar_cp l && bytes_eqb s (utf8_of_cps l) then Z.eqb n (Z.of_nat (length l)) else true
     | None => true
     end
  && Z.leb n (Z.of_nat (length s)).

Section SliceLaw.
  Context {A : Type} (eqb : A -> A -> bool).
  Definition opt_eqb' (a b : option A) : bool :=
    match a, b with Some x, Some y => eqb x y | None, None => true | _, _ => false end.
  (* slice agrees with positional indexing: r[i] = l[start' + i], as many as fit before end' *)
  Definition slice_law (l : list A) (start : Z) (end_ : option Z) (r : option (list A)) : bool :=
    let len := Z.of_nat (length l) in
    let s := if Z.ltb start 0 then (start + len)%Z else start in
    let e := match end_ with Some e => if Z.ltb e 0 then (e + len)%Z else e | None => len end in
    if Z.ltb s 0 || Z.ltb len s || Z.ltb e s then match r with None => true | Some _ => false end
    else match r with
         | None => false
         | Some r =>
             Z.eqb (Z.of_nat (length r)) (Z.min e len - s)
             && forallb (fun i => opt_eqb' (nth_error r i) (nth_error l (Z.to_nat s + i))) (seq 0 (length r))
         end.
End SliceLaw.

Definition mem_veq (x : value) (l : list value) : bool := existsb (veq x) l.

Fixpoint nodup_veq (l : list value) : bool :=
  match l with
  | [] => true
  | x :: r => negb (mem_veq x r) && nodup_veq r
  end.

(* first occurrences in order, written with filter (fuel = length) *)
Fixpoint first_occurrences (fuel : nat) (l : list value) : list value :=
  match fuel, l with
  | S f, x :: r => x :: first_occurrences f (filter (fun y => negb (veq x y)) r)
  | _, _ => []
  end.

Definition unique_law (l r : list value) : bool :=
  nodup_veq r && forallb (fun x => mem_veq x r) l && forallb (fun x => mem_veq x l) r
  && value_eqb (VArr r) (VArr (first_occurrences (length l) l)).

(* compact: (a) nothing configured-empty is left, (b) the result is obtained by deleting items (and, when
   recursive, compacting inside the kept containers), (c) every deleted item is one that is configured-empty
   itself or (recursive only) a container that compacts to a configured-empty one *)
Fixpoint compact_rel (fuel : nat) (o : compact_opts) (v r : value) {struct fuel} : bool :=
  match fuel with
  | O => false
  | S f =>
      let item_ok (x y : value) : bool :=
        negb (is_empty_for o y)
        && (if co_recursive o
            then match x with VArr _ | VObj _ => compact_rel f o x y | _ => value_eqb x y end
            else value_eqb x y) in
      let droppable (x : value) : bool :=
        is_empty_for o x
        || (co_recursive o
            && match x with
               | VArr _ => is_empty_for o (VArr []) && compact_rel f o x (VArr [])
               | VObj _ => is_empty_for o (VObj []) && compact_rel f o x (VObj [])
               | _ => false
               end) in
      match v, r with
      | VArr l, VArr m =>
          (fix go (l m : list value) {struct l} : bool :=
             match l, m with
             | [], [] => true
             | [], _ :: _ => false
             | x :: l', [] => droppable x && go l' []
             | x :: l', y :: m' => if item_ok x y && go l' m' then true else droppable x && go l' m
             end) l m
      | VObj l, VObj m =>
          (fix go (l m : list (bytes * value)) {struct l} : bool :=
             match l, m with
             | [], [] => true
             | [], _ :: _ => false
             | (_, x) :: l', [] => droppable x && go l' []
             | (k, x) :: l', (k', y) :: m' =>
                 if bytes_eqb k k' then item_ok x y && go l' m' else droppable x && go l' m
             end) l m
      | _, _ => false
      end
  end.

Fixpoint depth (v : value) : nat :=
  match v with
  | VArr l => S (fold_right (fun x acc => Nat.max (depth x) acc) O l)
  | VObj l => S (fold_right (fun kv acc => Nat.max (depth (snd kv)) acc) O l)
  | _ => 1
  end.

Definition flags_of (args : list value) : option compact_opts :=
  match args with
  | [] => Some compact_defaults
  | l => match all_bools l with Some bs => opts_of bs | None => None end
  end.

Definition subset_keys (a b : obj) : bool := forallb (fun kv => existsb (bytes_eqb (fst kv)) (map fst b)) a.

Definition opt_value_eqb (a b : option value) : bool :=
  match a, b with Some x, Some y => value_eqb x y | None, None => true | _, _ => false end.

(* merge(a, b): b's values on shared keys, a's elsewhere, no other keys; deep: shared object fields merge *)
Fixpoint merge_law (fuel : nat) (deep : bool) (a b r : obj) {struct fuel} : bool :=
  match fuel with
  | O => false
  | S f =>
      forallb (fun kv => existsb (bytes_eqb (fst kv)) (map fst a ++ map fst b)) r
      && forallb (fun kv =>
                    match obj_get b (fst kv) with
                    | Some _ => true
                    | None => opt_value_eqb (obj_get r (fst kv)) (Some (snd kv))
                    end) a
      && forallb (fun kv =>
                    let '(k, x) := kv in
                    match deep, obj_get a k, x, obj_get r k with
                    | true, Some (VObj ca), VObj cb, Some (VObj cr) => merge_law f deep ca cb cr
                    | true, Some (VObj _), VObj _, _ => false
                    | _, _, _, got => opt_value_eqb got (Some x)
                    end) b
      && obj_sorted r
  end.

Fixpoint count_leaves (fuel : nat) (v : value) : nat :=
  match fuel with
  | O => O
  | S f => match v with
           | VArr l => fold_right (fun x acc => (count_leaves f x + acc)%nat) O l
           | _ => 1%nat
           end
  end.

Definition no_arrays (l : list value) : bool := forallb (fun v => match v with VArr _ => false | _ => true end) l.

Definition chunks_law (b : bytes) (n : Z) (l : list value) : bool :=
  match all_vbytes l with
  | Some ps =>
      bytes_eqb (concat ps) b
      && forallb (fun p => Z.leb 1 (Z.of_nat (length p)) && Z.leb (Z.of_nat (length p)) n) ps
      && forallb (fun p => Z.eqb (Z.of_nat (length p)) n) (removelast ps)
  | None => false
  end.

Definition some_or_err {A} (r : res) (o : option A) : bool :=
  is_err r || match o with Some _ => true | None => false end.

Definition oracle_run (op : opk) (args : list value) (outs : list res) : bool :=
  match op with
  | OUpcase | ODowncase =>
      match args, outs with
      | [VBytes _], [r0; r1] => match ok_bytes r0 with Some _ => strict_res_eqb r0 r1 | None => false end
      | _, _ => true
      end
  | OCasing =>
      match args with
      | [VBytes _] => Nat.eqb (length outs) 10 && pairs_equal outs
      | _ => true
      end
  | OStrip =>
      match args, outs with
      | [VBytes s], [r0; r1] =>
          match ok_bytes r0 with Some r => strip_law s r && strict_res_eqb r0 r1 | None => false end
      | _, _ => true
      end
  | OSplit =>
      match args with
      | [VBytes s; VBytes d] => split_law s d None outs
      | [VBytes s; VBytes d; VInt n] => split_law s d (Some n) outs
      | _ => true
      end
  | OJoin =>
      match args, outs with
      | [VArr l], [r] => join_law l [] r
      | [VArr l; VBytes d], [r] => join_law l d r
      | _, _ => true
      end
  | OStartsWith | OEndsWith | OContains =>
      match args with
      | [VBytes s; VBytes p] => search_law op s p outs
      | _ => true
      end
  | OTruncate =>
      match args, outs with
      | [VBytes s; VInt n], [r; lr; ls] =>
          match ok_bytes r, ok_int lr, ok_int ls with
          | Some r, Some lr, Some ls => truncate_law s n [] r lr ls 0
          | _, _, _ => false
          end
      | [VBytes s; VInt n; VBytes x], [r; lr; ls; lx] =>
          match ok_bytes r, ok_int lr, ok_int ls, ok_int lx with
          | Some r, Some lr, Some ls, Some lx => truncate_law s n x r lr ls lx
          | _, _, _, _ => false
          end
      | _, _ => true
      end
  | OStrlen =>
      match args, outs with
      | [VBytes s; cps], [r; _] => match ok_int r with Some n => strlen_law s cps n | None => false end
      | _, _ => true
      end
  | OSlice =>
      match args, outs with
      | [VBytes b; VInt s], [r] => slice_law N.eqb b s None (ok_bytes r) && some_or_err r (ok_bytes r)
      | [VBytes b; VInt s; VInt e], [r] => slice_law N.eqb b s (Some e) (ok_bytes r) && some_or_err r (ok_bytes r)
      | [VArr a; VInt s], [r] => slice_law value_eqb a s None (ok_arr r) && some_or_err r (ok_arr r)
      | [VArr a; VInt s; VInt e], [r] => slice_law value_eqb a s (Some e) (ok_arr r) && some_or_err r (ok_arr r)
      | _, _ => true
      end
  | OUnique =>
      match args, outs with
      | [VArr l], [r0; r1] =>
          match ok_arr r0 with Some r => unique_law l r && strict_res_eqb r0 r1 | None => false end
      | _, _ => true
      end
  | OCompact =>
      match args, outs with
      | v :: flags, [r0; r1] =>
          match flags_of flags, v with
          | Some o, (VArr _ | VObj _) =>
              match r0 with
              | ROk r => compact_rel (S (depth v)) o v r && strict_res_eqb r0 r1
              | _ => false
              end
          | _, _ => is_err r0
          end
      | _, _ => true
      end
  | OKvl =>
      match args, outs with
      | [VObj m], [ks; vs; n; nk; nv] =>
          strict_res_eqb ks (ROk (VArr (map (fun kv => VBytes (fst kv)) m)))
          && strict_res_eqb vs (ROk (VArr (map snd m)))
          && strict_res_eqb n (ROk (VInt (Z.of_nat (length m))))
          && strict_res_eqb n nk && strict_res_eqb n nv
          && match ok_arr ks with
             | Some l => match all_vbytes l with
                         | Some kb => obj_sorted (map (fun k => (k, VNull)) kb)
                         | None => false
                         end
             | None => false
             end
      | _, _ => true
      end
  | OLength =>
      match args, outs with
      | [VArr a], [r] => strict_res_eqb r (ROk (VInt (Z.of_nat (length a))))
      | [VObj a], [r] => strict_res_eqb r (ROk (VInt (Z.of_nat (length a))))
      | [VBytes a], [r] => strict_res_eqb r (ROk (VInt (Z.of_nat (length a))))
      | _, _ => true
      end
  | OMerge =>
      match args, outs with
      | [VObj a; VObj b], [r] => match ok_obj r with Some m => merge_law 1 false a b m | None => false end
      | [VObj a; VObj b; VBool d], [r] =>
          match ok_obj r with
          | Some m => merge_law (S (Nat.max (depth (VObj a)) (depth (VObj b)))) d a b m
          | None => false
          end
      | _, _ => true
      end
  | OPush =>
      match args, outs with
      | [VArr a; x], [r; n] =>
          match ok_arr r with
          | Some l => value_eqb (VArr (removelast l)) (VArr a) && opt_value_eqb (nth_error l (length a)) (Some x)
                      && strict_res_eqb n (ROk (VInt (Z.of_nat (S (length a)))))
          | None => false
          end
      | _, _ => true
      end
  | OAppend =>
      match args, outs with
      | [VArr a; VArr b], [r; n] =>
          match ok_arr r with
          | Some l => value_eqb (VArr (firstn (length a) l)) (VArr a)
                      && value_eqb (VArr (skipn (length a) l)) (VArr b)
                      && strict_res_eqb n (ROk (VInt (Z.of_nat (length a + length b))))
          | None => false
          end
      | _, _ => true
      end
  | OFlatten =>
      match args, outs with
      | [VArr a], [r0; r1] =>
          match ok_arr r0 with
          | Some l => no_arrays l && strict_res_eqb r0 r1
                      && Nat.eqb (length l) (count_leaves (S (depth (VArr a))) (VArr a))
          | None => false
          end
      | _, _ => true
      end
  | OChunks =>
      match args, outs with
      | [VBytes b; VInt n], [r] =>
          if Z.ltb n 1 then is_err r
          else match ok_arr r with Some l => chunks_law b n l | None => false end
      | _, _ => true
      end
  end.

Definition oracle (c : case) : bool :=
  match c with
  | CRun op args outs => oracle_run op args outs
  | CWs _ _ _ => true
  | CCaseSweep _ _ bu bd bup bdp =>
      match bu, bd, bup, bdp with [], [], [], [] => true | _, _, _, _ => false end
  | CCaseTab _ => true
  end.

(* what the model says, for replay files *)
Definition model_out (c : case) : list res :=
  match c with
  | CRun op args _ => model_run op args
  | _ => []
  end.
