(* Correspondence glue for C18: a case carries the inputs and the implementation's outputs.
   `check`  : the model reproduces every output of the implementation (the tie to the code);
   `oracle` : the property's laws judged on the implementation's outputs alone (the search leg). *)
From Coq Require Import List NArith ZArith Bool.
From VRL Require Import Base.Bytes Base.Value Base.Lit Model.ValueCrud.
Import ListNotations.

Inductive case :=
| CGet (v : value) (p : path) (res : option value)
| CInsert (v : value) (p q : path) (x : value) (res : option value) (v' : value)
          (gp_before gp_after gq_before gq_after : option value)
| CRemove (v : value) (p : path) (prune : bool) (res : option value) (v' : value)
          (gp_before gp_after : option value).

Definition opt_eqb (a b : option value) : bool :=
  match a, b with
  | Some x, Some y => value_eqb x y
  | None, None => true
  | _, _ => false
  end.

Definition check (c : case) : bool :=
  match c with
  | CGet v p r => opt_eqb (get v p) r
  | CInsert v p q x r v' gpb gpa gqb gqa =>
      opt_eqb (insert_prev v p) r && value_eqb (insert v p x) v'
      && opt_eqb (get v p) gpb && opt_eqb (get (insert v p x) p) gpa
      && opt_eqb (get v q) gqb && opt_eqb (get (insert v p x) q) gqa
  | CRemove v p pr r v' gpb gpa =>
      let '(r0, v0) := remove v p pr in
      opt_eqb r0 r && value_eqb v0 v' && opt_eqb (get v p) gpb && opt_eqb (get v0 p) gpa
  end.

Definition last_is_field (p : path) : bool :=
  match rev p with SField _ :: _ => true | _ => false end.

Fixpoint fields_only_path (p : path) : bool :=
  match p with [] => true | SField _ :: p' => fields_only_path p' | SIndex _ :: _ => false end.

Definition oracle (c : case) : bool :=
  match c with
  | CGet _ _ _ => true
  | CInsert v p q x r v' gpb gpa gqb gqa =>
      opt_eqb gpa (Some x)                                   (* get after insert *)
      && opt_eqb r gpb                                       (* insert returns the previous occupant *)
      && (if disjoint_stable (Some v) p q then opt_eqb gqb gqa else true)   (* frame *)
  | CRemove v p pr r v' gpb gpa =>
      opt_eqb r gpb                                          (* remove returns what get returned *)
      && (match gpb with None => value_eqb v v' | Some _ => true end)   (* nothing found => unchanged *)
      (* a removed field is gone - judged only where no array element can be compacted away: with pruning, removing
         the last entry of an array element deletes that element and renumbers the ones behind it, so the same path then
         names another element (by design of compaction; the property does not state this law at all) *)
      && (if last_is_field p && (negb pr || fields_only_path p) then opt_eqb gpa None else true)
  end.

(* what the model says, for replay files *)
Definition model_out (c : case) : option value * option value :=
  match c with
  | CGet v p _ => (get v p, None)
  | CInsert v p _ x _ _ _ _ _ _ => (insert_prev v p, Some (insert v p x))
  | CRemove v p pr _ _ _ _ => let '(r0, v0) := remove v p pr in (r0, Some v0)
  end.
