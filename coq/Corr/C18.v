(* Correspondence glue for C18: a case carries the inputs and the implementation's outputs. *)
From Coq Require Import List NArith ZArith Bool.
From VRL Require Import Base.Bytes Base.Value Base.Lit Model.ValueCrud.
Import ListNotations.

Inductive case :=
| CGet (v : value) (p : path) (res : option value)
| CInsert (v : value) (p : path) (x : value) (res : option value) (v' : value)
| CRemove (v : value) (p : path) (prune : bool) (res : option value) (v' : value).

Definition opt_eqb (a b : option value) : bool :=
  match a, b with
  | Some x, Some y => value_eqb x y
  | None, None => true
  | _, _ => false
  end.

Definition check (c : case) : bool :=
  match c with
  | CGet v p r => opt_eqb (get v p) r
  | CInsert v p x r v' => opt_eqb (insert_prev v p) r && value_eqb (insert v p x) v'
  | CRemove v p pr r v' =>
      let '(r0, v0) := remove v p pr in opt_eqb r0 r && value_eqb v0 v'
  end.

(* what the model says, for replay files *)
Definition model_out (c : case) : option value * option value :=
  match c with
  | CGet v p _ => (get v p, None)
  | CInsert v p x _ _ => (insert_prev v p, Some (insert v p x))
  | CRemove v p pr _ _ => let '(r0, v0) := remove v p pr in (r0, Some v0)
  end.
