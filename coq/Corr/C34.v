(* Correspondence glue for C34.
   A case carries a parser-level program, the events it was run on, and what the implementation did:
   the expression warnings of check_for_unused_results (position + message class, in the order the
   compiler reports them), the runs of the program, and for every warning whose span could be deleted
   from the source text the runs of the original and of the edited program.
   `check`  : the visitor model flags exactly the same positions with the same classes, and the model's
              run of the elaborated program agrees with Runtime::resolve;
   `oracle` : the property itself on the implementation's outputs alone: deleting a flagged expression
              changes neither the final event / metadata nor whether the program succeeds (flagged
              expression cannot fail), or leaves the final event of a successful run unchanged. *)
From Coq Require Import List NArith ZArith Bool String.
From VRL Require Import Base.Bytes Base.Value Base.Lit Model.ValueCrud Model.Expr Model.Eval Model.EvalInst
     Model.Unused Corr.Core.
Import ListNotations.
Local Open Scope list_scope.

(* the executable instance of F, extended with the two side-effect functions the generator uses *)
Definition F_c34 (f : fname) (args : list value) : option value :=
  if bytes_eqb f (bs "log") then Some VNull
  else if bytes_eqb f (bs "assert") then
    match args with
    | [VBool true] => Some (VBool true)
    | _ => None
    end
  else F_inst f args.

Definition run_c34 := run F_c34 binop_inst.

Definition irun := (iout * value * value)%type.     (* result, final event, final metadata *)

Record wdel := mkDel { d_fallible : bool; d_runs : list (irun * irun) }.

Inductive case :=
| CSkip                                               (* the program did not compile *)
| CTable (names : list bytes)                         (* SIDE_EFFECT_FUNCTIONS as written in the source *)
| CProg (p : list pexpr) (inputs : list (value * value)) (flags : list (pos * wcls))
        (runs : list irun) (dels : list wdel).

Definition wcls_eqb (a b : wcls) : bool :=
  match a, b with WLit, WLit | WObj, WObj | WCall, WCall => true | _, _ => false end.

Definition flag_eqb (a b : pos * wcls) : bool := pos_eqb (fst a) (fst b) && wcls_eqb (snd a) (snd b).

Definition run_matches (p : list pexpr) (inp : value * value) (r : irun) : bool :=
  let '(o, s) := run_c34 (elab_prog p) (mkState [] (fst inp) (snd inp) [] []) in
  let '(io, iev, imd) := r in
  out_sim o io && vsim (ev s) iev && vsim (md s) imd.

Definition check (c : case) : bool :=
  match c with
  | CSkip => true
  | CTable names => all2 bytes_eqb SIDE_EFFECT_FUNCTIONS names
  | CProg p inputs flags runs _ =>
      all2 flag_eqb (check_program p) flags && all2 (run_matches p) inputs runs
  end.

Definition succ (o : iout) : bool := match o with ISuccess _ => true | _ => false end.

Definition iout_class_eqb (a b : iout) : bool :=
  match a, b with
  | ISuccess _, ISuccess _ | IAborted _, IAborted _ | IFailed, IFailed | IPanicked, IPanicked => true
  | _, _ => false
  end.

Definition del_ok (fallible : bool) (pr : irun * irun) : bool :=
  let '((o1, e1, m1), (o2, e2, m2)) := pr in
  if succ o1 then succ o2 && value_eqb e1 e2 && value_eqb m1 m2
  else if fallible then true
  else iout_class_eqb o1 o2 && value_eqb e1 e2 && value_eqb m1 m2.

Definition oracle (c : case) : bool :=
  match c with
  | CSkip | CTable _ => true
  | CProg _ _ _ _ dels => forallb (fun d => forallb (del_ok (d_fallible d)) (d_runs d)) dels
  end.

(* what the model says, for replay files *)
Definition model_out (c : case) :=
  match c with
  | CSkip | CTable _ => ([], [])
  | CProg p inputs _ _ _ =>
      (check_program p,
       map (fun inp => let '(o, s) := run_c34 (elab_prog p) (mkState [] (fst inp) (snd inp) [] []) in (o, ev s, md s)) inputs)
  end.
