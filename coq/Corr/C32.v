(* Correspondence glue for C32: grok rule sets run through parse_grok_rules / parse_grok.
   `check`  : the model's parse_groks agrees with the implementation wherever the case is inside the modelled fragment;
   `oracle` : the property's expectation (computed by the generator from the way the case was built, never from the
              model) against the implementation's output alone. *)
From Coq Require Import List NArith ZArith Bool.
From VRL Require Import Base.Bytes Base.Value Base.Lit Model.ValueCrud Model.Grok.
Import ListNotations.
Local Open Scope list_scope.

Inductive iout :=
| IOk (v : value)
| INoMatch
| ICircular (name : bytes)
| IUnknownFilter
| IInvalidArgs
| IInvalidExpr.

(* what the construction of the case promises *)
Inductive expectation :=
| XNone
| XMatchIff (b : bool)        (* literal-only rule: matches iff the input is the literal text *)
| XObject (v : value)         (* input built from the rule: these fields must come out *)
| XCircular                   (* a cyclic alias chain is reachable from the rule *)
| XCompiles                   (* acyclic aliases: the rule set must compile *)
| XInvalidArgs.               (* a filter with a bad argument list: the "invalid arguments" compile error *)

Record case := mkCase {
  c_aliases : list (bytes * bytes); c_rules : list bytes; c_input : bytes; c_out : iout; c_expect : expectation }.

Definition agree (m : gres) (i : iout) : bool :=
  match m, i with
  | GUnmodelled, _ => true
  | GOk v, IOk w => value_eqb v w
  | GNoMatch, INoMatch => true
  | GErr (ECircular a), ICircular b => bytes_eqb a b
  | GErr EUnknownFilter, IUnknownFilter => true
  | GErr EInvalidArgs, IInvalidArgs => true
  | GErr EInvalidExpr, IInvalidExpr => true
  | _, _ => false
  end.

Definition check (c : case) : bool := agree (parse_groks (c_aliases c) (c_rules c) (c_input c)) (c_out c).

Definition oracle (c : case) : bool :=
  match c_expect c, c_out c with
  | XNone, _ => true
  | XMatchIff true, IOk _ => true
  | XMatchIff false, INoMatch => true
  | XMatchIff _, _ => false
  | XObject v, IOk w => value_eqb v w
  | XObject _, _ => false
  | XCircular, ICircular _ => true
  | XCircular, _ => false
  | XCompiles, (IOk _ | INoMatch) => true
  | XCompiles, _ => false
  | XInvalidArgs, IInvalidArgs => true
  | XInvalidArgs, _ => false
  end.

Definition model_out (c : case) : gres := parse_groks (c_aliases c) (c_rules c) (c_input c).
