(* Correspondence glue for C22.  A case carries the inputs, the options and what the implementation
   returned for every step (encoder on x, decoder on the encoder's output, decoder on an arbitrary text y).
   `check`  : the model reproduces the implementation's outputs (byte for byte for base16/base64/percent/
              punycode-without-validation; outcome classes and glue decisions for the library codecs, whose
              library calls are instantiated with the observed results);
   `oracle` : decode(encode(x)) = x judged on the implementation's outputs alone. *)
From Coq Require Import List NArith ZArith Bool.
From VRL Require Import Base.Bytes Base.Lit Model.Base16 Model.Base64 Model.CodecUtf8 Model.Percent
     Model.Punycode Model.CodecGlue.
Import ListNotations.
Local Open Scope Z_scope.

(* what the implementation did in one step *)
Inductive ires := IOk (b : bytes) | IErr | IPanic | ICompile | IOther.

Definition ires_eqb (m : res) (i : ires) : bool :=
  match m, i with
  | ROk a, IOk b => bytes_eqb a b
  | RErr, IErr => true
  | RPanic, IPanic => true
  | _, _ => false
  end.

Definition is_ok_eq (i : ires) (x : bytes) : bool :=
  match i with IOk b => bytes_eqb b x | _ => false end.
Definition not_panic (i : ires) : bool := match i with IPanic => false | _ => true end.
Definition is_err (i : ires) : bool := match i with IErr => true | _ => false end.

Definition lres_of (i : ires) : lres :=
  match i with IOk b => LOk b | IPanic => LPanic | _ => LErr end.

(* run the decoder model on the encoder's observed output, when there is one *)
Definition on_ok (e : ires) (f : bytes -> bool) : bool :=
  match e with IOk b => f b | _ => true end.

Inductive case :=
| CB16 (x : bytes) (e d : ires) (y : bytes) (dy : ires)
| CB64 (pad : bool) (cs : bytes) (x : bytes) (e d : ires) (y : bytes) (dy : ires)
| CPct (set : bytes) (x : bytes) (e d : ires) (y : bytes) (dy : ires)
| CPuny (x : bytes) (e d : ires) (y : bytes) (dy : ires)
| CPunyV (valid : bool) (x : bytes) (e d : ires)
| CFlate (zlib : bool) (lvl : Z) (x : bytes) (e d : ires)
| CZstd (lvl : Z) (x : bytes) (e d : ires)
| CSnappy (x : bytes) (e d : ires)
| CLz4 (dflt prepend prepended : bool) (buf : Z) (x : bytes) (e e_other d : ires)
| CLz4Frame (buf : Z) (x frame : bytes) (d : ires)
| CCharset (repr : bool) (label x : bytes) (e d : ires)
| CLibDec (y : bytes) (dy : ires)
| CDirect (roundtrip_ok : bool).      (* long inputs: decode(encode x) = x was compared outside Coq *)

(* the label side of the punycode property: lower-case, valid UTF-8, no part that already is an A-label,
   short enough for the u32 arithmetic (the DNS limit is 63 per label) *)
(* the code points on which the model's `lower_cp` is claimed to agree with char::to_lowercase (see the
   header of Model/Punycode.v): ASCII, Latin-1, Greek without capital sigma, basic Cyrillic, and the caseless
   blocks the generator draws from (NKo/Samaritan edge, kana, CJK, hangul, emoticons, U+10FFFF) *)
Definition cp_in_lower_domain (c : N) : bool :=
  ((c <? 256) || ((913 <=? c) && (c <=? 937) && negb (c =? 931)) || ((945 <=? c) && (c <=? 969)) || ((1024 <=? c) && (c <=? 1119))
   || ((2047 <=? c) && (c <=? 2048)) || ((12352 <=? c) && (c <=? 12543)) || ((19968 <=? c) && (c <=? 40959))
   || ((44032 <=? c) && (c <=? 55203)) || ((128512 <=? c) && (c <=? 128591)) || (c =? 1114111))%N.
Definition in_lower_domain (x : bytes) : bool := forallb cp_in_lower_domain (utf8_chars (utf8_lossy x)).

Definition valid_labels (x : bytes) : bool :=
  valid_utf8 x && in_lower_domain x && bytes_eqb (to_lowercase x) x
  && forallb (fun p => negb (starts_with xn_prefix p)) (split_on dot x)
  && (N.of_nat (length x) <=? 1000)%N.

Definition unprefixed (prepend : bool) (e e_other : ires) : bytes :=
  match (if prepend then e_other else e) with IOk b => b | _ => [] end.

Definition check (c : case) : bool :=
  match c with
  | CB16 x e d y dy =>
      ires_eqb (encode_base16 x) e && on_ok e (fun b => ires_eqb (decode_base16 b) d)
      && ires_eqb (decode_base16 y) dy
  | CB64 pad cs x e d y dy =>
      ires_eqb (encode_base64 pad cs x) e && on_ok e (fun b => ires_eqb (decode_base64 cs b) d)
      && ires_eqb (decode_base64 cs y) dy
  | CPct set x e d y dy =>
      match set_of_name set with
      | Some s => ires_eqb (encode_percent s x) e && on_ok e (fun b => ires_eqb (decode_percent b) d)
      | None => match e with ICompile => true | _ => false end
      end
      && ires_eqb (decode_percent y) dy
  | CPuny x e d y dy =>
      (if in_lower_domain x then ires_eqb (encode_punycode_novalidate x) e else true)
      && on_ok e (fun b => ires_eqb (decode_punycode_novalidate b) d)
      && ires_eqb (decode_punycode_novalidate y) dy
  | CPunyV _ x e d =>
      on_ok e (fun b =>
        ires_eqb (decode_punycode_validate
                    (fun _ => match d with IOk t => (t, false) | _ => ([], true) end) b) d)
  | CFlate _ lvl x e d =>
      ires_eqb (encode_flate (fun _ _ => lres_of e) lvl x) e
      && on_ok e (fun b => ires_eqb (decode_flate (fun _ => lres_of d) b) d)
  | CZstd lvl x e d =>
      ires_eqb (encode_zstd (fun _ _ => lres_of e) lvl x) e
      && on_ok e (fun b => ires_eqb (decode_zstd (fun _ => lres_of d) b) d)
  | CSnappy x e d =>
      ires_eqb (encode_snappy (fun _ => lres_of e) x) e
      && on_ok e (fun b => ires_eqb (decode_snappy (fun _ => lres_of d) b) d)
  | CLz4 _ prepend prepended buf x e e_other d =>
      ires_eqb (encode_lz4 (fun _ => unprefixed prepend e e_other) prepend x) e
      && on_ok e (fun b => ires_eqb (decode_lz4 (fun _ _ => lres_of d) (fun _ => lres_of d) buf prepended b) d)
  | CLz4Frame buf x frame d =>
      ires_eqb (decode_lz4 (fun _ _ => lres_of d) (fun _ => lres_of d) buf false frame) d
  | CCharset _ label x e d =>
      ires_eqb (encode_charset (fun _ => match e with IErr => None | _ => Some tt end)
                               (fun _ _ => match e with IOk b => b | _ => [] end) label x) e
      && on_ok e (fun b =>
           ires_eqb (decode_charset (fun _ => match d with IErr => None | _ => Some tt end)
                                    (fun _ _ => match d with IOk t => t | _ => [] end) label b) d)
  | CLibDec y dy => true
  | CDirect _ => true
  end.

Definition oracle (c : case) : bool :=
  match c with
  | CB16 x e d y dy => is_ok_eq d x && not_panic dy
  | CB64 pad cs x e d y dy =>
      match charset_of cs with
      | Some _ => is_ok_eq d x
      | None => is_err e
      end && not_panic dy
  | CPct set x e d y dy =>
      match set_of_name set with
      | Some _ => if valid_utf8 x then is_ok_eq d x else not_panic e && not_panic d
      | None => match e with ICompile => true | _ => false end
      end && not_panic dy
  | CPuny x e d y dy =>
      (if valid_labels x then is_ok_eq d x else not_panic e && not_panic d) && not_panic dy
  | CPunyV valid x e d =>
      if valid then is_ok_eq d x else not_panic e && not_panic d
  | CFlate _ lvl x e d =>
      if as_u32 lvl <=? max_flate_level then is_ok_eq d x else is_err e
  | CZstd lvl x e d => is_ok_eq d x
  | CSnappy x e d => is_ok_eq d x
  | CLz4 dflt prepend prepended buf x e e_other d =>
      if dflt then is_ok_eq d x
      else if Bool.eqb prepend prepended && buf_valid buf
              && (prepended || (Z.of_nat (length x) <=? buf))
      then is_ok_eq d x
      else if buf_valid buf then not_panic e && not_panic d
      else is_err d                                   (* an unusable buf_size is an error, never a panic *)
  | CLz4Frame buf x frame d =>
      if buf_valid buf then is_ok_eq d x else is_err d
  | CCharset repr label x e d =>
      if repr then is_ok_eq d x else not_panic e && not_panic d
  | CLibDec y dy => not_panic dy
  | CDirect ok => ok
  end.

(* what the model says, for replay files: encoder on x, decoder on the observed encoding, decoder on y *)
Definition model_out (c : case) : list res :=
  let dec_on (e : ires) (f : bytes -> res) := match e with IOk b => [f b] | _ => [] end in
  match c with
  | CB16 x e d y dy => encode_base16 x :: dec_on e decode_base16 ++ [decode_base16 y]
  | CB64 pad cs x e d y dy =>
      encode_base64 pad cs x :: dec_on e (decode_base64 cs) ++ [decode_base64 cs y]
  | CPct set x e d y dy =>
      match set_of_name set with
      | Some s => encode_percent s x :: dec_on e decode_percent
      | None => []
      end ++ [decode_percent y]
  | CPuny x e d y dy =>
      encode_punycode_novalidate x :: dec_on e decode_punycode_novalidate
      ++ [decode_punycode_novalidate y]
  | CFlate _ lvl x e d => [encode_flate (fun _ _ => lres_of e) lvl x]
  | CLz4 _ prepend prepended buf x e e_other d =>
      encode_lz4 (fun _ => unprefixed prepend e e_other) prepend x
      :: dec_on e (decode_lz4 (fun _ _ => lres_of d) (fun _ => lres_of d) buf prepended)
  | CLz4Frame buf x frame d => [decode_lz4 (fun _ _ => lres_of d) (fun _ => lres_of d) buf false frame]
  | _ => []
  end.
