(* Correspondence glue for C29: a case carries the inputs and the implementation's outputs.
   `check`  : the model (Model/NumFns.v, Model/Arith.v, Model/IntText.v) reproduces every output of the
              implementation bit for bit (the tie to the code), and the implementation's `10f64.powf(p)` satisfies the
              faithfulness assumption the model makes about it;
   `oracle` : the property's own laws judged on the implementation's outputs alone, with exact integer arithmetic on
              (mantissa, exponent) pairs (the search leg). *)
From Coq Require Import List NArith ZArith Bool.
From Coq Require Import Floats.SpecFloat.
From VRL Require Import Base.Bytes Base.Value Base.Lit Model.ConvRes Model.Arith Model.IntText Model.NumFns.
Import ListNotations.
Local Open Scope Z_scope.

(* what one call did on the implementation *)
Inductive iout := IOk (v : value) | IErr | IPanic.

Inductive case :=
| CRound (k : rkind) (x : value) (p : option value) (pe : Z) (pw : spec_float) (cls : option rclass) (r : iout)
    (* pe: the precision used (0 when defaulted or not an integer), pw: the implementation's 10f64.powf(pe as f64),
       cls: the regime the Python side (props/C29.py, used by its known-finding matcher) computed for a finite float x *)
| CAbs (x : value) (r : iout)
| CMod (x y : value) (r : iout)
| CToInt (x : value) (r : iout)
| CToFloat (x : value) (r : iout)
| CParseFloat (x : value) (r : iout)
| CParseInt (x : value) (base : option value) (r : iout)
| CToString (x : value) (r : iout)
| CPow (p : Z) (w : spec_float)
| CConvInt (z : Z) (s pi ti tf tif tfs : iout)
    (* s = to_string z, pi = parse_int s, ti = to_int s, tf = to_float z, tif = to_int tf, tfs = to_float s *)
| CConvFloat (f : spec_float) (s pf tf ti tfi : iout).
    (* s = to_string f, pf = parse_float s, tf = to_float s, ti = to_int f, tfi = to_float ti *)

Definition iout_eqb (a b : iout) : bool :=
  match a, b with
  | IOk x, IOk y => value_eqb x y
  | IErr, IErr => true
  | IPanic, IPanic => true
  | _, _ => false
  end.

Definition res_is (m : res value) (r : iout) : bool :=
  match m, r with
  | ROk x, IOk y => value_eqb x y
  | RErr, IErr => true
  | RPanic, IPanic => true
  | _, _ => false
  end.

(* model of a call on the output of a previous call *)
Definition on_ok (r : iout) (f : value -> res value) : res value :=
  match r with IOk v => f v | IErr => RErr | IPanic => RPanic end.

Definition no_fmt_f64 (_ : spec_float) : bytes := [].
Definition no_fmt_ts (_ : Z) : bytes := [].

Definition is_ok_bytes (r : iout) : bool := match r with IOk (VBytes _) => true | _ => false end.

Definition check (c : case) : bool :=
  match c with
  | CRound k x p pe pw cls r =>
      res_is (round_fn (fun _ => pw) k x p) r && pow10_faithful pe pw
      && match cls, x with
         | Some c, VFloat f => rclass_eqb (round_class k f pe pw) c      (* the matcher's classes are the model's *)
         | _, _ => true
         end
  | CAbs x r => res_is (abs_fn x) r
  | CMod x y r => res_is (mod_fn x y) r
  | CToInt x r => res_is (to_int x) r
  | CToFloat x r => res_is (to_float x) r
  | CParseFloat x r => res_is (parse_float x) r
  | CParseInt x b r => res_is (parse_int x b) r
  | CToString x r =>
      match x with
      | VFloat _ | VTs _ => is_ok_bytes r          (* library text: not modelled, see CConvFloat *)
      | _ => res_is (to_string no_fmt_f64 no_fmt_ts x) r
      end
  | CPow p w => pow10_faithful p w
  | CConvInt z s pi ti tf tif tfs =>
      res_is (to_string no_fmt_f64 no_fmt_ts (VInt z)) s
      && res_is (on_ok s (fun v => parse_int v None)) pi
      && res_is (on_ok s to_int) ti
      && res_is (to_float (VInt z)) tf
      && res_is (on_ok tf to_int) tif
      && res_is (on_ok s to_float) tfs
  | CConvFloat f s pf tf ti tfi =>
      is_ok_bytes s
      && res_is (on_ok s parse_float) pf          (* the model's decimal parser on the text the implementation printed *)
      && res_is (on_ok s to_float) tf
      && res_is (to_int (VFloat f)) ti
      && res_is (on_ok ti to_float) tfi
  end.

(* truncated-remainder rules on finite floats: |r| < |y|, r is zero or has the sign of x, x - r is a multiple of y *)
Definition frem_law (x y r : spec_float) : bool :=
  let '(mx, ex) := sf_ME x in
  let '(my, ey) := sf_ME y in
  let '(mr, er) := sf_ME r in
  let e := Z.min ex (Z.min ey er) in
  let X := mx * 2 ^ (ex - e) in
  let Y := my * 2 ^ (ey - e) in
  let R := mr * 2 ^ (er - e) in
  f_is_finite r && (Z.abs R <? Z.abs Y) && (0 <=? R * X) && ((X - R) mod Y =? 0)
  && match r with S754_zero s => Bool.eqb s (match x with S754_zero sx | S754_finite sx _ _ => sx | _ => s end)
               | _ => true end.

Definition as_float (v : value) : option spec_float :=
  match v with VInt z => Some (of_i64 z) | VFloat f => Some f | _ => None end.

(* integer-valued and of magnitude at most 2^53 *)
Definition small_integral (f : spec_float) : bool :=
  match f with
  | S754_zero _ => true
  | S754_finite _ m e =>
      if 0 <=? e then Zpos m * 2 ^ e <=? 2 ^ 53
      else (Zpos m mod 2 ^ (- e) =? 0)
  | _ => false
  end.

Definition oracle (c : case) : bool :=
  match c with
  | CRound k x p pe pw _ r =>
      match p with
      | None | Some (VInt _) =>
          match x with
          | VInt z => iout_eqb r (IOk (VInt z))
          | VFloat f =>
              if f_is_finite f then
                match r with IOk (VFloat y) => round_law k f y pe | _ => false end
              else true
          | _ => true
          end
      | _ => true
      end
  | CAbs x r =>
      match x with
      | VInt z => iout_eqb r (IOk (VInt (if z =? i64_min then i64_min else Z.abs z)))   (* wraps only at the minimum *)
      | VFloat f => iout_eqb r (IOk (VFloat (SFabs f)))                                   (* the magnitude: sign cleared *)
      | _ => true
      end
  | CMod x y r =>
      match x, y with
      | VInt a, VInt b =>
          if b =? 0 then iout_eqb r IErr
          else match r with
               | IOk (VInt q) => (Z.abs q <? Z.abs b) && (0 <=? q * a) && ((a - q) mod b =? 0)
               | _ => false
               end
      | _, _ =>
          match as_float x, as_float y with
          | Some fx, Some fy =>
              if f_is_finite fx && f_is_finite fy then
                if f_is_zero fy then iout_eqb r IErr
                else match r with IOk (VFloat q) => frem_law fx fy q | _ => false end
              else true
          | _, _ => true
          end
      end
  | CConvInt z s pi ti tf tif tfs =>
      is_ok_bytes s
      && iout_eqb pi (IOk (VInt z))                       (* parse_int (to_string z) = z *)
      && iout_eqb ti (IOk (VInt z))                       (* to_int (to_string z) = z *)
      && (if Z.abs z <=? 2 ^ 53 then iout_eqb tif (IOk (VInt z)) else true)   (* to_int (to_float z) = z *)
      && (match tf with IOk (VFloat _) => iout_eqb tfs tf | _ => false end)   (* to_float (to_string z) = to_float z *)
  | CConvFloat f s pf tf ti tfi =>
      is_ok_bytes s
      && iout_eqb pf (IOk (VFloat f))                     (* parse_float (to_string f) = f, bit for bit *)
      && iout_eqb tf (IOk (VFloat f))                     (* to_float (to_string f) = f *)
      && (match ti with
          | IOk (VInt n) =>
              (* truncation: |n| <= |f| < |n| + 1 and same sign, when f is finite and inside the i64 range *)
              if f_is_finite f then
                let '(a, b, e) := common f (of_i64 0) in     (* a * 2^e = f, e <= 0 *)
                let den := 2 ^ (- e) in
                if (Z.abs a <? 2 ^ 63 * den) then
                  (Z.abs n * den <=? Z.abs a) && (Z.abs a <? (Z.abs n + 1) * den) && (0 <=? n * a)
                else true
              else true
          | _ => false
          end)
      && (if small_integral f then
            match tfi with IOk (VFloat g) => sf_eqb (f_norm0 g) (f_norm0 f) | _ => false end   (* to_float (to_int f) = f *)
          else true)
  | _ => true
  end.

(* what the model says, for replay files *)
Definition model_res (m : res value) : iout + bool :=
  match m with ROk v => inl (IOk v) | RErr => inl IErr | RPanic => inl IPanic | RFuel => inr false end.

Definition model_out (c : case) : list (iout + bool) :=
  match c with
  | CRound k x p pe pw _ r => [model_res (round_fn (fun _ => pw) k x p); inr (pow10_faithful pe pw)]
  | CAbs x r => [model_res (abs_fn x)]
  | CMod x y r => [model_res (mod_fn x y)]
  | CToInt x r => [model_res (to_int x)]
  | CToFloat x r => [model_res (to_float x)]
  | CParseFloat x r => [model_res (parse_float x)]
  | CParseInt x b r => [model_res (parse_int x b)]
  | CToString x r => [model_res (to_string no_fmt_f64 no_fmt_ts x)]
  | CPow p w => [inr (pow10_faithful p w)]
  | CConvInt z s pi ti tf tif tfs =>
      [model_res (to_string no_fmt_f64 no_fmt_ts (VInt z)); model_res (on_ok s (fun v => parse_int v None));
       model_res (on_ok s to_int); model_res (to_float (VInt z)); model_res (on_ok tf to_int);
       model_res (on_ok s to_float)]
  | CConvFloat f s pf tf ti tfi =>
      [model_res (on_ok s parse_float); model_res (on_ok s to_float); model_res (to_int (VFloat f));
       model_res (on_ok ti to_float)]
  end.
