(* Correspondence glue for C31.  A case = an event, a list of queries (the tree the implementation's own
   parser produced for the query text, None when it rejected the text) each with the result of running
   `match_datadog_query(., "<text>")` on the event, and the law relating the results (by `kind`).
   check  : the model's match_datadog_query on (tree, event) reproduces every result;
   oracle : the compositional identities of the property on the implementation's results alone. *)
From Coq Require Import List NArith ZArith Bool.
From VRL Require Import Base.Bytes Base.Value Base.Lit Model.DdNode Model.DdMatch.
Import ListNotations.

Inductive mr := RTrue | RFalse | RCompile | ROther.

Inductive case := CM (kind : N) (ev : value) (items : list (option node * mr)).

Definition mr_eqb (a b : mr) : bool :=
  match a, b with
  | RTrue, RTrue | RFalse, RFalse | RCompile, RCompile | ROther, ROther => true
  | _, _ => false
  end.

Definition model_item (ev : value) (n : option node) : option mr :=
  match n with
  | None => Some RCompile
  | Some t =>
      match match_datadog_query fdisp_simple tsdisp_none t ev with
      | MRBool true => Some RTrue
      | MRBool false => Some RFalse
      | MRCompileError => Some RCompile
      | MRUnmodelled => None
      end
  end.

Definition check (c : case) : bool :=
  match c with
  | CM _ ev items =>
      forallb (fun it => match model_item ev (fst it) with
                         | Some r => mr_eqb r (snd it)
                         | None => true
                         end) items
  end.

Definition as_bool (r : mr) : option bool :=
  match r with RTrue => Some true | RFalse => Some false | _ => None end.

Fixpoint all_bools (l : list mr) : option (list bool) :=
  match l with
  | [] => Some []
  | r :: t => match as_bool r, all_bools t with
              | Some b, Some bs => Some (b :: bs)
              | _, _ => None
              end
  end.

Definition split_last {A} (l : list A) : option (list A * A) :=
  match rev l with
  | x :: r => Some (rev r, x)
  | [] => None
  end.

(* kinds:
   0 single (no law)          1 [q; NOT (q)]                    2 [q1..qk; (q1) AND .. AND (qk)]
   3 [q1..qk; (q1) OR .. OR (qk)]   4 [f:[a TO b]; f:>=a; f:<=b] (or the exclusive forms)
   5 two queries that must agree (half-open range vs one comparison, [* TO *] vs _exists_, De Morgan)
   6 [leaf on f; _exists_:f]  (a leaf that holds implies the attribute exists)
   7 [_missing_:f; _exists_:f]
   8 [f:v; f:[v TO *]; f:[* TO v]; f:[v TO v]]  (a field equal to v lies within every range whose bounds are v) *)
Definition law (kind : N) (bs : list bool) : bool :=
  match kind with
  | 1%N => match bs with [a; b] => Bool.eqb b (negb a) | _ => true end
  | 2%N => match split_last bs with Some (xs, r) => Bool.eqb r (forallb (fun x => x) xs) | None => true end
  | 3%N => match split_last bs with Some (xs, r) => Bool.eqb r (existsb (fun x => x) xs) | None => true end
  | 4%N => match bs with [r; a; b] => Bool.eqb r (a && b) | _ => true end
  | 5%N => match bs with [a; b] => Bool.eqb a b | _ => true end
  | 6%N => match bs with [a; b] => implb a b | _ => true end
  | 7%N => match bs with [a; b] => Bool.eqb a (negb b) | _ => true end
  | 8%N => match bs with a :: rest => implb a (forallb (fun x => x) rest) | _ => true end
  | _ => true
  end.

Definition oracle (c : case) : bool :=
  match c with
  | CM kind _ items =>
      let rs := map snd items in
      if existsb (mr_eqb ROther) rs then false           (* a runtime error / panic / non-boolean *)
      else
        match all_bools rs with
        | Some bs => law kind bs
        | None =>
            (* some query does not compile: the composite (last) compiles iff all its components do *)
            match kind, split_last rs with
            | (1 | 2 | 3)%N, Some (xs, r) =>
                Bool.eqb (mr_eqb r RCompile) (existsb (mr_eqb RCompile) xs)
            | _, _ => true
            end
        end
  end.

Definition model_out (c : case) : list (option mr) :=
  match c with CM _ ev items => map (fun it => model_item ev (fst it)) items end.
