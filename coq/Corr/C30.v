(* Correspondence glue for C30.  A case = a query text q with what the implementation did:
     t  = parse(q)            (tree | error | panic)
     l  = to_lucene(t)        (when t is a tree)
     t2 = parse(l), l2 = to_lucene(t2)
     ftab = the Display text of every float bound in t / t2 (f64 Display is not modelled: the model's
            to_lucene is given the implementation's own float texts)
   check  : the model's parse / to_lucene reproduce t, l, t2, l2;
   oracle : the property itself on the implementation's outputs: parse(to_lucene(parse q)) = parse q. *)
From Coq Require Import List NArith ZArith Bool.
From Coq Require Import Floats.SpecFloat.
From VRL Require Import Base.Bytes Base.Value Base.Lit Model.DdNode Model.DdSearch.
Import ListNotations.

Inductive ires := IOk (n : node) | IErr | IPanic.

Inductive case :=
| CParse (q : bytes) (t : ires) (l : bytes) (t2 : ires) (l2 : bytes) (ftab : list (spec_float * bytes)).

Fixpoint fdisp_tab (tab : list (spec_float * bytes)) (f : spec_float) : bytes :=
  match tab with
  | [] => []
  | (g, s) :: r => if sf_eqb g f then s else fdisp_tab r f
  end.

Definition ires_eqb (a b : ires) : bool :=
  match a, b with
  | IOk x, IOk y => node_eqb x y
  | IErr, IErr | IPanic, IPanic => true
  | _, _ => false
  end.

Definition model_parse (q : bytes) : ires :=
  match parse q with
  | PRNode n => IOk n
  | PRError => IErr
  | PRPanic => IPanic
  end.

Definition check (c : case) : bool :=
  match c with
  | CParse q t l t2 l2 ftab =>
      ires_eqb (model_parse q) t &&
      match t with
      | IOk n =>
          bytes_eqb (to_lucene (fdisp_tab ftab) n) l &&
          ires_eqb (model_parse l) t2 &&
          match t2 with
          | IOk n2 => bytes_eqb (to_lucene (fdisp_tab ftab) n2) l2
          | _ => true
          end
      | _ => true
      end
  end.

Definition oracle (c : case) : bool :=
  match c with
  | CParse q t l t2 l2 _ =>
      match t with
      | IOk n => ires_eqb t2 (IOk n)
      | IErr => true
      | IPanic => false
      end
  end.

Definition model_out (c : case) : ires * bytes * ires :=
  match c with
  | CParse q t l t2 l2 ftab =>
      let m := model_parse q in
      match m with
      | IOk n => let l' := to_lucene (fdisp_tab ftab) n in (m, l', model_parse l')
      | _ => (m, [], IErr)
      end
  end.
