(* Correspondence glue for C11.  One case = one operand pair (x, y) with the implementation's answers for
   + - * / and mod, obtained three ways (harness/src/bin/arith.rs): `direct`, `e2e`, `conv` (see Corr/C10.v), plus
   `ref`: for numeric pairs, the answers of an independent reference computed by the Python driver (unbounded
   integers masked to 64 bits, the machine's IEEE doubles through struct, math.fmod) - a third opinion.
   A second shape, CaseLit: the operands are numbers written as LITERALS into the program text, so that the
   compile-time constant evaluator Op::resolve_constant sees them; E = `x op y` or `(x op y) op2 z` is evaluated at
   run time (`[E]`), as a folded constant consumed as a value (`zip([E], [0])`) and through a variable
   (`x = E; object_from_array([["k", x]])`), for + - * /.  All three must be what the model's binop gives (folding
   must give up on zero divisors / NaN rather than produce a different value).
   `check`  : the model reproduces every answer of the implementation (the tie to the code);
   `oracle` : the laws of C11 judged on the implementation's answers alone. *)
From Coq Require Import List NArith ZArith Bool.
From Coq Require Import Floats.SpecFloat.
From VRL Require Import Base.Bytes Base.Value Base.Lit Model.Arith.
Import ListNotations.
Local Open Scope Z_scope.

Record arith5 := Arith5 { r_add : outcome; r_sub : outcome; r_mul : outcome; r_div : outcome; r_rem : outcome }.

(* one expression evaluated at run time, as a folded constant (zip), as a constant through a variable *)
Record fold3 := Fold3 { f_plain : outcome; f_zip : outcome; f_var : outcome }.

Inductive case :=
| Case (x y : value) (direct e2e : arith5) (conv ref : option arith5)
| CaseLit (x y : value) (nest : option (opcode * value)) (lit_ok : bool) (r_a r_s r_m r_d : fold3).

Definition err_eqb (a b : err) : bool :=
  match a, b with EDivZero, EDivZero | ENan, ENan | EType, EType => true | _, _ => false end.

Definition outcome_eqb (a b : outcome) : bool :=
  match a, b with
  | Ok v, Ok w => value_eqb v w
  | Err e, Err f => err_eqb e f
  | _, _ => false
  end.

Definition outcome_eqb_nc (a b : outcome) : bool :=
  match a, b with
  | Ok v, Ok w => value_eqb v w
  | Err _, Err _ => true
  | _, _ => false
  end.

Definition model_table (x y : value) : arith5 :=
  Arith5 (binop OAdd x y) (binop OSub x y) (binop OMul x y) (binop ODiv x y) (binop ORem x y).

Definition table_eqb (eqb : outcome -> outcome -> bool) (a b : arith5) : bool :=
  eqb (r_add a) (r_add b) && eqb (r_sub a) (r_sub b) && eqb (r_mul a) (r_mul b) && eqb (r_div a) (r_div b)
  && eqb (r_rem a) (r_rem b).

Definition converted (v : value) : value :=
  match v with VInt a => VFloat (of_i64 a) | v => v end.

(* `x op y`, or `(x op y) op2 z`: an error of the inner operation is the error of the whole *)
Definition lit_model (o : opcode) (x y : value) (nest : option (opcode * value)) : outcome :=
  match binop o x y, nest with
  | Ok v, Some (o2, z) => binop o2 v z
  | r, _ => r
  end.

Definition fold_matches (m : outcome) (f : fold3) : bool :=
  outcome_eqb_nc m (f_plain f) && outcome_eqb_nc m (f_zip f) && outcome_eqb_nc m (f_var f).

Definition check (c : case) : bool :=
  match c with
  | CaseLit x y nest ok ra rs rm rd =>
      ok && fold_matches (lit_model OAdd x y nest) ra && fold_matches (lit_model OSub x y nest) rs
      && fold_matches (lit_model OMul x y nest) rm && fold_matches (lit_model ODiv x y nest) rd
  | Case x y d e cv _ =>
      table_eqb outcome_eqb (model_table x y) d
      && table_eqb outcome_eqb_nc (model_table x y) e
      && match cv with
         | Some t => table_eqb outcome_eqb (model_table (converted x) (converted y)) t
         | None => true
         end
  end.

(* ---------- the property judged on the implementation's answers ---------- *)

Definition is_err (o : outcome) : bool := match o with Err _ => true | _ => false end.
Definition is_ok_float (o : outcome) : bool := match o with Ok (VFloat _) => true | _ => false end.

(* r is the 64-bit two's-complement wrap of the exact integer z: in range and congruent modulo 2^64 *)
Definition is_wrap_of (z : Z) (o : outcome) : bool :=
  match o with
  | Ok (VInt r) => (- 2 ^ 63 <=? r) && (r <? 2 ^ 63) && ((r - z) mod 2 ^ 64 =? 0)
  | _ => false
  end.

Definition is_int (z : Z) (o : outcome) : bool :=
  match o with Ok (VInt r) => r =? z | _ => false end.

Definition is_bytes (s : bytes) (o : outcome) : bool :=
  match o with Ok (VBytes r) => bytes_eqb r s | _ => false end.

Definition not_nan_result (o : outcome) : bool :=
  match o with Ok (VFloat S754_nan) => false | _ => true end.

Definition zero_divisor (y : value) : bool :=
  match y with
  | VInt 0 => true
  | VFloat (S754_zero _) => true
  | _ => false
  end.

Definition is_inf (v : value) : bool := match v with VFloat (S754_infinity _) => true | _ => false end.

(* s repeated n times, n >= 0, without iterating when s is empty *)
Definition repeated (s : bytes) (n : Z) : bytes :=
  match s with [] => [] | _ => concat (repeat s (Z.to_nat n)) end.

Definition is_mixed (x y : value) : bool :=
  match x, y with VInt _, VFloat _ | VFloat _, VInt _ => true | _, _ => false end.

Definition laws (x y : value) (t : arith5) : bool :=
  not_nan_result (r_add t) && not_nan_result (r_sub t) && not_nan_result (r_mul t) && not_nan_result (r_div t)
  && not_nan_result (r_rem t)
  && match x, y with
     | VInt a, VInt b =>
         (* wrapping + - *; / yields a float and fails exactly on 0; mod: remainder of the truncating division *)
         is_wrap_of (a + b) (r_add t) && is_wrap_of (a - b) (r_sub t) && is_wrap_of (a * b) (r_mul t)
         && (if b =? 0 then is_err (r_div t) && is_err (r_rem t)
             else is_ok_float (r_div t) && is_int (a - b * Z.quot a b) (r_rem t))
     | VInt _, VFloat _ | VFloat _, VInt _ | VFloat _, VFloat _ =>
         (* at least one float: every result is a float or an error; / and mod fail on a zero divisor, and / fails
            otherwise only for inf / inf (NaN) *)
         (is_ok_float (r_add t) || is_err (r_add t)) && (is_ok_float (r_sub t) || is_err (r_sub t))
         && (is_ok_float (r_mul t) || is_err (r_mul t))
         && (if zero_divisor y then is_err (r_div t) && is_err (r_rem t)
             else (is_ok_float (r_div t) || (is_err (r_div t) && is_inf x && is_inf y))
                  && (is_ok_float (r_rem t) || (is_err (r_rem t) && is_inf x)))
     | VBytes s, VBytes u =>
         is_bytes (s ++ u) (r_add t) && is_err (r_sub t) && is_err (r_mul t) && is_err (r_div t) && is_err (r_rem t)
     | VBytes s, VNull =>
         is_bytes s (r_add t) && is_err (r_sub t) && is_err (r_mul t) && is_err (r_div t) && is_err (r_rem t)
     | VNull, VBytes u =>
         is_bytes u (r_add t) && is_err (r_sub t) && is_err (r_mul t) && is_err (r_div t) && is_err (r_rem t)
     | VBytes s, VInt n =>
         is_bytes (repeated s (Z.max n 0)) (r_mul t) && is_err (r_add t) && is_err (r_sub t) && is_err (r_div t)
         && is_err (r_rem t)
     | VInt n, VBytes s =>
         is_bytes (repeated s (Z.max n 0)) (r_mul t) && is_err (r_add t) && is_err (r_sub t) && is_err (r_div t)
         && is_err (r_rem t)
     | _, _ =>
         is_err (r_add t) && is_err (r_sub t) && is_err (r_mul t) && is_err (r_div t) && is_err (r_rem t)
     end.

(* compile-time folding is unobservable: the folded constant is the run-time value *)
Definition fold_agrees (f : fold3) : bool :=
  outcome_eqb_nc (f_plain f) (f_zip f) && outcome_eqb_nc (f_plain f) (f_var f)
  && not_nan_result (f_plain f) && not_nan_result (f_zip f) && not_nan_result (f_var f).

Definition oracle (c : case) : bool :=
  match c with
  | CaseLit _ _ _ ok ra rs rm rd => ok && fold_agrees ra && fold_agrees rs && fold_agrees rm && fold_agrees rd
  | Case x y d e cv rf =>
      laws x y d && laws x y e && table_eqb outcome_eqb_nc d e
      && match cv with
         | Some t => table_eqb outcome_eqb d t     (* mixed = the float operation on the converted integer *)
         | None => negb (is_mixed x y)
         end
      && match rf with
         | Some t => table_eqb outcome_eqb d t     (* the independent reference agrees, bit for bit *)
         | None => true
         end
  end.

Definition model_out (c : case) : arith5 + list outcome :=
  match c with
  | Case x y _ _ _ _ => inl (model_table x y)
  | CaseLit x y nest _ _ _ _ _ =>
      inr [lit_model OAdd x y nest; lit_model OSub x y nest; lit_model OMul x y nest; lit_model ODiv x y nest]
  end.
