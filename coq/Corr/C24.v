(* Correspondence glue for C24: a case carries the inputs and the implementation's outputs.
   `check`  : the models reproduce the encoder output byte for byte and the parser result value for value
              (the parser is run on the implementation's own encoder output, so the two ties are independent);
   `oracle` : parse (encode x) = x judged on the implementation's outputs alone, exactly under the property's
              preconditions (flat object of non-empty valid-UTF-8 strings, non-empty matching delimiters of the
              shape the theorem covers: key-value delimiter not starting with space/tab, field delimiter " " or
              not starting with a space;
              any list of byte strings and a one-byte delimiter other than quote/CR/LF for CSV). *)
From Coq Require Import List NArith Bool.
From VRL Require Import Base.Bytes Model.CodecUtf8 Model.KeyValue Model.Csv.
Import ListNotations.

(* bytes -> chars as the implementation does it (from_utf8_lossy, then chars()) and back *)
Definition cps (b : bytes) : str := utf8_chars (utf8_lossy b).
Definition ofcps (s : str) : bytes := utf8_of_cps s.

Inductive ival := IStr (b : bytes) | ITrue | IArr (l : list bytes) | IOther.
Inductive eres := EOk (b : bytes) | EErr | ENone.
Inductive dres := DOk (o : list (bytes * ival)) | DErr | DNone.
Inductive cres := COk (l : list bytes) | CErr | CNone.

Inductive case :=
| CKv (o : list (bytes * bytes)) (kvd fd : bytes) (ws : wsmode) (sk : bool) (enc : eres) (dec : dres)
| CKvParse (t kvd fd : bytes) (ws : wsmode) (sk : bool) (dec : dres)
| CCsv (l : list bytes) (d : bytes) (enc : eres) (dec : cres)
| CCsvParse (t d : bytes) (dec : cres).

Definition obj_cps (o : list (bytes * bytes)) : list (str * str) := map (fun kv => (cps (fst kv), cps (snd kv))) o.

Fixpoint list_eqb {A} (f : A -> A -> bool) (a b : list A) : bool :=
  match a, b with
  | [], [] => true
  | x :: a', y :: b' => f x y && list_eqb f a' b'
  | _, _ => false
  end.

Definition ival_of (v : pval) : ival :=
  match v with PStr s => IStr (ofcps s) | PTrue => ITrue | PArr l => IArr (map ofcps l) end.

Definition ival_eqb (a b : ival) : bool :=
  match a, b with
  | IStr x, IStr y => bytes_eqb x y
  | ITrue, ITrue => true
  | IArr x, IArr y => list_eqb bytes_eqb x y
  | _, _ => false
  end.

Definition entry_eqb (a b : bytes * ival) : bool := bytes_eqb (fst a) (fst b) && ival_eqb (snd a) (snd b).

Definition dres_matches (m : presult) (i : dres) : bool :=
  match m, i with
  | POk o, DOk o' => list_eqb entry_eqb (map (fun kv => (ofcps (fst kv), ival_of (snd kv))) o) o'
  | PErr, DErr => true
  | _, _ => false
  end.

Definition model_parse (t kvd fd : bytes) (ws : wsmode) (sk : bool) : presult :=
  parse_key_value (cps kvd) (cps fd) ws sk (cps t).

Definition model_encode (o : list (bytes * bytes)) (kvd fd : bytes) : bytes :=
  ofcps (to_string (cps kvd) (cps fd) (obj_cps o)).

Definition cres_matches (m : option (list bstr)) (i : cres) : bool :=
  match m, i with
  | Some l, COk l' => list_eqb bytes_eqb l l'
  | None, CErr => true
  | _, _ => false
  end.

Definition check (c : case) : bool :=
  match c with
  | CKv o kvd fd ws sk enc dec =>
      match enc with
      | EOk e => bytes_eqb (model_encode o kvd fd) e && dres_matches (model_parse e kvd fd ws sk) dec
      | _ => false                                  (* encode_key_value never fails on an object of strings *)
      end
  | CKvParse t kvd fd ws sk dec => dres_matches (model_parse t kvd fd ws sk) dec
  | CCsv l d enc dec =>
      match encode_csv_fn l d, enc with
      | Some m, EOk e => bytes_eqb m e && cres_matches (parse_csv_fn e d) dec
      | None, EErr => match dec with CNone => true | _ => false end
      | _, _ => false
      end
  | CCsvParse t d dec => cres_matches (parse_csv_fn t d) dec
  end.

(* ---- the property on the implementation's outputs alone *)
Definition valid_nonempty (b : bytes) : bool := negb (is_nil b) && valid_utf8 b.

Definition kv_precondition (o : list (bytes * bytes)) (kvd fd : bytes) : bool :=
  forallb (fun kv => valid_nonempty (fst kv) && valid_nonempty (snd kv)) o
  && valid_nonempty kvd && valid_nonempty fd && good_delims (cps kvd) (cps fd).

Definition same_object (o : list (bytes * bytes)) (d : dres) : bool :=
  match d with
  | DOk o' => list_eqb entry_eqb (map (fun kv => (fst kv, IStr (snd kv))) o) o'
  | _ => false
  end.

Definition oracle (c : case) : bool :=
  match c with
  | CKv o kvd fd ws sk enc dec => if kv_precondition o kvd fd then same_object o dec else true
  | CKvParse _ _ _ _ _ _ => true
  | CCsv l d enc dec =>
      match d with
      | [b] => if good_delim b then match dec with COk l' => list_eqb bytes_eqb l l' | _ => false end else true
      | _ => true
      end
  | CCsvParse _ _ _ => true
  end.

(* what the model says, for replay files *)
Inductive mout :=
| MKv (enc : bytes) (dec : presult) (dec_bytes : option (list (bytes * ival)))
| MCsv (enc : option bstr) (dec : option (list bstr)).

Definition presult_bytes (r : presult) : option (list (bytes * ival)) :=
  match r with POk o => Some (map (fun kv => (ofcps (fst kv), ival_of (snd kv))) o) | _ => None end.

Definition model_out (c : case) : mout :=
  match c with
  | CKv o kvd fd ws sk _ _ =>
      let e := model_encode o kvd fd in
      let r := model_parse e kvd fd ws sk in MKv e r (presult_bytes r)
  | CKvParse t kvd fd ws sk _ => let r := model_parse t kvd fd ws sk in MKv t r (presult_bytes r)
  | CCsv l d _ _ =>
      let e := encode_csv_fn l d in
      MCsv e (match e with Some x => parse_csv_fn x d | None => None end)
  | CCsvParse t d _ => MCsv (Some t) (parse_csv_fn t d)
  end.
