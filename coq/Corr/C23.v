(* Correspondence glue for C23.  A case carries the inputs and what the implementation returned.
   `check`  : the model reproduces the implementation.  For the AES names the block cipher argument of the
              model is instantiated with AES itself (Model/Aes.v), so ciphertext BYTES are compared: the mode
              models (chaining, counters, paddings) are tied to the code, not only lengths.  For the AEAD / SIV
              names only outcome classes and lengths are modelled.  The IP functions are exact in both modes:
              `aes128` (ipcrypt-deterministic) is one AES-128 block, `pfx` is the ipcrypt-pfx bit loop of
              Model/IpPfx.v over AES-128 with the two key halves.
   `oracle` : the property itself on the implementation's outputs alone: decrypt(encrypt(p)) = p for an
              accepted name with a key / IV of the required sizes; decrypt_ip(encrypt_ip(a)) is the same
              address. *)
From Coq Require Import String.
From Coq Require Import List NArith ZArith Bool Arith.
From VRL Require Import Base.Bytes Base.Lit Model.ConvRes Model.Padding Model.Modes Model.Aes Model.Ip Model.CipherGlue
     Model.IpPfx.
Import ListNotations.

(* what the implementation did in one step; error tags: 1 alg, 2 key, 3 iv, 4 input, 5 parse, 6 mode,
   7 compile, 9 other; INone = the step was not run *)
Inductive ires := IOk (b : bytes) | IErr (tag : N) | IPanic | INone.

Definition cres_eqb (m : cres) (i : ires) : bool :=
  match m, i with
  | COk a, IOk b => bytes_eqb a b
  | CErrAlg, IErr 1 | CErrKey, IErr 2 | CErrIv, IErr 3 | CErrInput, IErr 4 => true
  | CPanic, IPanic => true
  | _, _ => false
  end.

Definition ipres_eqb (m : ipres) (i : ires) : bool :=
  match m, i with
  | IpOk a, IOk b => bytes_eqb a b
  | IpErrParse, IErr 5 | IpErrMode, IErr 6 | IpErrKey, IErr 2 => true
  | IpPanic, IPanic => true
  | _, _ => false
  end.

Definition is_ok_eq (i : ires) (x : bytes) : bool := match i with IOk b => bytes_eqb b x | _ => false end.
Definition is_err (i : ires) : bool := match i with IErr _ => true | _ => false end.
Definition on_ok (e : ires) (f : bytes -> bool) : bool := match e with IOk b => f b | _ => true end.

Inductive case :=
| CSym (konst : bool) (name p k iv : bytes) (enc dec : ires)
| CDec (konst : bool) (name c k iv : bytes) (dec : ires)
| CIp (pre : bool) (ip k mode : bytes) (pre_r enc dec : ires)
| CIpDec (ip k mode : bytes) (dec : ires).

(* the AEADs are not modelled: a stand-in of the right length (tag || data), `open` failing on anything
   shorter than a tag *)
Definition stub_seal (a : aead) (k n p : bytes) : bytes := repeat 0%N 16 ++ p.
Definition stub_open (a : aead) (k n c : bytes) : option bytes :=
  if Nat.ltb (length c) 16 then None else Some (skipn 16 c).

(* AES with the schedule prepared once per case *)
Definition aes_prims (k : bytes) : prims :=
  let rks := round_keys k in
  mkPrims (fun _ b => aes_enc_rk rks b) (fun _ b => aes_dec_rk rks b) stub_seal stub_open.

Definition prim_of (name : bytes) : option prim := lookup enc_table (upper_name name).
Definition is_aead (name : bytes) : bool :=
  match prim_of name with Some (PAead _) => true | _ => false end.

(* the model's verdict on the constant-argument compile check *)
Definition compile_ok (konst : bool) (name : bytes) : bool :=
  negb konst || compiles_with_constant name.

Definition check_sym (name p k iv : bytes) (enc dec : ires) : bool :=
  let P := aes_prims k in
  let m := encrypt P (crate_filler (length p)) name p k iv in
  if is_aead name then
    match m with
    | COk mc => match enc with
                | IOk c => Nat.eqb (length c) (length mc) && is_ok_eq dec p     (* open (seal p) = p *)
                | _ => false
                end
    | _ => cres_eqb m enc && match dec with INone => true | _ => false end
    end
  else
    cres_eqb m enc
    && match enc with
       | IOk c => cres_eqb (decrypt P name c k iv) dec
       | _ => match dec with INone => true | _ => false end
       end.

Definition check_dec (name c k iv : bytes) (dec : ires) : bool :=
  let P := aes_prims k in
  let m := decrypt P name c k iv in
  if is_aead name then
    match m with
    | COk _ => match dec with IOk _ | IErr 4 => true | _ => false end    (* authentication is not modelled *)
    | _ => cres_eqb m dec                                               (* incl. "Invalid input" for fewer than 16 bytes *)
    end
  else cres_eqb m dec.

(* kept for the shape of the case terms: the observed result is no longer needed *)
Definition obs_bytes (i : ires) : bytes := [].

Definition ip_prims (obs : bytes) : ipprims :=
  mkIpPrims aes_enc aes_dec (pfx_encrypt_bytes aes_enc) (pfx_decrypt_bytes aes_enc).

Definition eff_ip (pre : bool) (ip : bytes) (pre_r : ires) : option bytes :=
  if pre then match pre_r with IOk b => Some b | _ => None end else Some ip.

Definition check (c : case) : bool :=
  match c with
  | CSym konst name p k iv enc dec =>
      if compile_ok konst name then check_sym name p k iv enc dec
      else match enc, dec with IErr 7, INone => true | _, _ => false end
  | CDec konst name c k iv dec =>
      if compile_ok konst name then check_dec name c k iv dec
      else match dec with IErr 7 => true | _ => false end
  | CIp pre ip k mode pre_r enc dec =>
      (if pre then ipres_eqb (decrypt_ip (ip_prims (obs_bytes pre_r)) ip k mode) pre_r
       else match pre_r with INone => true | _ => false end)
      && match eff_ip pre ip pre_r with
         | None => match enc, dec with INone, INone => true | _, _ => false end
         | Some ip' =>
             ipres_eqb (encrypt_ip (ip_prims (obs_bytes enc)) ip' k mode) enc
             && match enc with
                | IOk t => ipres_eqb (decrypt_ip (ip_prims (obs_bytes dec)) t k mode) dec
                | _ => match dec with INone => true | _ => false end
                end
         end
  | CIpDec ip k mode dec => ipres_eqb (decrypt_ip (ip_prims (obs_bytes dec)) ip k mode) dec
  end.

(* ---------- the property on the implementation alone ---------- *)

Definition same_addr (t1 t2 : bytes) : bool :=
  match parse_ip t1, parse_ip t2 with
  | Some (V4 a), Some (V4 b) => bytes_eqb (bytes_of_octets a) (bytes_of_octets b)
  | Some (V6 a), Some (V6 b) => bytes_eqb (bytes_of_octets (octets_of_segments a)) (bytes_of_octets (octets_of_segments b))
  | _, _ => false
  end.

Definition oracle (c : case) : bool :=
  match c with
  | CSym konst name p k iv enc dec =>
      match prim_of name with
      | Some pr =>
          if Nat.eqb (length k) (key_len pr) && Nat.eqb (length iv) (iv_len pr)
          then match enc with IOk _ => is_ok_eq dec p | _ => false end      (* the round trip *)
          else is_err enc                                                     (* wrong sizes are refused *)
      | None => is_err enc
      end
  | CDec _ _ _ _ _ _ => true            (* the property says nothing about foreign ciphertexts *)
  | CIp pre ip k mode pre_r enc dec =>
      match eff_ip pre ip pre_r with
      | None => true
      | Some ip' =>
          match parse_ip ip' with
          | None => is_err enc
          | Some _ =>
              if (bytes_eqb mode mode_aes128 && Nat.eqb (length k) 16)
                 || (bytes_eqb mode mode_pfx && Nat.eqb (length k) 32
                     && negb (bytes_eqb (firstn 16 k) (skipn 16 k)))      (* equal halves are refused *)
              then match enc, dec with
                   | IOk _, IOk d => same_addr d ip'
                   | _, _ => false
                   end
              else is_err enc
          end
      end
  | CIpDec _ _ _ _ => true
  end.

(* what the model says, for replay files *)
Inductive mout := MSym (enc dec : cres) | MIp (enc dec : ipres) | MCompileError.

Definition model_out (c : case) : mout :=
  match c with
  | CSym konst name p k iv enc dec =>
      if compile_ok konst name then
        let P := aes_prims k in
        let e := encrypt P (crate_filler (length p)) name p k iv in
        MSym e (match e with COk ct => decrypt P name ct k iv | _ => e end)
      else MCompileError
  | CDec konst name ct k iv dec =>
      if compile_ok konst name then MSym (COk ct) (decrypt (aes_prims k) name ct k iv) else MCompileError
  | CIp pre ip k mode pre_r enc dec =>
      match eff_ip pre ip pre_r with
      | Some ip' =>
          let e := encrypt_ip (ip_prims (obs_bytes enc)) ip' k mode in
          MIp e (match e with IpOk t => decrypt_ip (ip_prims (obs_bytes dec)) t k mode | _ => e end)
      | None => MIp IpErrParse IpErrParse
      end
  | CIpDec ip k mode dec => MIp (IpOk ip) (decrypt_ip (ip_prims (obs_bytes dec)) ip k mode)
  end.
