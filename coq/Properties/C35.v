(* C35 — Embedder type conversions round-trip canonical text.
   Model: Model/Conversion.v (src/compiler/conversion/mod.rs, src/compiler/datetime.rs); chrono's parsers are the
   universally quantified functions cl (zone-less format under a default timezone), cz (zoned format), c3 (RFC 3339),
   c2 (RFC 2822).  Nothing but statements here. *)
From Coq Require Import String.
From Coq Require Import List NArith ZArith Bool Lia.
From Coq Require Import Floats.SpecFloat.
From VRL Require Import Base.Bytes Base.Value Base.Lit Model.ConvRes Model.Arith Model.IntText Model.NumFns Model.UnixTs
  Model.Casing Model.TsText.
From VRL Require Import Proofs.TsTextProofs.
From VRL Require Import Model.Conversion Proofs.ConversionProofs Proofs.ConversionTsProofs.
(* no statement below uses it: required only so that building this file also rebuilds the correspondence glue *)
From VRL Require Corr.C35.
Import ListNotations.
Local Open Scope list_scope.
Local Open Scope Z_scope.

Notation chrono_local tzT := (tzT -> bytes -> bytes -> option dt).
Notation chrono_zoned := (bytes -> bytes -> option dt).
Notation chrono_text := (bytes -> option dt).

(* ---------------- integers ---------------- *)

(* every i64 (i64::MIN included): i64's Display never fails and the integer conversion reads the text back *)
Theorem C35_int : forall tzT (cl : chrono_local tzT) (cz : chrono_zoned) (c3 c2 : chrono_text) z,
  ConvRes.in_i64 z = true ->
  exists s, int_to_string z = ROk s /\ convert tzT cl cz c3 c2 CInteger s = COk (VInt z).
Proof. exact int_roundtrip. Qed.
Print Assumptions C35_int.

(* and it accepts nothing but an i64 in decimal ([+-]digits, no white space, no overflow) *)
Theorem C35_int_only_decimal : forall tzT (cl : chrono_local tzT) (cz : chrono_zoned) (c3 c2 : chrono_text) s v,
  convert tzT cl cz c3 c2 CInteger s = COk v ->
  exists z, v = VInt z /\ ConvRes.in_i64 z = true /\ from_str_radix s 10 = Some z.
Proof. exact int_only_decimal. Qed.
Print Assumptions C35_int_only_decimal.

(* ---------------- booleans ---------------- *)

(* spellings true = true, t, yes, y; spellings false = false, f, no, n: every way of capitalising them *)
Theorem C35_bool : forall tzT (cl : chrono_local tzT) (cz : chrono_zoned) (c3 c2 : chrono_text) b l s,
  In l (spellings b) -> map to_lower s = l -> convert tzT cl cz c3 c2 CBoolean s = COk (VBool b).
Proof. exact bool_spellings. Qed.
Print Assumptions C35_bool.

Theorem C35_bool_numeric : forall tzT (cl : chrono_local tzT) (cz : chrono_zoned) (c3 c2 : chrono_text) s n,
  parse_i64 s = Some n -> convert tzT cl cz c3 c2 CBoolean s = COk (VBool (negb (n =? 0))).
Proof. exact bool_numeric. Qed.
Print Assumptions C35_bool_numeric.

Theorem C35_bool_exact : forall tzT (cl : chrono_local tzT) (cz : chrono_zoned) (c3 c2 : chrono_text) s v,
  convert tzT cl cz c3 c2 CBoolean s = COk v ->
  exists b, v = VBool b /\
    (In (map to_lower s) (spellings b) \/ exists n, parse_i64 s = Some n /\ b = negb (n =? 0)).
Proof. exact bool_exact. Qed.
Print Assumptions C35_bool_exact.

Example C35_bool_examples :
  parse_bool (ascii_bytes "YeS") = Some true /\ parse_bool (ascii_bytes "fALSE") = Some false
  /\ parse_bool (ascii_bytes "-7") = Some true /\ parse_bool (ascii_bytes "+00") = Some false
  /\ parse_bool (ascii_bytes "on") = None /\ parse_bool (ascii_bytes " true") = None.
Proof. vm_compute. repeat split. Qed.

(* ---------------- names ---------------- *)

(* Conversion::parse accepts exactly the documented names: `documented` is the table asis|bytes|string, integer|int,
   float, bool|boolean, timestamp; `trim` is str::trim; 124 is '|' *)
Theorem C35_names : forall tzT name (tz : tzT) c,
  parse_conv tzT name tz = Some c <->
    ((no_bar name /\ documented tzT tz (trim name) c)
     \/ (exists a fmt, name = a ++ 124%N :: fmt /\ no_bar a /\ trim a = name_timestamp
                       /\ c = conv_timestamp tzT (trim fmt) tz)).
Proof. exact names_exact. Qed.
Print Assumptions C35_names.

Theorem C35_names_sound : forall tzT p1 p2 w (tz : tzT),
  ascii_ws_pad p1 -> ascii_ws_pad p2 -> In w all_names ->
  exists c, parse_conv tzT (p1 ++ w ++ p2) tz = Some c /\ documented tzT tz w c.
Proof. exact names_sound. Qed.
Print Assumptions C35_names_sound.

Example C35_names_examples :
  parse_conv unit (ascii_bytes " int ") tt = Some CInteger
  /\ parse_conv unit (ascii_bytes "Int") tt = None
  /\ parse_conv unit (ascii_bytes "int|") tt = None
  /\ parse_conv unit (ascii_bytes "timestamp | %F %T %z ") tt = Some (CTimestampTzFmt (ascii_bytes "%F %T %z"))
  /\ parse_conv unit (ascii_bytes "timestamp|%F %T") tt = Some (CTimestampFmt (ascii_bytes "%F %T") tt)
  /\ parse_conv unit (ascii_bytes "timestamp|") tt = Some (CTimestampFmt [] tt)
  /\ parse_conv unit (hx "e38080626f6f6cc2a0") tt = Some CBoolean          (* U+3000 bool U+00A0 *)
  /\ parse_conv unit (hx "e2808b626f6f6c") tt = None.                      (* U+200B is not white space *)
Proof. vm_compute. repeat split. Qed.

(* ---------------- the default timezone ---------------- *)

(* a format in which format_has_zone finds a zone: the conversion does not depend on the default timezone, nor on
   anything chrono does with a default timezone (cl and cl' are arbitrary) *)
Theorem C35_tz_indep : forall tzT (cz : chrono_zoned) (c3 c2 : chrono_text) (cl cl' : chrono_local tzT) fmt tz1 tz2 s,
  format_has_zone fmt = true ->
  convert tzT cl cz c3 c2 (conv_timestamp tzT fmt tz1) s = convert tzT cl' cz c3 c2 (conv_timestamp tzT fmt tz2) s.
Proof. exact tz_indep_fmt. Qed.
Print Assumptions C35_tz_indep.

(* by name: every accepted name except `timestamp` and `timestamp|<format without a zone>` *)
Theorem C35_tz_indep_names : forall tzT (cz : chrono_zoned) (c3 c2 : chrono_text) (cl cl' : chrono_local tzT)
                                    name tz1 tz2 c1 s,
  parse_conv tzT name tz1 = Some c1 -> tz_free tzT c1 = true ->
  exists c2', parse_conv tzT name tz2 = Some c2' /\
              convert tzT cl cz c3 c2 c1 s = convert tzT cl' cz c3 c2 c2' s.
Proof. exact tz_indep_names. Qed.
Print Assumptions C35_tz_indep_names.

(* the auto-detecting conversion: same answer under two default timezones for every text that none of the eight
   zone-less formats tried first accepts under either *)
Theorem C35_tz_indep_auto : forall tzT (cz : chrono_zoned) (c3 c2 : chrono_text) (cl : chrono_local tzT) tz1 tz2 s,
  (forall f, In f local_formats -> cl tz1 s f = None /\ cl tz2 s f = None) ->
  convert tzT cl cz c3 c2 (CTimestamp tz1) s = convert tzT cl cz c3 c2 (CTimestamp tz2) s.
Proof. exact tz_indep_auto. Qed.
Print Assumptions C35_tz_indep_auto.

(* that hypothesis is satisfiable with a successful conversion, and cannot be dropped *)
Theorem C35_tz_indep_auto_inhabited :
  (exists (cl : bool -> bytes -> bytes -> option dt) (c3 : bytes -> option dt) (s : bytes),
      (forall f, In f local_formats -> cl true s f = None /\ cl false s f = None)
      /\ convert bool cl (fun _ _ => None) c3 (fun _ => None) (CTimestamp true) s = COk (VTs 1572139800000000005))
  /\ (exists (cl : bool -> bytes -> bytes -> option dt) (s : bytes),
      convert bool cl (fun _ _ => None) (fun _ => None) (fun _ => None) (CTimestamp true) s
      <> convert bool cl (fun _ _ => None) (fun _ => None) (fun _ => None) (CTimestamp false) s).
Proof. exact tz_indep_auto_inhabited. Qed.
Print Assumptions C35_tz_indep_auto_inhabited.

(* ---------------- floats ---------------- *)

(* Full statement: for every finite f, convert Float (Display f) = f.  f64's Display (shortest digits that read back,
   core::fmt::float) is not modelled; proved: whenever the printed text reads back under the (exact, correctly
   rounded) parser model, the conversion returns f.  The oracle checks the premise on the implementation for every
   generated bit pattern. *)
Theorem C35_float_partial : forall tzT (cl : chrono_local tzT) (cz : chrono_zoned) (c3 c2 : chrono_text)
                                   (fmt_f64 : spec_float -> bytes) f,
  parse_f64 (fmt_f64 f) = Some f -> f_is_nan f = false ->
  convert tzT cl cz c3 c2 CFloat (fmt_f64 f) = COk (VFloat f).
Proof. exact float_text. Qed.
Print Assumptions C35_float_partial.

Theorem C35_float_partial_inhabited :
  exists (fmt_f64 : spec_float -> bytes) f, parse_f64 (fmt_f64 f) = Some f /\ f_is_nan f = false
    /\ f = f64_of_bits 0x3fb999999999999a.
Proof. exists (fun _ => ascii_bytes "0.1"), (f64_of_bits 0x3fb999999999999a). vm_compute. repeat split. Qed.
Print Assumptions C35_float_partial_inhabited.

(* closed for the integer-valued texts: the decimal text of any i64 converts to `z as f64` *)
Theorem C35_float_int_text : forall tzT (cl : chrono_local tzT) (cz : chrono_zoned) (c3 c2 : chrono_text) z,
  ConvRes.in_i64 z = true ->
  exists s, int_to_string z = ROk s /\ convert tzT cl cz c3 c2 CFloat s = COk (VFloat (of_i64 z)).
Proof. exact float_int_text. Qed.
Print Assumptions C35_float_int_text.

(* the float conversion never produces NaN ("nan" is an error) *)
Theorem C35_float_nan : forall tzT (cl : chrono_local tzT) (cz : chrono_zoned) (c3 c2 : chrono_text) s v,
  convert tzT cl cz c3 c2 CFloat s = COk v -> exists f, v = VFloat f /\ f_is_nan f = false.
Proof. exact float_never_nan. Qed.
Print Assumptions C35_float_nan.

(* ---------------- timestamps ---------------- *)

(* Full statement: for every timestamp t and default timezone, convert Timestamp (t.to_rfc3339()) = t.
   format_layout LRfc3339 is the model of that text (Model/TsText.v; the correspondence compares it with to_rfc3339()
   on every generated timestamp).  Proved under two hypotheses about chrono: no zone-less format of the list accepts
   such a text, and parse_from_rfc3339 reads it back.  That the unix-seconds branch does not take it is proved. *)
Theorem C35_rfc3339_partial : forall tzT (cl : chrono_local tzT) (cz : chrono_zoned) (c3 c2 : chrono_text),
  (forall tz ns f, In f local_formats -> cl tz (format_layout LRfc3339 ns) f = None) ->
  (forall ns, ts_in_range ns = true -> c3 (format_layout LRfc3339 ns) = Some (dt_of_ns ns)) ->
  forall ns tz, ts_in_range ns = true ->
    convert tzT cl cz c3 c2 (CTimestamp tz) (format_layout LRfc3339 ns) = COk (VTs ns).
Proof. exact rfc3339_roundtrip. Qed.
Print Assumptions C35_rfc3339_partial.

Theorem C35_rfc3339_partial_inhabited :
  exists (cl : chrono_local unit) (c3 : chrono_text),
    (forall tz ns f, In f local_formats -> cl tz (format_layout LRfc3339 ns) f = None)
    /\ (forall ns, ts_in_range ns = true -> c3 (format_layout LRfc3339 ns) = Some (dt_of_ns ns))
    /\ c3 (ascii_bytes "2019-10-27T01:30:00.000000005+00:00") = Some (1572139800, 5).
Proof.
  exists (fun _ _ _ => None),
         (fun s => match parse_layout LRfc3339 s with Some (ROk ns) => Some (dt_of_ns ns) | _ => None end).
  split; [reflexivity|]. split; [|vm_compute; reflexivity].
  intros ns Hr. rewrite (layout_roundtrip LRfc3339 ns Hr). reflexivity.
Qed.
Print Assumptions C35_rfc3339_partial_inhabited.

(* `timestamp|FORMAT` for the full-precision layouts of Model/TsText.v (%+, %Y-%m-%dT%H:%M:%S%.9f%z,
   %Y-%m-%dT%H:%M:%S%.f%:z): if chrono's parse_from_str agrees with that parser model wherever the model answers
   (`agrees`: what C25's correspondence checks), every timestamp chrono can hold, printed in the layout, converts back
   to itself under every default timezone; the zone-less layout %Y-%m-%d %H:%M:%S.%f likewise under UTC *)
Theorem C35_layout_fmt_partial : forall tzT (cl : chrono_local tzT) (cz : chrono_zoned) (c3 c2 : chrono_text) (utc : tzT),
  (forall l ns tz, zoned_layout l = true -> agrees cz l -> ts_in_range ns = true ->
     convert tzT cl cz c3 c2 (conv_timestamp tzT (layout_fmt l) tz) (format_layout l ns) = COk (VTs ns))
  /\ (forall ns, agrees (cl utc) LSpaceNum -> ts_in_range ns = true ->
     convert tzT cl cz c3 c2 (conv_timestamp tzT (layout_fmt LSpaceNum) utc) (format_layout LSpaceNum ns) = COk (VTs ns)).
Proof.
  intros. split; [intros; apply layout_roundtrip_zoned; assumption | intros; apply layout_roundtrip_local; assumption].
Qed.
Print Assumptions C35_layout_fmt_partial.

Theorem C35_layout_fmt_partial_inhabited : forall l, agrees model_chrono l.
Proof.
  intros l s ns H. unfold model_chrono. rewrite layout_fmt_ok, H. eexists. split; [reflexivity|].
  apply datetime_to_utc_of_ns.
Qed.
Print Assumptions C35_layout_fmt_partial_inhabited.

(* ---------------- refuted parts (known findings; each witness is replayed on the implementation) ---------------- *)

(* "formats with an explicit zone give the same instant under every default timezone": %::z and %:::z are explicit
   numeric offsets that format_has_zone does not know; such a format is converted through the default timezone *)
Theorem C35_zone_spec_refuted :
  format_has_zone (ascii_bytes "%F %T %::z") = false /\ format_has_zone (ascii_bytes "%F %T %:::z") = false
  /\ exists (cl : bool -> bytes -> bytes -> option dt) (s : bytes),
       convert bool cl (fun _ _ => None) (fun _ => None) (fun _ => None)
               (conv_timestamp bool (ascii_bytes "%F %T %::z") true) s
       <> convert bool cl (fun _ _ => None) (fun _ => None) (fun _ => None)
               (conv_timestamp bool (ascii_bytes "%F %T %::z") false) s.
Proof. exact zone_spec_refuted. Qed.
Print Assumptions C35_zone_spec_refuted.

(* the converse slip: "%%z" is a literal, the format has no zone, but it is treated as zoned (and can then never parse) *)
Theorem C35_literal_percent_refuted :
  format_has_zone (ascii_bytes "%F %T %%z") = true
  /\ forall tz : unit, conv_timestamp unit (ascii_bytes "%F %T %%z") tz = CTimestampTzFmt (ascii_bytes "%F %T %%z").
Proof. exact literal_percent_refuted. Qed.
Print Assumptions C35_literal_percent_refuted.

(* datetime_to_utc's expect() panics on a leap second whose UTC second-of-minute is not 59 *)
Theorem C35_leap_panic_refuted :
  exists (d : dt) (cl : unit -> bytes -> bytes -> option dt) (fmt s : bytes),
    datetime_to_utc d = RPanic
    /\ convert unit cl (fun _ _ => None) (fun _ => None) (fun _ => None) (CTimestampFmt fmt tt) s = CPanic
    /\ convert unit cl (fun _ _ => None) (fun _ => None) (fun _ => None) (CTimestamp tt) s = CPanic.
Proof. exact leap_panic_refuted. Qed.
Print Assumptions C35_leap_panic_refuted.
