(* C24 — Key-value, logfmt and CSV encoders round-trip.  Statements only; proofs in Proofs/KeyValue*.v, CsvProofs.v.
   Text = list of Unicode scalar values (Model/KeyValue.v), CSV = bytes (Model/Csv.v). *)
From Coq Require Import List NArith Bool.
From VRL Require Import Base.Bytes Model.KeyValue Model.Csv
     Proofs.KeyValueProofs Proofs.KeyValueRT Proofs.KeyValueFuel Proofs.CsvProofs.
Import ListNotations.
Local Open Scope N_scope.

(* ---------------------------------------------------------------- key-value *)
(* For every pair of delimiters of the supported shape, both whitespace modes and both accept_standalone_key
   values, every non-empty key-sorted (= BTreeMap) flat object of non-empty strings outside the four known
   classes (kv_safe) is restored exactly. *)
Theorem C24_kv_roundtrip :
  forall (kvd fd : str) (ws : wsmode) (sk : bool) (o : list (str * str)),
    good_delims kvd fd = true -> o <> [] -> sorted_keys o = true -> nonempty_strings o = true ->
    kv_safe kvd fd o = true ->
    parse_key_value kvd fd ws sk (to_string kvd fd o) = POk (as_parsed o).
Proof. exact kv_roundtrip. Qed.
Print Assumptions C24_kv_roundtrip.

(* a -> x y ; k -> a, backslash, b, space, c, double quote, d (quoted, with backslash and quote); z -> two
   non-ASCII characters; delimiters => and | *)
Example C24_kv_roundtrip_inhabited :
  let o := [([97], [120; 32; 121]); ([107], [97; 92; 98; 32; 99; 34; 100]); ([122], [233; 26085])] in
  good_delims [61; 62] [124] = true /\ sorted_keys o = true /\ nonempty_strings o = true
  /\ kv_safe [61; 62] [124] o = true
  /\ to_string [61; 62] [124] o
     = [97; 61; 62; 34; 120; 32; 121; 34; 124; 107; 61; 62; 34; 97; 92; 92; 98; 32; 99; 92; 34; 100; 34; 124;
        122; 61; 62; 233; 26085].
Proof. vm_compute. repeat split; reflexivity. Qed.

Theorem C24_logfmt_roundtrip :
  forall o : list (str * str),
    o <> [] -> sorted_keys o = true -> nonempty_strings o = true -> logfmt_safe o = true ->
    parse_logfmt (encode_logfmt o) = POk (as_parsed o).
Proof. exact logfmt_roundtrip. Qed.
Print Assumptions C24_logfmt_roundtrip.

Example C24_logfmt_roundtrip_inhabited :
  let o := [([107], [97; 92; 98; 32; 61; 9; 13]); ([109; 115; 103], [39; 104; 105; 39; 32])] in
  sorted_keys o = true /\ nonempty_strings o = true /\ logfmt_safe o = true.
Proof. vm_compute. repeat split; reflexivity. Qed.

(* ---- the four classes are genuine: one witness each, inside exactly one class *)
(* {"k": "a\b"} : encode_string doubles the backslash of an unquoted value, the parser does not unescape it *)
Theorem C24_kv_backslash_refuted :
  exists o, sorted_keys o = true /\ nonempty_strings o = true
    /\ known_backslash o = true /\ known_newline o = false /\ known_squote o = false
    /\ known_delim [c_eq] [c_sp] o = false
    /\ to_string [c_eq] [c_sp] o = [107; 61; 97; 92; 92; 98]
    /\ parse_key_value [c_eq] [c_sp] Lenient true (to_string [c_eq] [c_sp] o) = POk [([107], PStr [97; 92; 92; 98])]
    /\ parse_key_value [c_eq] [c_sp] Lenient true (to_string [c_eq] [c_sp] o) <> POk (as_parsed o).
Proof. exists [([107], [97; 92; 98])]. vm_compute. repeat split; try reflexivity. discriminate. Qed.
Print Assumptions C24_kv_backslash_refuted.

(* {"k": "a<LF>b"} : written as backslash backslash n inside quotes, read back as backslash n (two characters) *)
Theorem C24_kv_newline_refuted :
  exists o, sorted_keys o = true /\ nonempty_strings o = true
    /\ known_backslash o = false /\ known_newline o = true /\ known_squote o = false
    /\ known_delim [c_eq] [c_sp] o = false
    /\ to_string [c_eq] [c_sp] o = [107; 61; 34; 97; 92; 92; 110; 98; 34]
    /\ parse_key_value [c_eq] [c_sp] Lenient true (to_string [c_eq] [c_sp] o) = POk [([107], PStr [97; 92; 110; 98])]
    /\ parse_key_value [c_eq] [c_sp] Lenient true (to_string [c_eq] [c_sp] o) <> POk (as_parsed o).
Proof. exists [([107], [97; 10; 98])]. vm_compute. repeat split; try reflexivity. discriminate. Qed.
Print Assumptions C24_kv_newline_refuted.

(* {"k": "'a'"} : left unquoted, and the parser takes the single quotes as delimiters *)
Theorem C24_kv_squote_refuted :
  exists o, sorted_keys o = true /\ nonempty_strings o = true
    /\ known_backslash o = false /\ known_newline o = false /\ known_squote o = true
    /\ known_delim [c_eq] [c_sp] o = false
    /\ parse_key_value [c_eq] [c_sp] Lenient true (to_string [c_eq] [c_sp] o) = POk [([107], PStr [97])]
    /\ parse_key_value [c_eq] [c_sp] Lenient true (to_string [c_eq] [c_sp] o) <> POk (as_parsed o).
Proof. exists [([107], [39; 97; 39])]. vm_compute. repeat split; try reflexivity. discriminate. Qed.
Print Assumptions C24_kv_squote_refuted.

(* {"k": "a,b"} with ":" and "," : the quoting rule only knows whitespace, quote and '=' *)
Theorem C24_kv_delim_refuted :
  exists o, sorted_keys o = true /\ nonempty_strings o = true /\ good_delims [58] [44] = true
    /\ known_backslash o = false /\ known_newline o = false /\ known_squote o = false
    /\ known_delim [58] [44] o = true
    /\ parse_key_value [58] [44] Lenient true (to_string [58] [44] o) = POk [([98], PTrue); ([107], PStr [97])]
    /\ parse_key_value [58] [44] Lenient true (to_string [58] [44] o) <> POk (as_parsed o).
Proof. exists [([107], [97; 44; 98])]. vm_compute. repeat split; try reflexivity. discriminate. Qed.
Print Assumptions C24_kv_delim_refuted.

(* {} : encoded as the empty text, which parse_key_value rejects *)
Theorem C24_kv_empty_object_refuted :
  forall ws sk, to_string [c_eq] [c_sp] [] = [] /\ parse_key_value [c_eq] [c_sp] ws sk (to_string [c_eq] [c_sp] []) = PErr.
Proof. intros [] []; vm_compute; split; reflexivity. Qed.
Print Assumptions C24_kv_empty_object_refuted.

(* ---- the two paths of encode_string separately (they hold for any terminator / delimiter) *)
(* quoted path: any non-empty string without newline that gets quoted is read back by parse_delimited *)
Theorem C24_kv_quoted_string :
  forall (term s rest : str),
    s <> [] -> has c_nl s = false -> needs_quoting s = true ->
    (parse_field_delimiter term rest <> None \/ space0 rest = []) ->
    parse_delimited c_dq term (encode_string s ++ rest) = Some (s, rest).
Proof.
  intros term s rest Hs Hn Hq Ht. unfold encode_string. rewrite Hq.
  cbn [app]. rewrite <- app_assoc. apply parse_delimited_quoted; auto.
Qed.
Print Assumptions C24_kv_quoted_string.

(* unquoted path: a non-empty string without whitespace, quote, '=', backslash, leading single quote and
   without the first character of the field delimiter is read back by parse_value *)
Theorem C24_kv_unquoted_string :
  forall (fc : N) (fd' v more : str),
    (fc :: fd' = [c_sp] \/ (str_eqb (fc :: fd') [c_sp] = false /\ fc <> c_sp)) ->
    v <> [] -> unq v = true -> has c_bs v = false -> head_is c_sq v = false -> has fc v = false ->
    encode_string v = v
    /\ parse_value (fc :: fd') (encode_string v ++ (fc :: fd') ++ more) = (v, (fc :: fd') ++ more)
    /\ parse_value (fc :: fd') (encode_string v) = (v, []).
Proof.
  intros fc fd' v more Hfd Hne Hu Hb Hs Hf.
  assert (Hok : str_ok [fc] v).
  { split; [auto|]. split.
    - apply has_false_iff. intros x Hx ->. pose proof (unq_no_ws v Hu _ Hx) as W. discriminate W.
    - intros _. repeat split; auto. intros h [<-|[]]; auto. }
  split; [apply encode_string_unq; auto|]. split.
  - apply (parse_value_enc fc fd' Hfd); auto. right. eexists; reflexivity.
  - rewrite <- (app_nil_r (encode_string v)). apply (parse_value_enc fc fd' Hfd); auto.
Qed.
Print Assumptions C24_kv_unquoted_string.

(* the fuel of the model's separated_list1 loop (input length + 1) is never exhausted *)
Theorem C24_kv_fuel_sufficient :
  forall (kvd fd : str) (ws : wsmode) (sk : bool) (s : str), parse_key_value kvd fd ws sk s <> PFuel.
Proof. exact kv_fuel_sufficient. Qed.
Print Assumptions C24_kv_fuel_sufficient.

(* ---------------------------------------------------------------- CSV *)
(* every list of byte strings (also the empty list, empty fields, a single empty field) and every one-byte
   delimiter other than the quote, CR, LF — unless the encoded text begins with EF BB BF *)
Theorem C24_csv_roundtrip :
  forall (d : N) (fields : list bstr),
    good_delim d = true -> known_bom d fields = false -> parse_csv d (encode_csv d fields) = fields.
Proof. exact csv_roundtrip. Qed.
Print Assumptions C24_csv_roundtrip.

Example C24_csv_roundtrip_inhabited :
  good_delim 44 = true
  /\ known_bom 44 [[97; 44; 98]; []; [34; 10]; [239; 187; 191]] = false
  /\ encode_csv 44 [[97; 44; 98]; []; [34; 10]; [239; 187; 191]]
     = [34; 97; 44; 98; 34; 44; 44; 34; 34; 34; 10; 34; 44; 239; 187; 191]
  /\ encode_csv 59 [[]] = [34; 34] /\ known_bom 59 [[]] = false.
Proof. vm_compute. repeat split; reflexivity. Qed.

(* ["<BOM>a", "b"] comes back as ["a", "b"]: csv-core strips a leading UTF-8 BOM *)
Theorem C24_csv_bom_refuted :
  exists d fields, good_delim d = true /\ known_bom d fields = true
    /\ parse_csv d (encode_csv d fields) = [[97]; [98]] /\ parse_csv d (encode_csv d fields) <> fields.
Proof. exists 44, [[239; 187; 191; 97]; [98]]. vm_compute. repeat split; try reflexivity. discriminate. Qed.
Print Assumptions C24_csv_bom_refuted.

(* the hypotheses of the two main theorems leave the interesting inputs in: quoting, escapes, every delimiter pair *)
Theorem C24_nonvacuous :
  (exists o, o <> [] /\ sorted_keys o = true /\ nonempty_strings o = true
     /\ kv_safe [c_eq] [c_sp] o = true /\ kv_safe [58] [44] o = true /\ kv_safe [61; 62] [124] o = true
     /\ kv_safe [58] [9] o = true
     /\ existsb (fun kv => needs_quoting (snd kv) && has c_bs (snd kv) && has c_dq (snd kv)) o = true
     /\ existsb (fun kv => needs_quoting (fst kv)) o = true
     /\ existsb (fun kv => unq (snd kv)) o = true)
  /\ (exists d fs, good_delim d = true /\ known_bom d fs = false /\ existsb (needs_quotes d) fs = true
        /\ existsb (fun f => negb (needs_quotes d f)) fs = true /\ In [] fs).
Proof.
  split.
  - exists [([97; 32; 98], [120]); ([107], [97; 92; 32; 34; 61; 9]); ([122], [233; 26085; 39])].
    vm_compute. repeat split; try reflexivity. discriminate.
  - exists 9, [[97; 9]; []; [98]]. vm_compute. repeat split; auto.
Qed.
Print Assumptions C24_nonvacuous.
