(* C11 - Arithmetic follows the documented numeric semantics.
   Model: Model/Arith.v (src/compiler/value/arithmetic.rs try_add/sub/mul/div/rem, float_result;
   src/stdlib/mod_func.rs).  Nothing but statements here. *)
From Coq Require Import List NArith ZArith Bool String.
From Coq Require Import Floats.SpecFloat.
From VRL Require Import Base.Bytes Base.Value Base.Lit Model.Arith Proofs.ArithProofs Proofs.ArithFloatProofs.
Import ListNotations.
Local Open Scope string_scope.
Local Open Scope list_scope.
Local Open Scope Z_scope.

(* wrap64 is the 64-bit two's-complement wrap: the unique integer in [-2^63, 2^63) congruent to z modulo 2^64 *)
Theorem C11_wrap64_char : forall z : Z,
  in_i64 (wrap64 z) /\ (wrap64 z - z) mod two64 = 0
  /\ (forall r, in_i64 r -> (r - z) mod two64 = 0 -> r = wrap64 z)
  /\ (in_i64 z -> wrap64 z = z).
Proof.
  intros z. split; [apply wrap64_range|]. split; [apply wrap64_mod|]. split; [apply wrap64_unique | apply wrap64_id].
Qed.
Print Assumptions C11_wrap64_char.

(* integer + - * are the exact operation followed by the wrap, for all pairs *)
Theorem C11_int_wrap : forall a b : Z,
  try_add (VInt a) (VInt b) = Ok (VInt (wrap64 (a + b)))
  /\ try_sub (VInt a) (VInt b) = Ok (VInt (wrap64 (a - b)))
  /\ try_mul (VInt a) (VInt b) = Ok (VInt (wrap64 (a * b))).
Proof. exact int_wrap. Qed.
Print Assumptions C11_int_wrap.

(* `/` on two numbers: "divide by zero" when the divisor is 0, 0.0 or -0.0; otherwise the binary64 quotient of the
   operands (integers converted), which is an error instead of a value when it is NaN *)
Theorem C11_div : forall x y : value,
  is_number x = true -> is_number y = true ->
  try_div x y = if divisor_is_zero y then Err EDivZero else float_result (f_div (to_f x) (to_f y)).
Proof. exact div_spec. Qed.
Print Assumptions C11_div.

(* ... it fails with "divide by zero" exactly for a zero divisor (whatever the left operand), and every value it
   yields is a float *)
Theorem C11_div_zero_iff : forall x y : value,
  (try_div x y = Err EDivZero <-> divisor_is_zero y = true)
  /\ (forall v, try_div x y = Ok v -> exists f, v = VFloat f /\ f_is_nan f = false).
Proof. intros x y. split; [apply div_zero_iff | apply div_yields_float]. Qed.
Print Assumptions C11_div_zero_iff.

(* mod(value, modulus) *)
Theorem C11_rem : forall x y : value,
  is_number x = true -> is_number y = true ->
  try_rem x y =
  if divisor_is_zero y then Err EDivZero
  else match x, y with
       | VInt a, VInt b => Ok (VInt (Z.rem a b))
       | _, _ => float_result (sf_rem (to_f x) (to_f y))
       end.
Proof. exact rem_spec. Qed.
Print Assumptions C11_rem.

(* integer mod is the remainder of the truncating division: it has the sign of the dividend, is smaller than the
   divisor in magnitude, needs no wrap (MIN mod -1 = 0), and stays in range *)
Theorem C11_int_rem : forall a b : Z, b <> 0 ->
  try_rem (VInt a) (VInt b) = Ok (VInt (Z.rem a b))
  /\ a = b * Z.quot a b + Z.rem a b /\ Z.abs (Z.rem a b) < Z.abs b /\ 0 <= Z.rem a b * a
  /\ (in_i64 a -> in_i64 (Z.rem a b)).
Proof. exact int_rem. Qed.
Print Assumptions C11_int_rem.

(* an operation mixing an integer and a float equals the float operation on the converted integer:
   integer on the left, all five operations ... *)
Theorem C11_mixed_left : forall (a : Z) (g : spec_float),
  try_add (VInt a) (VFloat g) = try_add (VFloat (of_i64 a)) (VFloat g)
  /\ try_sub (VInt a) (VFloat g) = try_sub (VFloat (of_i64 a)) (VFloat g)
  /\ try_mul (VInt a) (VFloat g) = try_mul (VFloat (of_i64 a)) (VFloat g)
  /\ try_div (VInt a) (VFloat g) = try_div (VFloat (of_i64 a)) (VFloat g)
  /\ try_rem (VInt a) (VFloat g) = try_rem (VFloat (of_i64 a)) (VFloat g).
Proof. exact mixed_arith_l. Qed.
Print Assumptions C11_mixed_left.

(* ... integer on the right: + - * likewise; / and mod test the integer itself for zero, then divide by the
   converted integer *)
Theorem C11_mixed_right : forall (f : spec_float) (b : Z),
  try_add (VFloat f) (VInt b) = try_add (VFloat f) (VFloat (of_i64 b))
  /\ try_sub (VFloat f) (VInt b) = try_sub (VFloat f) (VFloat (of_i64 b))
  /\ try_mul (VFloat f) (VInt b) = try_mul (VFloat f) (VFloat (of_i64 b))
  /\ (b = 0 -> try_div (VFloat f) (VInt b) = Err EDivZero /\ try_rem (VFloat f) (VInt b) = Err EDivZero
               /\ try_div (VFloat f) (VFloat (of_i64 b)) = Err EDivZero
               /\ try_rem (VFloat f) (VFloat (of_i64 b)) = Err EDivZero)
  /\ (b <> 0 -> try_div (VFloat f) (VInt b) = float_result (f_div f (of_i64 b))
                /\ try_rem (VFloat f) (VInt b) = float_result (sf_rem f (of_i64 b))).
Proof.
  intros f b. destruct (mixed_arith_r f b) as (H1 & H2 & H3). destruct (mixed_div_r f b) as (H4 & H5).
  repeat split; auto; try (apply H4; assumption); try (apply H5; assumption).
Qed.
Print Assumptions C11_mixed_right.

(* ... and since the conversion of a non-zero i64 is never a zero, / and mod with the integer on the right are also
   literally the float operation on the converted integer, for every i64.  Uses the real-number semantics of binary64
   (Flocq) and therefore depends on the axioms of Coq's classical reals; see Proofs/ArithFloatProofs.v *)
Theorem C11_mixed_right_div : forall (f : spec_float) (b : Z), in_i64 b ->
  try_div (VFloat f) (VInt b) = try_div (VFloat f) (VFloat (of_i64 b))
  /\ try_rem (VFloat f) (VInt b) = try_rem (VFloat f) (VFloat (of_i64 b)).
Proof. exact mixed_div_right_full. Qed.
Print Assumptions C11_mixed_right_div.

(* two floats: the IEEE-754 binary64 operations (Coq's SpecFloat, round to nearest even) with the NaN check *)
Theorem C11_float_ops : forall f g : spec_float,
  try_add (VFloat f) (VFloat g) = float_result (SFadd 53 1024 f g)
  /\ try_sub (VFloat f) (VFloat g) = float_result (SFsub 53 1024 f g)
  /\ try_mul (VFloat f) (VFloat g) = float_result (SFmul 53 1024 f g)
  /\ (f_is_zero g = false -> try_div (VFloat f) (VFloat g) = float_result (SFdiv 53 1024 f g)).
Proof. exact float_ops_def. Qed.
Print Assumptions C11_float_ops.

(* string + string concatenates; null acts as the empty string on either side *)
Theorem C11_concat : forall s t : bytes,
  try_add (VBytes s) (VBytes t) = Ok (VBytes (s ++ t))
  /\ try_add (VBytes s) VNull = Ok (VBytes s) /\ try_add VNull (VBytes t) = Ok (VBytes t)
  /\ try_add (VBytes s) VNull = try_add (VBytes s) (VBytes []) /\ try_add VNull (VBytes t) = try_add (VBytes []) (VBytes t).
Proof. exact concat_spec. Qed.
Print Assumptions C11_concat.

(* string * n (either order) repeats the string max(n, 0) times *)
Theorem C11_repeat : forall (s : bytes) (n : Z),
  try_mul (VBytes s) (VInt n) = Ok (VBytes (List.concat (repeat s (Z.to_nat (Z.max n 0)))))
  /\ try_mul (VInt n) (VBytes s) = Ok (VBytes (List.concat (repeat s (Z.to_nat (Z.max n 0)))))
  /\ List.length (List.concat (repeat s (Z.to_nat (Z.max n 0)))) = (Z.to_nat (Z.max n 0) * List.length s)%nat.
Proof. intros s n. destruct (repeat_spec s n) as [H1 H2]. repeat split; auto. apply repeat_length. Qed.
Print Assumptions C11_repeat.

(* a float result is never NaN: every operator, every pair of operands of any kinds *)
Theorem C11_never_nan : forall (o : opcode) (x y : value) (f : spec_float),
  binop o x y = Ok (VFloat f) -> f_is_nan f = false.
Proof. exact never_nan. Qed.
Print Assumptions C11_never_nan.

(* the NaN-producing operations fail (they are errors of class NaN, not values) *)
Example C11_nan_cases :
  let inf := f64_of_bits 0x7ff0000000000000 in
  let ninf := f64_of_bits 0xfff0000000000000 in
  binop OAdd (VFloat inf) (VFloat ninf) = Err ENan /\ binop OSub (VFloat inf) (VFloat inf) = Err ENan
  /\ binop OMul (VFloat inf) (VInt 0) = Err ENan /\ binop OMul (VInt 0) (VFloat inf) = Err ENan
  /\ binop ODiv (VFloat inf) (VFloat ninf) = Err ENan /\ binop ORem (VFloat inf) (VInt 1) = Err ENan.
Proof. vm_compute. repeat split; reflexivity. Qed.

(* non-vacuity and concrete instances *)
Example C11_examples :
  binop OAdd (VInt 9223372036854775807) (VInt 1) = Ok (VInt (-9223372036854775808))
  /\ binop OMul (VInt (-9223372036854775808)) (VInt (-1)) = Ok (VInt (-9223372036854775808))
  /\ binop ORem (VInt (-9223372036854775808)) (VInt (-1)) = Ok (VInt 0)
  /\ binop ORem (VInt (-7)) (VInt 2) = Ok (VInt (-1))
  /\ binop ODiv (VInt 1) (VInt 2) = Ok (VFloat (f64_of_bits 0x3fe0000000000000))
  /\ binop ODiv (VBytes (hx "61")) (VInt 0) = Err EDivZero
  /\ binop ODiv (VInt 1) (VFloat (f64_of_bits 0x8000000000000000)) = Err EDivZero
  /\ binop ORem (VFloat (f64_of_bits 0xc016000000000000)) (VInt 2) = Ok (VFloat (f64_of_bits 0xbff8000000000000))
  /\ binop OMul (VBytes (hx "6162")) (VInt 3) = Ok (VBytes (hx "616261626162"))
  /\ binop OMul (VInt (-4)) (VBytes (hx "6162")) = Ok (VBytes [])
  /\ is_number (VInt 3) = true /\ divisor_is_zero (VInt 3) = false.
Proof. vm_compute. repeat split; reflexivity. Qed.
