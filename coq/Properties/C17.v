(* C17 — target faults are contained.
   The target's fault schedule (state field faults) rejects the n-th Target operation when its
   n-th element is true; Model/Eval.v mirrors how each caller treats the rejection
   (.ok().flatten(), drop(target_insert(..)), the root check of Runtime::resolve). *)
From Coq Require Import List NArith ZArith Bool String.
From VRL Require Import Base.Bytes Base.Value Base.Lit Model.ValueCrud Model.Expr Model.Eval Model.EvalInst Model.Info
     Proofs.EvalProofs Proofs.InfoProofs Proofs.FaultProofs.
Import ListNotations.
Local Open Scope string_scope.
Local Open Scope list_scope.
Local Open Scope Z_scope.

(* a rejected read behaves as a missing field: the query yields null and exists yields false,
   exactly as an accepted read of an absent location does *)
Theorem C17_rejected_read_is_missing :
  forall F binop s pfx p fs, pop_fault s = (true, fs) ->
  eval F binop (EQExt pfx p) s = (inl VNull, mkState (vars s) (ev s) (md s) (TGet pfx p :: tlog s) fs)
  /\ eval F binop (EExistsExt pfx p) s =
     (inl (VBool false), mkState (vars s) (ev s) (md s) (TGet pfx p :: tlog s) fs).
Proof. exact rejected_read. Qed.
Print Assumptions C17_rejected_read_is_missing.

Theorem C17_missing_read_reference :
  forall F binop s pfx p fs, pop_fault s = (false, fs) -> get (tval s pfx) p = None ->
  eval F binop (EQExt pfx p) s = (inl VNull, mkState (vars s) (ev s) (md s) (TGet pfx p :: tlog s) fs)
  /\ eval F binop (EExistsExt pfx p) s =
     (inl (VBool false), mkState (vars s) (ev s) (md s) (TGet pfx p :: tlog s) fs).
Proof. exact missing_read. Qed.
Print Assumptions C17_missing_read_reference.

(* a rejected write leaves event, metadata and variables unchanged; the assignment still yields its value *)
Theorem C17_rejected_write_leaves_target :
  forall F binop s e t v s1 fs pfx p,
  eval F binop e s = (inl v, s1) -> t = TExt pfx p -> pop_fault s1 = (true, fs) ->
  exists s2, eval F binop (EAssign t e) s = (inl v, s2) /\ ev s2 = ev s1 /\ md s2 = md s1 /\ vars s2 = vars s1.
Proof. exact rejected_assignment. Qed.
Print Assumptions C17_rejected_write_leaves_target.

(* a rejected deletion leaves the target unchanged and yields null *)
Theorem C17_rejected_delete_leaves_target :
  forall F binop s pfx p c fs, pop_fault s = (true, fs) ->
  exists s', eval F binop (EDelExt pfx p c) s = (inl VNull, s') /\ ev s' = ev s /\ md s' = md s /\ vars s' = vars s.
Proof. exact rejected_delete. Qed.
Print Assumptions C17_rejected_delete_leaves_target.

(* a target whose root cannot be read makes the run end with an error, before any expression runs *)
Theorem C17_unreadable_root_fails :
  forall F binop es s fs, pop_fault s = (true, fs) ->
  run F binop es s = (Failed, mkState (vars s) (ev s) (md s) (tlog s) fs).
Proof. exact unreadable_root. Qed.
Print Assumptions C17_unreadable_root_fails.

Example C17_example :
  let prog := [EAssign (TExt PEvent [SField (hx "61")]) (ELit (VInt 1));
               EAssign (TVar (hx "78") []) (EQExt PEvent [SField (hx "62")]);
               EDelExt PEvent [SField (hx "62")] false] in
  let e0 := VObj [(hx "62", VInt 7)] in
  run_core prog (mkState [] e0 (VObj []) [] [false; true; true; true]) =
    (Success VNull, [(hx "78", VNull)], e0, VObj [])
  /\ run_core prog (mkState [] e0 (VObj []) [] [true]) = (Failed, [], e0, VObj []).
Proof. vm_compute. split; reflexivity. Qed.
