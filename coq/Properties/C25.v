(* C25 — Paired conversion functions are mutually inverse.
   Models: Model/{IntText,Ip,Entries,Flatten,UnixTs,TsText}.v.  Nothing but statements here. *)
From Coq Require Import String.
From Coq Require Import List NArith ZArith Bool Lia.
From VRL Require Import Base.Bytes Base.Value Base.Lit Model.ConvRes Model.IntText Model.Ip Model.Entries
  Model.Flatten Model.UnixTs Model.TsText
  Proofs.IntTextProofs Proofs.IpProofs Proofs.Ip6Proofs Proofs.Ip4CanonProofs Proofs.EntriesProofs Proofs.UnixTsProofs Proofs.FlattenProofs Proofs.TsTextProofs.
(* no statement below uses it: required only so that building this file also rebuilds the correspondence
   glue against the same compiled models *)
From VRL Require Corr.C25.
Import ListNotations.
Local Open Scope list_scope.
Local Open Scope Z_scope.

(* ---------------- format_int / parse_int ---------------- *)

(* every base 2..36, every i64 (i64::MIN included since 12bd79c): format_int succeeds (no panic, the digit
   loop ends within its 64 rounds) and parse_int with the same base returns the number *)
Theorem C25_int : forall base z,
  2 <= base <= 36 -> in_i64 z = true ->
  exists s, format_int (VInt z) (VInt base) = ROk (VBytes s)
            /\ parse_int (VBytes s) (Some (VInt base)) = ROk (VInt z).
Proof. exact int_roundtrip. Qed.
Print Assumptions C25_int.

(* both `base` arguments left out: printed in base 10, and the prefix rules of parse_int pick base 10
   (or base 8 for the text "0") *)
Theorem C25_int_default_base : forall z,
  in_i64 z = true ->
  exists s, format_int_opt (VInt z) None = ROk (VBytes s) /\ parse_int (VBytes s) None = ROk (VInt z).
Proof. exact int_roundtrip_default. Qed.
Print Assumptions C25_int_default_base.

(* the former refutation witness: i64::MIN, where `-x` used to overflow, now round-trips in every base *)
Theorem C25_int_min_roundtrips : forall base, 2 <= base <= 36 ->
  exists s, format_int (VInt i64_min) (VInt base) = ROk (VBytes s)
            /\ parse_int (VBytes s) (Some (VInt base)) = ROk (VInt i64_min).
Proof. exact format_int_min_roundtrips. Qed.
Print Assumptions C25_int_min_roundtrips.

(* ---------------- ip_ntoa / ip_aton ---------------- *)

Theorem C25_ntoa_aton : forall n,
  0 <= n < 4294967296 ->
  exists s, ip_ntoa (VInt n) = ROk (VBytes s) /\ ip_aton (VBytes s) = ROk (VInt n).
Proof. exact ntoa_aton_roundtrip. Qed.
Print Assumptions C25_ntoa_aton.

Theorem C25_aton_ntoa : forall a b c d,
  octet a -> octet b -> octet c -> octet d ->
  exists n, ip_aton (VBytes (ipv4_to_string [a; b; c; d])) = ROk (VInt n)
            /\ ip_ntoa (VInt n) = ROk (VBytes (ipv4_to_string [a; b; c; d])).
Proof. exact aton_ntoa_roundtrip. Qed.
Print Assumptions C25_aton_ntoa.

(* ... and every text ip_aton accepts at all (Ipv4Addr::from_str takes no leading zeros, so an accepted text is
   the canonical one) comes back from ip_ntoa *)
Theorem C25_aton_ntoa_accepted : forall s n,
  ip_aton (VBytes s) = ROk (VInt n) -> ip_ntoa (VInt n) = ROk (VBytes s).
Proof. exact aton_ntoa_accepted. Qed.
Print Assumptions C25_aton_ntoa_accepted.

(* ---------------- ip_ntop / ip_pton ---------------- *)

(* text -> bytes -> text on every IPv4 text ip_pton accepts (an IPv6 text need not be canonical: "0:0::1") *)
Theorem C25_pton_ntop_accepted_v4 : forall s b,
  ip_pton (VBytes s) = ROk (VBytes b) -> length b = 4%nat -> ip_ntop (VBytes b) = ROk (VBytes s).
Proof. exact pton_ntop_accepted_v4. Qed.
Print Assumptions C25_pton_ntop_accepted_v4.

Theorem C25_ntop_pton_v4 : forall b,
  length b = 4%nat -> wf_bytes b = true ->
  exists s, ip_ntop (VBytes b) = ROk (VBytes s) /\ ip_pton (VBytes s) = ROk (VBytes b).
Proof. exact ntop_pton_roundtrip_v4. Qed.
Print Assumptions C25_ntop_pton_v4.

(* every IPv6 address: the text std prints for it (RFC 5952: lower-case hex groups, the first longest run of
   two or more zero groups written "::", "::ffff:a.b.c.d" for IPv4-mapped addresses) is read back by
   IpAddr::from_str as the same eight segments *)
Theorem C25_ipv6_text : forall G,
  length G = 8%nat -> Forall u16 G -> parse_ip (ipv6_to_string G) = Some (V6 G).
Proof. exact ipv6_text_roundtrip. Qed.
Print Assumptions C25_ipv6_text.

Theorem C25_ntop_pton_v6 : forall b,
  length b = 16%nat -> wf_bytes b = true ->
  exists s, ip_ntop (VBytes b) = ROk (VBytes s) /\ ip_pton (VBytes s) = ROk (VBytes b).
Proof. exact ntop_pton_roundtrip_v6. Qed.
Print Assumptions C25_ntop_pton_v6.

(* ---------------- ip_to_ipv6 / ipv6_to_ipv4 on IPv4-mapped addresses ---------------- *)

(* a.b.c.d -> "::ffff:a.b.c.d" -> a.b.c.d; read from the right it is also
   "::ffff:a.b.c.d" -> a.b.c.d -> "::ffff:a.b.c.d" *)
Theorem C25_ipv4_mapped : forall a b c d,
  octet a -> octet b -> octet c -> octet d ->
  let s4 := ipv4_to_string [a; b; c; d] in
  ip_to_ipv6 (VBytes s4) = ROk (VBytes (mapped_text s4)) /\ ipv6_to_ipv4 (VBytes (mapped_text s4)) = ROk (VBytes s4).
Proof. exact mapped_roundtrip. Qed.
Print Assumptions C25_ipv4_mapped.

(* every text that parses as an IPv4 address *)
Theorem C25_to6_to4_accepted : forall s o,
  parse_ip s = Some (V4 o) ->
  exists t, ip_to_ipv6 (VBytes s) = ROk (VBytes t) /\ ipv6_to_ipv4 (VBytes t) = ROk (VBytes s).
Proof. exact to6_to4_accepted. Qed.
Print Assumptions C25_to6_to4_accepted.

(* ---------------- to_entries / from_entries ---------------- *)

(* every object (a BTreeMap: keys strictly increasing) *)
Theorem C25_entries : forall m,
  obj_sorted m = true ->
  to_entries (VObj m) = ROk (VArr (map entry_of m)) /\ from_entries (VArr (map entry_of m)) = ROk (VObj m).
Proof. exact entries_roundtrip. Qed.
Print Assumptions C25_entries.

(* ---------------- flatten / unflatten ---------------- *)

(* Every object that is flat_ok (Proofs/FlattenProofs.v): keys strictly increasing at every object level,
   every key separator-safe (`no_early`: the separator occurs neither inside the key nor straddling the end
   of key ++ separator), every object nested under an object key non-empty.  Arrays and scalars are leaves:
   nothing is asked of them or of what they contain (empty arrays, objects inside arrays are fine).
   flatten with that separator and no `except`, then unflatten with it (recursive or not) restores it. *)
Theorem C25_flatten : forall sep m r,
  sep <> [] -> flat_ok sep m = true ->
  exists y, flatten (VObj m) (VBytes sep) [] = ROk y /\ unflatten y (VBytes sep) (VBool r) = ROk (VObj m).
Proof. exact flatten_unflatten. Qed.
Print Assumptions C25_flatten.

(* in the property's own words for a one-character separator (".", "_", ...): no key contains it and no
   nested object is empty *)
Theorem C25_flatten_single_char_separator : forall c m r,
  flat_plain [c] m = true ->
  exists y, flatten (VObj m) (VBytes [c]) [] = ROk y /\ unflatten y (VBytes [c]) (VBool r) = ROk (VObj m).
Proof. exact flatten_unflatten_single. Qed.
Print Assumptions C25_flatten_single_char_separator.

(* with a separator that overlaps itself "no key contains the separator" is not enough:
   {"xa": {"c": 1}} with separator "aa" comes back as {"x": {"ac": 1}} *)
Theorem C25_flatten_bordered_separator_refuted : exists sep m,
  sep <> [] /\ flat_plain sep m = true /\
  exists y z, flatten (VObj m) (VBytes sep) [] = ROk y /\ unflatten y (VBytes sep) (VBool true) = ROk z /\ z <> VObj m.
Proof.
  exists (hx "6161"), [(hx "7861", VObj [(hx "63", VInt 1)])].
  split; [discriminate|]. split; [reflexivity|].
  eexists. eexists. split; [reflexivity|]. split; [vm_compute; reflexivity|]. vm_compute. discriminate.
Qed.
Print Assumptions C25_flatten_bordered_separator_refuted.

(* ---------------- to_unix_timestamp / from_unix_timestamp ---------------- *)

(* integer -> timestamp -> integer: exact for every unit whenever the integer is accepted *)
Theorem C25_unix_from_to : forall u v t,
  in_i64 v = true -> from_unix_timestamp (VInt v) u = ROk t -> to_unix_timestamp t u = ROk (VInt v).
Proof. exact from_to_unix. Qed.
Print Assumptions C25_unix_from_to.

(* timestamp -> integer -> timestamp, every timestamp chrono can hold (for nanoseconds: those within i64
   nanoseconds, the others are refused by to_unix_timestamp): the result is the timestamp truncated to the
   unit towards minus infinity ... *)
Theorem C25_unix_to_from : forall u ns,
  ts_in_range ns = true -> (u = Nanoseconds -> in_i64 ns = true) ->
  exists v, to_unix_timestamp (VTs ns) u = ROk (VInt v) /\ in_i64 v = true
            /\ from_unix_timestamp (VInt v) u = ROk (VTs (ns - ns mod unit_ns u)).
Proof. exact to_from_unix. Qed.
Print Assumptions C25_unix_to_from.

(* ... hence the timestamp itself when it is a whole number of units *)
Theorem C25_unix_to_from_exact : forall u ns,
  ts_in_range ns = true -> (u = Nanoseconds -> in_i64 ns = true) -> ns mod unit_ns u = 0 ->
  exists v, to_unix_timestamp (VTs ns) u = ROk (VInt v) /\ from_unix_timestamp (VInt v) u = ROk (VTs ns).
Proof. exact to_from_unix_exact. Qed.
Print Assumptions C25_unix_to_from_exact.

(* ---------------- format_timestamp / parse_timestamp ---------------- *)

(* the calendar arithmetic both directions rest on: every day number is the day number of its own date *)
Theorem C25_calendar_inverse : forall z,
  let '(y, m, d) := civil_from_days z in days_from_civil y m d = z.
Proof. exact days_civil. Qed.
Print Assumptions C25_calendar_inverse.

(* Full statement wanted: for every full-precision format f and every timestamp t chrono can hold,
     parse_timestamp (format_timestamp t f) f = t.
   It is false for the formats built on %s (negative epochs) and on %Z (see the known findings), and chrono's
   strftime interpreter is modelled only for the four layouts of Model/TsText.v (layout_of):
     %Y-%m-%dT%H:%M:%S%.9f%z    %Y-%m-%dT%H:%M:%S%.f%:z    %+    %Y-%m-%d %H:%M:%S.%f  (program timezone UTC).
   Proved: on each of these, for every timestamp in chrono's range (years -262143 ..= 262142, nanosecond
   resolution), the modelled parser reads the modelled formatter's text back as the same timestamp. *)
Theorem C25_timestamp_text_layouts_partial : forall fmt l ns,
  layout_of fmt = Some l -> ts_in_range ns = true ->
  exists s, format_timestamp (VTs ns) (VBytes fmt) = Some (ROk (VBytes s))
            /\ parse_timestamp (VBytes s) (VBytes fmt) = Some (ROk (VTs ns)).
Proof. exact timestamp_text_roundtrip. Qed.
Print Assumptions C25_timestamp_text_layouts_partial.

(* ---------------- non-vacuity ---------------- *)
Example C25_hypotheses_nonvacuous :
  (2 <= 36 <= 36 /\ in_i64 i64_min = true
   /\ format_int (VInt i64_min) (VInt 36) = ROk (VBytes (ascii_bytes "-1y2p0ij32e8e8"))
   /\ format_int (VInt i64_min) (VInt 10) = ROk (VBytes (ascii_bytes "-9223372036854775808")))
  /\ (octet 255 /\ octet 0 /\ ipv4_to_string [255; 0; 10; 199] = ascii_bytes "255.0.10.199")
  /\ obj_sorted [(hx "61", VInt 1); (hx "6162", VNull)] = true
  /\ (ts_in_range (-1500000000) = true
      /\ to_unix_timestamp (VTs (-1500000000)) Seconds = ROk (VInt (-2))
      /\ from_unix_timestamp (VInt (-2)) Seconds = ROk (VTs (-2000000000)))
  /\ ts_in_range (ts_min_secs * 1000000000) = true /\ ts_in_range (ts_max_secs * 1000000000 + 999999999) = true.
Proof. vm_compute. repeat split; congruence. Qed.

Example C25_timestamp_text_nonvacuous :
  layout_of (ascii_bytes "%+") = Some LRfc3339
  /\ layout_of (ascii_bytes "%Y-%m-%dT%H:%M:%S%.9f%z") = Some LIsoNano
  /\ layout_of (ascii_bytes "%Y-%m-%dT%H:%M:%S%.f%:z") = Some LIsoAuto
  /\ layout_of (ascii_bytes "%Y-%m-%d %H:%M:%S.%f") = Some LSpaceNum
  /\ format_layout LRfc3339 (-62167219200000000001) = ascii_bytes "-0001-12-31T23:59:59.999999999+00:00"
  /\ format_layout LIsoNano (ts_max_secs * 1000000000 + 5) = ascii_bytes "+262142-12-31T23:59:59.000000005+0000"
  /\ civil_from_days 11016 = (2000, 2, 29).
Proof. vm_compute. repeat split; reflexivity. Qed.

Example C25_ipv6_nonvacuous :
  Forall u16 [8193; 3512; 0; 0; 1; 0; 0; 1] /\ ipv6_to_string [8193; 3512; 0; 0; 1; 0; 0; 1] = ascii_bytes "2001:db8::1:0:0:1"
  /\ ipv6_to_string [0; 0; 0; 0; 0; 0; 0; 0] = ascii_bytes "::"
  /\ ipv6_to_string [0; 0; 0; 0; 0; 65535; 258; 772] = ascii_bytes "::ffff:1.2.3.4"
  /\ ipv6_to_string [1; 0; 2; 0; 3; 0; 4; 0] = ascii_bytes "1:0:2:0:3:0:4:0".
Proof. split; [unfold u16; repeat constructor; lia | vm_compute; repeat split; reflexivity]. Qed.

Example C25_flatten_nonvacuous :
  let m := [(hx "61", VObj [(hx "", VArr []); (hx "782e61", VObj [(hx "63", VArr [VObj []; VObj [(hx "702e71", VNull)]])])]);
            (hx "62", VInt 7)] in
  flat_ok (hx "2e2e") m = true                      (* separator ".." ; the key "x.a" holds half of it *)
  /\ flat_plain (hx "2e") [(hx "61", VObj [(hx "62", VInt 1)]); (hx "63", VArr [])] = true
  /\ flatten (VObj m) (VBytes (hx "2e2e")) [] =
     ROk (VObj [(hx "612e2e", VArr []); (hx "612e2e782e612e2e63", VArr [VObj []; VObj [(hx "702e71", VNull)]]); (hx "62", VInt 7)]).
Proof. vm_compute. repeat split; reflexivity. Qed.
