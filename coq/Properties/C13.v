(* C13 — closure parameters are scoped to the closure. *)
From Coq Require Import List NArith ZArith Bool String.
From VRL Require Import Base.Bytes Base.Value Base.Lit Model.ValueCrud Model.Expr Model.Eval Model.EvalInst Proofs.EvalProofs.
Import ListNotations.
Local Open Scope string_scope.
Local Open Scope list_scope.
Local Open Scope Z_scope.

(* After the iterations of any closure-taking function — however the body behaves (it may assign the
   parameters, fail, return, abort) and however the call ends — every variable named like a parameter
   the function binds holds what it held before (Some value, or None = unset). *)
Theorem C13_closure_params_restored :
  forall (body : state -> res * state) (ps : list ident) (cf : cfn) (v : value) (s : state) (x : ident),
  In (Some x) (cparams cf ps) -> (param ps 0 <> param ps 1 \/ param ps 0 = None) ->
  var_get (vars (snd (run_closure body ps cf v s))) x = var_get (vars s) x.
Proof. exact closure_params_restored. Qed.
Print Assumptions C13_closure_params_restored.

(* the same for the whole call expression, relative to the state in which the iterations start *)
Theorem C13_closure_call_params_restored :
  forall F binop cf arg ps body s v s' x,
  eval F binop arg s = (inl v, s') ->
  In (Some x) (cparams cf ps) -> (param ps 0 <> param ps 1 \/ param ps 0 = None) ->
  var_get (vars (snd (eval F binop (EClosure cf arg ps body) s))) x = var_get (vars s') x.
Proof. exact closure_call_params_restored. Qed.
Print Assumptions C13_closure_call_params_restored.

(* a failing closure whose error is handled: the outer variable keeps its value (the D4 scenario) *)
Example C13_example :
  let s := st0 [(hx "76", VBytes (hx "6f75746572"))] (VObj [(hx "6d", VBytes (hx "616263"))]) (VObj []) in
  run_core
    [EAssign (TVar (hx "72") [])
       (EOp OErr (EClosure CMapValues (ELit (VObj [(hx "6b", VInt 1)])) [hx "76"]
                    [ECall (nm "int") [EQExt PEvent [SField (hx "6d")]]])
                 (ELit VNull));
     EVar (hx "76")] s
  = (Success (VBytes (hx "6f75746572")),
     [(hx "72", VNull); (hx "76", VBytes (hx "6f75746572"))], VObj [(hx "6d", VBytes (hx "616263"))], VObj []).
Proof. vm_compute. reflexivity. Qed.
