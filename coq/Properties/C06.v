(* C06 — `return` always ends the program (or the closure iteration) with its value.
   Model: Model/Eval.v (Expression::resolve of every expression kind, closure Runner, Runtime::resolve).
   All statements hold for every function semantics F and operator semantics binop. *)
From Coq Require Import List NArith ZArith Bool String.
From VRL Require Import Base.Bytes Base.Value Base.Lit Model.ValueCrud Model.Expr Model.Eval Model.EvalInst Proofs.EvalProofs.
Import ListNotations.
Local Open Scope string_scope.
Local Open Scope list_scope.
Local Open Scope Z_scope.

(* A `return e` at the hole of ANY evaluation context (error coalescing on either side, infallible
   assignment, function arguments, arrays, objects, conditions, blocks, operators, queries, closure
   arguments — ctx in Proofs/EvalProofs.v) whose evaluation reaches the hole in state s1, in a program
   whose earlier root expressions succeeded, ends the program successfully with e's value; the final
   state is exactly the state after evaluating e: no later expression runs. *)
Theorem C06_return_ends_program :
  forall F binop (pre : list expr) (C : ctx) (post : list expr) (e : expr) (s s0 s1 : state) (v : value) (s2 : state),
  root_ok s -> seq F binop pre (rooted s) = Some s0 -> reach F binop C s0 = Some s1 -> eval F binop e s1 = (inl v, s2) ->
  run F binop (pre ++ plug C (EReturn e) :: post) s = (Success v, s2).
Proof. exact return_ends_program. Qed.
Print Assumptions C06_return_ends_program.

(* the expression-level fact behind it: the Return outcome crosses every context unchanged *)
Theorem C06_return_crosses_every_context :
  forall F binop (C : ctx) (e : expr) (s s1 : state) (v : value) (s2 : state),
  reach F binop C s = Some s1 -> eval F binop e s1 = (inl v, s2) ->
  eval F binop (plug C (EReturn e)) s = (inr (Return v), s2).
Proof.
  intros F binop C e s s1 v s2 Hr He.
  apply (ctl_propagates F binop C (EReturn e) s s1 (Return v) s2 Hr); [cbn [eval]; rewrite He|]; reflexivity.
Qed.
Print Assumptions C06_return_crosses_every_context.

(* inside a closure body it ends only the current iteration, e's value being the iteration's value;
   run1 is the runner of map_keys/map_values, run2 the runner of for_each/filter — the same two
   runners serve objects and arrays, so the behaviour is identical for every closure-taking function
   and both collection kinds *)
Theorem C06_return_ends_iteration_one_param :
  forall F binop pre C post e p a s old s1 s1' s2 v s3,
  bind_param s p a = (old, s1) ->
  seq F binop pre s1 = Some s1' -> reach F binop C s1' = Some s2 -> eval F binop e s2 = (inl v, s3) ->
  run1 (blk F binop (pre ++ plug C (EReturn e) :: post)) p a s = (inl v, cleanup_param s3 p old).
Proof. exact return_ends_iteration1. Qed.
Print Assumptions C06_return_ends_iteration_one_param.

Theorem C06_return_ends_iteration_two_params :
  forall F binop pre C post e p0 p1 a b s old0 sa old1 s1 s1' s2 v s3,
  bind_param s p0 a = (old0, sa) -> bind_param sa p1 b = (old1, s1) ->
  seq F binop pre s1 = Some s1' -> reach F binop C s1' = Some s2 -> eval F binop e s2 = (inl v, s3) ->
  run2 (blk F binop (pre ++ plug C (EReturn e) :: post)) p0 p1 a b s =
  (inl v, cleanup_param (cleanup_param s3 p0 old0) p1 old1).
Proof. exact return_ends_iteration2. Qed.
Print Assumptions C06_return_ends_iteration_two_params.

(* …and a return raised in a closure body never leaves the closure-taking call *)
Theorem C06_return_never_escapes_closure_call :
  forall (body : state -> res * state) ps cf v s w,
  fst (run_closure body ps cf v s) <> inr (Return w).
Proof.
  intros body ps cf v s w H. pose proof (closure_call_no_return body ps cf v s) as N.
  rewrite H in N. exact N.
Qed.
Print Assumptions C06_return_never_escapes_closure_call.

(* non-vacuity: a depth-4 context with side effects before and after the hole *)
Example C06_example :
  let C := CBlock [EAssign (TExt PEvent [SField (hx "70")]) (ELit (VInt 1))]
             (CErrL (CCall (nm "int") [] (CArr [ELit (VInt 0)] (CAssignInf (TVar (hx "78") []) TNoop CHole (VInt 0))
                       [EAssign (TExt PEvent [SField (hx "71")]) (ELit (VInt 2))]) []) (ELit (VInt 3)))
             [EAssign (TExt PEvent [SField (hx "72")]) (ELit (VInt 4))] in
  let s := st0 [] (VObj []) (VObj []) in
  reach F_inst binop_inst C s <> None /\
  run_core [plug C (EReturn (ELit (VInt 9)))] s =
    (Success (VInt 9), [], VObj [(hx "70", VInt 1)], VObj []).
Proof. vm_compute. split; [discriminate|reflexivity]. Qed.
