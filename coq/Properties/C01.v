(* C01 — compiled programs are type-sound (result, event, metadata).
   Model: Model/TypeInfo.v (`type_info` over the kinds of Model/Kind.v) against the evaluator Model/Eval.v. *)
From Coq Require Import List NArith ZArith Bool String.
From VRL Require Import Base.Bytes Base.Value Base.Lit Model.ValueCrud Model.Kind Model.KindCrud Model.Expr Model.Eval
  Model.EvalInst Model.TypeInfo Model.TypeInfoInst Model.TypeDomains Model.TypeWitnesses.
Import ListNotations.
Local Open Scope string_scope.
Local Open Scope list_scope.
Local Open Scope Z_scope.

(* FULL STATEMENT NOT PROVED (C01_sound): for every program outside the known classes (program_reason = 0)
   and every conforming initial state, a successful run yields a member of the reported result kind and
   leaves event and metadata members of the reported final kinds.
   It is false without the exclusion; each theorem below is a program on which the implementation's
   own final_type_info is contradicted by its run (model and implementation agree on all of them). *)

(* .a = 1; if .c == true { return 0 }; .a = "s" — a run that ends by return leaves the event in a
   mid-program state; final_type_info describes the end of the program text *)
Theorem C01_early_return_refuted :
  w_reason w_early_return = 121%N
  /\ fst (w_run w_early_return ev_c_true) = Success (VInt 0)
  /\ member (Expr.ev (snd (w_run w_early_return ev_c_true))) (w_final_target w_early_return) = false.
Proof. vm_compute. auto. Qed.

(* .a = 1; for_each([1]) -> |k, v| { .a = "s"; null }; ... — the event kind ignores what closure bodies do *)
Theorem C01_closure_effect_refuted :
  w_reason w_closure_event = 122%N
  /\ member (Expr.ev (snd (w_run w_closure_event (VObj [])))) (w_final_target w_closure_event) = false.
Proof. vm_compute. auto. Qed.

(* { z = {"p": 2}; null }; z.q = "b"; z — a variable out of scope keeps its run-time value; a later path
   assignment is typed as if it were fresh *)
Theorem C01_scope_leak_refuted :
  w_reason w_scope_leak = 127%N
  /\ exists v, fst (w_run w_scope_leak (VObj [])) = Success v /\ member v (w_result_kind w_scope_leak) = false.
Proof. vm_compute. eauto. Qed.

(* x = [1]; x[-3] = .zz; x — DESIGN D9 (C19-negidx-insert-beyond-front) reached from a program *)
Theorem C01_negidx_insert_refuted :
  w_reason w_negidx_insert = 102%N
  /\ exists v, fst (w_run w_negidx_insert (VObj [])) = Success v /\ member v (w_result_kind w_negidx_insert) = false.
Proof. vm_compute. eauto. Qed.

(* .x = [1, "a", true, 7]; del(.x[0]); ... — remove_shift: the final event is not a member of its kind *)
Theorem C01_remove_shift_refuted :
  w_reason w_remove_shift = 107%N
  /\ member (Expr.ev (snd (w_run w_remove_shift (VObj [])))) (w_final_target w_remove_shift) = false.
Proof. vm_compute. auto. Qed.

(* ---------- what is proved: soundness on the straight-line fragment (Model/TypeFragment.v) ---------- *)

From VRL Require Import Model.KindDomains Model.TypeFragment Proofs.TypeSoundProofs.

(* `==` and `!=` of the instantiated operator table always produce a boolean (the only hypothesis of the
   generic theorems of Proofs/TypeSoundProofs.v about the operator table) *)
Lemma binop_inst_eq : forall x y, exists b, binop_inst OEq x y = Some (VBool b).
Proof. intros x y. eexists. reflexivity. Qed.
Lemma binop_inst_ne : forall x y, exists b, binop_inst ONe x y = Some (VBool b).
Proof. intros x y. eexists. reflexivity. Qed.

(* effect-free expressions (literals, variables, queries on event / metadata / variables / expressions
   inside C19's get_ok, arrays, objects, groups, == and !=, ! on a boolean-typed operand, exists), typed in
   a type state G the run-time state conforms to (conf: every variable G knows holds a well-formed member of
   its kind, event and metadata are well-formed members of the external kinds, no injected fault):
   type_info leaves G alone; evaluation ends with a value, changes neither variables nor event nor metadata,
   and the value is a well-formed member of the expression's kind (undefined read as null).
   For EVERY function table F / T (the fragment contains no calls). *)
Theorem C01_pure_sound_partial :
  forall (F : fname -> list value -> option value) (T : fname -> list tdef -> list tdef -> tdef)
         (e : expr) (G : tstate) (s : state),
  pure_ok binop_inst T e G = true -> conf G s ->
  fst (type_info binop_inst T e G) = G
  /\ exists v s', eval F binop_inst e s = (inl v, s') /\ same_data s s'
       /\ member v (upgrade_undefined (td_kind (snd (type_info binop_inst T e G)))) = true
       /\ wf_value v = true.
Proof. intros F T. exact (pure_sound F binop_inst T binop_inst_eq binop_inst_ne). Qed.
Print Assumptions C01_pure_sound_partial.

(* a statement of the fragment — such an expression, or its assignment to a variable, to a path below a
   variable the type state knows, or to an event / metadata path, the path inside C19's ins_ok:
   the state after it conforms to the type state after it, and its value is in its kind *)
Theorem C01_statement_sound_partial :
  forall (F : fname -> list value -> option value) (T : fname -> list tdef -> list tdef -> tdef)
         (e : expr) (G : tstate) (s : state),
  stmt_ok binop_inst T e G = true -> conf G s ->
  exists v s', eval F binop_inst e s = (inl v, s')
       /\ conf (fst (type_info binop_inst T e G)) s'
       /\ member v (upgrade_undefined (td_kind (snd (type_info binop_inst T e G)))) = true
       /\ wf_value v = true.
Proof. intros F T. exact (stmt_sound F binop_inst T binop_inst_eq binop_inst_ne). Qed.
Print Assumptions C01_statement_sound_partial.

(* C01 for straight-line programs of the fragment, from the initial state of a run, against the final type
   information of the program (Program::final_type_info): the run succeeds, its value is in the program's
   kind, and the event and the metadata it leaves are in the final target kinds.  Every statement is
   judged (stmts_ok) in the type state the compiler has before it. *)
Theorem C01_straightline_sound_partial :
  forall (es : list expr) (ek mk : kind) (event meta : value),
  es <> [] -> stmts_ok binop_inst T_inst es (ts0 ek mk) = true ->
  member event ek = true -> wf_value event = true -> member meta mk = true -> wf_value meta = true ->
  exists v s', run_typed es (st0 [] event meta) = (Success v, s')
       /\ member v (upgrade_undefined (td_kind (snd (program_type_info_inst es (ts0 ek mk))))) = true
       /\ member (Expr.ev s') (tgt (fst (program_type_info_inst es (ts0 ek mk)))) = true
       /\ member (Expr.md s') (mdk (fst (program_type_info_inst es (ts0 ek mk)))) = true.
Proof. exact (run_sound F_typed binop_inst T_inst binop_inst_eq binop_inst_ne). Qed.
Print Assumptions C01_straightline_sound_partial.

(* the fragment is inhabited by programs that assign to the event, to variables and below them, and read
   them back:  .a = 1; x = [.a, {"k": .b}]; x[1].k = "s"; y = (x[0] == 1); .r = !y; exists(.zz)  *)
Definition frag_prog : list expr :=
  [ EAssign (TExt PEvent [SField (hx "61")]) (ELit (VInt 1));
    EAssign (TVar (hx "78") []) (EArr [EQExt PEvent [SField (hx "61")];
                                       EObj [(hx "6b", EQExt PEvent [SField (hx "62")])]]);
    EAssign (TVar (hx "78") [SIndex 1; SField (hx "6b")]) (ELit (VBytes (hx "73")));
    EAssign (TVar (hx "79") []) (EGroup (EOp OEq (EQVar (hx "78") [SIndex 0]) (ELit (VInt 1))));
    EAssign (TExt PEvent [SField (hx "72")]) (ENot (EVar (hx "79")));
    EExistsExt PEvent [SField (hx "7a"); SField (hx "7a")] ].

Theorem C01_fragment_nonvacuous :
  stmts_ok binop_inst T_inst frag_prog ts_default = true
  /\ fst (w_run frag_prog (VObj [])) = Success (VBool false)
  /\ Expr.ev (snd (w_run frag_prog (VObj []))) = VObj [(hx "61", VInt 1); (hx "72", VBool false)].
Proof. vm_compute. auto. Qed.
