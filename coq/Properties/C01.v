(* C01 — compiled programs are type-sound (result, event, metadata).
   Model: Model/TypeInfo.v (`type_info` over the kinds of Model/Kind.v) against the evaluator Model/Eval.v. *)
From Coq Require Import List NArith ZArith Bool String.
From VRL Require Import Base.Bytes Base.Value Base.Lit Model.ValueCrud Model.Kind Model.KindCrud Model.Expr Model.Eval
  Model.EvalInst Model.TypeInfo Model.TypeInfoInst Model.TypeDomains Model.TypeWitnesses.
Import ListNotations.
Local Open Scope string_scope.
Local Open Scope list_scope.
Local Open Scope Z_scope.

(* FULL STATEMENT NOT PROVED (C01_sound): for every program outside the known classes (program_reason = 0)
   and every conforming initial state, a successful run yields a member of the reported result kind and
   leaves event and metadata members of the reported final kinds.
   It is false without the exclusion; each theorem below is a program on which the implementation's
   own final_type_info is contradicted by its run (model and implementation agree on all of them). *)

(* .a = 1; if .c == true { return 0 }; .a = "s" — a run that ends by return leaves the event in a
   mid-program state; final_type_info describes the end of the program text *)
Theorem C01_early_return_refuted :
  w_reason w_early_return = 121%N
  /\ fst (w_run w_early_return ev_c_true) = Success (VInt 0)
  /\ member (Expr.ev (snd (w_run w_early_return ev_c_true))) (w_final_target w_early_return) = false.
Proof. vm_compute. auto. Qed.

(* .a = 1; for_each([1]) -> |k, v| { .a = "s"; null }; ... — the event kind ignores what closure bodies do *)
Theorem C01_closure_effect_refuted :
  w_reason w_closure_event = 122%N
  /\ member (Expr.ev (snd (w_run w_closure_event (VObj [])))) (w_final_target w_closure_event) = false.
Proof. vm_compute. auto. Qed.

(* { z = {"p": 2}; null }; z.q = "b"; z — a variable out of scope keeps its run-time value; a later path
   assignment is typed as if it were fresh *)
Theorem C01_scope_leak_refuted :
  w_reason w_scope_leak = 127%N
  /\ exists v, fst (w_run w_scope_leak (VObj [])) = Success v /\ member v (w_result_kind w_scope_leak) = false.
Proof. vm_compute. eauto. Qed.

(* x = [1]; x[-3] = .zz; x — DESIGN D9 (C19-negidx-insert-beyond-front) reached from a program *)
Theorem C01_negidx_insert_refuted :
  w_reason w_negidx_insert = 102%N
  /\ exists v, fst (w_run w_negidx_insert (VObj [])) = Success v /\ member v (w_result_kind w_negidx_insert) = false.
Proof. vm_compute. eauto. Qed.

(* .x = [1, "a", true, 7]; del(.x[0]); ... — remove_shift: the final event is not a member of its kind *)
Theorem C01_remove_shift_refuted :
  w_reason w_remove_shift = 107%N
  /\ member (Expr.ev (snd (w_run w_remove_shift (VObj [])))) (w_final_target w_remove_shift) = false.
Proof. vm_compute. auto. Qed.
