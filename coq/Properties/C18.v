(* C18 — Value path operations obey get/insert/remove laws.
   Model: Model/ValueCrud.v (src/value/value/crud/*.rs).  Nothing but statements here. *)
From Coq Require Import List NArith ZArith Bool String.
From VRL Require Import Base.Bytes Base.Value Base.Lit Model.ValueCrud Proofs.ValueCrudProofs Proofs.ReadOnlyProofs.
Import ListNotations.
Local Open Scope string_scope.
Local Open Scope list_scope.
Local Open Scope Z_scope.

(* after inserting x at the path, reading the path returns x — every value, every path (negative
   indices before the front and coercions included), every x *)
Theorem C18_get_insert : forall (v : value) (p : path) (x : value), get (insert v p x) p = Some x.
Proof. exact get_insert. Qed.
Print Assumptions C18_get_insert.

(* Value::insert returns the previous occupant, which is exactly what get returned *)
Theorem C18_insert_returns_get : forall (v : value) (p : path), insert_prev v p = get v p.
Proof. exact insert_prev_get. Qed.
Print Assumptions C18_insert_returns_get.

(* the insertion leaves every stably named disjoint location unchanged (see disjoint_stable in
   Model/ValueCrud.v for the exact side conditions on index segments and container coercion) *)
Theorem C18_insert_frame : forall (v : value) (p q : path) (x : value),
  disjoint_stable (Some v) p q = true -> get (insert v p x) q = get v q.
Proof. exact insert_frame. Qed.
Print Assumptions C18_insert_frame.

(* …in particular unconditionally for field-only paths neither of which is a prefix of the other *)
Theorem C18_insert_frame_fields : forall (v : value) (p q : path) (x : value),
  all_fields p = true -> all_fields q = true ->
  is_prefix p q = false -> is_prefix q p = false ->
  get (insert v p x) q = get v q.
Proof. exact insert_frame_fields. Qed.
Print Assumptions C18_insert_frame_fields.

(* removing at a path returns exactly what reading the path returned before, with and without prune *)
Theorem C18_remove_returns_get : forall (v : value) (p : path) (prune : bool),
  fst (remove v p prune) = get v p.
Proof. exact remove_returns_get. Qed.
Print Assumptions C18_remove_returns_get.

(* reading or removing through a non-container finds nothing and changes nothing *)
Theorem C18_through_scalar : forall (v : value) (p1 : path) (w : value) (s : seg) (p2 : path) (prune : bool),
  get v p1 = Some w -> is_scalar w = true ->
  get v (p1 ++ s :: p2) = None /\ remove v (p1 ++ s :: p2) prune = (None, v).
Proof. exact through_scalar. Qed.
Print Assumptions C18_through_scalar.

(* the frame law for removal (without pruning): field-only locations that neither contain nor are
   contained in the removed path keep their value *)
Theorem C18_remove_frame_fields : forall (v : value) (q P : path),
  sep q P -> get (snd (remove v q false)) P = get v P.
Proof. exact remove_frame. Qed.
Print Assumptions C18_remove_frame_fields.

(* a failed removal (nothing found at the path) leaves the value untouched, with and without pruning *)
Theorem C18_remove_nothing_unchanged : forall (v : value) (p : path) (prune : bool),
  get v p = None -> remove v p prune = (None, v).
Proof. exact remove_none_unchanged. Qed.
Print Assumptions C18_remove_nothing_unchanged.

(* non-vacuity: the hypotheses are met by concrete non-trivial states *)
Example C18_frame_nonvacuous :
  let v := VObj [(hx "61", VArr [VInt 1; VInt 2; VInt 3]); (hx "62", VInt 7)] in
  disjoint_stable (Some v) [SField (hx "61"); SIndex (-5)] [SField (hx "61"); SIndex (-1)] = true
  /\ disjoint_stable (Some v) [SField (hx "61"); SIndex (-5)] [SField (hx "61"); SIndex 0] = false
  /\ get (insert v [SField (hx "61"); SIndex (-5)] VNull) [SField (hx "61"); SIndex 0] <> get v [SField (hx "61"); SIndex 0]
  /\ get v [SField (hx "62")] = Some (VInt 7) /\ is_scalar (VInt 7) = true.
Proof. vm_compute. repeat split; congruence. Qed.
