(* C12 — compile-time constant knowledge matches runtime values.
   Model: Model/TypeInfo.v (`resolve_constant`, `type_info`, Details.value of every variable) against the
   evaluator Model/Eval.v.  Nothing but statements here. *)
From Coq Require Import List NArith ZArith Bool String.
From VRL Require Import Base.Bytes Base.Value Base.Lit Model.ValueCrud Model.Kind Model.KindCrud Model.Expr Model.Eval
  Model.EvalInst Model.TypeInfo Model.TypeInfoInst Model.TypeDomains Model.TypeWitnesses Proofs.TypeConstProofs.
Import ListNotations.
Local Open Scope string_scope.
Local Open Scope list_scope.
Local Open Scope Z_scope.

(* an expression the compiler resolves to a constant c evaluates to c and changes nothing — every
   expression, every type state, every run-time state whose variables hold the constants the type state
   records for them (consts_ok), every stdlib semantics F and operator semantics binop *)
Theorem C12_const_sound :
  forall (F : fname -> list value -> option value) (binop : opcode -> value -> value -> option value)
         (e : expr) (G : tstate) (s : state) (c : value),
  consts_ok G s -> resolve_constant binop e G = Some c -> eval F binop e s = (inl c, s).
Proof. intros F binop e. exact (const_sound F binop e). Qed.
Print Assumptions C12_const_sound.

(* such an expression has no effect on the type state either *)
Theorem C12_const_expr_no_type_effect :
  forall (binop : opcode -> value -> value -> option value) (T : fname -> list tdef -> list tdef -> tdef)
         (e : expr) (G : tstate) (c : value),
  resolve_constant binop e G = Some c -> forall G', fst (type_info binop T e G') = G'.
Proof. intros binop T e. exact (const_no_type_effect binop T e). Qed.
Print Assumptions C12_const_expr_no_type_effect.

(* the invariant is established where constants enter: after `x = e` with e a constant c, x holds c, the
   type state records exactly c for x, and every other recorded constant still holds *)
Theorem C12_assign_constant_sound :
  forall (F : fname -> list value -> option value) (binop : opcode -> value -> value -> option value)
         (T : fname -> list tdef -> list tdef -> tdef) (x : ident) (e : expr) (G : tstate) (s : state) (c : value),
  consts_ok G s -> resolve_constant binop e G = Some c ->
  eval F binop (EAssign (TVar x []) e) s = (inl c, set_vars s (var_set (vars s) x c))
  /\ (exists t, lvar (locals (fst (type_info binop T (EAssign (TVar x []) e) G))) x = Some (t, Some c))
  /\ consts_ok (fst (type_info binop T (EAssign (TVar x []) e) G)) (set_vars s (var_set (vars s) x c)).
Proof. exact assign_constant_sound. Qed.
Print Assumptions C12_assign_constant_sound.

(* FULL STATEMENT NOT PROVED (C12_invariant_preserved): for every program outside the known classes
   (program_reason = 0), consts_ok is preserved by every evaluation step along type_info.  It is false
   without the exclusion: each theorem below is a program the compiler types as infallible on the
   strength of a recorded constant, and that fails at run time. *)

(* x = {"a": 2}; del(x.a); 10 / x.a — del on a variable path updates neither kind nor constant (DESIGN D7) *)
Theorem C12_del_local_refuted :
  w_fallible w_del_local = false /\ w_reason w_del_local = 125%N /\ fst (w_run w_del_local (VObj [])) = Failed.
Proof. vm_compute. auto. Qed.

(* x = {}; x.b = 5; 10 / x — a path assignment records the assigned constant as the value of the whole variable *)
Theorem C12_path_assign_refuted :
  w_fallible w_path_assign = false /\ w_reason w_path_assign = 126%N /\ fst (w_run w_path_assign (VObj [])) = Failed.
Proof. vm_compute. auto. Qed.

(* x = 5; for_each([1]) -> |k, v| { x = 0; null }; 10 / x — a closure body's effects are dropped *)
Theorem C12_closure_assign_refuted :
  w_fallible w_closure_assign = false /\ w_reason w_closure_assign = 122%N
  /\ fst (w_run w_closure_assign (VObj [])) = Failed.
Proof. vm_compute. auto. Qed.

(* x = 5; y = (1 / { x = 0; 2 }) ?? 0; 10 / x — the divisor's effects on the type state are dropped *)
Theorem C12_div_effect_refuted :
  w_fallible w_div_effect = false /\ w_reason w_div_effect = 124%N /\ fst (w_run w_div_effect (VObj [])) = Failed.
Proof. vm_compute. auto. Qed.

(* (.a || (x = 5)); 10 / x — a variable first assigned in a right operand that may not run is recorded as assigned *)
Theorem C12_maybe_rhs_var_refuted :
  w_fallible w_maybe_rhs_var = false /\ w_reason w_maybe_rhs_var = 128%N
  /\ fst (w_run w_maybe_rhs_var ev_a_true) = Failed.
Proof. vm_compute. auto. Qed.

(* y = ([int(.a), (x = 5)] ?? 0); 10 / x — ?? types its right side as if the failed left side had run to its end *)
Theorem C12_err_partial_refuted :
  w_fallible w_err_partial = false /\ w_reason w_err_partial = 129%N
  /\ fst (w_run w_err_partial ev_a_true) = Failed.
Proof. vm_compute. auto. Qed.

(* non-vacuity: a state in which a recorded constant is used *)
Example C12_nonvacuous :
  let G := mkTs [(hx "78", (td_of k_integer, Some (VInt 5)))] k_any_object k_any_object in
  let s := st0 [(hx "78", VInt 5)] (VObj []) (VObj []) in
  resolve_constant binop_inst (EOp ODiv (ELit (VInt 10)) (EVar (hx "78"))) G = Some (VFloat (f64_of_bits 0x4000000000000000))
  /\ var_get (vars s) (hx "78") = Some (VInt 5)
  /\ w_reason [EAssign (TVar (hx "78") []) (ELit (VInt 5)); EOp ODiv (ELit (VInt 10)) (EVar (hx "78"))] = 0%N.
Proof. vm_compute. auto. Qed.

(* ---------- invariant preservation on the straight-line fragment (Model/TypeFragment.v) ---------- *)

From VRL Require Import Model.KindDomains Model.TypeFragment Proofs.TypeSoundProofs.

Lemma binop_inst_eq3 : forall x y, exists b, binop_inst OEq x y = Some (VBool b).
Proof. intros x y. eexists. reflexivity. Qed.
Lemma binop_inst_ne3 : forall x y, exists b, binop_inst ONe x y = Some (VBool b).
Proof. intros x y. eexists. reflexivity. Qed.

(* The invariant C12_const_sound relies on (consts_ok: every constant the type state holds for a
   variable is that variable's run-time value) holds at the end of every straight-line program of the
   fragment of Properties/C01.v — effect-free expressions and their assignments to variables, to paths
   below known variables and to event / metadata paths — provided no assignment below a variable has a
   constant right-hand side (const_stmts_ok; that case is the refuted C12_path_assign_refuted).
   Together with C12_const_sound: any expression the compiler folds after such a program evaluates to
   the folded value. *)
Theorem C12_straightline_consts_partial :
  forall (es : list expr) (ek mk : kind) (event meta : value),
  es <> [] -> stmts_ok binop_inst T_inst es (ts0 ek mk) = true ->
  const_stmts_ok binop_inst T_inst es (ts0 ek mk) = true ->
  member event ek = true -> wf_value event = true -> member meta mk = true -> wf_value meta = true ->
  consts_ok (fst (program_type_info_inst es (ts0 ek mk))) (snd (run_typed es (st0 [] event meta))).
Proof. exact (straightline_consts F_typed binop_inst T_inst binop_inst_eq3 binop_inst_ne3). Qed.
Print Assumptions C12_straightline_consts_partial.

(* the same for one statement from any conforming state, for every function table *)
Theorem C12_statement_consts_partial :
  forall (F : fname -> list value -> option value) (T : fname -> list tdef -> list tdef -> tdef)
         (e : expr) (G : tstate) (s : state),
  stmt_ok binop_inst T e G = true -> const_stmt_ok binop_inst e G = true -> conf G s -> consts_ok G s ->
  consts_ok (fst (type_info binop_inst T e G)) (snd (eval F binop_inst e s)).
Proof. intros F T. exact (stmt_consts F binop_inst T binop_inst_eq3 binop_inst_ne3). Qed.
Print Assumptions C12_statement_consts_partial.
