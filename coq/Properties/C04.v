(* C04 — compiling and running never panics the host.
   PARTIAL by nature: the lexer, the LALRPOP parser, the compiler, codespan and ~190 Rust functions
   have no Gallina model; for them the property is judged on the implementation (catch_unwind,
   process aborts observed by the driver).  What is proved is the runtime part on the Core-VRL model:
   the model marks with the outcome Panic exactly the two `expect`s of the modelled runtime
   (Block::resolve on an empty block; filter's "compiler guarantees boolean return type") and nothing
   else can panic. *)
From Coq Require Import List NArith ZArith Bool String.
From VRL Require Import Base.Bytes Base.Value Base.Lit Model.ValueCrud Model.Expr Model.Eval Model.EvalInst Proofs.PanicProofs.
Import ListNotations.
Local Open Scope string_scope.
Local Open Scope Z_scope.

(* a program without empty blocks and without filter closures never panics: every state, every fault
   schedule of the target, every function and operator semantics *)
Theorem C04_core_programs_never_panic_partial :
  forall F binop (es : list expr) (s : state),
  nonempty es = true -> pfl es = true -> fst (run F binop es s) <> Panicked.
Proof. exact run_no_panic. Qed.
Print Assumptions C04_core_programs_never_panic_partial.

Theorem C04_core_expressions_never_panic_partial :
  forall F binop (e : expr), pf e = true -> forall s, no_panic (fst (eval F binop e s)).
Proof. exact eval_no_panic. Qed.
Print Assumptions C04_core_expressions_never_panic_partial.

(* the excluded site is a real panic site of the model: a filter closure whose body yields a
   non-boolean (the compiler is relied upon to prevent this - C01) *)
Example C04_filter_expect_is_a_panic_site :
  fst (run_core [EClosure CFilter (ELit (VArr [VInt 1])) [hx "69"; hx "76"] [ELit (VInt 7)]]
                (st0 [] (VObj []) (VObj []))) = (Panicked, [], VObj []).
Proof. vm_compute. reflexivity. Qed.

Example C04_nonvacuous :
  pfl [EAssign (TVar (hx "78") []) (EClosure CMapValues (ELit (VArr [VInt 1])) [hx "76"] [EVar (hx "76")]);
       EIf [ELit (VBool true)] [EReturn (EVar (hx "78"))] None] = true.
Proof. vm_compute. reflexivity. Qed.
