(* C19 — Type abstraction (Kind) is sound for path operations and merging.
   Model: Model/Kind.v (the type, `member` = what a kind means), Model/KindCrud.v (the src/value/kind directory),
   Model/KindDomains.v (the decidable side conditions = complements of the known-finding classes).
   Nothing but statements here. *)
From Coq Require Import List NArith ZArith Bool String.
From VRL Require Import Base.Bytes Base.Value Base.Lit Model.ValueCrud Model.Kind Model.KindCrud Model.KindDomains
  Proofs.KindBasics Proofs.KindMergeProofs Proofs.KindGetProofs Proofs.KindSupersetProofs Proofs.KindInsertProofs Proofs.KindRemoveProofs Proofs.KindFuelProofs.
Import ListNotations.
Local Open Scope string_scope.
Local Open Scope list_scope.
Local Open Scope Z_scope.

(* ---------- union ---------- *)

(* every member of either operand is a member of the union — all values, all kinds for which no step
   of the merge drops an exact unknown in favour of a non-`any` infinite one (union_compat) *)
Theorem C19_union_sound : forall (a b : kind) (v : value),
  union_compat a b = true -> member v a = true \/ member v b = true -> member v (union a b) = true.
Proof. exact union_sound. Qed.
Print Assumptions C19_union_sound.

(* ...for any amount of fuel given to the recursion over the two kinds (so not for lack of fuel) *)
Theorem C19_union_sound_any_fuel : forall (n : nat) (a b : kind) (v : value),
  compat_f n a b = true -> member v a = true \/ member v b = true -> member v (merge_f n false a b) = true.
Proof. exact merge_f_union_sound. Qed.
Print Assumptions C19_union_sound_any_fuel.

(* the fuel `depth a + depth b` that union / merge_keep / is_superset run with always suffices: any larger
   amount gives the same result, so the out-of-fuel answers (`any`, `false`) are never what they return *)
Theorem C19_fuel_adequate : forall (a b : kind) (ow : bool) (n : nat),
  (depth a + depth b <= n)%nat ->
  merge_f n ow a b = merge_keep a b ow /\ superset_f n a b = is_superset a b.
Proof. intros a b ow n H. split; [apply merge_keep_fuel_adequate | apply is_superset_fuel_adequate]; exact H. Qed.
Print Assumptions C19_fuel_adequate.

(* outside union_compat the statement is false of the code: array<timestamp> | array<json> = array<json> *)
Theorem C19_union_exact_vs_json_refuted : exists (a b : kind) (v : value),
  union_compat a b = false /\ member v a = true /\ member v (union a b) = false.
Proof.
  exists (k_array (mkC [] (UExact (Kind (mkP false false false false true false false false) None None)))),
         (k_array coll_json), (VArr [VTs 0]).
  vm_compute. auto.
Qed.

(* ---------- at_path / get ---------- *)

(* reading a path of a member yields a member of the kind's view of that path; nothing is found only
   where that view admits undefined.  get_ok: negative indices only into arrays whose known elements
   are all required (and whose unions are union_compat). *)
Theorem C19_get_sound : forall (v : value) (k : kind) (p : path),
  get_ok k p = true -> member v k = true -> member_opt (get v p) (at_path k p) = true.
Proof. exact get_sound. Qed.
Print Assumptions C19_get_sound.

(* no side condition at all for paths of fields and non-negative indices *)
Theorem C19_get_sound_nonneg : forall (v : value) (k : kind) (p : path),
  nonneg_path p = true -> member v k = true -> member_opt (get v p) (at_path k p) = true.
Proof. exact get_sound_nonneg. Qed.
Print Assumptions C19_get_sound_nonneg.

(* Kind::get (undefined upgraded to null): a missing value reads as null *)
Theorem C19_kget_sound : forall (v : value) (k : kind) (p : path),
  get_ok k p = true -> member v k = true ->
  match get v p with
  | Some w => member w (kget k p)
  | None => p_null (prims_of (kget k p)) || is_never (at_path k p)
  end = true.
Proof. intros v k p Hok Hm. exact (upgrade_sound (get v p) (at_path k p) (get_sound v k p Hok Hm)). Qed.
Print Assumptions C19_kget_sound.

Theorem C19_get_negidx_optional_refuted : exists (v : value) (k : kind) (p : path),
  get_ok k p = false /\ member v k = true /\ member_opt (get v p) (at_path k p) = false.
Proof.
  exists (VArr [VInt 5]),
         (k_array (mkC [(0%nat, Kind (mkP false true false false false false false false) None None);
                        (1%nat, Kind (mkP false false false true false false false true) None None)]
                       (UExact k_undefined))),
         [SIndex (-1)].
  vm_compute. auto.
Qed.

(* ---------- is_superset ---------- *)

(* a kind that passes the subtype test contains every member of the other — for all `a` without an
   exact unknown whose kind has all ten states *)
Theorem C19_superset_sound : forall (a b : kind) (v : value),
  no_exact_any a = true -> is_superset a b = true -> member v b = true -> member v a = true.
Proof. exact superset_sound. Qed.
Print Assumptions C19_superset_sound.

Theorem C19_superset_exact_any_refuted : exists (a b : kind) (v : value),
  no_exact_any a = false /\ is_superset a b = true /\ member v b = true /\ member v a = false.
Proof.
  exists (union (k_array (mkC [] (UExact (Kind p_all (Some (mkC [] (UExact k_undefined))) None))))
                (k_array (mkC [] (UExact (k_object (mkC [] (UExact k_undefined))))))),
         (k_array coll_any), (VArr [VArr [VInt 1]]).
  vm_compute. auto.
Qed.

(* ---------- insert ---------- *)

(* inserting a member of kx at p into a member of k yields a member of the type-level insertion — all
   well-formed values (objects are sorted maps), all kinds and paths in ins_ok (see Model/KindDomains.v) *)
Theorem C19_insert_sound : forall (v : value) (k : kind) (p : path) (x : value) (kx : kind),
  wf_value v = true -> ins_ok false k p = true -> member v k = true -> member x kx = true ->
  member (insert v p x) (kinsert k p kx) = true.
Proof. exact insert_sound. Qed.
Print Assumptions C19_insert_sound.

(* x = [1]; x[-3] = "a" : the kind puts the holes at the tail and shifts nothing *)
Theorem C19_negidx_insert_refuted : exists (v : value) (k : kind) (p : path) (x : value) (kx : kind),
  ins_ok false k p = false /\ wf_value v = true /\ member v k = true /\ member x kx = true
  /\ insert v p x = VArr [x; VNull; VInt 1]
  /\ member (insert v p x) (kinsert k p kx) = false.
Proof.
  exists (VArr [VInt 1]),
         (k_array (mkC [(0%nat, Kind (mkP false true false false false false false false) None None)] (UExact k_undefined))),
         [SIndex (-3)], (VBytes (hx "61")), (Kind (mkP true false false false false false false false) None None).
  vm_compute. auto 10.
Qed.

(* x = true (typed boolean or {a: integer}); x.b = 2 : the kind keeps `a` required *)
Theorem C19_insert_coerce_required_refuted : exists (v : value) (k : kind) (p : path) (x : value) (kx : kind),
  ins_ok false k p = false /\ wf_value v = true /\ member v k = true /\ member x kx = true
  /\ member (insert v p x) (kinsert k p kx) = false.
Proof.
  exists (VBool true),
         (Kind (mkP false false false true false false false false) None
               (Some (mkC [(hx "61", Kind (mkP false true false false false false false false) None None)] (UExact k_undefined)))),
         [SField (hx "62")], (VInt 2), (Kind (mkP false true false false false false false false) None None).
  vm_compute. auto 10.
Qed.

(* [5] typed [integer, integer-or-undefined]; x[3] = 2 pads index 1 with null, the kind does not *)
Theorem C19_insert_optional_hole_refuted : exists (v : value) (k : kind) (p : path) (x : value) (kx : kind),
  ins_ok false k p = false /\ wf_value v = true /\ member v k = true /\ member x kx = true
  /\ member (insert v p x) (kinsert k p kx) = false.
Proof.
  exists (VArr [VInt 5]),
         (k_array (mkC [(0%nat, Kind (mkP false true false false false false false false) None None);
                        (1%nat, Kind (mkP false true false false false false false true) None None)] (UExact k_undefined))),
         [SIndex 3], (VInt 2), (Kind (mkP false true false false false false false false) None None).
  vm_compute. auto 10.
Qed.

(* ---------- remove ---------- *)

(* removing a path from a member yields a member of the type-level removal, and the type-level removal
   does not hit its arithmetic-overflow panic — all well-formed values, all kinds and paths in remove_ok:
   compaction off or a single segment; an element removal has at most one known element behind it
   (shift_ok); segments before the last one are known (or cannot exist); negative indices only into
   arrays of exactly known length *)
Theorem C19_remove_sound : forall (v : value) (k : kind) (p : path) (compact : bool),
  wf_value v = true -> remove_ok k p compact = true -> member v k = true ->
  snd (kremove k p compact) = false
  /\ member (snd (remove v p compact)) (fst (fst (kremove k p compact))) = true.
Proof. exact remove_sound. Qed.
Print Assumptions C19_remove_sound.

(* del(x[0]) on [1, "a", true]: remove_shift moves only one element *)
Theorem C19_remove_shift_refuted : exists (v : value) (k : kind) (p : path),
  remove_ok k p false = false /\ wf_value v = true /\ member v k = true
  /\ snd (remove v p false) = VArr [VBytes (hx "61"); VBool true]
  /\ member (snd (remove v p false)) (fst (fst (kremove k p false))) = false.
Proof.
  exists (VArr [VInt 1; VBytes (hx "61"); VBool true]),
         (k_array (mkC [(0%nat, Kind (mkP false true false false false false false false) None None);
                        (1%nat, Kind (mkP true false false false false false false false) None None);
                        (2%nat, Kind (mkP false false false true false false false false) None None)] (UExact k_undefined))),
         [SIndex 0].
  vm_compute. auto 10.
Qed.

(* removal inside an element that is not known is computed on a temporary and thrown away *)
Theorem C19_remove_inside_unknown_refuted : exists (v : value) (k : kind) (p : path),
  remove_ok k p false = false /\ wf_value v = true /\ member v k = true
  /\ member (snd (remove v p false)) (fst (fst (kremove k p false))) = false.
Proof.
  exists (VObj [(hx "7a", VObj [(hx "61", VInt 1)])]),
         (k_object (mkC [] (UExact (k_object (mkC [(hx "61", Kind (mkP false true false false false false false false) None None)]
                                                  (UExact k_undefined)))))),
         [SField (hx "7a"); SField (hx "61")].
  vm_compute. auto 10.
Qed.

(* a single-segment removal never hits an arithmetic-overflow panic, whatever the kind, the segment and
   the compaction flag. Until /repo 3fccdc6 the negative-index branch computed `x + 1 - negative_index`
   in usize and `Kind::array({0: boolean} + unknown any).remove([-2])` panicked (this statement replaces
   C19_remove_negidx_panic_refuted); the subtraction now saturates. That the result is also a sound
   kind is not claimed here: negative indices into arrays of unknown length stay outside remove_ok
   (known finding 10, the elements behind the removed one are not shifted). *)
Theorem C19_remove_single_segment_no_panic : forall (k : kind) (s : seg) (compact : bool),
  snd (kremove k [s] compact) = false.
Proof. exact remove_single_segment_no_panic. Qed.
Print Assumptions C19_remove_single_segment_no_panic.

(* the former panic witness: no panic, and every removal from a member is covered *)
Theorem C19_remove_negidx_below_known_fixed :
  let k := k_array (mkC [(0%nat, Kind (mkP false false false true false false false false) None None)] (UInf inf_any)) in
  snd (kremove k [SIndex (-2)] false) = false
  /\ member (snd (remove (VArr [VBool true; VInt 5]) [SIndex (-2)] false)) (fst (fst (kremove k [SIndex (-2)] false))) = true
  /\ member (snd (remove (VArr [VBool true]) [SIndex (-2)] false)) (fst (fst (kremove k [SIndex (-2)] false))) = true.
Proof. vm_compute. auto. Qed.

(* ---------- merge ---------- *)

(* CollisionStrategy::Union is union *)
Theorem C19_merge_union_sound : forall (a b : kind) (v : value),
  union_compat a b = true -> member v a = true \/ member v b = true -> member v (merge a b Union) = true.
Proof. exact union_sound. Qed.
Print Assumptions C19_merge_union_sound.

(* CollisionStrategy::Overwrite against the shallow right-biased merge of two objects: not proved, and
   false in general — the unknown kinds are merged with overwrite although unknown fields' values are
   not merged at all *)
Theorem C19_merge_overwrite_refuted : exists (a b : kind) (va vb : value),
  member va a = true /\ member vb b = true /\ vb = VObj [(hx "78", VObj [])] /\ va = VObj []
  /\ member vb (merge a b Overwrite) = false.
Proof.
  exists (k_object (mkC [] (UExact (k_object (mkC [(hx "61", Kind (mkP false true false false false false false false) None None)]
                                                  (UExact k_undefined)))))),
         (k_object (mkC [] (UExact (k_object (mkC [] (UExact k_undefined)))))),
         (VObj []), (VObj [(hx "78", VObj [])]).
  vm_compute. auto 10.
Qed.

(* ---------- non-vacuity of the side conditions ---------- *)

Example C19_domains_nonvacuous :
  let int := Kind (mkP false true false false false false false false) None None in
  let str := Kind (mkP true false false false false false false false) None None in
  let arr := k_array (mkC [(0%nat, int); (1%nat, str)] (UExact k_undefined)) in
  let obj := k_object (mkC [(hx "61", arr)] (UInf inf_json)) in
  let v := VObj [(hx "61", VArr [VInt 1; VBytes (hx "78")]); (hx "7a", VNull)] in
  member v obj = true /\ wf_value v = true
  /\ get_ok obj [SField (hx "61"); SIndex (-1)] = true
  /\ ins_ok false obj [SField (hx "61"); SIndex (-2); SField (hx "62")] = true
  /\ ins_ok false obj [SField (hx "61"); SIndex 4] = true
  /\ ins_ok false obj [SField (hx "7a"); SIndex 2] = true
  /\ union_compat obj (k_object (mkC [(hx "62", int)] (UExact k_undefined))) = true
  /\ union_compat k_json (k_array (mkC [(0%nat, int)] (UExact k_undefined))) = true
  /\ no_exact_any obj = true /\ is_superset (k_object coll_any) obj = true
  /\ remove_ok obj [SField (hx "61"); SIndex (-1)] false = true
  /\ remove_ok obj [SField (hx "7a")] true = true
  /\ remove_ok arr [SIndex 0] true = true.
Proof. vm_compute. repeat split; reflexivity. Qed.
