(* C08 — error coalescing and infallible assignment follow their definitions. *)
From Coq Require Import List NArith ZArith Bool String.
From VRL Require Import Base.Bytes Base.Value Base.Lit Model.ValueCrud Model.Expr Model.Eval Model.EvalInst Proofs.EvalProofs.
Import ListNotations.
Local Open Scope string_scope.
Local Open Scope list_scope.
Local Open Scope Z_scope.

(* a ?? b: a's value when a succeeds — b is not evaluated (the state is exactly a's final state);
   b's evaluation (from a's final state) when a fails; return/abort are not failures to recover *)
Theorem C08_coalesce :
  forall F binop a b s,
  eval F binop (EOp OErr a b) s =
  match eval F binop a s with
  | (inl v, s') => (inl v, s')
  | (inr Error, s') => eval F binop b s'
  | (inr ctl, s') => (inr ctl, s')
  end.
Proof. exact eval_err. Qed.
Print Assumptions C08_coalesce.

Theorem C08_coalesce_success :
  forall F binop a b s v s', eval F binop a s = (inl v, s') -> eval F binop (EOp OErr a b) s = (inl v, s').
Proof. exact coalesce_success. Qed.
Print Assumptions C08_coalesce_success.

Theorem C08_coalesce_failure :
  forall F binop a b s s', eval F binop a s = (inr Error, s') -> eval F binop (EOp OErr a b) s = eval F binop b s'.
Proof. exact coalesce_failure. Qed.
Print Assumptions C08_coalesce_failure.

(* ok, err = e: (ok := value, err := null) resp. (ok := default, err := message); the expression
   itself evaluates to the value resp. the message *)
Theorem C08_assign_infallible :
  forall F binop ok er e d s,
  eval F binop (EAssignInf ok er e d) s =
  match eval F binop e s with
  | (inl v, s') => (inl v, target_insert (target_insert s' ok v) er VNull)
  | (inr Error, s') => (inl ERRMSG, target_insert (target_insert s' ok d) er ERRMSG)
  | (inr ctl, s') => (inr ctl, s')
  end.
Proof. exact eval_assign_inf. Qed.
Print Assumptions C08_assign_infallible.

Example C08_example :
  let s := st0 [] (VObj [(hx "61", VBytes (hx "78"))]) (VObj []) in
  run_core
    [EAssignInf (TVar (hx "6f") []) (TVar (hx "65") []) (ECall (nm "int") [EQExt PEvent [SField (hx "61")]]) (VInt 0);
     EAssign (TVar (hx "72") [])
       (EOp OErr (ECall (nm "string") [EQExt PEvent [SField (hx "61")]])
                 (EAssign (TExt PEvent [SField (hx "62")]) (ELit (VInt 1))))] s
  = (Success (VBytes (hx "78")),
     [(hx "72", VBytes (hx "78")); (hx "65", ERRMSG); (hx "6f", VInt 0)], VObj [(hx "61", VBytes (hx "78"))], VObj []).
Proof. vm_compute. reflexivity. Qed.
