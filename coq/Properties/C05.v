(* C05 — stdlib calls terminate promptly.
   PARTIAL by nature: wall-clock time and the ~200 Rust functions are judged on the implementation by a
   per-call watchdog.  Proved here: explicit iteration counts for the two loops of the stdlib whose
   trip count is controlled by an argument VALUE rather than by the size of the input. *)
From Coq Require Import List NArith ZArith Bool.
From VRL Require Import Base.Bytes Base.Value Model.Fuel Proofs.FuelProofs.
Import ListNotations.

(* format_number: a non-negative scale pads at most `scale` zeros (output grows exactly as requested) *)
Theorem C05_format_number_padding_bounded :
  forall scale len : Z, (0 <= scale < two64)%Z -> (0 <= len)%Z -> (0 <= pad_iterations scale len <= scale)%Z.
Proof. exact pad_bounded. Qed.
Print Assumptions C05_format_number_padding_bounded.

(* ...and a negative scale, cast to usize, asks for more than 9.2e18 iterations: the confirmed hang
   of `format_number(1.5, scale: -1)` *)
Theorem C05_format_number_negative_scale_refuted :
  forall scale len : Z, (- 9223372036854775808 <= scale < 0)%Z -> (0 <= len <= 64)%Z ->
  (9223372036854775744 <= pad_iterations scale len)%Z.
Proof. exact pad_negative_huge. Qed.
Print Assumptions C05_format_number_negative_scale_refuted.

(* zip with one argument: given at least one array it stops after at most the shortest length + 1
   rounds ... *)
Theorem C05_zip_terminates :
  forall its : list (list value), its <> [] -> forall fuel, min_len its < fuel -> multizip fuel its <> None.
Proof. exact multizip_terminates. Qed.
Print Assumptions C05_zip_terminates.

(* ... and given no array at all it never stops: the confirmed hang of `zip([])` *)
Theorem C05_zip_empty_refuted : forall fuel, multizip fuel [] = None.
Proof. exact multizip_nil_diverges. Qed.
Print Assumptions C05_zip_empty_refuted.

Example C05_example :
  multizip 4 [[VInt 1; VInt 2; VInt 3]; [VNull; VNull]] = Some [[VInt 1; VNull]; [VInt 2; VNull]]
  /\ pad_iterations 5 2 = 3%Z /\ pad_iterations (-1) 1 = 18446744073709551614%Z.
Proof. vm_compute. repeat split; reflexivity. Qed.
