(* C05 — stdlib calls terminate promptly.
   PARTIAL by nature: wall-clock time and the ~200 Rust functions are judged on the implementation by a
   per-call watchdog.  Proved here: explicit iteration counts for the two loops of the stdlib whose
   trip count is controlled by an argument VALUE rather than by the size of the input. *)
From Coq Require Import List NArith ZArith Bool.
From VRL Require Import Base.Bytes Base.Value Model.Fuel Proofs.FuelProofs.
Import ListNotations.

(* format_number: the padding loop runs at most max(scale, 0) times, for every scale (the output grows
   exactly as requested; a scale <= 0 pads nothing since fix: 77df93e) *)
Theorem C05_format_number_padding_bounded :
  forall scale len : Z, (scale < two64)%Z -> (0 <= len)%Z -> (0 <= pad_iterations scale len <= Z.max scale 0)%Z.
Proof. exact pad_bounded. Qed.
Print Assumptions C05_format_number_padding_bounded.

(* the code before the fix cast the scale to usize first: a negative scale then asked for more than
   9.2e18 iterations - the former hang of `format_number(1.5, scale: -1)`, kept as the reason for the guard *)
Theorem C05_format_number_negative_scale_former_hang :
  forall scale len : Z, (- 9223372036854775808 <= scale < 0)%Z -> (0 <= len <= 64)%Z ->
  (9223372036854775744 <= pad_iterations_cast scale len)%Z.
Proof. exact pad_negative_huge. Qed.
Print Assumptions C05_format_number_negative_scale_former_hang.

(* zip with one argument: given at least one array it stops after at most the shortest length + 1
   rounds ... *)
Theorem C05_zip_terminates :
  forall its : list (list value), its <> [] -> forall fuel, min_len its < fuel -> multizip fuel its <> None.
Proof. exact multizip_terminates. Qed.
Print Assumptions C05_zip_terminates.

(* ... the collect loop itself never stops when there is no array at all (the former hang of `zip([])`),
   which is why zip_all answers [] for that input since fix: ab82607 ... *)
Theorem C05_zip_collect_diverges_without_arrays : forall fuel, multizip fuel [] = None.
Proof. exact multizip_nil_diverges. Qed.
Print Assumptions C05_zip_collect_diverges_without_arrays.

(* ... so that zip with one argument terminates for every list of arrays *)
Theorem C05_zip_all_terminates :
  forall (its : list (list value)) fuel, min_len its < fuel -> zip_all fuel its <> None.
Proof. exact zip_all_terminates. Qed.
Print Assumptions C05_zip_all_terminates.

Example C05_example :
  multizip 4 [[VInt 1; VInt 2; VInt 3]; [VNull; VNull]] = Some [[VInt 1; VNull]; [VInt 2; VNull]]
  /\ pad_iterations 5 2 = 3%Z /\ pad_iterations (-1) 1 = 0%Z /\ pad_iterations_cast (-1) 1 = 18446744073709551614%Z
  /\ zip_all 1 [] = Some [].
Proof. vm_compute. repeat split; reflexivity. Qed.
