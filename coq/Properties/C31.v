(* C31 — Datadog search matching follows the query semantics.
   Model: Model/DdMatch.v (matcher.rs build_matcher + combinators, filter.rs range, VrlFilter of
   match_datadog_query.rs, field.rs normalize_fields).  `sem` is the direct evaluator (the specification),
   `build_matcher` + `run` the implementation's two-stage closure construction.  fdisp / tsdisp are the
   Display of floats / timestamps (library behaviour, universally quantified).  Statements only. *)
From Coq Require Import List NArith ZArith Bool String.
From Coq Require Import Floats.SpecFloat.
From VRL Require Import Base.Bytes Base.Value Base.Lit Model.ValueCrud Model.DdNode Model.DdMatch Proofs.DdMatchProofs.
Import ListNotations.
Local Open Scope string_scope.
Local Open Scope list_scope.

(* The matcher the implementation builds decides exactly the specification, for every query, event and
   Display functions, outside the two recorded departures (`known`: existence of the reserved attribute
   `tags` on an event that has one; a tag comparison on an event carrying a tag with another key). *)
Theorem C31_refines : forall (fdisp : spec_float -> bytes) (tsdisp : Z -> bytes) (n : node) (m : matcher) (e : value),
  build_matcher fdisp n = BOk m -> known fdisp tsdisp e n = false ->
  run fdisp tsdisp m e = sem fdisp tsdisp n e.
Proof. exact refines. Qed.
Print Assumptions C31_refines.

(* ...and at the level of the function: it compiles exactly when every attribute names a valid path, and then
   returns the specification's verdict *)
Theorem C31_match_refines : forall fdisp tsdisp (n : node) (e : value),
  wf_node n = true -> known fdisp tsdisp e n = false ->
  match_datadog_query fdisp tsdisp n e = MRBool (sem fdisp tsdisp n e).
Proof. exact match_refines. Qed.
Print Assumptions C31_match_refines.

Theorem C31_compiles_iff_wf : forall fdisp (n : node),
  (exists m, build_matcher fdisp n = BOk m) <-> wf_node n = true.
Proof. exact build_ok_iff. Qed.
Print Assumptions C31_compiles_iff_wf.

(* --- boolean operators and negation compose as logical operations: on the implementation's own
       matchers, without any exclusion --- *)
Theorem C31_impl_not : forall fdisp tsdisp (n : node) (m' : matcher) (e : value),
  build_matcher fdisp (NNot n) = BOk m' ->
  exists m, build_matcher fdisp n = BOk m /\ run fdisp tsdisp m' e = negb (run fdisp tsdisp m e).
Proof. exact impl_not. Qed.
Print Assumptions C31_impl_not.

Theorem C31_impl_and : forall fdisp tsdisp (ns : list node) (m' : matcher) (e : value),
  build_matcher fdisp (NBool BAnd ns) = BOk m' ->
  exists ms, Forall2 (fun n m => build_matcher fdisp n = BOk m) ns ms /\
             run fdisp tsdisp m' e = forallb (fun m => run fdisp tsdisp m e) ms.
Proof. exact impl_and. Qed.
Print Assumptions C31_impl_and.

Theorem C31_impl_or : forall fdisp tsdisp (ns : list node) (m' : matcher) (e : value),
  build_matcher fdisp (NBool BOr ns) = BOk m' ->
  exists ms, Forall2 (fun n m => build_matcher fdisp n = BOk m) ns ms /\
             run fdisp tsdisp m' e = existsb (fun m => run fdisp tsdisp m e) ms.
Proof. exact impl_or. Qed.
Print Assumptions C31_impl_or.

(* --- a range holds exactly when both of its bounds hold (inclusive and exclusive brackets) --- *)
Theorem C31_impl_range : forall fdisp tsdisp a lo li hi ui (m : matcher) (e : value),
  bytes_eqb a DEFAULT_FIELD = false -> bounded lo = true -> bounded hi = true ->
  build_matcher fdisp (NRange a lo li hi ui) = BOk m ->
  exists m1 m2,
    build_matcher fdisp (NCmp a (lower_op li) lo) = BOk m1 /\
    build_matcher fdisp (NCmp a (upper_op ui) hi) = BOk m2 /\
    run fdisp tsdisp m e = run fdisp tsdisp m1 e && run fdisp tsdisp m2 e.
Proof. exact impl_range. Qed.
Print Assumptions C31_impl_range.

(* unbounded sides: the very same matcher as the remaining comparison / as existence *)
Theorem C31_impl_range_upper : forall fdisp a li hi ui, bounded hi = true ->
  build_matcher fdisp (NRange a CUnb li hi ui) = build_matcher fdisp (NCmp a (upper_op ui) hi).
Proof. exact impl_range_upper. Qed.
Print Assumptions C31_impl_range_upper.

Theorem C31_impl_range_lower : forall fdisp a lo li ui, bounded lo = true ->
  build_matcher fdisp (NRange a lo li CUnb ui) = build_matcher fdisp (NCmp a (lower_op li) lo).
Proof. exact impl_range_lower. Qed.
Print Assumptions C31_impl_range_lower.

Theorem C31_impl_range_open : forall fdisp a li ui,
  build_matcher fdisp (NRange a CUnb li CUnb ui) = build_matcher fdisp (NExists a).
Proof. exact impl_range_open. Qed.
Print Assumptions C31_impl_range_open.

(* --- the same sentences on the specification --- *)
Theorem C31_sem_not : forall fdisp tsdisp n e, sem fdisp tsdisp (NNot n) e = negb (sem fdisp tsdisp n e).
Proof. exact sem_not. Qed.
Print Assumptions C31_sem_not.

Theorem C31_sem_and : forall fdisp tsdisp ns e,
  sem fdisp tsdisp (NBool BAnd ns) e = forallb (fun n => sem fdisp tsdisp n e) ns.
Proof. exact sem_and. Qed.
Print Assumptions C31_sem_and.

Theorem C31_sem_or : forall fdisp tsdisp ns e,
  sem fdisp tsdisp (NBool BOr ns) e = existsb (fun n => sem fdisp tsdisp n e) ns.
Proof. exact sem_or. Qed.
Print Assumptions C31_sem_or.

Theorem C31_sem_missing : forall fdisp tsdisp a e,
  sem fdisp tsdisp (NMissing a) e = negb (sem fdisp tsdisp (NExists a) e).
Proof. exact sem_missing. Qed.
Print Assumptions C31_sem_missing.

Theorem C31_sem_de_morgan_and : forall fdisp tsdisp ns e,
  sem fdisp tsdisp (NNot (NBool BAnd ns)) e = sem fdisp tsdisp (NBool BOr (map NNot ns)) e.
Proof. exact sem_de_morgan_and. Qed.
Print Assumptions C31_sem_de_morgan_and.

Theorem C31_sem_de_morgan_or : forall fdisp tsdisp ns e,
  sem fdisp tsdisp (NNot (NBool BOr ns)) e = sem fdisp tsdisp (NBool BAnd (map NNot ns)) e.
Proof. exact sem_de_morgan_or. Qed.
Print Assumptions C31_sem_de_morgan_or.

Theorem C31_sem_range : forall fdisp tsdisp a lo li hi ui e,
  bytes_eqb a DEFAULT_FIELD = false -> bounded lo = true -> bounded hi = true ->
  sem fdisp tsdisp (NRange a lo li hi ui) e =
  sem fdisp tsdisp (NCmp a (lower_op li) lo) e && sem fdisp tsdisp (NCmp a (upper_op ui) hi) e.
Proof. exact sem_range_single. Qed.
Print Assumptions C31_sem_range.

(* without a field name the query addresses the five default fields: one of them satisfies both bounds *)
Theorem C31_sem_range_fields : forall fdisp tsdisp a lo li hi ui e,
  bounded lo = true -> bounded hi = true ->
  sem fdisp tsdisp (NRange a lo li hi ui) e =
  existsb (fun f => s_compare fdisp tsdisp (lower_op li) lo e f && s_compare fdisp tsdisp (upper_op ui) hi e f)
          (normalize_fields a).
Proof. exact sem_range_fields. Qed.
Print Assumptions C31_sem_range_fields.

Theorem C31_sem_range_upper : forall fdisp tsdisp a li hi ui e, bounded hi = true ->
  sem fdisp tsdisp (NRange a CUnb li hi ui) e = sem fdisp tsdisp (NCmp a (upper_op ui) hi) e.
Proof. exact sem_range_upper. Qed.
Print Assumptions C31_sem_range_upper.

Theorem C31_sem_range_lower : forall fdisp tsdisp a lo li ui e, bounded lo = true ->
  sem fdisp tsdisp (NRange a lo li CUnb ui) e = sem fdisp tsdisp (NCmp a (lower_op li) lo) e.
Proof. exact sem_range_lower. Qed.
Print Assumptions C31_sem_range_lower.

(* --- the leaves are judged on the addressed attribute / tag values --- *)
Theorem C31_leaf_attr_exists : forall fdisp tsdisp s e,
  s_exists fdisp tsdisp e (FAttribute s) = true <->
  exists p x, parse_value_path s = PPOk p /\ get e p = Some x.
Proof. exact leaf_attr_exists. Qed.
Print Assumptions C31_leaf_attr_exists.

Theorem C31_leaf_attr_equals : forall fdisp tsdisp s v e,
  s_equals fdisp tsdisp v e (FAttribute s) = true <->
  exists p x, parse_value_path s = PPOk p /\ get e p = Some x /\ string_value fdisp tsdisp x = v.
Proof. exact leaf_attr_equals. Qed.
Print Assumptions C31_leaf_attr_equals.

Theorem C31_leaf_attr_prefix : forall fdisp tsdisp s v e,
  s_prefix fdisp tsdisp v e (FAttribute s) = true <->
  exists p x r, parse_value_path s = PPOk p /\ get e p = Some x /\ string_value fdisp tsdisp x = v ++ r.
Proof. exact leaf_attr_prefix. Qed.
Print Assumptions C31_leaf_attr_prefix.

(* gmatch w s: every `*` of w stands for a run of bytes without newline, every other byte for itself *)
Theorem C31_leaf_attr_wildcard : forall fdisp tsdisp s w e,
  s_wildcard fdisp tsdisp w e (FAttribute s) = true <->
  exists p x, parse_value_path s = PPOk p /\ get e p = Some x /\ gmatch w (string_value fdisp tsdisp x).
Proof. exact leaf_attr_wildcard. Qed.
Print Assumptions C31_leaf_attr_wildcard.

Theorem C31_leaf_glob : forall w s, glob (pat_of w) s = true <-> gmatch w s.
Proof. exact glob_correct. Qed.
Print Assumptions C31_leaf_glob.

Theorem C31_leaf_attr_compare_int : forall fdisp tsdisp s op l r e p,
  parse_value_path s = PPOk p -> get e p = Some (VInt l) ->
  s_compare fdisp tsdisp op (CInt r) e (FAttribute s) = zcmp op l r.
Proof. exact leaf_attr_compare_int. Qed.
Print Assumptions C31_leaf_attr_compare_int.

Theorem C31_leaf_attr_compare_float : forall fdisp tsdisp s op l r e p,
  parse_value_path s = PPOk p -> get e p = Some (VFloat l) ->
  s_compare fdisp tsdisp op (CFloat r) e (FAttribute s) = fcmp op l r.
Proof. exact leaf_attr_compare_float. Qed.
Print Assumptions C31_leaf_attr_compare_float.

Theorem C31_leaf_attr_compare_string : forall fdisp tsdisp s op r e p x,
  parse_value_path s = PPOk p -> get e p = Some x ->
  s_compare fdisp tsdisp op (CStr r) e (FAttribute s) = scmp op (string_value fdisp tsdisp x) r.
Proof. exact leaf_attr_compare_string. Qed.
Print Assumptions C31_leaf_attr_compare_string.

Theorem C31_leaf_zcmp : forall op a b,
  zcmp op a b = true <-> match op with Lt => a < b | Lte => a <= b | Gt => a > b | Gte => a >= b end%Z.
Proof. exact zcmp_spec. Qed.
Print Assumptions C31_leaf_zcmp.

Theorem C31_leaf_tag_exists : forall fdisp tsdisp tag e,
  s_exists fdisp tsdisp e (FTag tag) = true <->
  exists vs x, get e [SField TAGS] = Some (VArr vs) /\ In x vs /\
               (string_value fdisp tsdisp x = tag \/ exists r, string_value fdisp tsdisp x = tag ++ 58%N :: r).
Proof. exact leaf_tag_exists. Qed.
Print Assumptions C31_leaf_tag_exists.

Theorem C31_leaf_tag_equals : forall fdisp tsdisp tag v e,
  s_equals fdisp tsdisp v e (FTag tag) = true <->
  exists vs, get e [SField TAGS] = Some (VArr vs) /\ In (VBytes (tag ++ 58%N :: v)) vs.
Proof. exact leaf_tag_equals. Qed.
Print Assumptions C31_leaf_tag_equals.

Theorem C31_leaf_tag_compare : forall fdisp tsdisp tag op cv e,
  s_compare fdisp tsdisp op cv e (FTag tag) = true <->
  exists vs x lhs, get e [SField TAGS] = Some (VArr vs) /\ In x vs /\
                   string_value fdisp tsdisp x = tag ++ 58%N :: lhs /\ ~ In 58%N tag /\
                   scmp op lhs (cval_display fdisp cv) = true.
Proof. exact leaf_tag_compare. Qed.
Print Assumptions C31_leaf_tag_compare.

(* a term without a field name: one of the five default fields holds a string in which the term occurs between
   two word boundaries (wb = exactly one side is a word byte; gmatch: every `*` a run without newline) *)
Theorem C31_leaf_word_match : forall w s,
  word_match (pat_of w) s = true <->
  exists pre mid post, s = pre ++ mid ++ post /\ gmatch w mid /\
                       wb (last_or None pre) (mid ++ post) = true /\
                       wb (last_or (last_or None pre) mid) post = true.
Proof. exact word_match_correct. Qed.
Print Assumptions C31_leaf_word_match.

Theorem C31_leaf_default_term : forall fdisp tsdisp s v e,
  s_equals fdisp tsdisp v e (FDefault s) = true <->
  exists p b, parse_value_path s = PPOk p /\ get e p = Some (VBytes b) /\ word_match (pat_of v) b = true.
Proof. exact leaf_default_term. Qed.
Print Assumptions C31_leaf_default_term.

(* --- the two departures of the implementation from the specification (known findings) --- *)

(* C31-exists-tags: `_exists_:tags` is false on every event (the closure compares each element of the
   array with the array itself), although the specification says true whenever the attribute is there *)
Theorem C31_exists_tags_never : forall fdisp tsdisp m e,
  build_matcher fdisp (NExists TAGS) = BOk m -> run fdisp tsdisp m e = false.
Proof. exact exists_tags_never. Qed.
Print Assumptions C31_exists_tags_never.

Example C31_exists_tags_refuted :
  let e := VObj [(bs "tags", VArr [VBytes (bs "a")])] in
  match_datadog_query fdisp_simple tsdisp_none (NExists TAGS) e = MRBool false
  /\ sem fdisp_simple tsdisp_none (NExists TAGS) e = true
  /\ match_datadog_query fdisp_simple tsdisp_none (NTerm TAGS (bs "a")) e = MRBool true
  /\ known fdisp_simple tsdisp_none e (NExists TAGS) = true.
Proof. vm_compute. repeat split. Qed.

(* C31-tagcmp-key: `tag1:>a` holds on an event whose only tag is "other:zzz" *)
Example C31_tagcmp_key_refuted :
  let e := VObj [(bs "tags", VArr [VBytes (bs "other:zzz")])] in
  let n := NCmp (bs "tag1") Gt (CStr (bs "a")) in
  match_datadog_query fdisp_simple tsdisp_none n e = MRBool true
  /\ sem fdisp_simple tsdisp_none n e = false
  /\ match_datadog_query fdisp_simple tsdisp_none (NExists (bs "tag1")) e = MRBool false
  /\ known fdisp_simple tsdisp_none e n = true.
Proof. vm_compute. repeat split. Qed.

(* non-vacuity of C31_refines / C31_impl_range: a nested query over a tag, a facet, a reserved attribute
   and the default fields, on an event where it is outside `known` *)
Example C31_refines_nonvacuous :
  let e := VObj [(bs "a", VInt 7); (bs "host", VBytes (bs "h1")); (bs "message", VBytes (bs "hello big world"));
                 (bs "tags", VArr [VBytes (bs "tag1:foo"); VBytes (bs "tag1:zz")])] in
  let n := NBool BAnd [NRange (bs "@a") (CInt 5) true (CFloat (f64_of_bits 0x4024000000000000)) false;
                       NNot (NTerm (bs "host") (bs "h2"));
                       NBool BOr [NTerm (bs "_default_") (bs "big"); NExists (bs "tag9")];
                       NRange (bs "tag1") (CStr (bs "a")) true (CStr (bs "g")) true;
                       NWild (bs "host") (bs "h*")] in
  wf_node n = true /\ known fdisp_simple tsdisp_none e n = false
  /\ match_datadog_query fdisp_simple tsdisp_none n e = MRBool true
  /\ sem fdisp_simple tsdisp_none n e = true.
Proof. vm_compute. repeat split. Qed.
