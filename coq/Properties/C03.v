(* C03 — every stdlib function honours its declared signature.
   PARTIAL by nature: the property ranges over ~200 Rust functions; a Gallina model exists only for the
   closure-free functions of Model/EvalInst.v (type assertions string/int/bool/array/object, is_null,
   is_string, length), whose declared signatures (Model/StdSig.v) are compared with the running
   implementation's Function::parameters()/return_kind() on every check.  For all other functions the
   property is judged on the implementation by the check's sweep (exploration, not proof). *)
From Coq Require Import List NArith ZArith Bool String.
From VRL Require Import Base.Bytes Base.Value Model.Expr Model.EvalInst Model.StdSig Proofs.StdSigProofs.
Import ListNotations.
Local Open Scope string_scope.

Theorem C03_modelled_functions_honour_signatures_partial :
  forall sg v, In sg sigs ->
    (forall r, F_inst (nm (s_name sg)) [v] = Some r -> in_mask r (s_return sg) = true) /\
    (s_infallible_when_typed sg = true -> in_mask v (s_param sg) = true -> F_inst (nm (s_name sg)) [v] <> None) /\
    (in_mask v (s_param sg) = false -> F_inst (nm (s_name sg)) [v] = None).
Proof. exact modelled_functions_honour_signatures. Qed.
Print Assumptions C03_modelled_functions_honour_signatures_partial.

Theorem C03_type_assertions_fail_exactly_on_wrong_type :
  forall v,
    (F_inst (nm "string") [v] = None <-> kind_bit v <> K_BYTES) /\
    (F_inst (nm "int") [v] = None <-> kind_bit v <> K_INTEGER) /\
    (F_inst (nm "bool") [v] = None <-> kind_bit v <> K_BOOLEAN) /\
    (F_inst (nm "array") [v] = None <-> kind_bit v <> K_ARRAY) /\
    (F_inst (nm "object") [v] = None <-> kind_bit v <> K_OBJECT).
Proof. exact type_assertions_exact. Qed.
Print Assumptions C03_type_assertions_fail_exactly_on_wrong_type.

Example C03_example :
  F_inst (nm "length") [VArr [VInt 1; VNull]] = Some (VInt 2) /\ F_inst (nm "length") [VInt 3] = None
  /\ in_mask (VInt 3) (s_param (mkSig "length" (N.lor K_BYTES (N.lor K_ARRAY K_OBJECT)) K_INTEGER true)) = false.
Proof. vm_compute. repeat split; reflexivity. Qed.
