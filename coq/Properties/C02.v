(* C02 — accepted programs without `!` or `abort` never fail at runtime.
   Model: Model/TypeInfo.v (fallibility of `type_info`) against the evaluator Model/Eval.v. *)
From Coq Require Import List NArith ZArith Bool String.
From VRL Require Import Base.Bytes Base.Value Base.Lit Model.ValueCrud Model.Kind Model.KindCrud Model.Expr Model.Eval
  Model.EvalInst Model.TypeInfo Model.TypeInfoInst Model.TypeDomains Model.TypeWitnesses.
Import ListNotations.
Local Open Scope string_scope.
Local Open Scope list_scope.
Local Open Scope Z_scope.

(* FULL STATEMENT NOT PROVED (C02_infallible_never_errors): for every program outside the known classes
   (program_reason = 0), an expression typed infallible does not evaluate to an error in a conforming
   state (given a function table sound for F), except for the NaN error of float arithmetic.
   It is false without the exclusion; each theorem below is a program without `!` and `abort` that
   the compiler types as infallible and that fails at run time. *)

(* .a = 1; x = (.a.q || "s"); x && true — a left operand of || that can only be missing is typed always-true *)
Theorem C02_or_undefined_refuted :
  w_fallible w_or_undefined = false /\ w_reason w_or_undefined = 123%N
  /\ fst (w_run w_or_undefined (VObj [])) = Failed.
Proof. vm_compute. auto. Qed.

(* x = if .c == true { true } else { {"a": 1} }; x.b = .zz; x.a + 1 — insert through a slot that need not hold
   the object keeps its fields required (C19-insert-coerce-keeps-required) *)
Theorem C02_insert_coerce_refuted :
  w_fallible w_coerce = false /\ w_reason w_coerce = 103%N /\ fst (w_run w_coerce ev_c_true) = Failed.
Proof. vm_compute. auto. Qed.

(* .x = [1, "a", true, 7]; del(.x[0]); .x[3] + 1 — remove_shift (C19-remove-shift-one-only) *)
Theorem C02_remove_shift_refuted :
  w_fallible w_remove_shift = false /\ w_reason w_remove_shift = 107%N
  /\ fst (w_run w_remove_shift (VObj [])) = Failed.
Proof. vm_compute. auto. Qed.

(* .a = 1; for_each([1]) -> |k, v| { .a = "s"; null }; .a + 1 — a closure body's effects are dropped *)
Theorem C02_closure_effect_refuted :
  w_fallible w_closure_event = false /\ w_reason w_closure_event = 122%N
  /\ fst (w_run w_closure_event (VObj [])) = Failed.
Proof. vm_compute. auto. Qed.

(* the documented exception is modelled: a constant float operation that produces NaN (here inf - inf,
   both built by constant multiplication) is typed fallible, and it fails at run time *)
Example C02_nan_exception_typed :
  let big := ELit (VFloat (f64_of_bits 0x7fe0000000000000)) in
  let inf := EOp OMul big big in
  td_fal (snd (type_info_inst inf ts_default)) = false
  /\ td_fal (snd (type_info_inst (EOp OSub inf inf) ts_default)) = true
  /\ fst (w_run [EOp OSub inf inf] (VObj [])) = Failed.
Proof. vm_compute. auto. Qed.
