(* C02 — accepted programs without `!` or `abort` never fail at runtime.
   Model: Model/TypeInfo.v (fallibility of `type_info`) against the evaluator Model/Eval.v. *)
From Coq Require Import List NArith ZArith Bool String.
From VRL Require Import Base.Bytes Base.Value Base.Lit Model.ValueCrud Model.Kind Model.KindCrud Model.Expr Model.Eval
  Model.EvalInst Model.TypeInfo Model.TypeInfoInst Model.TypeDomains Model.TypeWitnesses.
Import ListNotations.
Local Open Scope string_scope.
Local Open Scope list_scope.
Local Open Scope Z_scope.

(* FULL STATEMENT NOT PROVED (C02_infallible_never_errors): for every program outside the known classes
   (program_reason = 0), an expression typed infallible does not evaluate to an error in a conforming
   state (given a function table sound for F), except for the NaN error of float arithmetic.
   It is false without the exclusion; each theorem below is a program without `!` and `abort` that
   the compiler types as infallible and that fails at run time. *)

(* .a = 1; x = (.a.q || "s"); x && true — a left operand of || that can only be missing is typed always-true *)
Theorem C02_or_undefined_refuted :
  w_fallible w_or_undefined = false /\ w_reason w_or_undefined = 123%N
  /\ fst (w_run w_or_undefined (VObj [])) = Failed.
Proof. vm_compute. auto. Qed.

(* x = if .c == true { true } else { {"a": 1} }; x.b = .zz; x.a + 1 — insert through a slot that need not hold
   the object keeps its fields required (C19-insert-coerce-keeps-required) *)
Theorem C02_insert_coerce_refuted :
  w_fallible w_coerce = false /\ w_reason w_coerce = 103%N /\ fst (w_run w_coerce ev_c_true) = Failed.
Proof. vm_compute. auto. Qed.

(* .x = [1, "a", true, 7]; del(.x[0]); .x[3] + 1 — remove_shift (C19-remove-shift-one-only) *)
Theorem C02_remove_shift_refuted :
  w_fallible w_remove_shift = false /\ w_reason w_remove_shift = 107%N
  /\ fst (w_run w_remove_shift (VObj [])) = Failed.
Proof. vm_compute. auto. Qed.

(* .a = 1; for_each([1]) -> |k, v| { .a = "s"; null }; .a + 1 — a closure body's effects are dropped *)
Theorem C02_closure_effect_refuted :
  w_fallible w_closure_event = false /\ w_reason w_closure_event = 122%N
  /\ fst (w_run w_closure_event (VObj [])) = Failed.
Proof. vm_compute. auto. Qed.

(* true && .i — with a constant-true left operand Op::type_info keeps the right operand's fallibility
   but never checks its kind against null-or-boolean; `true && -7` fails *)
Theorem C02_and_true_rhs_refuted :
  w_fallible w_and_true = false /\ w_reason w_and_true = 130%N /\ fst (w_run w_and_true ev_i_int) = Failed.
Proof. vm_compute. auto. Qed.

(* (1 / 0) / 7 — the type of a division starts from a fresh TypeDef::float(), so with a constant non-zero
   divisor the whole expression is infallible whatever the left operand is: the failing inner division
   goes unnoticed *)
Theorem C02_div_lhs_fallible_refuted :
  w_fallible w_div_lhs = false /\ w_reason w_div_lhs = 131%N /\ fst (w_run w_div_lhs (VObj [])) = Failed.
Proof. vm_compute. auto. Qed.

(* the documented exception is modelled: a constant float operation that produces NaN (here inf - inf,
   both built by constant multiplication) is typed fallible, and it fails at run time *)
Example C02_nan_exception_typed :
  let big := ELit (VFloat (f64_of_bits 0x7fe0000000000000)) in
  let inf := EOp OMul big big in
  td_fal (snd (type_info_inst inf ts_default)) = false
  /\ td_fal (snd (type_info_inst (EOp OSub inf inf) ts_default)) = true
  /\ fst (w_run [EOp OSub inf inf] (VObj [])) = Failed.
Proof. vm_compute. auto. Qed.

(* ---------- what is proved: no failure on the straight-line fragment (Model/TypeFragment.v) ---------- *)

From VRL Require Import Model.KindDomains Model.TypeFragment Proofs.TypeSoundProofs.

Lemma binop_inst_eq2 : forall x y, exists b, binop_inst OEq x y = Some (VBool b).
Proof. intros x y. eexists. reflexivity. Qed.
Lemma binop_inst_ne2 : forall x y, exists b, binop_inst ONe x y = Some (VBool b).
Proof. intros x y. eexists. reflexivity. Qed.

(* a statement of the fragment (an effect-free expression or its assignment, see Properties/C01.v), typed
   in a state the run-time state conforms to, never ends in an error, an abort, a return or a panic —
   for every function table *)
Theorem C02_statement_never_errors_partial :
  forall (F : fname -> list value -> option value) (T : fname -> list tdef -> list tdef -> tdef)
         (e : expr) (G : tstate) (s : state) (c : err) (s' : state),
  stmt_ok binop_inst T e G = true -> conf G s -> eval F binop_inst e s <> (inr c, s').
Proof.
  intros F T e G s c s' Hok Hc.
  destruct (stmt_sound F binop_inst T binop_inst_eq2 binop_inst_ne2 e G s Hok Hc) as (v & s1 & Hev & _).
  rewrite Hev. discriminate.
Qed.
Print Assumptions C02_statement_never_errors_partial.

(* C02 for straight-line programs of the fragment: whatever the conforming event and metadata, the run
   succeeds (no `Failed`, no abort, no panic).  The `!` on a non-boolean and the failing arithmetic that
   make programs fallible are outside the fragment; every statement is judged in the type state the
   compiler has before it, so the theorem does use the compiler's kinds (e.g. for `!x`). *)
Theorem C02_straightline_never_fails_partial :
  forall (es : list expr) (ek mk : kind) (event meta : value),
  es <> [] -> stmts_ok binop_inst T_inst es (ts0 ek mk) = true ->
  member event ek = true -> wf_value event = true -> member meta mk = true -> wf_value meta = true ->
  exists v, fst (run_typed es (st0 [] event meta)) = Success v.
Proof.
  intros es ek mk event meta Hne Hok He Hwe Hm Hwm.
  destruct (run_sound F_typed binop_inst T_inst binop_inst_eq2 binop_inst_ne2 es ek mk event meta Hne Hok He Hwe Hm Hwm)
    as (v & s' & Hr & _).
  exists v. unfold run_typed. rewrite Hr. reflexivity.
Qed.
Print Assumptions C02_straightline_never_fails_partial.
