(* C32 — Grok rules match and capture faithfully.
   Model: Model/Grok.v (src/datadog/grok/{parse_grok_rules,parse_grok,grok_filter,grok}.rs on a fragment: literal
   characters, the core patterns word / integer / notSpace / data, user aliases, the filters integer, number, scale,
   lowercase, uppercase, nullIf).  Nothing but statements here.

   A grok rule's text is a regular expression: the implementation does not escape anything, `a.c` matches `abc` by design.
   "A literal-only rule matches exactly its own text" is therefore a statement about the text a user has to write,
   esc s, which puts a backslash before every ASCII punctuation character.
   Partial: Oniguruma and the pattern library outside the fragment are not modelled (see notes/C32.md). *)
From Coq Require Import List NArith ZArith Bool.
From VRL Require Import Base.Bytes Base.Value Model.ValueCrud Model.IntText Model.Grok Proofs.GrokProofs.
Import ListNotations.
Local Open Scope list_scope.

(* escaping is complete: whatever bytes s is made of (every regex metacharacter, `%{`, quotes, ...), the rule text
   esc s is scanned without finding a %{..} pattern, compiles to the literal pieces of s, and the anchored rule
   matches t exactly when t = s *)
Theorem C32_literal : forall (aliases : list (bytes * bytes)) (s t : bytes),
  compile_rule aliases (esc s) = Some (inl (map PLit s, [])) /\ (matches (map PLit s) t <-> t = s).
Proof. intros al s t. split; [apply compile_literal|apply literal_matches]. Qed.
Print Assumptions C32_literal.

(* the same for the executable matcher: it answers with no captures when t = s and with "no match" otherwise *)
Theorem C32_literal_exec : forall (s t : bytes),
  match_rule (map PLit s) t = if bytes_eqb t s then Some [] else None.
Proof. exact literal_exec. Qed.
Print Assumptions C32_literal_exec.

(* a compiled rule matches a text exactly when the text splits into consecutive parts that match the rule's pieces
   in order (mlist: literals, k?, k+ / k*, \b with its left and right context, groups), for every rule of the fragment *)
Theorem C32_rule : forall (ps : list piece) (t : bytes),
  (exists caps, match_rule ps t = Some caps) <-> matches ps t.
Proof. exact match_rule_iff. Qed.
Print Assumptions C32_rule.

(* ... and alternative by alternative: everything the backtracking enumerates is such a split of a prefix, and every
   split of a prefix is enumerated (so the priorities only choose among genuine splits) *)
Theorem C32_rule_exec : forall (ps : list piece) (caps : list (nat * bytes)) (p : option N) (w rest : bytes)
                               (cs : list (nat * bytes)),
  (mlist ps p w (hd_opt rest) cs -> In (cs ++ caps, last_of p w, rest) (run_list ps caps p (w ++ rest)))
  /\ (forall a, In a (run_list ps caps p (w ++ rest)) ->
        let '(c1, p1, s1) := a in
        exists w' cs', w ++ rest = w' ++ s1 /\ mlist ps p w' (hd_opt s1) cs' /\ c1 = cs' ++ caps /\ p1 = last_of p w').
Proof.
  intros ps caps p w rest cs. split.
  - apply complete_list. apply all_complete.
  - intros a Ha. exact (sound_list ps (all_sound ps) caps p (w ++ rest) a Ha).
Qed.
Print Assumptions C32_rule_exec.

(* captured fields hold the matched substrings: the captures returned for a text are those of a split of that text -
   each named group (g, part) is listed with exactly the part of the text the group matched in that split *)
Theorem C32_captures : forall (ps : list piece) (t : bytes) (caps : list (nat * bytes)),
  match_rule ps t = Some caps -> mlist ps None t None caps.
Proof. exact match_rule_sound. Qed.
Print Assumptions C32_captures.

(* alias expansion terminates within its fuel (number of aliases + 1): the alias stack holds distinct alias names *)
Theorem C32_cycle_fuel : forall (aliases : list (bytes * bytes)) (rule : bytes),
  compile_rule aliases rule <> Some (inr EFuel).
Proof. exact compile_never_out_of_fuel. Qed.
Print Assumptions C32_cycle_fuel.

(* a reference to an alias whose expansion is in progress is rejected at compile time with the circular-dependency
   error, which names the outermost alias under expansion (alias_stack.first()) *)
Theorem C32_cycle_rejected :
  forall (aliases : list (bytes * bytes)) (rec : list tok -> ctx -> cres ctx) (inner : bytes) (rest : list tok)
         (cx : ctx) (p : pat) (def : bytes),
    parse_pat inner = Some p -> p_dest p = None ->
    alias_get aliases (p_name p) = Some def -> on_stack (c_stack cx) (p_name p) = true ->
    comp_toks aliases rec (TPat inner :: rest) cx = Some (inr (ECircular (last (c_stack cx) (p_name p)))).
Proof. exact cycle_rejected. Qed.
Print Assumptions C32_cycle_rejected.

(* whole-pipeline instances for arbitrary identifiers a, b: a self-referential alias and a cycle of length two *)
Theorem C32_cycle_two : forall (a b : bytes), ident a -> ident b -> a <> b ->
  compile_rule [(a, ref b); (b, ref a)] (ref a) = Some (inr (ECircular a))
  /\ (forall aliases, alias_get aliases a = Some (ref a) -> compile_rule aliases (ref a) = Some (inr (ECircular a))).
Proof. intros a b Ha Hb Hab. split; [apply cycle_two; auto|intros al H; apply cycle_self; auto]. Qed.
Print Assumptions C32_cycle_two.

(* the filters of the fragment: nullIf drops exactly the given text, lowercase / uppercase map ASCII letters and are
   idempotent, integer is i64::from_str (Model/IntText.v) *)
Theorem C32_filters : forall (s x : bytes),
  (apply_filter (VBytes s) (FNullIf x) = if bytes_eqb s x then FDrop else FVal (VBytes s))
  /\ (is_ascii s = true -> apply_filter (VBytes s) FLower = FVal (VBytes (map to_lower s))
                           /\ map to_lower (map to_lower s) = map to_lower s)
  /\ (is_ascii s = true -> apply_filter (VBytes s) FUpper = FVal (VBytes (map to_upper s))
                           /\ map to_upper (map to_upper s) = map to_upper s)
  /\ (apply_filter (VBytes s) FInteger = match from_str_radix s 10 with Some z => FVal (VInt z) | None => FDrop end).
Proof. exact filters_spec. Qed.
Print Assumptions C32_filters.

(* ---------- the definitions compute, the hypotheses are inhabited ---------- *)
From Coq Require Import String.
From VRL Require Import Base.Lit Model.EvalInst.
Local Open Scope string_scope.

Example C32_example :
  (* `%{integer:n} %{word:w:uppercase}` on "12 ab" *)
  parse_groks [] [nm "%{integer:n} %{word:w:uppercase}"] (nm "12 ab")
  = GOk (VObj [(nm "n", VInt 12); (nm "w", VBytes (nm "AB"))])
  (* lazy data: the first capture takes as little as possible *)
  /\ parse_groks [] [nm "%{data:a} %{data:b}"] (nm "x y z") = GOk (VObj [(nm "a", VBytes (nm "x")); (nm "b", VBytes (nm "y z"))])
  (* an alias with a destination captures the whole alias; a repeated field becomes an array *)
  /\ parse_groks [(nm "al", nm "%{word:inner}\!")] [nm "%{al:x}\-%{al}"] (nm "ab!-cd!")
     = GOk (VObj [(nm "inner", VArr [VBytes (nm "ab"); VBytes (nm "cd")]); (nm "x", VBytes (nm "ab!"))])
  (* escaped metacharacters are literal, unescaped ones are outside the fragment *)
  /\ parse_groks [] [nm "a\.c"] (nm "abc") = GNoMatch
  /\ parse_groks [] [nm "a.c"] (nm "abc") = GUnmodelled
  (* cycles *)
  /\ parse_groks [(nm "a", nm "%{b}"); (nm "b", nm "x%{a}")] [nm "%{a}"] (nm "x") = GErr (ECircular (nm "a"))
  /\ ident (nm "a_1") /\ ident (nm "b").
Proof.
  repeat split; try (vm_compute; reflexivity); try (eexists; eexists; split; reflexivity).
Qed.
