(* C20 — Paths round-trip through text and all path parsers agree.
   Models: Model/PathText.v (src/path/owned.rs rendering, src/path/jit.rs + mod.rs parsing),
           Model/VrlPathLex.v (path fragment of src/parser/lex.rs + parser.lalrpop).  Statements only. *)
From Coq Require Import List NArith ZArith Bool String.
From VRL Require Import Base.Bytes Base.Value Base.Lit Model.PathText Model.VrlPathLex
                        Proofs.PathTextProofs Proofs.VrlPathProofs Proofs.VrlAgreeProofs.
Import ListNotations.
Local Open Scope string_scope.
Local Open Scope list_scope.

(* Rendering any non-root value path (arbitrary field strings, any isize indices) and parsing the text
   gives the same path. *)
Theorem C20_roundtrip : forall p : path,
  p <> [] -> indices_in_isize p = true -> parse_value_path (render p) = POk p.
Proof. exact roundtrip_value. Qed.
Print Assumptions C20_roundtrip.

(* The same for target paths: every event path (the event root included) and every non-root metadata path. *)
Theorem C20_target_roundtrip : forall tp : tpath,
  is_root_exception tp = false -> indices_in_isize (snd tp) = true ->
  parse_target_path (render_target tp) = POk tp.
Proof. exact roundtrip_target. Qed.
Print Assumptions C20_target_roundtrip.

(* KNOWN FINDING (C20-root-not-reparsed).  The full statement `forall p, parse (render p) = Ok p` is false of
   the faithful model: the value root renders as the empty text and the metadata root as the percent sign, and neither parses. *)
Theorem C20_root_refuted :
  (exists p : path, render p = [] /\ parse_value_path (render p) = PErr)
  /\ (exists tp : tpath, is_root_exception tp = true /\ render_target tp = hx "25"
                         /\ parse_target_path (render_target tp) = PErr).
Proof.
  split.
  - exists []. exact value_root_fails.
  - exists (Metadata, []). split; [reflexivity|]. exact metadata_root_fails.
Qed.
Print Assumptions C20_root_refuted.

(* ... and the two roots are the only paths that do not round-trip. *)
Theorem C20_root_only_exception :
  (forall p : path, indices_in_isize p = true -> (parse_value_path (render p) = POk p <-> p <> []))
  /\ (forall tp : tpath, indices_in_isize (snd tp) = true ->
        (parse_target_path (render_target tp) = POk tp <-> is_root_exception tp = false)).
Proof.
  split.
  - intros p Hi. split.
    + intros H ->. cbn in H. discriminate.
    + intros Hp. apply roundtrip_value; auto.
  - intros tp Hi. split.
    + intros H. destruct tp as [[|] [|s p]]; try reflexivity. cbn in H. discriminate.
    + intros Hr. apply roundtrip_target; auto.
Qed.
Print Assumptions C20_root_only_exception.

(* The model's `PUnreachable` outcome (the branch the Rust cannot take) never occurs. *)
Theorem C20_parse_never_unreachable : forall t : text,
  parse_value_path t <> PUnreachable /\ parse_target_path t <> PUnreachable.
Proof. intros t. split; [apply parse_value_never_unreachable | apply parse_target_never_unreachable]. Qed.
Print Assumptions C20_parse_never_unreachable.

(* An index that does not fit isize is invalid syntax (since /repo 8dcbd4e; before, the accumulation overflowed:
   finding C20-index-overflow-panic, fixed): the decimal text of ANY integer outside the isize range, written as the
   first index of a value path and followed by anything, is rejected with InvalidPathSyntax. *)
Theorem C20_overflow_invalid : forall (i : Z) (rest : text),
  in_isize i = false -> parse_value_path (91%N :: render_int i ++ rest) = PErr.
Proof. exact value_index_out_of_range_invalid. Qed.
Print Assumptions C20_overflow_invalid.

(* The path-string parsers never panic, on any text. *)
Theorem C20_never_panics : forall t : text,
  parse_value_path t <> PPanic /\ parse_target_path t <> PPanic.
Proof. exact parse_never_panics. Qed.
Print Assumptions C20_never_panics.

(* Both readers agree on every rendered path that VRL source can spell: the text the renderer writes for a
   path whose unquoted fields are VRL identifiers (not a lone `_`, not all digits/underscores) and whose
   quoted fields contain no brace is read as that same path by the VRL source reading and by the
   path-string parser. *)
Theorem C20_render_agree : forall tp : tpath,
  spellable (snd tp) = true -> indices_in_isize (snd tp) = true -> is_root_exception tp = false ->
  vrl_path (render_target tp) = Some tp /\ parse_target_path (render_target tp) = POk tp.
Proof.
  intros tp Hs Hi Hr. split; [apply vrl_reads_rendering; auto | apply roundtrip_target; auto].
Qed.
Print Assumptions C20_render_agree.

(* Every text of at most 6 symbols over the path alphabet { . % a 0 - @ _ dquote backslash [ ] space e-acute }
   (5 229 043 texts) that both readers accept denotes the same target path for both. *)
Theorem C20_agree_short : forall w : list text,
  (List.length w <= 6)%nat -> Forall (fun a => In a alphabet) w ->
  forall a b : tpath, vrl_path (List.concat w) = Some a -> parse_target_path (List.concat w) = POk b -> a = b.
Proof. exact agree_short. Qed.
Print Assumptions C20_agree_short.

(* All path parsers agree: on EVERY text free of template syntax (no `{{`, no backslash directly before `}}`),
   if the VRL source reading and the path-string parser both accept the text, they denote the same target path.
   (Texts accepted by only one of the two grammars - leading whitespace, `%.a`, `.a-b`, `[ 0 ]`, ... - are
   outside the statement by construction; notes/C20.md lists them.) *)
Theorem C20_agree : forall (s : text) (a b : tpath),
  template_syntax s = false -> vrl_path s = Some a -> parse_target_path s = POk b -> a = b.
Proof. exact agree_general. Qed.
Print Assumptions C20_agree.

(* KNOWN FINDING (C20-template-in-quoted-field).  `template_syntax` is the known class; inside it the agreement is false: a quoted field
   is a VRL string literal and goes through template processing, which rewrites `{{x}}` to `{{ x }}` and eats the
   backslash of `\}}`; the path-string parser keeps the text.  Witnesses: dot dquote {{x}} dquote, and
   dot dquote backslash backslash }} dquote (the latter is what the renderer writes for the field `\}}`). *)
Theorem C20_template_refuted :
  (exists (s : text) (a b : tpath), s = hx "2e227b7b787d7d22" /\ vrl_modelled s = true /\ has_template_open s = true
      /\ vrl_path s = Some a /\ parse_target_path s = POk b /\ a <> b)
  /\ (exists (s : text) (a b : tpath), s = hx "2e225c5c7d7d22" /\ vrl_modelled s = true /\ has_bsl_close s = true
      /\ vrl_path s = Some a /\ parse_target_path s = POk b /\ a <> b
      /\ (exists p, b = (Event, p) /\ render_target (Event, p) = s)).
Proof.
  split.
  - exists (hx "2e227b7b787d7d22"), (Event, [SField (hx "7b7b2078207d7d")]), (Event, [SField (hx "7b7b787d7d")]).
    vm_compute. repeat split; congruence.
  - exists (hx "2e225c5c7d7d22"), (Event, [SField (hx "7d7d")]), (Event, [SField (hx "5c7d7d")]).
    vm_compute. repeat split; try congruence.
    exists [SField [92%N; 125%N; 125%N]]. split; reflexivity.
Qed.
Print Assumptions C20_template_refuted.

(* non-vacuity: the hypotheses are met by non-trivial paths: a metadata path with a plain field, a field with a
   space, a field with a double quote and a backslash, a negative index and an empty field *)
Example C20_roundtrip_nonvacuous :
  let p := [SField (hx "61"); SField (hx "622063"); SField (hx "7822795c"); SIndex (-1)%Z; SField []] in
  p <> [] /\ indices_in_isize p = true /\ is_root_exception (Metadata, p) = false
  /\ spellable p = true
  /\ render_target (Metadata, p) = hx "25612e22622063222e22785c22795c5c225b2d315d2e2222"
  /\ parse_value_path (hx "5b3132333435363738393031323334353637385d") = POk [SIndex 123456789012345678%Z]
  /\ in_isize 9223372036854775808 = false /\ in_isize (-9223372036854775809) = false
  /\ (91%N :: render_int 9223372036854775808 ++ hx "5d") = hx "5b393232333337323033363835343737353830385d"
  /\ parse_value_path (hx "5b393232333337323033363835343737353830385d") = PErr
  /\ parse_value_path (hx "5b2d393232333337323033363835343737353830385d") = POk [SIndex (-9223372036854775808)%Z].
Proof. vm_compute. repeat split; congruence. Qed.
