(* C14 — evaluation is deterministic and thread-safe.
   Gallina functions are deterministic, so "the model gives equal results on equal inputs" is not a
   theorem worth stating.  What is stated: a run is a function of the program, the initial state
   (event, metadata, variables, fault schedule) and the semantics of the functions the program actually
   calls - so the only source of nondeterminism is a called function that is itself
   nondeterministic (now, random_*, uuid_*, get_hostname, get_env_var, network functions).
   Whether the Rust shares mutable state across threads cannot be exhibited by a Gallina model; that
   half is judged on the implementation by the check (compile twice; sequential vs cleared runtime vs
   N threads sharing one Program). *)
From Coq Require Import List NArith ZArith Bool String.
From VRL Require Import Base.Bytes Base.Value Base.Lit Model.ValueCrud Model.Expr Model.Eval Model.EvalInst Model.Info
     Proofs.EvalProofs Proofs.ExtProofs.
Import ListNotations.
Local Open Scope string_scope.
Local Open Scope list_scope.
Local Open Scope Z_scope.

Theorem C14_run_determined_by_called_functions :
  forall F1 F2 binop (es : list expr),
  (forall f, In f (fnames_l es) -> forall args, F1 f args = F2 f args) ->
  forall s, run F1 binop es s = run F2 binop es s.
Proof. intros F1 F2 binop es H s. apply run_ext. exact H. Qed.
Print Assumptions C14_run_determined_by_called_functions.

(* Runtime::clear resets the variable store, which is everything a Runtime keeps between runs:
   a run on a cleared runtime is a run on a fresh one, whatever ran before. *)
Definition runtime_clear (s : state) (e m : value) (fs : list bool) : state := mkState [] e m [] fs.

Theorem C14_cleared_runtime_is_fresh :
  forall F binop es (history : state) e m fs,
  run F binop es (runtime_clear history e m fs) = run F binop es (mkState [] e m [] fs).
Proof. reflexivity. Qed.
Print Assumptions C14_cleared_runtime_is_fresh.

Example C14_example :
  let prog := [EAssign (TVar (hx "78") []) (EQExt PEvent [SField (hx "61")]); EVar (hx "78")] in
  run_core prog (st0 [] (VObj [(hx "61", VInt 3)]) (VObj [])) =
    (Success (VInt 3), [(hx "78", VInt 3)], VObj [(hx "61", VInt 3)], VObj []).
Proof. vm_compute. reflexivity. Qed.
