(* C30 — Datadog search queries round-trip through their text form.
   Model: Model/DdSearch.v (node.rs to_lucene / lucene_escape / quoted_escape, grammar.pest as a
   recursive-descent recogniser with pest's semantics, grammar.rs QueryVisitor, parser.rs).
   The unchanged implementation does NOT round-trip every accepted text (see the `_refuted` witnesses, one per
   recorded finding); the theorems state the round trip on the trees outside those classes (`safe`).
   Statements only. *)
From Coq Require Import String List NArith ZArith Bool.
From Coq Require Import Floats.SpecFloat.
From VRL Require Import Base.Bytes Base.Value Base.Lit Model.DdNode Model.DdSearch
  Proofs.DdSearchProofs Proofs.DdSearchNum Proofs.DdSearchRT Proofs.DdSearchWild Proofs.DdSearchQuery
  Proofs.DdSearchMulti.
Import ListNotations.
Local Open Scope string_scope.
Local Open Scope list_scope.

(* --- escaping: unescape undoes lucene_escape and quoted_escape, for every string --- *)
Theorem C30_escape_term : forall s : bytes, unescape (lucene_escape s) = s.
Proof. exact unescape_lucene_escape. Qed.
Print Assumptions C30_escape_term.

Theorem C30_escape_quoted : forall s : bytes, unescape (quoted_escape s) = s.
Proof. exact unescape_quoted_escape. Qed.
Print Assumptions C30_escape_quoted.

(* --- the lexical lemmas: the escaped text is consumed as exactly one token of the grammar.
   term_ok s: s is not empty, has no blank, does not start with AND / OR / NOT / && / || and does not contain
   the literal text UNICODE3000 (the three cases lucene_escape does not protect; see the refuted witnesses).
   stops rest: what follows is the end, a blank or a special character other than - + = and backslash. --- *)
Theorem C30_lex_term : forall s rest : bytes,
  term_ok s = true -> stops rest = true ->
  lex_term (lucene_escape s ++ rest) = Some (lucene_escape s, rest).
Proof. exact lex_term_escaped. Qed.
Print Assumptions C30_lex_term.

Theorem C30_lex_prefix : forall s rest : bytes,
  nonempty s = true -> no_ws s = true -> uni_free s = true -> term_end rest = true ->
  lex_term_prefix (lucene_escape s ++ 42%N :: rest) = Some (lucene_escape s, rest).
Proof. exact lex_term_prefix_escaped. Qed.
Print Assumptions C30_lex_prefix.

(* a quoted phrase is read back as one PHRASE whatever it contains and whatever follows *)
Theorem C30_quoted : forall s rest : bytes,
  lex_phrase (34%N :: quoted_escape s ++ 34%N :: rest) = Some (quoted_escape s, rest)
  /\ unescape (quoted_escape s) = s.
Proof. intros s rest. split; [apply lex_phrase_quoted | apply unescape_quoted_escape]. Qed.
Print Assumptions C30_quoted.

(* integer bounds: printed in decimal, read back by ComparisonValue::from as the same i64 *)
Theorem C30_int_bound : forall z : Z, i64_range z = true -> cval_from (dec_of_Z z) = CInt z.
Proof. exact cval_from_dec. Qed.
Print Assumptions C30_int_bound.

(* --- values: each kind of value text is read back by the `value` rule as the same alternative --- *)
Theorem C30_value_term : forall v rest, term_ok v = true -> term_end rest = true ->
  parse_value (lucene_escape v ++ rest) = Some (PVTerm (lucene_escape v), rest).
Proof. exact parse_value_term. Qed.
Print Assumptions C30_value_term.

Theorem C30_value_quoted : forall v rest,
  parse_value (34%N :: quoted_escape v ++ 34%N :: rest) = Some (PVPhrase (quoted_escape v), rest).
Proof. exact parse_value_quoted. Qed.
Print Assumptions C30_value_quoted.

Theorem C30_value_range : forall b lo hi rest,
  nonempty lo = true -> forallb range_char lo = true -> nonempty hi = true -> forallb range_char hi = true ->
  parse_value (lbr b :: lo ++ bs " TO " ++ hi ++ rbr b :: rest) = Some (PVRange b lo hi b, rest).
Proof. exact parse_value_range. Qed.
Print Assumptions C30_value_range.

(* a wildcard text X g0 Y (X without wildcard characters, g0 the first `*` / `?`, see wild_parts) is read back
   by TERM_GLOB, every earlier alternative of `value` failing *)
Theorem C30_value_wild : forall X g0 Y rest, wild_parts X g0 Y -> term_end rest = true ->
  parse_value ((X ++ g0 :: Y) ++ rest) = Some (PVGlob (X ++ g0 :: Y), rest).
Proof. exact parse_value_wild. Qed.
Print Assumptions C30_value_wild.

(* --- visit_query: an AND list and an OR list of clauses fold into the Boolean node --- *)
Theorem C30_fold_and : forall df x y ns,
  fold_query df (items_of x ++ list_items false (y :: ns)) = VOk (NBool BAnd (x :: y :: ns)).
Proof. exact fold_and_list. Qed.
Print Assumptions C30_fold_and.

Theorem C30_fold_or : forall df x y ns,
  fold_query df (items_of x ++ list_items true (y :: ns)) = VOk (NBool BOr (x :: y :: ns)).
Proof. exact fold_or_list. Qed.
Print Assumptions C30_fold_or.

(* --- the round trip of whole trees (by induction over the tree: negations, AND / OR lists with their
   parentheses, and every kind of leaf).
   safe fok n: every attribute is printable raw (attr_ok), term / prefix values satisfy term_ok, wildcards
   satisfy wild_ok, string bounds are not re-read as numbers, quoted strings or `*`, range brackets agree, float
   bounds satisfy fok, lists have
   at least two items, no NOT NOT directly inside an AND, MatchNoDocs only as the whole query, no NOT *:* directly
   under a NOT.  fdisp / fok: the Display text of the floats in fok is assumed to read back (num_text_ok). --- *)
Theorem C30_node_roundtrip : forall (fdisp : spec_float -> bytes) (fok : spec_float -> bool),
  (forall f, fok f = true -> num_text_ok (fdisp f) (CFloat f)) ->
  forall n : node,
  safe fok n = true -> is_not_all n = false -> all_whitespace (to_lucene fdisp n) = false ->
  parse (to_lucene fdisp n) = PRNode n.
Proof. exact roundtrip. Qed.
Print Assumptions C30_node_roundtrip.

(* without any assumption on floats: trees whose bounds are strings, integers or `*` *)
Theorem C30_node_roundtrip_nofloat : forall (fdisp : spec_float -> bytes) (n : node),
  safe (fun _ => false) n = true -> is_not_all n = false -> all_whitespace (to_lucene fdisp n) = false ->
  parse (to_lucene fdisp n) = PRNode n.
Proof. intros fdisp n. apply roundtrip. intros f H. discriminate. Qed.
Print Assumptions C30_node_roundtrip_nofloat.

(* the property in its own words, for the accepted texts whose tree is safe *)
Theorem C30_text_roundtrip : forall (fdisp : spec_float -> bytes) (fok : spec_float -> bool),
  (forall f, fok f = true -> num_text_ok (fdisp f) (CFloat f)) ->
  forall (q : bytes) (n : node),
  parse q = PRNode n -> safe fok n = true -> all_whitespace (to_lucene fdisp n) = false ->
  parse (to_lucene fdisp n) = parse q.
Proof. exact text_roundtrip. Qed.
Print Assumptions C30_text_roundtrip.

(* a bare multi-word term as the whole query ("a b c": one multiterm, joined by single blanks) *)
Theorem C30_multiterm_roundtrip : forall (fdisp : spec_float -> bytes) (w : bytes) (ws : list bytes),
  forallb term_ok (w :: ws) = true ->
  all_whitespace (to_lucene fdisp (NTerm DEFAULT_FIELD (join_sp (w :: ws)))) = false ->
  parse (to_lucene fdisp (NTerm DEFAULT_FIELD (join_sp (w :: ws)))) = PRNode (NTerm DEFAULT_FIELD (join_sp (w :: ws))).
Proof. exact multiterm_roundtrip. Qed.
Print Assumptions C30_multiterm_roundtrip.

(* the full statement `forall q n, parse q = PRNode n -> parse (to_lucene n) = parse q` is false on the
   model and on the implementation: see the witnesses below, one per class of trees outside `safe`. *)

(* non-vacuity: a nested tree with every provable kind of leaf; float Display given for 1.5 only *)
Definition fd15 (f : spec_float) : bytes := bs "1.5".
Definition fok15 (f : spec_float) : bool := sf_eqb f (f64_of_bits 0x3ff8000000000000).

Lemma fd15_ok : forall f, fok15 f = true -> num_text_ok (fd15 f) (CFloat f).
Proof.
  intros f H. apply sf_eqb_eq in H. subst f. unfold fd15. repeat split.
  - exists 49%N, [46%N; 53%N]. split; reflexivity.
  - intros rest E. unfold lex_numeric_term, num_value.
    change (bs "1.5" ++ rest) with (49%N :: 46%N :: [53%N] ++ rest).
    cbn [strip_prefix N.eqb Pos.eqb]. cbn [digits is_digit N.leb N.compare Pos.compare Pos.compare_cont andb].
    cbn [strip_prefix N.eqb Pos.eqb].
    rewrite (digits_app [53%N] rest eq_refl).
    2:{ destruct rest as [|c r]; [reflexivity|]. pose proof (term_end_num_stop _ E) as S. cbn in S.
        apply andb_true_iff in S as [S _]. apply andb_true_iff in S as [S _]. exact S. }
    pose proof (term_end_num_stop _ E) as S.
    destruct rest as [|c r]; [reflexivity|]. cbn in S. apply andb_true_iff in S as [_ S].
    apply negb_true_iff in S. rewrite S. reflexivity.
Qed.

Example C30_roundtrip_nonvacuous :
  let n := NBool BOr
             [NBool BAnd [NTerm (bs "service") (bs "a:b(c)"); NNot (NQuoted (bs "_default_") (bs "x ""y"" z"));
                          NNot (NBool BOr [NPrefix (bs "@http.url") (bs "/api/v1"); NExists (bs "@err")])];
              NRange (bs "@d") (CFloat (f64_of_bits 0x3ff8000000000000)) true (CInt 10) true;
              NNot (NNot (NCmp (bs "host") Gte (CStr (bs "web-1"))));
              NBool BAnd [NWild (bs "_default_") (bs "err*r?"); NWild (bs "@k") (bs "*"); NWild (bs "@k") (bs "a?c")];
              NRange (bs "_default_") CUnb false (CStr (bs "zz")) false] in
  safe fok15 n = true /\ is_not_all n = false /\ all_whitespace (to_lucene fd15 n) = false
  /\ parse (to_lucene fd15 n) = PRNode n.
Proof. vm_compute. repeat split. Qed.

(* --- the recorded findings: accepted texts whose rendering does not parse back to the same tree
   (each is replayed on the implementation by corpus/C30) --- *)
Definition rt (fd : spec_float -> bytes) (q : bytes) : parse_result * parse_result :=
  match parse q with
  | PRNode n => (PRNode n, parse (to_lucene fd n))
  | r => (r, r)
  end.

Definition fd_impl (f : spec_float) : bytes :=      (* the implementation's Display of the floats used below *)
  if sf_eqb f (f64_of_bits 0x3ff0000000000000) then bs "1" else bs "inf".

(* C30-whitespace: blanks inside a value are not escaped *)
Example C30_whitespace_refuted :
  rt fd_impl (bs "foo:a\ b") =
  (PRNode (NTerm (bs "foo") (bs "a b")),
   PRNode (NBool BAnd [NTerm (bs "foo") (bs "a"); NTerm (bs "_default_") (bs "b")])).
Proof. vm_compute. reflexivity. Qed.

(* C30-attr-raw: attribute names are printed without escaping *)
Example C30_attr_raw_refuted :
  rt fd_impl (bs "_exists_:a\:b") = (PRNode (NExists (bs "a:b")), PRError)
  /\ rt fd_impl (bs "\_exists_:a") = (PRNode (NTerm (bs "_exists_") (bs "a")), PRNode (NExists (bs "a"))).
Proof. vm_compute. split; reflexivity. Qed.

(* C30-float-text: a float bound whose Display text is an integer (or inf / NaN in a comparison) *)
Example C30_float_text_refuted :
  rt fd_impl (bs ">1.0") =
  (PRNode (NCmp (bs "_default_") Gt (CFloat (f64_of_bits 0x3ff0000000000000))),
   PRNode (NCmp (bs "_default_") Gt (CInt 1)))
  /\ snd (rt fd_impl (bs ">1E400")) = PRNode (NCmp (bs "_default_") Gt (CStr (bs "inf"))).
Proof. vm_compute. split; reflexivity. Qed.

(* C30-keyword: a value starting with AND / OR / NOT / && / ||, or containing the text UNICODE3000 *)
Example C30_keyword_refuted :
  rt fd_impl (bs "\NOTx") = (PRNode (NTerm (bs "_default_") (bs "NOTx")), PRNode (NNot (NTerm (bs "_default_") (bs "x"))))
  /\ rt fd_impl (bs "\UNICODE3000") = (PRNode (NTerm (bs "_default_") (bs "UNICODE3000")), PRError).
Proof. vm_compute. split; reflexivity. Qed.

(* C30-wildcard-raw: wildcards are printed unescaped although the parser unescaped them *)
Example C30_wildcard_raw_refuted :
  rt fd_impl (bs "a\:b*c") = (PRNode (NWild (bs "_default_") (bs "a:b*c")), PRNode (NWild (bs "a") (bs "b*c"))).
Proof. vm_compute. reflexivity. Qed.

(* C30-wildcard-multiterm: a field-less wildcard whose first wildcard character is `?`, printed first *)
Example C30_wildcard_multiterm_refuted :
  rt fd_impl (bs "+a?b") =
  (PRNode (NWild (bs "_default_") (bs "a?b")),
   PRNode (NBool BAnd [NTerm (bs "_default_") (bs "a"); NWild (bs "_default_") (bs "?b")])).
Proof. vm_compute. reflexivity. Qed.

(* C30-string-bound: a string bound that reads as a number, a doubly quoted one, or the empty string (from a
   lone backslash) *)
Example C30_string_bound_refuted :
  rt fd_impl (bs "@a:>\1") = (PRNode (NCmp (bs "@a") Gt (CStr (bs "1"))), PRNode (NCmp (bs "@a") Gt (CInt 1)))
  /\ snd (rt fd_impl (bs "@a:[""""a"""" TO 5]")) = PRNode (NRange (bs "@a") (CStr (bs "a")) true (CInt 5) true)
  /\ rt fd_impl (bs "x:{\ TO a}") = (PRNode (NRange (bs "x") (CStr []) false (CStr (bs "a")) false), PRError).
Proof. vm_compute. repeat split; reflexivity. Qed.

(* C30-not-not: NOT NOT inside an AND is printed without parentheses *)
Example C30_not_not_refuted :
  rt fd_impl (bs "a -(-x)") =
  (PRNode (NBool BAnd [NTerm (bs "_default_") (bs "a"); NNot (NNot (NTerm (bs "_default_") (bs "x")))]),
   PRNode (NBool BAnd [NTerm (bs "_default_") (bs "a"); NNot (NWild (bs "_default_") (bs "NOT"));
                       NTerm (bs "_default_") (bs "x")])).
Proof. vm_compute. reflexivity. Qed.

(* C30-nodocs-nested: MatchNoDocs from a parenthesised negated match-all inside a larger query *)
Example C30_nodocs_nested_refuted :
  rt fd_impl (bs "a (-*:*)") =
  (PRNode (NBool BAnd [NTerm (bs "_default_") (bs "a"); NNone]),
   PRNode (NBool BAnd [NTerm (bs "_default_") (bs "a"); NNot NAll]))
  /\ rt fd_impl (bs "NOT (-*:*)") = (PRNode (NNot NNone), PRError).
Proof. vm_compute. split; reflexivity. Qed.

(* C30-range-panic: brackets of different kinds are accepted by the grammar and panic in the visitor *)
Example C30_range_panic_refuted : parse (bs "[1 TO 2}") = PRPanic /\ parse (bs "f:{a TO b]") = PRPanic.
Proof. vm_compute. split; reflexivity. Qed.

(* C30-unicode-blank: a term made of Unicode white space only (here U+00A0) is printed bare and read as the
   empty query *)
Example C30_unicode_blank_refuted :
  rt fd_impl [92%N; 194%N; 160%N] = (PRNode (NTerm (bs "_default_") [194%N; 160%N]), PRNode NAll).
Proof. vm_compute. reflexivity. Qed.
