(* C29 — Numeric functions return mathematically correct results.

   "For finite inputs, round/ceil/floor with any precision return a finite value within 10^-precision of the input
    (ceil never below, floor never above); abs returns the magnitude (integers wrap only at the minimum integer); mod
    follows truncated-remainder sign rules; to_int/to_float/to_string/parse_int/parse_float convert consistently with
    each other on their common domain."

   The theorems are about the model Model/NumFns.v (+ Model/Arith.v, Model/IntText.v), tied to the Rust by the
   correspondence run of every check.  The rounding clause is FALSE on the pinned code outside precision 0, in four
   regimes (C29_round_*_refuted, each replayed on the implementation and recorded in known_findings/C29.json); what is
   proved about it is the exact behaviour at precision 0 and the exact (sign, mantissa, exponent) semantics of
   f64::round / ceil / floor.  abs wraps at i64::MIN (C29_abs_min_wraps; a panic before /repo b0e107f).

   Full statement of the rounding clause, NOT provable (refuted below):
     forall pow10 k x p, pow10_faithful p (pow10 p) = true -> f_is_finite x = true ->
       exists y, round_fn pow10 k (VFloat x) (Some (VInt p)) = ROk (VFloat y) /\ round_law k x y p = true. *)
From Coq Require Import List NArith ZArith Bool String.
From Coq Require Import Floats.SpecFloat.
From VRL Require Import Base.Bytes Base.Value Base.Lit Model.ConvRes Model.Arith Model.IntText Model.NumFns.
From Coq Require Import Reals.
From Flocq Require Import Core.Core IEEE754.BinarySingleNaN.
From VRL Require Import Proofs.ArithProofs Proofs.NumFnsProofs Proofs.NumFnsFloatProofs Proofs.NumFnsRealProofs Proofs.NumFnsTextProofs.
Import ListNotations.
Local Open Scope Z_scope.

(* ---------- abs ---------- *)

(* EVERY i64: abs returns wrap64 |z|, an i64; that is |z| itself except at the minimum integer, which wraps to itself
   ("integers wrap only at the minimum integer") *)
Theorem C29_abs : forall z : Z, ConvRes.in_i64 z = true ->
  abs_fn (VInt z) = ROk (VInt (wrap64 (Z.abs z)))
  /\ ConvRes.in_i64 (wrap64 (Z.abs z)) = true
  /\ (z <> i64_min -> wrap64 (Z.abs z) = Z.abs z /\ 0 <= Z.abs z)
  /\ (z = i64_min -> wrap64 (Z.abs z) = i64_min).
Proof. exact abs_total. Qed.
Print Assumptions C29_abs.

(* floats: the sign is cleared and nothing else changes (zeros and infinities included) *)
Theorem C29_abs_float : forall f : spec_float, f_is_nan f = false ->
  abs_fn (VFloat f) = ROk (VFloat (SFabs f))
  /\ match f, SFabs f with
     | S754_finite _ m e, S754_finite s' m' e' => s' = false /\ m' = m /\ e' = e
     | S754_zero _, S754_zero s' => s' = false
     | S754_infinity _, S754_infinity s' => s' = false
     | _, _ => False
     end.
Proof. exact abs_float. Qed.
Print Assumptions C29_abs_float.

(* FIXED finding C29-abs-min (/repo b0e107f, i.wrapping_abs()): the former witness -- abs(i64::MIN) panicked with
   "attempt to negate with overflow" -- now wraps to the minimum integer, as the property asks *)
Theorem C29_abs_min_wraps : abs_fn (VInt i64_min) = ROk (VInt i64_min) /\ wrapping_abs i64_min = i64_min.
Proof. split; reflexivity. Qed.
Print Assumptions C29_abs_min_wraps.

(* ---------- mod ---------- *)

(* integers: r = mod(a, b) satisfies a = b * trunc(a / b) + r, |r| < |b|, r is zero or has the sign of a; it never
   leaves the i64 range (MIN mod -1 = 0 included); a zero divisor is an error *)
Theorem C29_mod_sign : forall a b : Z, b <> 0 ->
  mod_fn (VInt a) (VInt b) = ROk (VInt (Z.rem a b))
  /\ a = b * Z.quot a b + Z.rem a b /\ Z.abs (Z.rem a b) < Z.abs b /\ 0 <= Z.rem a b * a
  /\ (Arith.in_i64 a -> Arith.in_i64 (Z.rem a b)).
Proof. exact mod_int. Qed.
Print Assumptions C29_mod_sign.

Theorem C29_mod_zero : forall x y : value, divisor_is_zero y = true -> mod_fn x y = RErr.
Proof. exact mod_zero_divisor. Qed.
Print Assumptions C29_mod_zero.

(* ---------- f64::floor / ceil / round, exactly ---------- *)

(* x = M / D with M = +-m, D = 2^(-e), e < 0 (a finite binary64 that is not trivially an integer).  The result is a
   canonical binary64 whose exact value is the integer n with
     floor: n <= x < n + 1      ceil: n - 1 < x <= n      round: |x - n| <= 1/2, ties away from zero,
   every inequality multiplied by D.  Closed, integer arithmetic only. *)
Theorem C29_rint_exact : forall (k : rkind) (s : bool) (m : positive) (e : Z), e < 0 -> Zpos m < 2 ^ 53 ->
  exists n, f_int_value (f_rint k (S754_finite s m e)) = Some n
    /\ valid_binary 53 1024 (f_rint k (S754_finite s m e)) = true
    /\ let M := cond_Zopp s (Zpos m) in
       let D := 2 ^ (- e) in
       match k with
       | KFloor => n * D <= M < (n + 1) * D
       | KCeil => (n - 1) * D < M <= n * D
       | KRound => 2 * Z.abs (M - n * D) <= D /\ (2 * Z.abs (M - n * D) = D -> Z.abs M < Z.abs (n * D))
       end.
Proof. exact f_rint_spec. Qed.
Print Assumptions C29_rint_exact.

(* ... a finite value with a non-negative exponent (|x| >= 2^52), a zero or an infinity is returned unchanged, and
   the sign of the argument is always kept (ceil(-0.5) = -0.0) *)
Theorem C29_rint_fixed : forall (k : rkind) (x : spec_float),
  (match x with S754_finite _ _ e => 0 <= e | _ => True end) -> f_rint k x = x.
Proof.
  intros k x H. destruct x as [s|s| |s m e]; try reflexivity. apply f_rint_integer. exact H.
Qed.
Print Assumptions C29_rint_fixed.

Theorem C29_rint_sign : forall (k : rkind) (s : bool) (m : positive) (e : Z), Zpos m < 2 ^ 53 ->
  match f_rint k (S754_finite s m e) with
  | S754_zero s' | S754_finite s' _ _ => s' = s
  | _ => False
  end.
Proof. exact f_rint_sign. Qed.
Print Assumptions C29_rint_sign.

(* ---------- round / ceil / floor at precision 0 (default or explicit): the property holds exactly ---------- *)

(* For every libm whose powf(10, 0) is 1.0 and every finite binary64 x: the call succeeds with the float f_rint k x
   (no rounding error in x * 1.0 and _ / 1.0), which is finite, and by C29_rint_exact is within 1 = 10^-0 of x
   (strictly for ceil/floor, within 1/2 for round), never below x for ceil, never above x for floor.
   Depends on Flocq's axioms of the classical reals (x * 1.0 = x goes through Bmult_correct). *)
Theorem C29_round_precision0 : forall (pow10 : Z -> spec_float) (k : rkind) (x : spec_float),
  pow10 0 = f_one -> valid_binary 53 1024 x = true -> f_is_finite x = true ->
  round_fn pow10 k (VFloat x) None = ROk (VFloat (f_rint k x))
  /\ round_fn pow10 k (VFloat x) (Some (VInt 0)) = ROk (VFloat (f_rint k x))
  /\ f_is_finite (f_rint k x) = true
  /\ valid_binary 53 1024 (f_rint k x) = true
  /\ match x with
     | S754_finite s m e =>
         if 0 <=? e then f_rint k x = x
         else exists n, f_int_value (f_rint k x) = Some n
                /\ let M := cond_Zopp s (Zpos m) in
                   let D := 2 ^ (- e) in
                   match k with
                   | KFloor => n * D <= M < (n + 1) * D
                   | KCeil => (n - 1) * D < M <= n * D
                   | KRound => 2 * Z.abs (M - n * D) <= D /\ (2 * Z.abs (M - n * D) = D -> Z.abs M < Z.abs (n * D))
                   end
     | _ => f_rint k x = x
     end.
Proof. exact round_p0_full. Qed.
Print Assumptions C29_round_precision0.

(* the hypothesis is satisfiable, and the theorem says something: floor(-2.5) = -3.0, round(2.5) = 3.0, ceil(-0.5) = -0.0 *)
Example C29_round_precision0_inhabited :
  let pow10 := fun p : Z => if p =? 0 then f_one else f64_of_bits 0x4024000000000000 in
  pow10 0 = f_one
  /\ round_fn pow10 KFloor (VFloat (f64_of_bits 0xc004000000000000)) None = ROk (VFloat (f64_of_bits 0xc008000000000000))
  /\ round_fn pow10 KRound (VFloat (f64_of_bits 0x4004000000000000)) None = ROk (VFloat (f64_of_bits 0x4008000000000000))
  /\ round_fn pow10 KCeil (VFloat (f64_of_bits 0xbfe0000000000000)) None = ROk (VFloat (f64_of_bits 0x8000000000000000)).
Proof. vm_compute. repeat split. Qed.

(* ---------- any precision, outside the four known regimes: the rounding clause holds ---------- *)

(* round_class (Model/NumFns.v) is the decidable regime of one call given w = 10f64.powf(p):
     RcRange (an intermediate is 0/inf), RcBig (|x w| >= 2^52), RcInexactMult (p < 0 or p > 22), RcProductRounds (x * w rounds),
     RcGood otherwise.
   In RcGood, for every libm whose 10^p is exact there (10^p is a binary64 number for 0 <= p <= 22; the correspondence checks
   the implementation's powf against it), the call returns a finite y with
       |y - x| <= 10^-p + ulp(y)/2,     ceil: x <= y,     floor: y <= x      (real numbers; SF2R = the exact value).
   The half ulp is the representation error of y: floor(-1e-76, precision: 2) = -0.01 and the binary64 nearest to -0.01 is
   2e-19 beyond it.  Partial: the clause is false in the other four regimes (refuted below), so this is the whole truth
   about the model.  Depends on Flocq's axioms of the classical reals. *)
Theorem C29_round_bound_partial : forall (pow10 : Z -> spec_float) (k : rkind) (x : spec_float) (p : Z),
  valid_binary 53 1024 x = true -> f_is_finite x = true ->
  valid_binary 53 1024 (pow10 p) = true -> SF2R radix2 (pow10 p) = IZR (10 ^ p) ->
  round_class k x p (pow10 p) = RcGood ->
  exists y, round_fn pow10 k (VFloat x) (Some (VInt p)) = ROk (VFloat y)
    /\ f_is_finite y = true
    /\ (Rabs (SF2R radix2 y - SF2R radix2 x) <= / IZR (10 ^ p) + / 2 * ulp radix2 (SpecFloat.fexp 53 1024) (SF2R radix2 y))%R
    /\ (k = KCeil -> (SF2R radix2 x <= SF2R radix2 y)%R)
    /\ (k = KFloor -> (SF2R radix2 y <= SF2R radix2 x)%R).
Proof. exact round_good. Qed.
Print Assumptions C29_round_bound_partial.

(* hypotheses satisfiable: 10.0 = 10^1 and round(2.5, precision: 1) is in the good regime *)
Example C29_round_bound_partial_inhabited :
  let pow10 := fun _ : Z => S754_finite false 5629499534213120 (-49) in
  let x := S754_finite false 5629499534213120 (-51) in
  valid_binary 53 1024 x = true /\ f_is_finite x = true /\ valid_binary 53 1024 (pow10 1) = true
  /\ SF2R radix2 (pow10 1) = IZR (10 ^ 1) /\ round_class KRound x 1 (pow10 1) = RcGood.
Proof. exact round_good_inhabited. Qed.

(* ---------- KNOWN FINDINGS: the rounding clause fails for precision <> 0, in four regimes ---------- *)

(* C29-round-range: round(1.5e300, precision: 400) = 0.0 (10^400 = inf, inf / inf = NaN, from_f64_or_zero) *)
Theorem C29_round_range_refuted : forall pow10 : Z -> spec_float, pow10 400 = S754_infinity false ->
  exists x y, valid_binary 53 1024 x = true /\ f_is_finite x = true
    /\ round_fn pow10 KRound (VFloat x) (Some (VInt 400)) = ROk (VFloat y)
    /\ round_class KRound x 400 (pow10 400) = RcRange
    /\ round_law KRound x y 400 = false.
Proof.
  intros pow10 H. exists (f64_of_bits 0x7e41eb2d66005835), (S754_zero false).
  unfold round_fn, round_to_precision. rewrite H. vm_compute. repeat split.
Qed.
Print Assumptions C29_round_range_refuted.

(* C29-round-big-product: floor(9007199254740990.0, precision: 8) = 9007199254740991.0 > x  (10^8 is exact; the product
   9.00719925474099e23 is rounded, floor is the identity there, the quotient is rounded again) *)
Theorem C29_round_big_refuted : forall pow10 : Z -> spec_float, pow10 8 = f64_of_bits 0x4197d78400000000 ->
  exists x y, valid_binary 53 1024 x = true /\ f_is_finite x = true
    /\ round_fn pow10 KFloor (VFloat x) (Some (VInt 8)) = ROk (VFloat y)
    /\ round_class KFloor x 8 (pow10 8) = RcBig
    /\ f_leq y x = false /\ round_law KFloor x y 8 = false.
Proof.
  intros pow10 H. exists (f64_of_bits 0x433ffffffffffffe), (f64_of_bits 0x433fffffffffffff).
  unfold round_fn, round_to_precision. rewrite H. vm_compute. repeat split.
Qed.
Print Assumptions C29_round_big_refuted.

(* C29-round-inexact-multiplier: floor(9007199254740989.0, precision: -1) = 9007199254740990.0 > x  (0.1 is not a binary64
   number; its rounding error times 9e15 is 0.05) *)
Theorem C29_round_inexact_mult_refuted : forall pow10 : Z -> spec_float, pow10 (-1) = f64_of_bits 0x3fb999999999999a ->
  exists x y, valid_binary 53 1024 x = true /\ f_is_finite x = true
    /\ round_fn pow10 KFloor (VFloat x) (Some (VInt (-1))) = ROk (VFloat y)
    /\ round_class KFloor x (-1) (pow10 (-1)) = RcInexactMult
    /\ f_leq y x = false /\ round_law KFloor x y (-1) = false.
Proof.
  intros pow10 H. exists (f64_of_bits 0x433ffffffffffffd), (f64_of_bits 0x433ffffffffffffe).
  unfold round_fn, round_to_precision. rewrite H. vm_compute. repeat split.
Qed.
Print Assumptions C29_round_inexact_mult_refuted.

(* C29-round-product-rounding: floor(0.8999999999999999, precision: 1) = 0.9 > x and
   ceil(1.7000000000000002, precision: 1) = 1.7 < x  (10 is exact; x * 10 rounds to the integer 9 resp. 17) *)
Theorem C29_round_product_refuted : forall pow10 : Z -> spec_float, pow10 1 = f64_of_bits 0x4024000000000000 ->
  (exists x y, valid_binary 53 1024 x = true /\ f_is_finite x = true
     /\ round_fn pow10 KFloor (VFloat x) (Some (VInt 1)) = ROk (VFloat y)
     /\ round_class KFloor x 1 (pow10 1) = RcProductRounds
     /\ f_leq y x = false /\ round_law KFloor x y 1 = false)
  /\ (exists x y, valid_binary 53 1024 x = true /\ f_is_finite x = true
     /\ round_fn pow10 KCeil (VFloat x) (Some (VInt 1)) = ROk (VFloat y)
     /\ round_class KCeil x 1 (pow10 1) = RcProductRounds
     /\ f_leq x y = false /\ round_law KCeil x y 1 = false).
Proof.
  intros pow10 H. split.
  - exists (f64_of_bits 0x3feccccccccccccc), (f64_of_bits 0x3feccccccccccccd).
    unfold round_fn, round_to_precision. rewrite H. vm_compute. repeat split.
  - exists (f64_of_bits 0x3ffb333333333334), (f64_of_bits 0x3ffb333333333333).
    unfold round_fn, round_to_precision. rewrite H. vm_compute. repeat split.
Qed.
Print Assumptions C29_round_product_refuted.

(* integers are returned unchanged by round / ceil / floor, whatever the (integer) precision *)
Theorem C29_round_int : forall (pow10 : Z -> spec_float) (k : rkind) (z p : Z),
  round_fn pow10 k (VInt z) (Some (VInt p)) = ROk (VInt z) /\ round_fn pow10 k (VInt z) None = ROk (VInt z).
Proof. intros. split; reflexivity. Qed.
Print Assumptions C29_round_int.

(* ---------- conversions ---------- *)

(* `f as i64` (to_int on a float): always an i64; inside the range it truncates towards zero: with x = M / D,
   |n| <= |x| < |n| + 1 and n has the sign of x *)
Theorem C29_to_int_trunc : forall (s : bool) (m : positive) (e : Z),
  let M := cond_Zopp s (Zpos m * (if 0 <=? e then 2 ^ e else 1)) in
  let D := if 0 <=? e then 1 else 2 ^ (- e) in
  let n := f_to_i64 (S754_finite s m e) in
  to_int (VFloat (S754_finite s m e)) = ROk (VInt n) /\ ConvRes.in_i64 n = true
  /\ (Z.abs M < 2 ^ 63 * D -> Z.abs n * D <= Z.abs M < (Z.abs n + 1) * D /\ 0 <= n * M).
Proof.
  intros s m e. cbv zeta. split; [reflexivity|]. split; [apply f_to_i64_range|]. apply f_to_i64_trunc.
Qed.
Print Assumptions C29_to_int_trunc.

(* integer <-> text and integer <-> float: for EVERY i64 z (i64::MIN included) to_string succeeds and both integer
   parsers read the text back; up to 2^53 the float conversion is exact *)
Theorem C29_conv_consistent : forall (fmt_f64 : spec_float -> bytes) (fmt_ts : Z -> bytes) (z : Z),
  ConvRes.in_i64 z = true ->
  (exists s, to_string fmt_f64 fmt_ts (VInt z) = ROk (VBytes s)
             /\ parse_int (VBytes s) None = ROk (VInt z)
             /\ to_int (VBytes s) = ROk (VInt z))
  /\ (Z.abs z <= 2 ^ 53 -> exists f, to_float (VInt z) = ROk (VFloat f) /\ to_int (VFloat f) = ROk (VInt z)).
Proof.
  intros fmt_f64 fmt_ts z Hz. split; [apply int_text_roundtrip; exact Hz | apply to_int_to_float].
Qed.
Print Assumptions C29_conv_consistent.

(* integer -> text -> float: the (correctly rounded) decimal parser reads the digits of any i64 back as `z as f64`, so
   to_float and parse_float on to_string z agree with to_float z, for EVERY i64 (beyond 2^53 both round to nearest even) *)
Theorem C29_conv_int_text_float : forall (fmt_f64 : spec_float -> bytes) (fmt_ts : Z -> bytes) (z : Z),
  ConvRes.in_i64 z = true ->
  exists s, to_string fmt_f64 fmt_ts (VInt z) = ROk (VBytes s)
            /\ to_float (VBytes s) = to_float (VInt z)
            /\ parse_float (VBytes s) = to_float (VInt z).
Proof. exact to_float_int_text. Qed.
Print Assumptions C29_conv_int_text_float.

(* float <-> text: f64's Display is library code (a parameter of to_string).  Whenever the text it produced for f is read
   back as f by the correctly rounded decimal parser of the model (checked on the implementation for every generated
   float by the oracle), parse_float and to_float invert to_string on f. *)
Theorem C29_float_text : forall (fmt_f64 : spec_float -> bytes) (fmt_ts : Z -> bytes) (f : spec_float),
  f_is_nan f = false -> parse_f64 (fmt_f64 f) = Some f ->
  exists s, to_string fmt_f64 fmt_ts (VFloat f) = ROk (VBytes s)
            /\ parse_float (VBytes s) = ROk (VFloat f) /\ to_float (VBytes s) = ROk (VFloat f).
Proof.
  intros fmt_f64 fmt_ts f Hn Hp. exists (fmt_f64 f). split; [reflexivity|].
  unfold parse_float, to_float, bytes_to_float. rewrite Hp, Hn. split; reflexivity.
Qed.
Print Assumptions C29_float_text.

Example C29_float_text_inhabited :
  let f := f64_of_bits 0x4005666666666666 in
  let fmt := fun _ : spec_float => hx "322e363735"%string in     (* "2.675" *)
  f_is_nan f = false /\ parse_f64 (fmt f) = Some f.
Proof. vm_compute. split; reflexivity. Qed.
