(* C21 — JSON encoding round-trips.
   Model: Model/Json.v (src/stdlib/encode_json.rs, src/stdlib/parse_json.rs, src/stdlib/json_utils/bom.rs,
   src/value/value/serde.rs, and serde_json's printer/parser as those drive it).  Nothing but statements here.

   `encode_json ff ft pretty v` is the VRL function (ff = the float printer, ft = the timestamp printer: library
   code, universally quantified); `parse_json` is the VRL function with its defaults (lossy UTF-8 conversion, BOM
   stripping, one value then only whitespace).  `jrep fok v` says v is JSON-representable: no timestamps or
   regexes, UTF-8 strings and keys, integers in i64, objects in BTreeMap form, floats finite and accepted by fok. *)
From Coq Require Import List NArith ZArith Bool String.
From Coq Require Import Floats.SpecFloat.
From VRL Require Import Base.Bytes Base.Value Base.Lit Model.Json
  Proofs.JsonTextProofs Proofs.JsonNumProofs Proofs.JsonProofs Proofs.JsonTopProofs.
Import ListNotations.
Local Open Scope string_scope.
Local Open Scope list_scope.
Local Open Scope N_scope.

(* a string literal, as serde_json prints it, is read back exactly — every byte string: controls, quotes,
   backslashes, 0x7f, U+2028, astral characters, even ill-formed bytes (which never reach the printer) *)
Theorem C21_string_roundtrip : forall s : bytes, parse_doc (print_string s) = Some (VBytes s).
Proof. exact string_roundtrip_raw. Qed.
Print Assumptions C21_string_roundtrip.

(* through the VRL functions a Value::Bytes comes back as its lossy UTF-8 conversion, in both modes ... *)
Theorem C21_bytes_roundtrip : forall (ff : spec_float -> bytes) (ft : Z -> bytes) (pretty : bool) (b : bytes),
  parse_json (encode_json ff ft pretty (VBytes b)) = Some (VBytes (lossy_utf8 b)).
Proof. exact bytes_roundtrip. Qed.
Print Assumptions C21_bytes_roundtrip.

(* ... which is the identity on UTF-8 strings *)
Theorem C21_utf8_lossy_id : forall s : bytes, utf8_ok s = true -> lossy_utf8 s = s.
Proof. exact lossy_id. Qed.
Print Assumptions C21_utf8_lossy_id.

(* every i64 is read back exactly (never as a float), in both modes *)
Theorem C21_int_roundtrip : forall (ff : spec_float -> bytes) (ft : Z -> bytes) (pretty : bool) (z : Z),
  in_i64 z = true -> parse_json (encode_json ff ft pretty (VInt z)) = Some (VInt z).
Proof. exact int_roundtrip. Qed.
Print Assumptions C21_int_roundtrip.

(* every float-free representable value nested less than 128 deep is read back exactly, compact and pretty *)
Theorem C21_roundtrip : forall (ff : spec_float -> bytes) (ft : Z -> bytes) (pretty : bool) (v : value),
  jrep (fun _ => false) v = true -> vdepth v < 128 ->
  parse_json (encode_json ff ft pretty v) = Some v.
Proof. exact roundtrip_exact. Qed.
Print Assumptions C21_roundtrip.

(* with floats: whatever the float printer ff is, if the text it gives for each float of v is an ASCII number
   token that serde_json's float arithmetic reads back within one ulp (float_text_ok, decidable; evaluated on
   the implementation's texts by the correspondence run), v comes back equal up to one ulp per float *)
Theorem C21_roundtrip_floats : forall (ff : spec_float -> bytes) (ft : Z -> bytes) (pretty : bool) (v : value),
  jrep (fun f => float_text_ok (ff f) f) v = true -> vdepth v < 128 ->
  exists v', parse_json (encode_json ff ft pretty v) = Some v' /\ value_close v v' = true.
Proof. exact roundtrip_close. Qed.
Print Assumptions C21_roundtrip_floats.

(* "equal up to one ulp per float" is plain equality on float-free values *)
Theorem C21_float_free_close_eq : forall v v' : value,
  jrep (fun _ => false) v = true -> value_close v v' = true -> v' = v.
Proof. intros v v' H. exact (close_eq v H v'). Qed.
Print Assumptions C21_float_free_close_eq.

(* non-vacuity of C21_roundtrip_floats: the texts zmij prints for 0.5, 1e21, -0.0 and the smallest subnormal
   satisfy float_text_ok, and a nested value over them meets the hypotheses *)
Example C21_roundtrip_floats_nonvacuous :
  let ff := table_f64 [(f64_of_bits 0x3fe0000000000000, hx "302e35");            (* 0.5 *)
                       (f64_of_bits 0x444b1ae4d6e2ef50, hx "31652b3231");        (* 1e+21 *)
                       (f64_of_bits 0x8000000000000000, hx "2d302e30");          (* -0.0 *)
                       (f64_of_bits 0x0000000000000001, hx "35652d333234")] in   (* 5e-324 *)
  let v := VObj [(hx "61", VArr [VFloat (f64_of_bits 0x3fe0000000000000); VFloat (f64_of_bits 0x444b1ae4d6e2ef50);
                                 VBytes (hx "0a22e280a8f09f9880")]);
                 (hx "62", VObj [(hx "", VFloat (f64_of_bits 0x8000000000000000));
                                 (hx "7a", VFloat (f64_of_bits 0x0000000000000001))])] in
  jrep (fun f => float_text_ok (ff f) f) v = true /\ vdepth v < 128
  /\ parse_json (encode_json ff (fun _ => []) true v) = Some v.
Proof. vm_compute. repeat split. Qed.

(* FINDING (recursion limit): "any nesting" does not hold.  128 one-element arrays around 1 are printed by
   encode_json and rejected by parse_json (serde_json's remaining_depth starts at 128) *)
Example C21_depth_refuted :
  let v := Nat.iter 128 (fun x => VArr [x]) (VInt 1) in
  jrep (fun _ => false) v = true /\ vdepth v = 128
  /\ parse_json (encode_json (fun _ => []) (fun _ => []) false v) = None
  /\ parse_json (encode_json (fun _ => []) (fun _ => []) true v) = None.
Proof. vm_compute. repeat split. Qed.

(* FINDING (2 ulp): the float with bits 0x651faaa814d10597 = 0x1faaa814d10597 * 2^542 prints as
   1.2832144790256697e+179; that decimal is within half an ulp of the float (first conjunct: exact integer
   arithmetic), yet serde_json's arithmetic without float_roundtrip reads it two floats lower *)
Example C21_float_2ulp_refuted :
  let txt := hx "312e32383332313434373930323536363937652b313739" in
  let f := f64_of_bits 0x651faaa814d10597 in
  (Z.abs (12832144790256697 * 10 ^ 163 - 0x1faaa814d10597 * 2 ^ 542) < 2 ^ 541)%Z
  /\ f = S754_finite false 0x1faaa814d10597 542
  /\ parse_num_tok txt = Some (PF64 (f64_of_bits 0x651faaa814d10595), [])
  /\ float_text_ok txt f = false.
Proof. vm_compute. repeat split. Qed.

(* duplicate keys: the last one wins (BTreeMap::insert in document order), keys come back sorted *)
Example C21_duplicate_keys_last_wins :
  parse_json (hx "7b2262223a312c2261223a322c2262223a337d")          (* {"b":1,"a":2,"b":3} *)
  = Some (VObj [(hx "61", VInt 2); (hx "62", VInt 3)]).
Proof. vm_compute. reflexivity. Qed.
