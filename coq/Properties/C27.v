(* C27 — Digest and checksum functions match reference algorithms.
   Specifications (the published algorithms, in Gallina): Model/DigestMd5.v (RFC 1321), DigestSha1.v and
   DigestSha2.v (FIPS 180-4), DigestSha3.v (FIPS 202), Hmac.v (RFC 2104), Crc.v (Rocksoft model + the 112
   catalogue parameter sets), XxHash.v (xxHash specification: XXH32, XXH64, XXH3-64, XXH3-128), Seahash.v.
   VRL side: Model/DigestGlue.v (src/stdlib/{md5,sha1,sha2,sha3,hmac,crc,xxhash,seahash}.rs).
   Nothing but statements here.  `str "..."` is the byte string of an ASCII text, `hx "..."` of a hex text.

   The property is agreement with external definitions: the theorems below say that the VRL-level model
   returns `encode (spec variant input)` for every accepted name and every input, which names are accepted,
   that the encoders lose nothing, and that each specification reproduces its standard's test vectors.  The
   tie between the specifications and the Rust crates is the correspondence run (props/C27.py). *)
From Coq Require Import List NArith ZArith Bool String.
From VRL Require Import Base.Bytes Base.Value Base.Lit Model.DigestWord Model.DigestMd5 Model.DigestSha1
     Model.DigestSha2 Model.DigestSha3 Model.Hmac Model.Crc Model.XxHash Model.Seahash Model.Base64 Model.DigestGlue
     Proofs.DigestProofs Proofs.DigestVectors.
Import ListNotations.
Local Open Scope N_scope.
Local Open Scope string_scope.
Local Open Scope list_scope.

(* ================================================================== glue: functions without a variant *)
Theorem C27_glue_md5 : forall b : bytes, vrl_md5 (VBytes b) = ROk (VBytes (hex (md5 b))).
Proof. reflexivity. Qed.
Print Assumptions C27_glue_md5.

Theorem C27_glue_sha1 : forall b : bytes, vrl_sha1 (VBytes b) = ROk (VBytes (hex (sha1 b))).
Proof. reflexivity. Qed.
Print Assumptions C27_glue_sha1.

Theorem C27_glue_seahash : forall b : bytes, vrl_seahash (VBytes b) = ROk (VInt (to_i64 (seahash b))).
Proof. reflexivity. Qed.
Print Assumptions C27_glue_seahash.

(* ================================================================== sha2 *)
Theorem C27_glue_sha2 : forall (v : sha2_variant) (b : bytes),
  vrl_sha2 (ALit (str (sha2_name v))) (VBytes b) = ROk (VBytes (hex (sha2_spec v b))).
Proof. exact glue_sha2. Qed.
Print Assumptions C27_glue_sha2.

Theorem C27_glue_sha2_default : forall b : bytes,
  vrl_sha2 ADefault (VBytes b) = ROk (VBytes (hex (sha512_256 b))).
Proof. exact glue_sha2_default. Qed.
Print Assumptions C27_glue_sha2_default.

(* nothing else is accepted: a successful call used the default or a literal spelled exactly as documented *)
Theorem C27_sha2_accepted : forall (a : varg) (x r : value), vrl_sha2 a x = ROk r ->
  exists v b, x = VBytes b /\ r = VBytes (hex (sha2_spec v b))
              /\ ((a = ADefault /\ v = S512_256) \/ a = ALit (str (sha2_name v))).
Proof. exact sha2_accepted. Qed.
Print Assumptions C27_sha2_accepted.

(* ================================================================== sha3 *)
Theorem C27_glue_sha3 : forall (v : sha3_variant) (b : bytes),
  vrl_sha3 (ALit (str (sha3_name v))) (VBytes b) = ROk (VBytes (hex (sha3_spec v b))).
Proof. exact glue_sha3. Qed.
Print Assumptions C27_glue_sha3.

Theorem C27_glue_sha3_default : forall b : bytes,
  vrl_sha3 ADefault (VBytes b) = ROk (VBytes (hex (sha3_512 b))).
Proof. exact glue_sha3_default. Qed.
Print Assumptions C27_glue_sha3_default.

Theorem C27_sha3_accepted : forall (a : varg) (x r : value), vrl_sha3 a x = ROk r ->
  exists v b, x = VBytes b /\ r = VBytes (hex (sha3_spec v b))
              /\ ((a = ADefault /\ v = T512) \/ a = ALit (str (sha3_name v))).
Proof. exact sha3_accepted. Qed.
Print Assumptions C27_sha3_accepted.

(* ================================================================== hmac *)
Theorem C27_glue_hmac : forall (alg : hmac_alg) (k b : bytes),
  vrl_hmac (ADyn (VBytes (str (hmac_name alg)))) (VBytes b) (VBytes k) = ROk (VBytes (hmac_spec alg k b))
  /\ vrl_hmac (ALit (str (hmac_name alg))) (VBytes b) (VBytes k) = ROk (VBytes (hmac_spec alg k b)).
Proof. exact glue_hmac. Qed.
Print Assumptions C27_glue_hmac.

Theorem C27_glue_hmac_default : forall k b : bytes,
  vrl_hmac ADefault (VBytes b) (VBytes k) = ROk (VBytes (hmac_spec HSha256 k b)).
Proof. exact glue_hmac_default. Qed.
Print Assumptions C27_glue_hmac_default.

(* a successful call: the name, upper-cased the way str::to_uppercase does, is one of the five documented *)
Theorem C27_hmac_accepted : forall (a : varg) (x key r : value), vrl_hmac a x key = ROk r ->
  exists alg b k, x = VBytes b /\ key = VBytes k /\ r = VBytes (hmac_spec alg k b)
    /\ match a with
       | ADefault => alg = HSha256
       | _ => exists n, name_given a = Some n /\ name_upper n = str (hmac_name alg)
       end.
Proof. exact hmac_accepted. Qed.
Print Assumptions C27_hmac_accepted.

(* the documented way to get text: encode_base16 / encode_base64 around the call *)
Theorem C27_glue_hmac_encoded : forall (alg : hmac_alg) (k b : bytes),
  wrap_res WHex (vrl_hmac (ADyn (VBytes (str (hmac_name alg)))) (VBytes b) (VBytes k))
    = ROk (VBytes (hex (hmac_spec alg k b)))
  /\ wrap_res WB64 (vrl_hmac (ADyn (VBytes (str (hmac_name alg)))) (VBytes b) (VBytes k))
    = ROk (VBytes (b64_encode false true (hmac_spec alg k b))).
Proof. exact glue_hmac_encoded. Qed.
Print Assumptions C27_glue_hmac_encoded.

(* ================================================================== crc *)
Theorem C27_glue_crc : forall (e : crc_entry) (b : bytes), In e crc_catalogue ->
  vrl_crc (ADyn (VBytes (str (crc_name e)))) (VBytes b) = ROk (VBytes (dec (crc_spec e b)))
  /\ vrl_crc (ALit (str (crc_name e))) (VBytes b) = ROk (VBytes (dec (crc_spec e b))).
Proof. exact glue_crc. Qed.
Print Assumptions C27_glue_crc.

(* the default is CRC-32/ISO-HDLC: poly 04c11db7, init ffffffff, reflected in and out, xorout ffffffff *)
Theorem C27_glue_crc_default : exists e, In e crc_catalogue /\ crc_name e = "CRC_32_ISO_HDLC"
  /\ snd (fst e) = mkCrc 32 0x04c11db7 0xffffffff true true 0xffffffff
  /\ forall b, vrl_crc ADefault (VBytes b) = ROk (VBytes (dec (crc_spec e b))).
Proof. exact crc_default_entry. Qed.
Print Assumptions C27_glue_crc_default.

Theorem C27_crc_accepted : forall (a : varg) (x r : value), vrl_crc a x = ROk r ->
  exists e b, In e crc_catalogue /\ x = VBytes b /\ r = VBytes (dec (crc_spec e b))
    /\ match a with
       | ADefault => crc_name e = "CRC_32_ISO_HDLC"
       | _ => exists n, name_given a = Some n /\ name_upper n = str (crc_name e)
       end.
Proof. exact crc_accepted. Qed.
Print Assumptions C27_crc_accepted.

(* the Rocksoft model with each of the 112 parameter sets yields the catalogue's check value for "123456789" *)
Theorem C27_crc_catalogue_check : List.length crc_catalogue = 112%nat /\
  forall e : crc_entry, In e crc_catalogue -> crc_spec e (str "123456789") = crc_check e.
Proof. split; [reflexivity | exact crc_catalogue_check]. Qed.
Print Assumptions C27_crc_catalogue_check.

(* ================================================================== xxhash *)
Theorem C27_glue_xxhash : forall (v : xxh_variant) (b : bytes),
  vrl_xxhash (ADyn (VBytes (str (xxh_name v)))) (VBytes b) = ROk (xxh_spec v b)
  /\ vrl_xxhash (ALit (str (xxh_name v))) (VBytes b) = ROk (xxh_spec v b).
Proof. exact glue_xxhash. Qed.
Print Assumptions C27_glue_xxhash.

Theorem C27_glue_xxhash_default : forall b : bytes,
  vrl_xxhash ADefault (VBytes b) = ROk (VInt (Z.of_N (xxh32 b))).
Proof. exact glue_xxhash_default. Qed.
Print Assumptions C27_glue_xxhash_default.

Theorem C27_xxhash_accepted : forall (a : varg) (x r : value), vrl_xxhash a x = ROk r ->
  exists v b, x = VBytes b /\ r = xxh_spec v b
    /\ match a with
       | ADefault => v = X32
       | _ => exists n, name_given a = Some n /\ name_upper n = str (xxh_name v)
       end.
Proof. exact xxhash_accepted. Qed.
Print Assumptions C27_xxhash_accepted.

(* ================================================================== spelling and argument types *)
(* hmac, crc and xxhash fold case: the lower-case spelling of every documented name gives the same result;
   sha2 and sha3 do not (a lower-case literal does not compile) *)
Theorem C27_lowercase_names :
  (forall alg k b, vrl_hmac (ADyn (VBytes (lower_ascii (str (hmac_name alg))))) (VBytes b) (VBytes k)
                   = ROk (VBytes (hmac_spec alg k b)))
  /\ (forall v b, vrl_xxhash (ADyn (VBytes (lower_ascii (str (xxh_name v))))) (VBytes b) = ROk (xxh_spec v b))
  /\ (forall e b, In e crc_catalogue ->
        vrl_crc (ADyn (VBytes (lower_ascii (str (crc_name e))))) (VBytes b) = ROk (VBytes (dec (crc_spec e b))))
  /\ (forall v x, vrl_sha2 (ALit (lower_ascii (str (sha2_name v)))) x = RCompile)
  /\ (forall v x, vrl_sha3 (ALit (lower_ascii (str (sha3_name v)))) x = RCompile).
Proof.
  destruct lowercase_names as (H1 & H2 & H3).
  repeat (match goal with |- _ /\ _ => split end); auto using sha2_case_sensitive, sha3_case_sensitive.
Qed.
Print Assumptions C27_lowercase_names.

(* a `value` (or `key`) that is not a byte string never yields a digest *)
Theorem C27_type_errors : forall x : value, as_bytes x = None ->
  vrl_md5 x = RErr EType /\ vrl_sha1 x = RErr EType /\ vrl_seahash x = RErr EType
  /\ (forall a r, vrl_sha2 a x <> ROk r) /\ (forall a r, vrl_sha3 a x <> ROk r)
  /\ (forall a k r, vrl_hmac a x k <> ROk r) /\ (forall a b r, vrl_hmac a (VBytes b) x <> ROk r)
  /\ (forall a r, vrl_crc a x <> ROk r) /\ (forall a r, vrl_xxhash a x <> ROk r).
Proof. exact type_errors. Qed.
Print Assumptions C27_type_errors.

(* ================================================================== HMAC is RFC 2104 *)
Theorem C27_hmac_def : forall (H : bytes -> bytes) (B : N) (key msg : bytes),
  hmac H B key msg =
  H (xor_bytes 0x5c (hmac_key H B key) ++ H (xor_bytes 0x36 (hmac_key H B key) ++ msg)).
Proof. exact hmac_def. Qed.
Print Assumptions C27_hmac_def.

Theorem C27_hmac_key_short : forall (H : bytes -> bytes) (B : N) (key : bytes),
  blen key <= B -> hmac_key H B key = key ++ zeros (B - blen key).
Proof. exact hmac_key_short. Qed.
Print Assumptions C27_hmac_key_short.

Theorem C27_hmac_key_long : forall (H : bytes -> bytes) (B : N) (key : bytes),
  B < blen key -> hmac_key H B key = H key ++ zeros (B - blen (H key)).
Proof. exact hmac_key_long. Qed.
Print Assumptions C27_hmac_key_long.

(* for the five hashes `hmac` offers the padded key K' has exactly the block size *)
Theorem C27_hmac_key_length : forall (alg : hmac_alg) (key : bytes),
  blen (hmac_key (hmac_hash alg) (hmac_block alg) key) = hmac_block alg.
Proof. intros alg key. apply hmac_key_length. intros m. apply hmac_hash_fits. Qed.
Print Assumptions C27_hmac_key_length.

(* ================================================================== the encoders lose nothing *)
Theorem C27_hex_inj : forall a b : bytes, hex a = hex b -> a = b.
Proof. exact hex_inj. Qed.
Print Assumptions C27_hex_inj.

Theorem C27_hex_length : forall b : bytes, List.length (hex b) = (2 * List.length b)%nat
  /\ (wf_bytes b = true ->
      forallb (fun c => (((48 <=? c) && (c <=? 57)) || ((97 <=? c) && (c <=? 102)))%N) (hex b) = true).
Proof. intros b. split; [apply hex_length | apply hex_alphabet]. Qed.
Print Assumptions C27_hex_length.

Theorem C27_dec_inj : forall a b : N, dec a = dec b -> a = b.
Proof. exact dec_inj. Qed.
Print Assumptions C27_dec_inj.

Theorem C27_i64_inj : forall a b : N, a < 2 ^ 64 -> b < 2 ^ 64 ->
  (to_i64 a = to_i64 b -> a = b) /\ (- 2 ^ 63 <= to_i64 a < 2 ^ 63)%Z.
Proof. intros a b Ha Hb. split; [apply to_i64_inj; assumption | apply to_i64_range; assumption]. Qed.
Print Assumptions C27_i64_inj.

(* ================================================================== sizes and ranges of the results *)
(* digests have their standard sizes (so the hex text is twice as long); hmac returns the hash's size *)
Theorem C27_digest_lengths : forall m : bytes,
  List.length (md5 m) = 16%nat /\ List.length (sha1 m) = 20%nat
  /\ (forall v, List.length (sha2_spec v m) = sha2_outlen v)
  /\ (forall v, List.length (sha3_spec v m) = sha3_outlen v)
  /\ (forall a k, List.length (hmac_spec a k m) = hmac_outlen a).
Proof.
  intros m. split; [apply md5_length | split; [apply sha1_length' | split; [| split]]]; intros.
  - apply sha2_spec_length. - apply sha3_spec_length. - apply hmac_spec_length.
Qed.
Print Assumptions C27_digest_lengths.

(* the integer results are genuine 32-/64-bit words, so C27_i64_inj applies to them *)
Theorem C27_word_ranges : forall m : bytes,
  xxh32 m < 2 ^ 32 /\ xxh64 m < 2 ^ 64 /\ xxh3_64 m < 2 ^ 64 /\ seahash m < 2 ^ 64.
Proof.
  intros m. split; [apply xxh32_lt | split; [apply xxh64_lt | split; [apply xxh3_64_lt | apply seahash_lt]]].
Qed.
Print Assumptions C27_word_ranges.

(* ================================================================== pinned to the standards *)
Theorem C27_sha512t_iv :
  sha512t_iv_gen (str "SHA-512/224") = iv512_224 /\ sha512t_iv_gen (str "SHA-512/256") = iv512_256.
Proof. exact sha512t_iv. Qed.
Print Assumptions C27_sha512t_iv.

(* RFC 1321 appendix A.5 test suite *)
Theorem C27_vectors_md5 :
  md5 (str "") = hx "d41d8cd98f00b204e9800998ecf8427e"
  /\ md5 (str "a") = hx "0cc175b9c0f1b6a831c399e269772661"
  /\ md5 (str "abc") = hx "900150983cd24fb0d6963f7d28e17f72"
  /\ md5 (str "message digest") = hx "f96b697d7cb7938d525a2f31aaf161d0"
  /\ md5 (str "abcdefghijklmnopqrstuvwxyz") = hx "c3fcd3d76192e4007dfb496cca67e13b"
  /\ md5 (str "ABCDEFGHIJKLMNOPQRSTUVWXYZabcdefghijklmnopqrstuvwxyz0123456789") = hx "d174ab98d277d9f5a5611c2c9f419d9f"
  /\ md5 (str "12345678901234567890123456789012345678901234567890123456789012345678901234567890") = hx "57edf4a22be3c955ac49da2e2107b67a".
Proof. exact vectors_md5. Qed.
Print Assumptions C27_vectors_md5.

(* FIPS 180 / NIST CSRC example messages: abc, empty, the 448-bit and the 896-bit message *)
Theorem C27_vectors_sha1 :
  sha1 (str "abc") = hx "a9993e364706816aba3e25717850c26c9cd0d89d"
  /\ sha1 (str "") = hx "da39a3ee5e6b4b0d3255bfef95601890afd80709"
  /\ sha1 (str "abcdbcdecdefdefgefghfghighijhijkijkljklmklmnlmnomnopnopq") = hx "84983e441c3bd26ebaae4aa1f95129e5e54670f1"
  /\ sha1 (str "abcdefghbcdefghicdefghijdefghijkefghijklfghijklmghijklmnhijklmnoijklmnopjklmnopqklmnopqrlmnopqrsmnopqrstnopqrstu") = hx "a49b2446a02c645bf419f995b67091253a04a259".
Proof. exact vectors_sha1. Qed.
Print Assumptions C27_vectors_sha1.

(* NIST CSRC example values for every SHA-2 variant: abc, empty, the 448-bit and the 896-bit message *)
Theorem C27_vectors_sha2 :
  sha224 (str "abc") = hx "23097d223405d8228642a477bda255b32aadbce4bda0b3f7e36c9da7"
  /\ sha224 (str "") = hx "d14a028c2a3a2bc9476102bb288234c415a2b01f828ea62ac5b3e42f"
  /\ sha224 (str "abcdbcdecdefdefgefghfghighijhijkijkljklmklmnlmnomnopnopq") = hx "75388b16512776cc5dba5da1fd890150b0c6455cb4f58b1952522525"
  /\ sha224 (str "abcdefghbcdefghicdefghijdefghijkefghijklfghijklmghijklmnhijklmnoijklmnopjklmnopqklmnopqrlmnopqrsmnopqrstnopqrstu") = hx "c97ca9a559850ce97a04a96def6d99a9e0e0e2ab14e6b8df265fc0b3"
  /\ sha256 (str "abc") = hx "ba7816bf8f01cfea414140de5dae2223b00361a396177a9cb410ff61f20015ad"
  /\ sha256 (str "") = hx "e3b0c44298fc1c149afbf4c8996fb92427ae41e4649b934ca495991b7852b855"
  /\ sha256 (str "abcdbcdecdefdefgefghfghighijhijkijkljklmklmnlmnomnopnopq") = hx "248d6a61d20638b8e5c026930c3e6039a33ce45964ff2167f6ecedd419db06c1"
  /\ sha256 (str "abcdefghbcdefghicdefghijdefghijkefghijklfghijklmghijklmnhijklmnoijklmnopjklmnopqklmnopqrlmnopqrsmnopqrstnopqrstu") = hx "cf5b16a778af8380036ce59e7b0492370b249b11e8f07a51afac45037afee9d1"
  /\ sha384 (str "abc") = hx "cb00753f45a35e8bb5a03d699ac65007272c32ab0eded1631a8b605a43ff5bed8086072ba1e7cc2358baeca134c825a7"
  /\ sha384 (str "") = hx "38b060a751ac96384cd9327eb1b1e36a21fdb71114be07434c0cc7bf63f6e1da274edebfe76f65fbd51ad2f14898b95b"
  /\ sha384 (str "abcdbcdecdefdefgefghfghighijhijkijkljklmklmnlmnomnopnopq") = hx "3391fdddfc8dc7393707a65b1b4709397cf8b1d162af05abfe8f450de5f36bc6b0455a8520bc4e6f5fe95b1fe3c8452b"
  /\ sha384 (str "abcdefghbcdefghicdefghijdefghijkefghijklfghijklmghijklmnhijklmnoijklmnopjklmnopqklmnopqrlmnopqrsmnopqrstnopqrstu") = hx "09330c33f71147e83d192fc782cd1b4753111b173b3b05d22fa08086e3b0f712fcc7c71a557e2db966c3e9fa91746039"
  /\ sha512 (str "abc") = hx "ddaf35a193617abacc417349ae20413112e6fa4e89a97ea20a9eeee64b55d39a2192992a274fc1a836ba3c23a3feebbd454d4423643ce80e2a9ac94fa54ca49f"
  /\ sha512 (str "") = hx "cf83e1357eefb8bdf1542850d66d8007d620e4050b5715dc83f4a921d36ce9ce47d0d13c5d85f2b0ff8318d2877eec2f63b931bd47417a81a538327af927da3e"
  /\ sha512 (str "abcdbcdecdefdefgefghfghighijhijkijkljklmklmnlmnomnopnopq") = hx "204a8fc6dda82f0a0ced7beb8e08a41657c16ef468b228a8279be331a703c33596fd15c13b1b07f9aa1d3bea57789ca031ad85c7a71dd70354ec631238ca3445"
  /\ sha512 (str "abcdefghbcdefghicdefghijdefghijkefghijklfghijklmghijklmnhijklmnoijklmnopjklmnopqklmnopqrlmnopqrsmnopqrstnopqrstu") = hx "8e959b75dae313da8cf4f72814fc143f8f7779c6eb9f7fa17299aeadb6889018501d289e4900f7e4331b99dec4b5433ac7d329eeb6dd26545e96e55b874be909"
  /\ sha512_224 (str "abc") = hx "4634270f707b6a54daae7530460842e20e37ed265ceee9a43e8924aa"
  /\ sha512_224 (str "") = hx "6ed0dd02806fa89e25de060c19d3ac86cabb87d6a0ddd05c333b84f4"
  /\ sha512_224 (str "abcdbcdecdefdefgefghfghighijhijkijkljklmklmnlmnomnopnopq") = hx "e5302d6d54bb242275d1e7622d68df6eb02dedd13f564c13dbda2174"
  /\ sha512_224 (str "abcdefghbcdefghicdefghijdefghijkefghijklfghijklmghijklmnhijklmnoijklmnopjklmnopqklmnopqrlmnopqrsmnopqrstnopqrstu") = hx "23fec5bb94d60b23308192640b0c453335d664734fe40e7268674af9"
  /\ sha512_256 (str "abc") = hx "53048e2681941ef99b2e29b76b4c7dabe4c2d0c634fc6d46e0e2f13107e7af23"
  /\ sha512_256 (str "") = hx "c672b8d1ef56ed28ab87c3622c5114069bdd3ad7b8f9737498d0c01ecef0967a"
  /\ sha512_256 (str "abcdbcdecdefdefgefghfghighijhijkijkljklmklmnlmnomnopnopq") = hx "bde8e1f9f19bb9fd3406c90ec6bc47bd36d8ada9f11880dbc8a22a7078b6a461"
  /\ sha512_256 (str "abcdefghbcdefghicdefghijdefghijkefghijklfghijklmghijklmnhijklmnoijklmnopjklmnopqklmnopqrlmnopqrsmnopqrstnopqrstu") = hx "3928e184fb8690f840da3988121d31be65cb9d3ef83ee6146feac861e19b563a".
Proof. exact vectors_sha2. Qed.
Print Assumptions C27_vectors_sha2.

(* NIST CSRC SHA-3 example values: abc, empty, 448-bit, 896-bit, and the 1600-bit message 0xA3 x 200 *)
Theorem C27_vectors_sha3 :
  sha3_224 (str "abc") = hx "e642824c3f8cf24ad09234ee7d3c766fc9a3a5168d0c94ad73b46fdf"
  /\ sha3_224 (str "") = hx "6b4e03423667dbb73b6e15454f0eb1abd4597f9a1b078e3f5b5a6bc7"
  /\ sha3_224 (str "abcdbcdecdefdefgefghfghighijhijkijkljklmklmnlmnomnopnopq") = hx "8a24108b154ada21c9fd5574494479ba5c7e7ab76ef264ead0fcce33"
  /\ sha3_224 (str "abcdefghbcdefghicdefghijdefghijkefghijklfghijklmghijklmnhijklmnoijklmnopjklmnopqklmnopqrlmnopqrsmnopqrstnopqrstu") = hx "543e6868e1666c1a643630df77367ae5a62a85070a51c14cbf665cbc"
  /\ sha3_224 (repeat 163%N 200) = hx "9376816aba503f72f96ce7eb65ac095deee3be4bf9bbc2a1cb7e11e0"
  /\ sha3_256 (str "abc") = hx "3a985da74fe225b2045c172d6bd390bd855f086e3e9d525b46bfe24511431532"
  /\ sha3_256 (str "") = hx "a7ffc6f8bf1ed76651c14756a061d662f580ff4de43b49fa82d80a4b80f8434a"
  /\ sha3_256 (str "abcdbcdecdefdefgefghfghighijhijkijkljklmklmnlmnomnopnopq") = hx "41c0dba2a9d6240849100376a8235e2c82e1b9998a999e21db32dd97496d3376"
  /\ sha3_256 (str "abcdefghbcdefghicdefghijdefghijkefghijklfghijklmghijklmnhijklmnoijklmnopjklmnopqklmnopqrlmnopqrsmnopqrstnopqrstu") = hx "916f6061fe879741ca6469b43971dfdb28b1a32dc36cb3254e812be27aad1d18"
  /\ sha3_256 (repeat 163%N 200) = hx "79f38adec5c20307a98ef76e8324afbfd46cfd81b22e3973c65fa1bd9de31787"
  /\ sha3_384 (str "abc") = hx "ec01498288516fc926459f58e2c6ad8df9b473cb0fc08c2596da7cf0e49be4b298d88cea927ac7f539f1edf228376d25"
  /\ sha3_384 (str "") = hx "0c63a75b845e4f7d01107d852e4c2485c51a50aaaa94fc61995e71bbee983a2ac3713831264adb47fb6bd1e058d5f004"
  /\ sha3_384 (str "abcdbcdecdefdefgefghfghighijhijkijkljklmklmnlmnomnopnopq") = hx "991c665755eb3a4b6bbdfb75c78a492e8c56a22c5c4d7e429bfdbc32b9d4ad5aa04a1f076e62fea19eef51acd0657c22"
  /\ sha3_384 (str "abcdefghbcdefghicdefghijdefghijkefghijklfghijklmghijklmnhijklmnoijklmnopjklmnopqklmnopqrlmnopqrsmnopqrstnopqrstu") = hx "79407d3b5916b59c3e30b09822974791c313fb9ecc849e406f23592d04f625dc8c709b98b43b3852b337216179aa7fc7"
  /\ sha3_384 (repeat 163%N 200) = hx "1881de2ca7e41ef95dc4732b8f5f002b189cc1e42b74168ed1732649ce1dbcdd76197a31fd55ee989f2d7050dd473e8f"
  /\ sha3_512 (str "abc") = hx "b751850b1a57168a5693cd924b6b096e08f621827444f70d884f5d0240d2712e10e116e9192af3c91a7ec57647e3934057340b4cf408d5a56592f8274eec53f0"
  /\ sha3_512 (str "") = hx "a69f73cca23a9ac5c8b567dc185a756e97c982164fe25859e0d1dcc1475c80a615b2123af1f5f94c11e3e9402c3ac558f500199d95b6d3e301758586281dcd26"
  /\ sha3_512 (str "abcdbcdecdefdefgefghfghighijhijkijkljklmklmnlmnomnopnopq") = hx "04a371e84ecfb5b8b77cb48610fca8182dd457ce6f326a0fd3d7ec2f1e91636dee691fbe0c985302ba1b0d8dc78c086346b533b49c030d99a27daf1139d6e75e"
  /\ sha3_512 (str "abcdefghbcdefghicdefghijdefghijkefghijklfghijklmghijklmnhijklmnoijklmnopjklmnopqklmnopqrlmnopqrsmnopqrstnopqrstu") = hx "afebb2ef542e6579c50cad06d2e578f9f8dd6881d7dc824d26360feebf18a4fa73e3261122948efcfd492e74e82e2189ed0fb440d187f382270cb455f21dd185"
  /\ sha3_512 (repeat 163%N 200) = hx "e76dfad22084a8b1467fcf2ffa58361bec7628edf5f3fdc0e4805dc48caeeca81b7c13c30adf52a3659584739a2df46be589c51ca1a4a8416df6545a1ce8ba00".
Proof. exact vectors_sha3. Qed.
Print Assumptions C27_vectors_sha3.

(* RFC 2202 (HMAC-SHA-1, cases 1-7) and RFC 4231 (HMAC-SHA-224/256/384/512, cases 1-4, 6, 7) *)
Theorem C27_vectors_hmac :
  hmac_spec HSha1 (hx "0b0b0b0b0b0b0b0b0b0b0b0b0b0b0b0b0b0b0b0b") (hx "4869205468657265") = hx "b617318655057264e28bc0b6fb378c8ef146be00"
  /\ hmac_spec HSha1 (hx "4a656665") (hx "7768617420646f2079612077616e7420666f72206e6f7468696e673f") = hx "effcdf6ae5eb2fa2d27416d5f184df9c259a7c79"
  /\ hmac_spec HSha1 (hx "aaaaaaaaaaaaaaaaaaaaaaaaaaaaaaaaaaaaaaaa") (hx "dddddddddddddddddddddddddddddddddddddddddddddddddddddddddddddddddddddddddddddddddddddddddddddddddddd") = hx "125d7342b9ac11cd91a39af48aa17b4f63f175d3"
  /\ hmac_spec HSha1 (hx "0102030405060708090a0b0c0d0e0f10111213141516171819") (hx "cdcdcdcdcdcdcdcdcdcdcdcdcdcdcdcdcdcdcdcdcdcdcdcdcdcdcdcdcdcdcdcdcdcdcdcdcdcdcdcdcdcdcdcdcdcdcdcdcdcd") = hx "4c9007f4026250c6bc8414f9bf50c86c2d7235da"
  /\ hmac_spec HSha1 (hx "0c0c0c0c0c0c0c0c0c0c0c0c0c0c0c0c0c0c0c0c") (hx "546573742057697468205472756e636174696f6e") = hx "4c1a03424b55e07fe7f27be1d58bb9324a9a5a04"
  /\ hmac_spec HSha1 (hx "aaaaaaaaaaaaaaaaaaaaaaaaaaaaaaaaaaaaaaaaaaaaaaaaaaaaaaaaaaaaaaaaaaaaaaaaaaaaaaaaaaaaaaaaaaaaaaaaaaaaaaaaaaaaaaaaaaaaaaaaaaaaaaaaaaaaaaaaaaaaaaaaaaaaaaaaaaaaaaaa") (hx "54657374205573696e67204c6172676572205468616e20426c6f636b2d53697a65204b6579202d2048617368204b6579204669727374") = hx "aa4ae5e15272d00e95705637ce8a3b55ed402112"
  /\ hmac_spec HSha1 (hx "aaaaaaaaaaaaaaaaaaaaaaaaaaaaaaaaaaaaaaaaaaaaaaaaaaaaaaaaaaaaaaaaaaaaaaaaaaaaaaaaaaaaaaaaaaaaaaaaaaaaaaaaaaaaaaaaaaaaaaaaaaaaaaaaaaaaaaaaaaaaaaaaaaaaaaaaaaaaaaaa") (hx "54657374205573696e67204c6172676572205468616e20426c6f636b2d53697a65204b657920616e64204c6172676572205468616e204f6e6520426c6f636b2d53697a652044617461") = hx "e8e99d0f45237d786d6bbaa7965c7808bbff1a91"
  /\ hmac_spec HSha224 (hx "0b0b0b0b0b0b0b0b0b0b0b0b0b0b0b0b0b0b0b0b") (hx "4869205468657265") = hx "896fb1128abbdf196832107cd49df33f47b4b1169912ba4f53684b22"
  /\ hmac_spec HSha224 (hx "4a656665") (hx "7768617420646f2079612077616e7420666f72206e6f7468696e673f") = hx "a30e01098bc6dbbf45690f3a7e9e6d0f8bbea2a39e6148008fd05e44"
  /\ hmac_spec HSha224 (hx "aaaaaaaaaaaaaaaaaaaaaaaaaaaaaaaaaaaaaaaa") (hx "dddddddddddddddddddddddddddddddddddddddddddddddddddddddddddddddddddddddddddddddddddddddddddddddddddd") = hx "7fb3cb3588c6c1f6ffa9694d7d6ad2649365b0c1f65d69d1ec8333ea"
  /\ hmac_spec HSha224 (hx "0102030405060708090a0b0c0d0e0f10111213141516171819") (hx "cdcdcdcdcdcdcdcdcdcdcdcdcdcdcdcdcdcdcdcdcdcdcdcdcdcdcdcdcdcdcdcdcdcdcdcdcdcdcdcdcdcdcdcdcdcdcdcdcdcd") = hx "6c11506874013cac6a2abc1bb382627cec6a90d86efc012de7afec5a"
  /\ hmac_spec HSha224 (hx "aaaaaaaaaaaaaaaaaaaaaaaaaaaaaaaaaaaaaaaaaaaaaaaaaaaaaaaaaaaaaaaaaaaaaaaaaaaaaaaaaaaaaaaaaaaaaaaaaaaaaaaaaaaaaaaaaaaaaaaaaaaaaaaaaaaaaaaaaaaaaaaaaaaaaaaaaaaaaaaaaaaaaaaaaaaaaaaaaaaaaaaaaaaaaaaaaaaaaaaaaaaaaaaaaaaaaaaaaaaaaaaaaaaaaaaaaaaaaaaaaaaaaaaaaaaaaaaaaaaaaa") (hx "54657374205573696e67204c6172676572205468616e20426c6f636b2d53697a65204b6579202d2048617368204b6579204669727374") = hx "95e9a0db962095adaebe9b2d6f0dbce2d499f112f2d2b7273fa6870e"
  /\ hmac_spec HSha224 (hx "aaaaaaaaaaaaaaaaaaaaaaaaaaaaaaaaaaaaaaaaaaaaaaaaaaaaaaaaaaaaaaaaaaaaaaaaaaaaaaaaaaaaaaaaaaaaaaaaaaaaaaaaaaaaaaaaaaaaaaaaaaaaaaaaaaaaaaaaaaaaaaaaaaaaaaaaaaaaaaaaaaaaaaaaaaaaaaaaaaaaaaaaaaaaaaaaaaaaaaaaaaaaaaaaaaaaaaaaaaaaaaaaaaaaaaaaaaaaaaaaaaaaaaaaaaaaaaaaaaaaaa") (hx "5468697320697320612074657374207573696e672061206c6172676572207468616e20626c6f636b2d73697a65206b657920616e642061206c6172676572207468616e20626c6f636b2d73697a6520646174612e20546865206b6579206e6565647320746f20626520686173686564206265666f7265206265696e6720757365642062792074686520484d414320616c676f726974686d2e") = hx "3a854166ac5d9f023f54d517d0b39dbd946770db9c2b95c9f6f565d1"
  /\ hmac_spec HSha256 (hx "0b0b0b0b0b0b0b0b0b0b0b0b0b0b0b0b0b0b0b0b") (hx "4869205468657265") = hx "b0344c61d8db38535ca8afceaf0bf12b881dc200c9833da726e9376c2e32cff7"
  /\ hmac_spec HSha256 (hx "4a656665") (hx "7768617420646f2079612077616e7420666f72206e6f7468696e673f") = hx "5bdcc146bf60754e6a042426089575c75a003f089d2739839dec58b964ec3843"
  /\ hmac_spec HSha256 (hx "aaaaaaaaaaaaaaaaaaaaaaaaaaaaaaaaaaaaaaaa") (hx "dddddddddddddddddddddddddddddddddddddddddddddddddddddddddddddddddddddddddddddddddddddddddddddddddddd") = hx "773ea91e36800e46854db8ebd09181a72959098b3ef8c122d9635514ced565fe"
  /\ hmac_spec HSha256 (hx "0102030405060708090a0b0c0d0e0f10111213141516171819") (hx "cdcdcdcdcdcdcdcdcdcdcdcdcdcdcdcdcdcdcdcdcdcdcdcdcdcdcdcdcdcdcdcdcdcdcdcdcdcdcdcdcdcdcdcdcdcdcdcdcdcd") = hx "82558a389a443c0ea4cc819899f2083a85f0faa3e578f8077a2e3ff46729665b"
  /\ hmac_spec HSha256 (hx "aaaaaaaaaaaaaaaaaaaaaaaaaaaaaaaaaaaaaaaaaaaaaaaaaaaaaaaaaaaaaaaaaaaaaaaaaaaaaaaaaaaaaaaaaaaaaaaaaaaaaaaaaaaaaaaaaaaaaaaaaaaaaaaaaaaaaaaaaaaaaaaaaaaaaaaaaaaaaaaaaaaaaaaaaaaaaaaaaaaaaaaaaaaaaaaaaaaaaaaaaaaaaaaaaaaaaaaaaaaaaaaaaaaaaaaaaaaaaaaaaaaaaaaaaaaaaaaaaaaaaa") (hx "54657374205573696e67204c6172676572205468616e20426c6f636b2d53697a65204b6579202d2048617368204b6579204669727374") = hx "60e431591ee0b67f0d8a26aacbf5b77f8e0bc6213728c5140546040f0ee37f54"
  /\ hmac_spec HSha256 (hx "aaaaaaaaaaaaaaaaaaaaaaaaaaaaaaaaaaaaaaaaaaaaaaaaaaaaaaaaaaaaaaaaaaaaaaaaaaaaaaaaaaaaaaaaaaaaaaaaaaaaaaaaaaaaaaaaaaaaaaaaaaaaaaaaaaaaaaaaaaaaaaaaaaaaaaaaaaaaaaaaaaaaaaaaaaaaaaaaaaaaaaaaaaaaaaaaaaaaaaaaaaaaaaaaaaaaaaaaaaaaaaaaaaaaaaaaaaaaaaaaaaaaaaaaaaaaaaaaaaaaaa") (hx "5468697320697320612074657374207573696e672061206c6172676572207468616e20626c6f636b2d73697a65206b657920616e642061206c6172676572207468616e20626c6f636b2d73697a6520646174612e20546865206b6579206e6565647320746f20626520686173686564206265666f7265206265696e6720757365642062792074686520484d414320616c676f726974686d2e") = hx "9b09ffa71b942fcb27635fbcd5b0e944bfdc63644f0713938a7f51535c3a35e2"
  /\ hmac_spec HSha384 (hx "0b0b0b0b0b0b0b0b0b0b0b0b0b0b0b0b0b0b0b0b") (hx "4869205468657265") = hx "afd03944d84895626b0825f4ab46907f15f9dadbe4101ec682aa034c7cebc59cfaea9ea9076ede7f4af152e8b2fa9cb6"
  /\ hmac_spec HSha384 (hx "4a656665") (hx "7768617420646f2079612077616e7420666f72206e6f7468696e673f") = hx "af45d2e376484031617f78d2b58a6b1b9c7ef464f5a01b47e42ec3736322445e8e2240ca5e69e2c78b3239ecfab21649"
  /\ hmac_spec HSha384 (hx "aaaaaaaaaaaaaaaaaaaaaaaaaaaaaaaaaaaaaaaa") (hx "dddddddddddddddddddddddddddddddddddddddddddddddddddddddddddddddddddddddddddddddddddddddddddddddddddd") = hx "88062608d3e6ad8a0aa2ace014c8a86f0aa635d947ac9febe83ef4e55966144b2a5ab39dc13814b94e3ab6e101a34f27"
  /\ hmac_spec HSha384 (hx "0102030405060708090a0b0c0d0e0f10111213141516171819") (hx "cdcdcdcdcdcdcdcdcdcdcdcdcdcdcdcdcdcdcdcdcdcdcdcdcdcdcdcdcdcdcdcdcdcdcdcdcdcdcdcdcdcdcdcdcdcdcdcdcdcd") = hx "3e8a69b7783c25851933ab6290af6ca77a9981480850009cc5577c6e1f573b4e6801dd23c4a7d679ccf8a386c674cffb"
  /\ hmac_spec HSha384 (hx "aaaaaaaaaaaaaaaaaaaaaaaaaaaaaaaaaaaaaaaaaaaaaaaaaaaaaaaaaaaaaaaaaaaaaaaaaaaaaaaaaaaaaaaaaaaaaaaaaaaaaaaaaaaaaaaaaaaaaaaaaaaaaaaaaaaaaaaaaaaaaaaaaaaaaaaaaaaaaaaaaaaaaaaaaaaaaaaaaaaaaaaaaaaaaaaaaaaaaaaaaaaaaaaaaaaaaaaaaaaaaaaaaaaaaaaaaaaaaaaaaaaaaaaaaaaaaaaaaaaaaa") (hx "54657374205573696e67204c6172676572205468616e20426c6f636b2d53697a65204b6579202d2048617368204b6579204669727374") = hx "4ece084485813e9088d2c63a041bc5b44f9ef1012a2b588f3cd11f05033ac4c60c2ef6ab4030fe8296248df163f44952"
  /\ hmac_spec HSha384 (hx "aaaaaaaaaaaaaaaaaaaaaaaaaaaaaaaaaaaaaaaaaaaaaaaaaaaaaaaaaaaaaaaaaaaaaaaaaaaaaaaaaaaaaaaaaaaaaaaaaaaaaaaaaaaaaaaaaaaaaaaaaaaaaaaaaaaaaaaaaaaaaaaaaaaaaaaaaaaaaaaaaaaaaaaaaaaaaaaaaaaaaaaaaaaaaaaaaaaaaaaaaaaaaaaaaaaaaaaaaaaaaaaaaaaaaaaaaaaaaaaaaaaaaaaaaaaaaaaaaaaaaa") (hx "5468697320697320612074657374207573696e672061206c6172676572207468616e20626c6f636b2d73697a65206b657920616e642061206c6172676572207468616e20626c6f636b2d73697a6520646174612e20546865206b6579206e6565647320746f20626520686173686564206265666f7265206265696e6720757365642062792074686520484d414320616c676f726974686d2e") = hx "6617178e941f020d351e2f254e8fd32c602420feb0b8fb9adccebb82461e99c5a678cc31e799176d3860e6110c46523e"
  /\ hmac_spec HSha512 (hx "0b0b0b0b0b0b0b0b0b0b0b0b0b0b0b0b0b0b0b0b") (hx "4869205468657265") = hx "87aa7cdea5ef619d4ff0b4241a1d6cb02379f4e2ce4ec2787ad0b30545e17cdedaa833b7d6b8a702038b274eaea3f4e4be9d914eeb61f1702e696c203a126854"
  /\ hmac_spec HSha512 (hx "4a656665") (hx "7768617420646f2079612077616e7420666f72206e6f7468696e673f") = hx "164b7a7bfcf819e2e395fbe73b56e0a387bd64222e831fd610270cd7ea2505549758bf75c05a994a6d034f65f8f0e6fdcaeab1a34d4a6b4b636e070a38bce737"
  /\ hmac_spec HSha512 (hx "aaaaaaaaaaaaaaaaaaaaaaaaaaaaaaaaaaaaaaaa") (hx "dddddddddddddddddddddddddddddddddddddddddddddddddddddddddddddddddddddddddddddddddddddddddddddddddddd") = hx "fa73b0089d56a284efb0f0756c890be9b1b5dbdd8ee81a3655f83e33b2279d39bf3e848279a722c806b485a47e67c807b946a337bee8942674278859e13292fb"
  /\ hmac_spec HSha512 (hx "0102030405060708090a0b0c0d0e0f10111213141516171819") (hx "cdcdcdcdcdcdcdcdcdcdcdcdcdcdcdcdcdcdcdcdcdcdcdcdcdcdcdcdcdcdcdcdcdcdcdcdcdcdcdcdcdcdcdcdcdcdcdcdcdcd") = hx "b0ba465637458c6990e5a8c5f61d4af7e576d97ff94b872de76f8050361ee3dba91ca5c11aa25eb4d679275cc5788063a5f19741120c4f2de2adebeb10a298dd"
  /\ hmac_spec HSha512 (hx "aaaaaaaaaaaaaaaaaaaaaaaaaaaaaaaaaaaaaaaaaaaaaaaaaaaaaaaaaaaaaaaaaaaaaaaaaaaaaaaaaaaaaaaaaaaaaaaaaaaaaaaaaaaaaaaaaaaaaaaaaaaaaaaaaaaaaaaaaaaaaaaaaaaaaaaaaaaaaaaaaaaaaaaaaaaaaaaaaaaaaaaaaaaaaaaaaaaaaaaaaaaaaaaaaaaaaaaaaaaaaaaaaaaaaaaaaaaaaaaaaaaaaaaaaaaaaaaaaaaaaa") (hx "54657374205573696e67204c6172676572205468616e20426c6f636b2d53697a65204b6579202d2048617368204b6579204669727374") = hx "80b24263c7c1a3ebb71493c1dd7be8b49b46d1f41b4aeec1121b013783f8f3526b56d037e05f2598bd0fd2215d6a1e5295e64f73f63f0aec8b915a985d786598"
  /\ hmac_spec HSha512 (hx "aaaaaaaaaaaaaaaaaaaaaaaaaaaaaaaaaaaaaaaaaaaaaaaaaaaaaaaaaaaaaaaaaaaaaaaaaaaaaaaaaaaaaaaaaaaaaaaaaaaaaaaaaaaaaaaaaaaaaaaaaaaaaaaaaaaaaaaaaaaaaaaaaaaaaaaaaaaaaaaaaaaaaaaaaaaaaaaaaaaaaaaaaaaaaaaaaaaaaaaaaaaaaaaaaaaaaaaaaaaaaaaaaaaaaaaaaaaaaaaaaaaaaaaaaaaaaaaaaaaaaa") (hx "5468697320697320612074657374207573696e672061206c6172676572207468616e20626c6f636b2d73697a65206b657920616e642061206c6172676572207468616e20626c6f636b2d73697a6520646174612e20546865206b6579206e6565647320746f20626520686173686564206265666f7265206265696e6720757365642062792074686520484d414320616c676f726974686d2e") = hx "e37b6a775dc87dbaa4dfa9f96e5e3ffddebd71f8867289865df5a32d20cdc944b6022cac3c4982b10d5eeb55c3e4de15134676fb6de0446065c97440fa8c6a58".
Proof. exact vectors_hmac. Qed.
Print Assumptions C27_vectors_hmac.

(* xxHash reference values (empty input, short texts; the documented VRL examples for "foo") *)
Theorem C27_vectors_xxhash :
  xxh32 (str "") = 0x02cc5d05
  /\ xxh64 (str "") = 0xef46db3751d8e999
  /\ xxh3_64 (str "") = 0x2d06800538d394c2
  /\ xxh3_128 (str "") = 0x99aa06d3014798d86001c324468d497f
  /\ xxh32 (str "a") = 0x550d7456
  /\ xxh64 (str "a") = 0xd24ec4f1a98c6e5b
  /\ xxh3_64 (str "a") = 0xe6c632b61e964e1f
  /\ xxh3_128 (str "a") = 0xa96faf705af16834e6c632b61e964e1f
  /\ xxh32 (str "abc") = 0x32d153ff
  /\ xxh64 (str "abc") = 0x44bc2cf5ad770999
  /\ xxh3_64 (str "abc") = 0x78af5f94892f3950
  /\ xxh3_128 (str "abc") = 0x06b05ab6733a618578af5f94892f3950
  /\ xxh32 (str "foo") = 0xe20f0dd9
  /\ xxh64 (str "foo") = 0x33bf00a859c4ba3f
  /\ xxh3_64 (str "foo") = 0xab6e5f64077e7d8a
  /\ xxh3_128 (str "foo") = 0x79aef92e83454121ab6e5f64077e7d8a
  /\ xxh32 (str "Nobody inspects the spammish repetition") = 0xe2293b2f
  /\ xxh64 (str "Nobody inspects the spammish repetition") = 0xfbcea83c8a378bf1
  /\ xxh3_64 (str "Nobody inspects the spammish repetition") = 0x6cb00603b5cc47e9
  /\ xxh3_128 (str "Nobody inspects the spammish repetition") = 0xa32c6f55b80b5f449f1a957522431b91.
Proof. exact vectors_xxhash. Qed.
Print Assumptions C27_vectors_xxhash.

(* the seahash crate's own test vectors (helper.rs diffuse vectors, reference.rs "to be or not to be") and the documented VRL example *)
Theorem C27_vectors_seahash :
  sea_diffuse 94203824938 = 17289265692384716055
  /\ sea_diffuse 0xDEADBEEF = 12110756357096144265
  /\ sea_diffuse 0 = 0
  /\ sea_diffuse 1 = 15197155197312260123
  /\ sea_diffuse 2 = 1571904453004118546
  /\ sea_diffuse 3 = 16467633989910088880
  /\ seahash (str "to be or not to be") = 1988685042348123509
  /\ seahash (str "foo") = 4413582353838009230.
Proof. exact vectors_seahash. Qed.
Print Assumptions C27_vectors_seahash.

(* ================================================================== the hypotheses are satisfiable *)
Example C27_ex_sha2 : vrl_sha2 (ALit (str "SHA-256")) (VBytes (str "abc"))
  = ROk (VBytes (str "ba7816bf8f01cfea414140de5dae2223b00361a396177a9cb410ff61f20015ad")).
Proof. vm_compute. reflexivity. Qed.
Example C27_ex_crc : vrl_crc (ADyn (VBytes (str "crc_32_iso_hdlc"))) (VBytes (str "123456789"))
  = ROk (VBytes (str "3421780262")).                      (* 0xCBF43926 *)
Proof. vm_compute. reflexivity. Qed.
Example C27_ex_hmac_long_key : 64 < blen (repeat 170 131) /\
  hmac_key sha256 64 (repeat 170 131) = sha256 (repeat 170 131) ++ zeros 32.
Proof. split; vm_compute; reflexivity. Qed.
Example C27_ex_unicode_name :      (* U+017F LATIN SMALL LETTER LONG S upper-cases to S *)
  vrl_hmac (ADyn (VBytes (hx "c5bf68612d323536"))) (VBytes []) (VBytes [])
  = vrl_hmac ADefault (VBytes []) (VBytes []).
Proof. vm_compute. reflexivity. Qed.
Example C27_ex_i64 : to_i64 (xxh3_64 (str "foo")) = (-6093828362558603894)%Z.
Proof. vm_compute. reflexivity. Qed.
