(* C15 — read-only paths are never modified.
   Model: CompileConfig::is_read_only_path / can_start_with and the two compile-time checks that
   consult it (Model/ReadOnly.v), the runtime of Model/Eval.v.

   Full statement of the property: accepted program => for every read-only path P the value at P
   after the run equals the value before (recursive: hence everything below).  It is FALSE of the
   code in three input classes (witnesses below, each confirmed on the implementation):
     KnownC15_index   : a write through an index segment that aliases or renumbers an index segment
                        of P (can_start_with compares indices syntactically);
     KnownC15_nonrec  : P not recursive and a write strictly below P (accepted by design);
     KnownC15_compact : (not refuted, not proved) compacting deletions next to P.
   Proved: the statement for recursive P when P and the written paths are field-only and deletions
   do not compact. *)
From Coq Require Import List NArith ZArith Bool String.
From VRL Require Import Base.Bytes Base.Value Base.Lit Model.ValueCrud Model.Expr Model.Eval Model.EvalInst Model.Info Model.ReadOnly
     Proofs.EvalProofs Proofs.InfoProofs Proofs.ReadOnlyProofs.
Import ListNotations.
Local Open Scope string_scope.
Local Open Scope list_scope.
Local Open Scope Z_scope.

Theorem C15_recursive_read_only_unchanged_partial :
  forall F binop (cfg : list ro_path) (es : list expr) (s : state) (r : ro_path),
  ro_accepts cfg es = true -> no_compact_del es = true ->
  In r cfg -> ro_rec r = true -> fields_only (ro_p r) = true ->
  (forall w, In w (writes es) -> fields_only (snd w) = true) ->
  get (tval (snd (run F binop es s)) (ro_pfx r)) (ro_p r) = get (tval s (ro_pfx r)) (ro_p r).
Proof. exact accepted_keeps_recursive_read_only. Qed.
Print Assumptions C15_recursive_read_only_unchanged_partial.

(* the invariant behind it, for any program (no read-only configuration involved): a location that is
   separate from every reported assignment path and every reported (non-compacting) del path keeps
   its value through the run *)
Theorem C15_separate_locations_kept :
  forall F binop (es : list expr) (s : state) (pfx : prefix) (P : path),
  (forall q, In (pfx, q) (assigns_l es) -> sep q P) ->
  (forall c q, In (Some c, (pfx, q)) (queries_l es) -> sep q P /\ c = false) ->
  get (tval (snd (run F binop es s)) pfx) P = get (tval s pfx) P.
Proof. intros F binop es s pfx P HA HQ. exact (run_keeps F binop es s pfx P HA HQ). Qed.
Print Assumptions C15_separate_locations_kept.

(* read-only .arr[1] (recursive): .arr[-1] = 9 is accepted and rewrites it *)
Example C15_negative_index_alias_refuted :
  let cfg := [mkRo PEvent [SField (hx "617272"); SIndex 1] true] in
  let prog := [EAssign (TExt PEvent [SField (hx "617272"); SIndex (-1)]) (ELit (VInt 9))] in
  let s := st0 [] (VObj [(hx "617272", VArr [VInt 0; VInt 1])]) (VObj []) in
  ro_accepts cfg prog = true /\
  get (ev (snd (run_inst prog s))) [SField (hx "617272"); SIndex 1] = Some (VInt 9) /\
  get (ev s) [SField (hx "617272"); SIndex 1] = Some (VInt 1).
Proof. vm_compute. repeat split; reflexivity. Qed.

(* read-only .a, not recursive, holding a scalar: .a.b = 1 is accepted and replaces it *)
Example C15_nonrecursive_parent_refuted :
  let cfg := [mkRo PEvent [SField (hx "61")] false] in
  let prog := [EAssign (TExt PEvent [SField (hx "61"); SField (hx "62")]) (ELit (VInt 1))] in
  let s := st0 [] (VObj [(hx "61", VInt 5)]) (VObj []) in
  ro_accepts cfg prog = true /\
  get (ev (snd (run_inst prog s))) [SField (hx "61")] = Some (VObj [(hx "62", VInt 1)]) /\
  get (ev s) [SField (hx "61")] = Some (VInt 5).
Proof. vm_compute. repeat split; reflexivity. Qed.

(* the hypotheses are satisfiable by a program that does write and delete next to the read-only path *)
Example C15_nonvacuous :
  let cfg := [mkRo PEvent [SField (hx "61"); SField (hx "62")] true] in
  let prog := [EAssign (TExt PEvent [SField (hx "61"); SField (hx "63")]) (ELit (VInt 1));
               EDelExt PEvent [SField (hx "64")] false] in
  ro_accepts cfg prog = true /\ no_compact_del prog = true /\
  forallb (fun w => fields_only (snd w)) (writes prog) = true /\
  ro_accepts cfg [EAssign (TExt PEvent [SField (hx "61")]) (ELit (VInt 1))] = false /\
  ro_accepts cfg [EDelExt PEvent [SField (hx "61"); SField (hx "62"); SField (hx "7a")] false] = false.
Proof. vm_compute. repeat split; reflexivity. Qed.
