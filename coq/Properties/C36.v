(* C36 — results are independent of the configured timezone where they should be.
   In the runtime the timezone is a read-only field of Context that only stdlib functions can read
   (ctx.timezone()); in the model it is therefore a parameter of the function semantics F only. *)
From Coq Require Import List NArith ZArith Bool String.
From VRL Require Import Base.Bytes Base.Value Base.Lit Model.ValueCrud Model.Expr Model.Eval Model.EvalInst Model.Info
     Proofs.EvalProofs Proofs.ExtProofs.
Import ListNotations.
Local Open Scope string_scope.
Local Open Scope list_scope.
Local Open Scope Z_scope.

(* If every function a program calls returns the same result under two timezones (for all arguments),
   then the whole run - result, event, metadata, variables, Target operations - is identical under
   both: the timezone can influence a program only through calls that are sensitive to it. *)
Theorem C36_timezone_reaches_programs_only_through_sensitive_calls :
  forall (TZ : Type) (Ftz : TZ -> fname -> list value -> option value) binop (es : list expr) (tz1 tz2 : TZ),
  (forall f, In f (fnames_l es) -> forall args, Ftz tz1 f args = Ftz tz2 f args) ->
  forall s, run (Ftz tz1) binop es s = run (Ftz tz2) binop es s.
Proof. intros TZ Ftz binop es tz1 tz2 H s. apply run_ext. exact H. Qed.
Print Assumptions C36_timezone_reaches_programs_only_through_sensitive_calls.

Theorem C36_expression_level :
  forall (TZ : Type) (Ftz : TZ -> fname -> list value -> option value) binop (e : expr) (tz1 tz2 : TZ),
  (forall f, In f (fnames e) -> forall args, Ftz tz1 f args = Ftz tz2 f args) ->
  forall s, eval (Ftz tz1) binop e s = eval (Ftz tz2) binop e s.
Proof. intros TZ Ftz binop e tz1 tz2 H s. apply eval_ext. exact H. Qed.
Print Assumptions C36_expression_level.

(* a program that calls no function at all cannot depend on the timezone, whatever Ftz is *)
Theorem C36_call_free_programs :
  forall (TZ : Type) (Ftz : TZ -> fname -> list value -> option value) binop es tz1 tz2,
  fnames_l es = [] -> forall s, run (Ftz tz1) binop es s = run (Ftz tz2) binop es s.
Proof. intros TZ Ftz binop es tz1 tz2 H s. apply run_ext. rewrite H. intros f []. Qed.
Print Assumptions C36_call_free_programs.

Example C36_example :
  fnames_l [EAssign (TVar (hx "78") []) (ECall (nm "int") [EQExt PEvent [SField (hx "61")]]);
            EIf [ECall (nm "is_null") [EVar (hx "78")]] [ELit (VInt 1)] None]
  = [nm "int"; nm "is_null"].
Proof. vm_compute. reflexivity. Qed.
