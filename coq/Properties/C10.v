(* C10 - Comparisons are consistent; integer equality is exact.
   Model: Model/Arith.v (src/compiler/value/arithmetic.rs eq_lossy, try_gt/ge/lt/le; src/compiler/expression/op.rs
   Op::resolve).  Nothing but statements here.  `cmp_consistent x y` (Model/Arith.v) says: all six operators answer
   with a boolean, exactly one of <, ==, > is true, != is the negation of ==, <= is (< or ==), >= is (> or ==). *)
From Coq Require Import List NArith ZArith Bool String.
From Coq Require Import Floats.SpecFloat.
From VRL Require Import Base.Bytes Base.Value Base.Lit Model.Arith Proofs.ArithProofs Proofs.ArithFloatProofs.
Import ListNotations.
Local Open Scope string_scope.
Local Open Scope list_scope.
Local Open Scope Z_scope.

(* `!=` is the negation of `==` for every pair of values of any kinds *)
Theorem C10_ne_is_not_eq : forall x y : value,
  exists b : bool, binop OEq x y = Ok (VBool b) /\ binop ONe x y = Ok (VBool (negb b)).
Proof. exact ne_is_not_eq. Qed.
Print Assumptions C10_ne_is_not_eq.

(* integers: <, >, <=, >= are the exact comparisons of the two 64-bit integers, for ALL pairs (they do not go
   through f64) *)
Theorem C10_int_order : forall a b : Z,
  binop OLt (VInt a) (VInt b) = Ok (VBool (a <? b)) /\ binop OGt (VInt a) (VInt b) = Ok (VBool (b <? a))
  /\ binop OLe (VInt a) (VInt b) = Ok (VBool (a <=? b)) /\ binop OGe (VInt a) (VInt b) = Ok (VBool (b <=? a)).
Proof. exact int_order. Qed.
Print Assumptions C10_int_order.

(* equality of two integers is exact 64-bit equality, for ALL pairs (repaired in /repo by 7355ec6; before that
   eq_lossy converted both integers to f64 and this statement was false, finding C10-int-eq-lossy) *)
Theorem C10_int_eq_exact : forall a b : Z, eq_lossy (VInt a) (VInt b) = (a =? b).
Proof. exact int_eq_exact. Qed.
Print Assumptions C10_int_eq_exact.

(* ... and the six operators are consistent, for ALL pairs *)
Theorem C10_int_trichotomy : forall a b : Z, cmp_consistent (VInt a) (VInt b).
Proof. exact int_consistent. Qed.
Print Assumptions C10_int_trichotomy.

(* the witness of the former finding: 2^53 + 1 and 2^53 have the same conversion to f64 (known_int_eq), yet compare
   unequal, `>` and nothing else; the integer still `==` the float 2^53 (mixed equality converts) *)
Theorem C10_int_eq_former_witness :
  let a := 9007199254740993 in let b := 9007199254740992 in
  in_i64 a /\ in_i64 b /\ known_int_eq a b = true
  /\ binop OEq (VInt a) (VInt b) = Ok (VBool false) /\ binop ONe (VInt a) (VInt b) = Ok (VBool true)
  /\ binop OGt (VInt a) (VInt b) = Ok (VBool true) /\ binop OLt (VInt a) (VInt b) = Ok (VBool false)
  /\ binop OEq (VInt a) (VFloat (of_i64 b)) = Ok (VBool true).
Proof. exact int_eq_former_witness. Qed.
Print Assumptions C10_int_eq_former_witness.

(* for integers of magnitude at most 2^53 `as f64` is exact: no two of them have the same conversion, and integer ==
   coincides with == of the converted floats (so integer and mixed equality agree there).  Uses the real-number
   semantics of binary64 (Flocq) and therefore depends on the axioms of Coq's classical reals; see
   Proofs/ArithFloatProofs.v *)
Theorem C10_int_eq_exact_small : forall a b : Z,
  Z.abs a <= 2 ^ 53 -> Z.abs b <= 2 ^ 53 ->
  known_int_eq a b = false /\ eq_lossy (VInt a) (VInt b) = eq_lossy (VFloat (of_i64 a)) (VFloat (of_i64 b)).
Proof. exact int_eq_exact_small. Qed.
Print Assumptions C10_int_eq_exact_small.

(* floats: all pairs of non-NaN floats (a Value never holds NaN), infinities and both zeros included *)
Theorem C10_float_trichotomy : forall f g : spec_float,
  f_is_nan f = false -> f_is_nan g = false -> cmp_consistent (VFloat f) (VFloat g).
Proof. exact float_consistent. Qed.
Print Assumptions C10_float_trichotomy.

(* float `==` holds exactly for identical floats and for the two zeros (so +0 == -0, and then neither < nor >) *)
Theorem C10_float_eq_iff : forall f g : spec_float,
  f_is_nan f = false -> f_is_nan g = false ->
  (eq_lossy (VFloat f) (VFloat g) = true <-> f = g \/ (f_is_zero f = true /\ f_is_zero g = true)).
Proof. exact f_eq_iff. Qed.
Print Assumptions C10_float_eq_iff.

(* strings: bytewise lexicographic order; == is identity of the byte strings *)
Theorem C10_bytes_trichotomy : forall s t : bytes,
  cmp_consistent (VBytes s) (VBytes t)
  /\ binop OEq (VBytes s) (VBytes t) = Ok (VBool (bytes_eqb s t))
  /\ binop OLt (VBytes s) (VBytes t) = Ok (VBool (bytes_ltb s t))
  /\ binop OGt (VBytes s) (VBytes t) = Ok (VBool (bytes_ltb t s)).
Proof. intros s t. split; [apply bytes_consistent | apply bytes_order]. Qed.
Print Assumptions C10_bytes_trichotomy.

(* timestamps: order of the instants *)
Theorem C10_ts_trichotomy : forall s t : Z,
  cmp_consistent (VTs s) (VTs t)
  /\ binop OEq (VTs s) (VTs t) = Ok (VBool (s =? t))
  /\ binop OLt (VTs s) (VTs t) = Ok (VBool (s <? t))
  /\ binop OGt (VTs s) (VTs t) = Ok (VBool (t <? s)).
Proof. intros s t. split; [apply ts_consistent | apply ts_order]. Qed.
Print Assumptions C10_ts_trichotomy.

(* mixed integer/float, both orders: consistent, and == is the float equality on the converted integer *)
Theorem C10_mixed_trichotomy : forall (a : Z) (f : spec_float),
  f_is_nan f = false -> cmp_consistent (VInt a) (VFloat f) /\ cmp_consistent (VFloat f) (VInt a).
Proof. intros a f H. split; [apply mixed_consistent_l | apply mixed_consistent_r]; exact H. Qed.
Print Assumptions C10_mixed_trichotomy.

Theorem C10_mixed_eq : forall (a : Z) (f : spec_float),
  eq_lossy (VInt a) (VFloat f) = f_eq (of_i64 a) f /\ eq_lossy (VFloat f) (VInt a) = f_eq f (of_i64 a)
  /\ eq_lossy (VInt a) (VFloat f) = eq_lossy (VFloat (of_i64 a)) (VFloat f)
  /\ eq_lossy (VFloat f) (VInt a) = eq_lossy (VFloat f) (VFloat (of_i64 a)).
Proof. exact mixed_eq. Qed.
Print Assumptions C10_mixed_eq.

(* equality of anything that is not a number (strings, booleans, null, timestamps, regexes, arrays, objects at any
   depth) is structural equality, the two float zeros being identified; integers nested inside are compared exactly *)
Theorem C10_struct_eq : forall v w : value,
  is_number v = false -> no_nan v = true -> eq_lossy v w = value_eqb (norm_zero v) (norm_zero w).
Proof. exact struct_eq. Qed.
Print Assumptions C10_struct_eq.

Theorem C10_struct_eq_plain : forall v w : value,
  is_number v = false -> no_nan v = true -> no_float_zero v = true -> no_float_zero w = true ->
  eq_lossy v w = value_eqb v w.
Proof. exact struct_eq_plain. Qed.
Print Assumptions C10_struct_eq_plain.

(* a number is never equal to a non-number; no order exists outside one comparable kind *)
Theorem C10_kinds_apart : forall v w : value,
  (is_number v = true -> is_number w = false -> eq_lossy v w = false /\ eq_lossy w v = false)
  /\ (orderable v w = false -> forall o, try_cmp o v w = Err EType).
Proof. intros v w. split; [apply number_ne_other | intros H o; apply not_orderable; exact H]. Qed.
Print Assumptions C10_kinds_apart.

(* non-vacuity: the hypotheses are met by concrete non-trivial operands, and the known class is not everything *)
Example C10_nonvacuous :
  known_int_eq 9007199254740992 9007199254740991 = false
  /\ known_int_eq 9223372036854775807 (-9223372036854775808) = false
  /\ known_int_eq 9007199254740993 9007199254740992 = true
  /\ known_int_eq 5 5 = false
  /\ f_is_nan (f64_of_bits 0x7ff0000000000000) = false /\ f_is_nan (f64_of_bits 0x8000000000000000) = false
  /\ eq_lossy (VFloat (f64_of_bits 0)) (VFloat (f64_of_bits 0x8000000000000000)) = true
  /\ (let v := VArr [VFloat (f64_of_bits 0); VObj [(hx "61", VInt 9007199254740993)]] in
      let w := VArr [VFloat (f64_of_bits 0x8000000000000000); VObj [(hx "61", VInt 9007199254740993)]] in
      let u := VArr [VFloat (f64_of_bits 0); VObj [(hx "61", VInt 9007199254740992)]] in
      is_number v = false /\ no_nan v = true /\ eq_lossy v w = true /\ value_eqb v w = false /\ eq_lossy v u = false)
  /\ orderable (VBytes (hx "61")) (VInt 1) = false.
Proof. vm_compute. repeat split; reflexivity. Qed.
