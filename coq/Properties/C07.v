(* C07 — `abort` terminates the program and cannot be intercepted. *)
From Coq Require Import List NArith ZArith Bool String.
From VRL Require Import Base.Bytes Base.Value Base.Lit Model.ValueCrud Model.Expr Model.Eval Model.EvalInst Proofs.EvalProofs.
Import ListNotations.
Local Open Scope string_scope.
Local Open Scope list_scope.
Local Open Scope Z_scope.

Theorem C07_abort_ends_program :
  forall F binop (pre : list expr) (C : ctx) (post : list expr) (m : option expr) (s s0 s1 : state)
         (msg : option bytes) (s2 : state),
  root_ok s -> seq F binop pre (rooted s) = Some s0 -> reach F binop C s0 = Some s1 ->
  match m with
  | None => msg = None /\ s2 = s1
  | Some me => exists b, eval F binop me s1 = (inl (VBytes b), s2) /\ msg = Some b
  end ->
  run F binop (pre ++ plug C (EAbort m) :: post) s = (Aborted msg, s2).
Proof. exact abort_ends_program. Qed.
Print Assumptions C07_abort_ends_program.

(* error coalescing, infallible assignment and every other context let the Abort outcome through *)
Theorem C07_abort_crosses_every_context :
  forall F binop (C : ctx) (x : expr) (s s1 : state) (msg : option bytes) (s2 : state),
  reach F binop C s = Some s1 -> eval F binop x s1 = (inr (Abort msg), s2) ->
  eval F binop (plug C x) s = (inr (Abort msg), s2).
Proof. intros. eapply ctl_propagates; eauto. Qed.
Print Assumptions C07_abort_crosses_every_context.

(* closures do not catch it: the iteration in which the body aborts yields Abort (parameters restored)… *)
Theorem C07_abort_in_iteration_one_param :
  forall (body : state -> res * state) p a s old s1 msg s2,
  bind_param s p a = (old, s1) -> body s1 = (inr (Abort msg), s2) ->
  run1 body p a s = (inr (Abort msg), cleanup_param s2 p old).
Proof. exact abort_in_iteration1. Qed.
Print Assumptions C07_abort_in_iteration_one_param.

Theorem C07_abort_in_iteration_two_params :
  forall (body : state -> res * state) p0 p1 a b s old0 sa old1 s1 msg s2,
  bind_param s p0 a = (old0, sa) -> bind_param sa p1 b = (old1, s1) ->
  body s1 = (inr (Abort msg), s2) ->
  run2 body p0 p1 a b s = (inr (Abort msg), cleanup_param (cleanup_param s2 p0 old0) p1 old1).
Proof. exact abort_in_iteration2. Qed.
Print Assumptions C07_abort_in_iteration_two_params.

(* …and the iteration loop of every closure-taking function stops at the first failing iteration
   with that failure: no later iteration runs *)
Theorem C07_loop_stops_at_first_failure :
  forall (A B : Type) (step : A -> state -> (B + err) * state) pre a post s bs s1 e s2,
  loop step pre s = (inl bs, s1) -> step a s1 = (inr e, s2) ->
  loop step (pre ++ a :: post) s = (inr e, s2).
Proof. intros A B step pre. exact (loop_first_failure step pre). Qed.
Print Assumptions C07_loop_stops_at_first_failure.

Example C07_example :
  let s := st0 [] (VObj [(hx "61", VInt 1)]) (VObj []) in
  run_core
    [EAssignInf (TVar (hx "78") []) (TVar (hx "65") [])
       (EBlock [EOp OErr (EBlock [EAbort (Some (ELit (VBytes (hx "6d"))))]) (ELit (VInt 3))]) (VInt 0);
     EAssign (TExt PEvent [SField (hx "7a")]) (ELit (VInt 1))] s
  = (Aborted (Some (hx "6d")), [], VObj [(hx "61", VInt 1)], VObj []).
Proof. vm_compute. reflexivity. Qed.
