(* C16 — reported target queries and assignments are complete.
   queries / assigns (Model/Info.v) model Compiler::compile_query / compile_assignment
   (= Program::info().target_queries / target_assignments, compared as sets with the
   implementation on every run); tlog is the log of Target operations the run performs. *)
From Coq Require Import List NArith ZArith Bool String.
From VRL Require Import Base.Bytes Base.Value Base.Lit Model.ValueCrud Model.Expr Model.Eval Model.EvalInst Model.Info
     Proofs.EvalProofs Proofs.InfoProofs Proofs.FaultProofs.
Import ListNotations.
Local Open Scope string_scope.
Local Open Scope list_scope.
Local Open Scope Z_scope.

(* Every Target read or removal the run of a program performs is at a reported query path, every
   Target write at a reported assignment path (equal paths, hence covered) - for every function and
   operator semantics, state, and fault schedule.  Removal through del is classed with reads: its
   argument is compiled as a query and ProgramInfo has no separate record of deletions. *)
Theorem C16_operations_reported :
  forall F binop (es : list expr) (s : state),
  exists new, tlog (snd (run F binop es s)) = new ++ tlog s /\
              Forall (logged_ok (queries_l es) (assigns_l es)) new.
Proof. exact run_within. Qed.
Print Assumptions C16_operations_reported.

Theorem C16_expression_operations_reported :
  forall F binop (e : expr) (s : state),
  exists new, tlog (snd (eval F binop e s)) = new ++ tlog s /\
              Forall (logged_ok (queries e) (assigns e)) new.
Proof. exact eval_within. Qed.
Print Assumptions C16_expression_operations_reported.

Example C16_example :
  let prog := [EAssign (TExt PEvent [SField (hx "61")]) (EQExt PEvent [SField (hx "62"); SIndex 0]);
               EIf [EExistsExt PMeta [SField (hx "6d")]] [EDelExt PEvent [SField (hx "63")] true] None] in
  query_paths prog = [(PEvent, [SField (hx "62"); SIndex 0]); (PMeta, [SField (hx "6d")]); (PEvent, [SField (hx "63")])]
  /\ assigns_l prog = [(PEvent, [SField (hx "61")])]
  /\ rev (tlog (snd (run_inst prog (st0 [] (VObj []) (VObj [(hx "6d", VInt 1)]))))) =
      [TGet PEvent [SField (hx "62"); SIndex 0]; TIns PEvent [SField (hx "61")]; TGet PMeta [SField (hx "6d")];
       TRem PEvent [SField (hx "63")] true].
Proof. vm_compute. repeat split; reflexivity. Qed.
