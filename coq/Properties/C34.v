(* C34 — Unused-expression warnings only flag removable code.
   Models: Model/Unused.v (the AstVisitor of src/compiler/unused_expression_checker.rs over a
   parser-level AST, its elaboration into Core VRL, statement deletion), Model/Eval.v (the runtime).
   Nothing but statements here.

   The property as written is FALSE for the pinned checker (C34_*_refuted below, known_findings/C34.json):
   the visitor never looks for effects in the children of what it flags, flags `f!(..)` calls that sit
   under an error-catching `??`, forgets that a value is expected after it has visited a closure, and treats
   the left operand of `||` / `&&` / `??` as unused although its value decides whether the right operand runs.
   What holds, and is proved for every program, state and stdlib semantics F:
     - a flagged expression is a literal, an object, or a closure-free call of a function outside
       SIDE_EFFECT_FUNCTIONS (C34_flagged_shape);
     - syntactically effect-free expressions leave variables, event and metadata alone
       (C34_effect_free_pure);
     - a flagged root statement whose children are effect-free and cannot fail is removable
       (C34_removable_root_partial; fallible children: C34_removable_fallible_root_partial);
     - the same at every flagged position, blocks at any depth included (C34_removable_partial);
     - any set of effect-free infallible non-last statements, in blocks at any depth, can be deleted
       together (C34_removable_nested_partial).
   `faults s = []`: the Target rejects no operation (fault injection is C17's subject). *)
From Coq Require Import List NArith ZArith Bool String.
From VRL Require Import Base.Bytes Base.Value Base.Lit Model.ValueCrud Model.Expr Model.Eval Model.EvalInst Model.Unused
     Proofs.UnusedEvalProofs Proofs.UnusedProofs.
Import ListNotations.
Local Open Scope list_scope.

(* every expression warning points at a literal / object / plain call sitting at the reported position *)
Theorem C34_flagged_shape : forall (p : list pexpr) (q : pos) (c : wcls),
  In (q, c) (check_program p) -> exists x, psub p q = Some x /\ shape_ok c x = true.
Proof. exact flagged_shape. Qed.
Print Assumptions C34_flagged_shape.

(* purity: an effect-free expression changes nothing but the Target log and yields a value or a plain
   error; if it is moreover `total` (only functions that cannot fail on that many arguments) it yields a value *)
Theorem C34_effect_free_pure :
  forall (F : fname -> list value -> option value) (binop : opcode -> value -> value -> option value)
         (tf : fname -> nat -> bool),
    (forall f args, tf f (List.length args) = true -> F f args <> None) ->
    forall (e : pexpr) (s : state), faults s = [] ->
      (eff_free e = true ->
         core (snd (eval F binop (elab e) s)) = core s
         /\ match fst (eval F binop (elab e) s) with inl _ | inr Error => True | inr _ => False end)
      /\ (total tf e = true ->
         core (snd (eval F binop (elab e) s)) = core s
         /\ exists v, fst (eval F binop (elab e) s) = inl v).
Proof.
  intros F binop tf Htf e s Hs. destruct (pure_eval F binop tf Htf e) as [A B]. split; intros H.
  - destruct (A H s Hs) as [[Hc _] Hok]. split; [symmetry; exact Hc|].
    destruct (fst (eval F binop (elab e) s)) as [v|[ | | | ]]; cbn in *; auto.
  - destruct (B H s Hs) as [[Hc _] Hok]. split; [symmetry; exact Hc|].
    destruct (fst (eval F binop (elab e) s)) as [v|[ | | | ]]; cbn in *; try contradiction; try discriminate.
    exists v; reflexivity.
Qed.
Print Assumptions C34_effect_free_pure.

(* Full statement (false, see the refutations):
     forall p q c, In (q, c) (check_program p) -> cannot_fail (psub p q) ->
       forall s, run (delete q p) s and run p s agree on success, event and metadata.
   Proved part: q is a non-last root statement and the flagged expression's children are `total`. *)
Theorem C34_removable_root_partial :
  forall (F : fname -> list value -> option value) (binop : opcode -> value -> value -> option value)
         (tf : fname -> nat -> bool),
    (forall f args, tf f (List.length args) = true -> F f args <> None) ->
    forall (pre : list pexpr) (x : pexpr) (post : list pexpr) (c : wcls),
      post <> [] ->
      In ([List.length pre], c) (check_program (pre ++ x :: post)) ->
      kids_total tf x = true ->
      forall s, faults s = [] ->
        fst (run F binop (elab_prog (pre ++ x :: post)) s) = fst (run F binop (elab_prog (pre ++ post)) s)
        /\ core (snd (run F binop (elab_prog (pre ++ x :: post)) s))
           = core (snd (run F binop (elab_prog (pre ++ post)) s)).
Proof. intros F binop tf Htf. exact (removable_root F binop tf Htf). Qed.
Print Assumptions C34_removable_root_partial.

(* the flagged expression may fail (its children are only effect-free): a successful run stays the same run *)
Theorem C34_removable_fallible_root_partial :
  forall (F : fname -> list value -> option value) (binop : opcode -> value -> value -> option value)
         (pre : list pexpr) (x : pexpr) (post : list pexpr) (c : wcls),
      post <> [] ->
      In ([List.length pre], c) (check_program (pre ++ x :: post)) ->
      kids_eff_free x = true ->
      forall s v, faults s = [] ->
        fst (run F binop (elab_prog (pre ++ x :: post)) s) = Success v ->
        fst (run F binop (elab_prog (pre ++ post)) s) = Success v
        /\ core (snd (run F binop (elab_prog (pre ++ x :: post)) s))
           = core (snd (run F binop (elab_prog (pre ++ post)) s)).
Proof.
  intros F binop. apply (removable_root_fallible F binop (fun _ _ => false)). discriminate.
Qed.
Print Assumptions C34_removable_fallible_root_partial.

(* statements inside blocks, if/else blocks and closure bodies, at any depth: deleting every selected
   non-last statement, provided each of them is effect-free and cannot fail (sel_ok_prog checks exactly
   that), does not change the run *)
Theorem C34_removable_nested_partial :
  forall (F : fname -> list value -> option value) (binop : opcode -> value -> value -> option value)
         (tf : fname -> nat -> bool),
    (forall f args, tf f (List.length args) = true -> F f args <> None) ->
    forall (sel : pos -> bool) (p : list pexpr),
      sel_ok_prog (total tf) sel p = true ->
      forall s, faults s = [] ->
        fst (run F binop (elab_prog p) s) = fst (run F binop (elab_prog (pdel_prog sel p)) s)
        /\ core (snd (run F binop (elab_prog p) s)) = core (snd (run F binop (elab_prog (pdel_prog sel p)) s)).
Proof. intros F binop tf Htf. exact (pdel_run F binop tf Htf). Qed.
Print Assumptions C34_removable_nested_partial.

(* The property's main clause, for EVERY flagged position q (root, blocks, if/else blocks, closure bodies, at any
   depth) - full statement: without the hypothesis on the children (false, see the refutations).
   delete_at q p removes the statement at q when q is a non-last statement of a statement list and is the identity
   otherwise (operands, array elements, last statements: covered by the oracle only). *)
Theorem C34_removable_partial :
  forall (F : fname -> list value -> option value) (binop : opcode -> value -> value -> option value)
         (tf : fname -> nat -> bool),
    (forall f args, tf f (List.length args) = true -> F f args <> None) ->
    forall (p : list pexpr) (q : pos) (c : wcls) (x : pexpr),
      In (q, c) (check_program p) -> psub p q = Some x -> kids_total tf x = true ->
      forall s, faults s = [] ->
        fst (run F binop (elab_prog p) s) = fst (run F binop (elab_prog (delete_at q p)) s)
        /\ core (snd (run F binop (elab_prog p) s)) = core (snd (run F binop (elab_prog (delete_at q p)) s)).
Proof. intros F binop tf Htf. exact (removable_at F binop tf Htf). Qed.
Print Assumptions C34_removable_partial.

(* ---------- the unrestricted property is false ---------- *)

Local Open Scope string_scope.
Definition fld (s : string) : path := [SField (bs s)].

(* D10.  `{ "a": del(.foo) }` as a statement is reported "unused object ... no side-effects";
   deleting it changes the final event. *)
Theorem C34_object_refuted :
  exists (p : list pexpr) (s : state),
    In ([0], WObj) (check_program p) /\ faults s = [] /\ delete_at [0] p = tl p /\ tl p <> [] /\
    fst (run_inst (elab_prog p) s) = fst (run_inst (elab_prog (delete_at [0] p)) s) /\
    ev (snd (run_inst (elab_prog p) s)) <> ev (snd (run_inst (elab_prog (delete_at [0] p)) s)).
Proof.
  exists [PObj [(bs "a", PDelExt PEvent (fld "foo"))]; PAssign (TExt PEvent (fld "r")) (PLit (VInt 1))],
         (st0 [] (VObj [(bs "foo", VInt 1)]) (VObj [])).
  vm_compute. repeat split; auto; discriminate.
Qed.
Print Assumptions C34_object_refuted.

(* `is_null((.x = 1))` is reported "unused result for function call"; deleting it loses the assignment *)
Theorem C34_call_arg_refuted :
  exists (p : list pexpr) (s : state),
    In ([0], WCall) (check_program p) /\ faults s = [] /\ delete_at [0] p = tl p /\ tl p <> [] /\
    fst (run_inst (elab_prog p) s) = fst (run_inst (elab_prog (delete_at [0] p)) s) /\
    ev (snd (run_inst (elab_prog p) s)) <> ev (snd (run_inst (elab_prog (delete_at [0] p)) s)).
Proof.
  exists [PCall (bs "is_null") false [PGroup (PAssign (TExt PEvent (fld "x")) (PLit (VInt 1)))]; PLit (VInt 9)],
         (st0 [] (VObj []) (VObj [])).
  vm_compute. repeat split; auto; discriminate.
Qed.
Print Assumptions C34_call_arg_refuted.

(* `.r = { int!(.x); int(.z) } ?? 1`: the call `int!(.x)` (children effect-free) is reported unused, it can fail,
   and both the original and the edited program succeed - with different final events *)
Theorem C34_coalesce_refuted :
  exists (p : list pexpr) (q : pos) (s : state) (v v' : value),
    In (q, WCall) (check_program p) /\ faults s = [] /\
    (exists x, psub p q = Some x /\ kids_eff_free x = true) /\
    fst (run_inst (elab_prog p) s) = Success v /\
    fst (run_inst (elab_prog (delete_at q p)) s) = Success v' /\
    ev (snd (run_inst (elab_prog p) s)) <> ev (snd (run_inst (elab_prog (delete_at q p)) s)).
Proof.
  exists [PAssign (TExt PEvent (fld "r"))
            (POp OErr (PBlock [PCall (bs "int") true [PQExt PEvent (fld "x")];
                               PCall (bs "int") false [PQExt PEvent (fld "z")]]) (PLit (VInt 1)));
          PQExt PEvent []],
         [0; 0; 0; 0]%nat, (st0 [] (VObj [(bs "x", VBytes (bs "a")); (bs "z", VInt 5)]) (VObj [])).
  eexists. eexists. vm_compute. repeat split; auto.
  - eexists. split; reflexivity.
  - discriminate.
Qed.
Print Assumptions C34_coalesce_refuted.

(* `.q = [for_each({ "a": 1 }) -> |_, _| { 1 }, 5]`: after the closure the visitor marks the level as not
   expecting a result, so the literal 5 - an element of the array that is assigned - is reported unused;
   without it the final event differs *)
Theorem C34_closure_stale_refuted :
  exists (t : target) (c : pexpr) (s : state),
    In ([0; 0; 1]%nat, WLit) (check_program [PAssign t (PArr [c; PLit (VInt 5)])]) /\ faults s = [] /\
    fst (run_inst (elab_prog [PAssign t (PArr [c; PLit (VInt 5)])]) s) <> Failed /\
    ev (snd (run_inst (elab_prog [PAssign t (PArr [c; PLit (VInt 5)])]) s))
    <> ev (snd (run_inst (elab_prog [PAssign t (PArr [c])]) s)).
Proof.
  exists (TExt PEvent (fld "q")),
         (PClosure CForEach false (PObj [(bs "a", PLit (VInt 1))]) [[]; []] [PLit (VInt 1)]),
         (st0 [] (VObj []) (VObj [])).
  vm_compute. repeat split; auto; discriminate.
Qed.
Print Assumptions C34_closure_stale_refuted.

(* `{ .a; null } || { .x = 1 }` as a statement: the literal null - the value of the left operand of `||` - is reported
   unused; with it the right operand runs, without it (the block is then `{ .a }`) it does not *)
Theorem C34_short_circuit_refuted :
  exists (a : pexpr) (rhs : pexpr) (s : state),
    In ([0; 0; 1]%nat, WLit) (check_program [POp OOr (PBlock [a; PLit VNull]) rhs; PLit (VInt 9)]) /\ faults s = [] /\
    fst (run_inst (elab_prog [POp OOr (PBlock [a; PLit VNull]) rhs; PLit (VInt 9)]) s)
    = fst (run_inst (elab_prog [POp OOr (PBlock [a]) rhs; PLit (VInt 9)]) s) /\
    ev (snd (run_inst (elab_prog [POp OOr (PBlock [a; PLit VNull]) rhs; PLit (VInt 9)]) s))
    <> ev (snd (run_inst (elab_prog [POp OOr (PBlock [a]) rhs; PLit (VInt 9)]) s)).
Proof.
  exists (PQExt PEvent (fld "a")), (PBlock [PAssign (TExt PEvent (fld "x")) (PLit (VInt 1))]),
         (st0 [] (VObj [(bs "a", VBool true)]) (VObj [])).
  vm_compute. repeat split; auto; discriminate.
Qed.
Print Assumptions C34_short_circuit_refuted.

(* ---------- the hypotheses are satisfiable ---------- *)

(* is_null / is_string with one argument never fail in the executable instance *)
Definition tf_inst (f : fname) (n : nat) : bool :=
  Nat.eqb n 1 && (bytes_eqb f (bs "is_null") || bytes_eqb f (bs "is_string")).

Lemma tf_inst_total : forall f args, tf_inst f (List.length args) = true -> F_inst f args <> None.
Proof.
  intros f args H. unfold tf_inst in H. apply andb_true_iff in H. destruct H as [Hn Hf].
  destruct args as [|v [|w r]]; try discriminate.
  apply orb_true_iff in Hf. destruct Hf as [Hf|Hf]; apply bytes_eqb_eq in Hf; subst f; vm_compute; discriminate.
Qed.

(* "foo" ; is_null(.a) ; { "k": .b } ; .r = { "x"; 1 } ; .   -- three flagged root statements and a nested one *)
Definition ex_prog : list pexpr :=
  [PLit (VBytes (bs "foo"));
   PCall (bs "is_null") false [PQExt PEvent (fld "a")];
   PObj [(bs "k", PQExt PEvent (fld "b"))];
   PAssign (TExt PEvent (fld "r")) (PBlock [PLit (VBytes (bs "x")); PLit (VInt 1)]);
   PQExt PEvent []].

Example C34_example :
  check_program ex_prog = [([0], WLit); ([1], WCall); ([2], WObj); ([3; 0; 0], WLit)]%nat
  /\ (forall f args, tf_inst f (List.length args) = true -> F_inst f args <> None)
  /\ kids_total tf_inst (PCall (bs "is_null") false [PQExt PEvent (fld "a")]) = true
  /\ kids_total tf_inst (PObj [(bs "k", PQExt PEvent (fld "b"))]) = true
  /\ sel_ok_prog (total tf_inst) (pos_eqb [3; 0; 0]%nat) ex_prog = true
  /\ delete_at [3; 0; 0]%nat ex_prog =
     [PLit (VBytes (bs "foo")); PCall (bs "is_null") false [PQExt PEvent (fld "a")];
      PObj [(bs "k", PQExt PEvent (fld "b"))];
      PAssign (TExt PEvent (fld "r")) (PBlock [PLit (VInt 1)]); PQExt PEvent []]
  /\ kids_total tf_inst (PObj [(bs "a", PDelExt PEvent (fld "foo"))]) = false.
Proof. split; [vm_compute; reflexivity|]. split; [exact tf_inst_total|]. vm_compute. repeat split; reflexivity. Qed.
