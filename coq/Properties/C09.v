(* C09 — short-circuit and conditional evaluation are exact. *)
From Coq Require Import List NArith ZArith Bool String.
From VRL Require Import Base.Bytes Base.Value Base.Lit Model.ValueCrud Model.Expr Model.Eval Model.EvalInst Proofs.EvalProofs.
Import ListNotations.
Local Open Scope string_scope.
Local Open Scope list_scope.
Local Open Scope Z_scope.

Theorem C09_or :
  forall F binop a b s,
  eval F binop (EOp OOr a b) s =
  match eval F binop a s with
  | (inl v, s') => if falsy v then eval F binop b s' else (inl v, s')
  | (inr er, s') => (inr er, s')
  end.
Proof. exact eval_or. Qed.
Print Assumptions C09_or.

(* a truthy: yields a, b not evaluated (state unchanged after a) *)
Theorem C09_or_skips_rhs :
  forall F binop a b s v s', eval F binop a s = (inl v, s') -> falsy v = false ->
  eval F binop (EOp OOr a b) s = (inl v, s').
Proof. exact or_truthy. Qed.
Print Assumptions C09_or_skips_rhs.

Theorem C09_or_yields_rhs :
  forall F binop a b s v s', eval F binop a s = (inl v, s') -> falsy v = true ->
  eval F binop (EOp OOr a b) s = eval F binop b s'.
Proof. exact or_falsy. Qed.
Print Assumptions C09_or_yields_rhs.

Theorem C09_and :
  forall F binop a b s,
  eval F binop (EOp OAnd a b) s =
  match eval F binop a s with
  | (inl v, s') =>
      if falsy v then (inl (VBool false), s')
      else match eval F binop b s' with
           | (inl w, s'') => (match try_and v w with Some r => inl r | None => inr Error end, s'')
           | (inr er, s'') => (inr er, s'')
           end
  | (inr er, s') => (inr er, s')
  end.
Proof. exact eval_and. Qed.
Print Assumptions C09_and.

Theorem C09_and_skips_rhs :
  forall F binop a b s v s', eval F binop a s = (inl v, s') -> falsy v = true ->
  eval F binop (EOp OAnd a b) s = (inl (VBool false), s').
Proof. exact and_falsy. Qed.
Print Assumptions C09_and_skips_rhs.

Theorem C09_and_conjunction :
  forall F binop a b s s' w s'',
  eval F binop a s = (inl (VBool true), s') -> eval F binop b s' = (inl w, s'') ->
  eval F binop (EOp OAnd a b) s =
  (match w with VBool y => inl (VBool y) | VNull => inl (VBool false) | _ => inr Error end, s'').
Proof. exact and_true. Qed.
Print Assumptions C09_and_conjunction.

(* if: exactly one branch, chosen by the boolean predicate; null for a missing else *)
Theorem C09_if :
  forall F binop c t f s,
  eval F binop (EIf c t f) s =
  match blk F binop c s with
  | (inl v, s') =>
      match try_boolean v with
      | Some true => blk F binop t s'
      | Some false => match f with Some fb => blk F binop fb s' | None => (inl VNull, s') end
      | None => (inr Error, s')
      end
  | (inr er, s') => (inr er, s')
  end.
Proof. exact eval_if. Qed.
Print Assumptions C09_if.

Theorem C09_if_missing_else_is_null :
  forall F binop c t s s', blk F binop c s = (inl (VBool false), s') ->
  eval F binop (EIf c t None) s = (inl VNull, s').
Proof. exact if_false_no_else. Qed.
Print Assumptions C09_if_missing_else_is_null.

Example C09_example :
  let s := st0 [] (VObj []) (VObj []) in
  let mark k := EAssign (TExt PEvent [SField (hx k)]) (ELit (VBool true)) in
  run_core
    [EOp OOr (ELit (VInt 5)) (mark "61");
     EOp OAnd (ELit VNull) (mark "62");
     EIf [ELit (VBool false)] [mark "63"] None] s
  = (Success VNull, [], VObj [], VObj []).
Proof. vm_compute. reflexivity. Qed.
