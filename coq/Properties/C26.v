(* C26 — Protobuf encoding round-trips.
   Models: Model/Proto.v (the wire format and prost-reflect's DynamicMessage encode / merge, from the protobuf
   encoding spec) and Model/ProtoGlue.v (src/protobuf/encode.rs and parse.rs: convert_value_raw, convert_value,
   encode_message, proto_to_value; `shaped`, `strip_defaults`).  Nothing but statements here. *)
From Coq Require Import String.
From Coq Require Import List NArith ZArith Bool Arith.
From VRL Require Import Base.Bytes Base.Value Base.Lit Model.Proto Model.ProtoGlue
     Proofs.ProtoWireProofs Proofs.ProtoScalarProofs Proofs.ProtoMsgProofs Proofs.ProtoGlueProofs.
Import ListNotations.

(* ---- wire primitives: closed, every value of the type ---- *)
Theorem C26_varint : forall (n : N) (rest : bytes),
  (n < 2 ^ 64)%N -> decode_varint (encode_varint n ++ rest) = Some (n, rest).
Proof. exact varint_roundtrip. Qed.
Print Assumptions C26_varint.

Theorem C26_varint_len : forall n : N, (1 <= length (encode_varint n) <= 10)%nat.
Proof. exact encode_varint_length. Qed.
Print Assumptions C26_varint_len.

Theorem C26_zigzag : forall z : Z, unzigzag (zigzag z) = z.
Proof. exact zigzag_roundtrip. Qed.
Print Assumptions C26_zigzag.

Theorem C26_fixed : forall (n : nat) (v : N), (v < 256 ^ N.of_nat n)%N ->
  le_val (le_bytes n v) = v /\ length (le_bytes n v) = n.
Proof. intros n v H. split; [apply le_roundtrip; exact H | apply le_bytes_length]. Qed.
Print Assumptions C26_fixed.

Theorem C26_tag : forall (num wt : N) (rest : bytes),
  (1 <= num)%N -> (num < 2 ^ 29)%N -> (wt <= 5)%N ->
  decode_key (encode_key num wt ++ rest) = POk (num, wt, rest).
Proof. exact key_roundtrip. Qed.
Print Assumptions C26_tag.

Theorem C26_len_delim : forall b rest : bytes,
  (N.of_nat (length b) < 2 ^ 64)%N ->
  decode_wval 2 (encode_varint (N.of_nat (length b)) ++ b ++ rest) = POk (WLen b, rest).
Proof. exact len_delim_roundtrip. Qed.
Print Assumptions C26_len_delim.

(* a whole record sequence: what parse_records cuts is what was written *)
Theorem C26_records : forall rs : list (N * wval),
  Forall wf_record rs -> parse_records (ser_records rs) = POk rs.
Proof. exact records_roundtrip. Qed.
Print Assumptions C26_records.

(* one value of any non-message kind in the range of the kind: encoder -> wire value -> decoder *)
Theorem C26_scalar_wire : forall (P : list (list field)) (em : list field -> list (N * pval) -> bytes) (k : skind) (v : pval),
  is_msg_kind k = false -> wt_plain k v ->
  exists w, enc_scalar P em k v = Some w /\ wf_wval w /\ dec_plain k w = POk v.
Proof.
  intros P em k v Hk Hw. destruct (plain_roundtrip P em k v Hk Hw) as (w & H1 & H2 & H3 & _).
  exists w. repeat split; assumption.
Qed.
Print Assumptions C26_scalar_wire.

(* packed repeated scalars *)
Theorem C26_packed : forall (k : skind) (l : list pval),
  is_packable k = true -> Forall (wt_plain k) l ->
  dec_packed_f (length (concat (map (enc_packed_elem k) l))) k (concat (map (enc_packed_elem k) l)) = POk l.
Proof. intros k l Hp Hl. exact (packed_roundtrip [] (fun _ _ => []) k Hp l _ Hl (Nat.le_refl _)). Qed.
Print Assumptions C26_packed.

(* ---- whole dynamic messages: scalars of every kind, packed and unpacked repeated fields, embedded messages to
        any depth, maps.  Decoding what the encoder wrote gives the message back in the normal form presence
        imposes (`canon`: a field without presence that holds its default is absent). ---- *)
Theorem C26_wire_message : forall (P : list (list field)),
  (forall i, wf_desc (get_msg P i)) ->
  forall (fuel : nat) (d : list field) (m : list (N * pval)),
  wf_desc d -> wt_msg P fuel d m ->
  merge_msg P fuel d [] (enc_msg P fuel d m) = POk (canon P fuel d m).
Proof. exact msg_roundtrip. Qed.
Print Assumptions C26_wire_message.

(* ---- VRL's own code on top: see Proofs/ProtoGlueProofs.v ---- *)
Theorem C26_parse_canon : forall (P : list (list field)),
  (forall i, wf_desc (get_msg P i)) -> (forall i, desc_ok (get_msg P i)) ->
  forall (fuel : nat) (d : list field) (m : list (N * pval)),
  wf_desc d -> desc_ok d ->
  ptv_msg P fuel d (canon P fuel d m) = ptv_msg P fuel d m.
Proof. exact ptv_canon. Qed.
Print Assumptions C26_parse_canon.
