(* C26 — Protobuf encoding round-trips.
   Models: Model/Proto.v (the wire format and prost-reflect's DynamicMessage encode / merge, from the protobuf
   encoding spec) and Model/ProtoGlue.v (src/protobuf/encode.rs and parse.rs: convert_value_raw, convert_value,
   encode_message, proto_to_value; `shaped`, `strip_defaults`).  Nothing but statements here. *)
From Coq Require Import String.
From Coq Require Import List NArith ZArith Bool Arith Lia.
From VRL Require Import Base.Bytes Base.Value Base.Lit Model.Proto Model.ProtoGlue
     Proofs.ProtoWireProofs Proofs.ProtoScalarProofs Proofs.ProtoMsgProofs Proofs.ProtoGlueProofs
     Proofs.ProtoShapedProofs.
Import ListNotations.

(* ---- wire primitives: closed, every value of the type ---- *)
Theorem C26_varint : forall (n : N) (rest : bytes),
  (n < 2 ^ 64)%N -> decode_varint (encode_varint n ++ rest) = Some (n, rest).
Proof. exact varint_roundtrip. Qed.
Print Assumptions C26_varint.

Theorem C26_varint_len : forall n : N, (1 <= length (encode_varint n) <= 10)%nat.
Proof. exact encode_varint_length. Qed.
Print Assumptions C26_varint_len.

Theorem C26_zigzag : forall z : Z, unzigzag (zigzag z) = z.
Proof. exact zigzag_roundtrip. Qed.
Print Assumptions C26_zigzag.

Theorem C26_fixed : forall (n : nat) (v : N), (v < 256 ^ N.of_nat n)%N ->
  le_val (le_bytes n v) = v /\ length (le_bytes n v) = n.
Proof. intros n v H. split; [apply le_roundtrip; exact H | apply le_bytes_length]. Qed.
Print Assumptions C26_fixed.

Theorem C26_tag : forall (num wt : N) (rest : bytes),
  (1 <= num)%N -> (num < 2 ^ 29)%N -> (wt <= 5)%N ->
  decode_key (encode_key num wt ++ rest) = POk (num, wt, rest).
Proof. exact key_roundtrip. Qed.
Print Assumptions C26_tag.

Theorem C26_len_delim : forall b rest : bytes,
  (N.of_nat (length b) < 2 ^ 64)%N ->
  decode_wval 2 (encode_varint (N.of_nat (length b)) ++ b ++ rest) = POk (WLen b, rest).
Proof. exact len_delim_roundtrip. Qed.
Print Assumptions C26_len_delim.

(* a whole record sequence: what parse_records cuts is what was written *)
Theorem C26_records : forall rs : list (N * wval),
  Forall wf_record rs -> parse_records (ser_records rs) = POk rs.
Proof. exact records_roundtrip. Qed.
Print Assumptions C26_records.

(* one value of any non-message kind in the range of the kind: encoder -> wire value -> decoder *)
Theorem C26_scalar_wire : forall (P : list (list field)) (em : list field -> list (N * pval) -> bytes) (k : skind) (v : pval),
  is_msg_kind k = false -> wt_plain k v ->
  exists w, enc_scalar P em k v = Some w /\ wf_wval w /\ dec_plain k w = POk v.
Proof.
  intros P em k v Hk Hw. destruct (plain_roundtrip P em k v Hk Hw) as (w & H1 & H2 & H3 & _).
  exists w. repeat split; assumption.
Qed.
Print Assumptions C26_scalar_wire.

(* packed repeated scalars *)
Theorem C26_packed : forall (k : skind) (l : list pval),
  is_packable k = true -> Forall (wt_plain k) l ->
  dec_packed_f (length (concat (map (enc_packed_elem k) l))) k (concat (map (enc_packed_elem k) l)) = POk l.
Proof. intros k l Hp Hl. exact (packed_roundtrip [] (fun _ _ => []) k Hp l _ Hl (Nat.le_refl _)). Qed.
Print Assumptions C26_packed.

(* ---- whole dynamic messages: scalars of every kind, packed and unpacked repeated fields, embedded messages to
        any depth, maps.  Decoding what the encoder wrote gives the message back in the normal form presence
        imposes (`canon`: a field without presence that holds its default is absent). ---- *)
Theorem C26_wire_message : forall (P : list (list field)),
  (forall i, wf_desc (get_msg P i)) ->
  forall (fuel : nat) (d : list field) (m : list (N * pval)),
  wf_desc d -> wt_msg P fuel d m ->
  merge_msg P fuel d [] (enc_msg P fuel d m) = POk (canon P fuel d m).
Proof. exact msg_roundtrip. Qed.
Print Assumptions C26_wire_message.

(* ---- VRL's own code on top: see Proofs/ProtoGlueProofs.v ---- *)
Theorem C26_parse_canon : forall (P : list (list field)),
  (forall i, wf_desc (get_msg P i)) -> (forall i, desc_ok (get_msg P i)) ->
  forall (fuel : nat) (d : list field) (m : list (N * pval)),
  wf_desc d -> desc_ok d ->
  ptv_msg P fuel d (canon P fuel d m) = ptv_msg P fuel d m.
Proof. exact ptv_canon. Qed.
Print Assumptions C26_parse_canon.

(* encode_message on a message-shaped value: succeeds, is well-typed as soon as the sizes fit, and proto_to_value of
   the result is the value without its default-holding fields *)
Theorem C26_convert_shaped : forall (P : list (list field)) (lossy : bool),
  pool_okb P = true ->
  forall (fu : nat) (d : list field) (v : value),
  desc_okb d = true -> shaped_msg P fu d v = true ->
  exists m, conv_msg P lossy fu d v = POk m
            /\ (lens_msg P fu d m -> wt_msg P fu d m)
            /\ ptv_msg P fu d m = POk (strip_msg P fu d v).
Proof. exact conv_shaped. Qed.
Print Assumptions C26_convert_shaped.

(* ---- the property: for a descriptor pool satisfying the (decidable) structural conditions prost-reflect guarantees
        (pool_okb: increasing field numbers below 2^29, distinct names, message fields have presence, packed only for
        packable kinds, scalar map keys) and any value shaped like a message type (scalars in range, exact f32 values in
        float fields, UTF-8 strings, enums by their canonical name, repeated fields, maps with canonical keys, nested
        messages to any depth up to prost's recursion limit):
          parse_proto (encode_proto v) = strip_defaults v
        The one side condition is physical: every length prefix the encoder writes fits 64 bits (lens_msg). ---- *)
Theorem C26_message : forall (P : list (list field)) (lossy : bool),
  pool_okb P = true ->
  forall (d : list field) (v : value),
  desc_okb d = true -> shaped P d v = true ->
  exists m, conv_msg P lossy glue_fuel d v = POk m
            /\ encode_proto P lossy d v = POk (encode_msg P d m)
            /\ (lens_msg P glue_fuel d m -> parse_proto P d (encode_msg P d m) = POk (strip_defaults P d v)).
Proof. exact message_roundtrip. Qed.
Print Assumptions C26_message.

(* ---- the hypotheses hold on a bundled descriptor set (tests/data/protobuf/test/v1/test.desc as prost-reflect reads
        it; the check re-evaluates pool_okb on all four sets at run time), and the theorem applies to a value with a map,
        a nested message and a default-holding field ---- *)
Definition test_v1_pool : list (list field) := [
  [mkField (hx "7365636f6e6473") 1 KInt64 (CSingular false); mkField (hx "6e616e6f73") 2 KInt32 (CSingular false)];
  [mkField (hx "693332") 1 KInt32 (CSingular false); mkField (hx "693634") 2 KInt64 (CSingular false); mkField (hx "753332") 3 KUint32 (CSingular false); mkField (hx "753634") 4 KUint64 (CSingular false)];
  [mkField (hx "64") 1 KDouble (CSingular false); mkField (hx "66") 2 KFloat (CSingular false)];
  [mkField (hx "74657874") 1 KString (CSingular false); mkField (hx "62696e617279") 2 KBytes (CSingular false)];
  [mkField (hx "62") 1 KBool (CSingular false)];
  [mkField (hx "6e616d6573") 1 KInt32 (CMap KString false false); mkField (hx "70656f706c65") 2 (KMsg 6) (CMap KString false true)];
  [mkField (hx "6e69636b6e616d65") 1 KString (CSingular false); mkField (hx "616765") 2 KUint32 (CSingular false)];
  [mkField (hx "6b6579") 1 KString (CSingular false); mkField (hx "76616c7565") 2 KInt32 (CSingular false)];
  [mkField (hx "6b6579") 1 KString (CSingular false); mkField (hx "76616c7565") 2 (KMsg 6) (CSingular true)];
  [mkField (hx "627265616b66617374") 1 (KEnum [((hx "46525549545f4150504c455f554e535045434946494544"), (0)%Z); ((hx "46525549545f4f4c495645"), (1)%Z); ((hx "46525549545f544f4d41544f"), (2)%Z)] (0)%Z) (CSingular false); mkField (hx "6c756e6368") 2 (KEnum [((hx "46525549545f4150504c455f554e535045434946494544"), (0)%Z); ((hx "46525549545f4f4c495645"), (1)%Z); ((hx "46525549545f544f4d41544f"), (2)%Z)] (0)%Z) (CSingular false); mkField (hx "64696e6e6572") 3 (KEnum [((hx "46525549545f4150504c455f554e535045434946494544"), (0)%Z); ((hx "46525549545f4f4c495645"), (1)%Z); ((hx "46525549545f544f4d41544f"), (2)%Z)] (0)%Z) (CSingular false)];
  [mkField (hx "6d6f726e696e67") 1 (KMsg 0) (CSingular true)];
  [mkField (hx "6e756d62657273") 1 KInt64 (CRepeated true)];
  [mkField (hx "6d65737361676573") 1 (KMsg 13) (CRepeated false)];
  [mkField (hx "74657874") 1 KString (CSingular true); mkField (hx "696e646578") 2 KUint32 (CSingular true)]
].
Definition example_value : value :=
  VObj [(hx "6e616d6573", VObj [(hx "61", VInt 0); (hx "62", VInt 2)]);
        (hx "70656f706c65", VObj [(hx "78", VObj [(hx "616765", VInt 0); (hx "6e69636b6e616d65", VBytes (hx "6e"))])])].

Example C26_nonvacuous :
  pool_okb test_v1_pool = true
  /\ shaped test_v1_pool (get_msg test_v1_pool 5) example_value = true
  /\ (exists m, conv_msg test_v1_pool true glue_fuel (get_msg test_v1_pool 5) example_value = POk m
                /\ lens_msg test_v1_pool glue_fuel (get_msg test_v1_pool 5) m)
  /\ strip_defaults test_v1_pool (get_msg test_v1_pool 5) example_value
     = VObj [(hx "6e616d6573", VObj [(hx "61", VInt 0); (hx "62", VInt 2)]);
             (hx "70656f706c65", VObj [(hx "78", VObj [(hx "6e69636b6e616d65", VBytes (hx "6e"))])])]
  /\ encode_proto test_v1_pool true (get_msg test_v1_pool 5) example_value
     = POk (hx "0a030a01610a050a0162100212080a017812030a016e").
Proof.
  split; [vm_compute; reflexivity|]. split; [vm_compute; reflexivity|]. split.
  - eexists. split; [vm_compute; reflexivity|].
    Opaque enc_msg enc_entry enc_packed_elem len_ok.
    cbn.
    Transparent enc_msg enc_entry enc_packed_elem len_ok.
    repeat (constructor || split); unfold len_ok; vm_compute; reflexivity.
  - split; vm_compute; reflexivity.
Qed.
