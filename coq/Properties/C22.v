(* C22 — Binary codecs round-trip.
   Models: Model/Base16.v, Base64.v, Percent.v, CodecUtf8.v, Punycode.v, CodecGlue.v
   (src/stdlib/{encode,decode}_{base16,base64,percent,punycode,gzip,zlib,zstd,snappy,lz4,charset}.rs).
   Nothing but statements here.  Bytes are `N`; `wf_bytes b` says every element is < 256. *)
From Coq Require Import List NArith ZArith Bool String.
From VRL Require Import Base.Bytes Base.Lit Model.Base16 Model.Base64 Model.CodecUtf8 Model.Percent
     Model.Punycode Model.CodecGlue
     Proofs.CodecProofs Proofs.PercentProofs Proofs.PunycodeProofs Proofs.CodecGlueProofs.
Import ListNotations.
Local Open Scope string_scope.
Local Open Scope list_scope.

(* ---- base16: every byte string ---- *)
Theorem C22_base16 : forall v : bytes, wf_bytes v = true ->
  exists e, encode_base16 v = ROk e /\ decode_base16 e = ROk v.
Proof. exact base16_roundtrip. Qed.
Print Assumptions C22_base16.

(* ---- base64: every byte string, both alphabets ("standard", "url_safe"), with and without padding;
        the decoder is the one of decode_base64.rs (strip all trailing '=', NO_PAD engine) ---- *)
Theorem C22_base64 : forall (padding : bool) (charset v : bytes),
  wf_bytes v = true -> charset_of charset <> None ->
  exists e, encode_base64 padding charset v = ROk e /\ decode_base64 charset e = ROk v.
Proof. exact base64_roundtrip. Qed.
Print Assumptions C22_base64.

Theorem C22_base64_unknown_charset : forall (padding : bool) (charset v : bytes),
  charset_of charset = None ->
  encode_base64 padding charset v = RErr /\ decode_base64 charset v = RErr.
Proof. exact base64_unknown_charset. Qed.
Print Assumptions C22_base64_unknown_charset.

(* ---- percent-encoding: all nine sets, UTF-8 input, under the exact side condition ---- *)
Theorem C22_percent : forall (set : ascii_set) (s : bytes),
  wf_bytes s = true -> valid_utf8 s = true ->
  (set_contains set 37%N = true \/ no_triplet s = true) ->
  exists e, encode_percent set s = ROk e /\ decode_percent e = ROk s.
Proof. exact percent_roundtrip. Qed.
Print Assumptions C22_percent.

Theorem C22_percent_sets_with_percent : forall set : ascii_set,
  set_contains set 37%N = true <-> (set = NON_ALPHANUMERIC \/ set = COMPONENT \/ set = WWW_FORM_URLENCODED).
Proof. exact sets_with_percent. Qed.
Print Assumptions C22_percent_sets_with_percent.

(* the literal statement ("every character set") fails for the six sets without '%': "%41" -> "A" *)
Theorem C22_percent_unescaped_refuted :
  exists set s, wf_bytes s = true /\ valid_utf8 s = true /\ set_contains set 37%N = false
                /\ encode_percent set s = ROk s /\ decode_percent s = ROk [65%N] /\ s <> [65%N].
Proof. exact percent_unescaped_refuted. Qed.
Print Assumptions C22_percent_unescaped_refuted.

(* String::from_utf8_lossy is the identity on valid UTF-8 (used by percent and punycode) *)
Theorem C22_utf8_lossy_valid : forall s : bytes, valid_utf8 s = true -> utf8_lossy s = s.
Proof. exact lossy_valid. Qed.
Print Assumptions C22_utf8_lossy_valid.

(* ---- punycode, validate: false.  Full statement intended:
        forall parts, parts <> [] -> Forall good_part parts -> Forall encodable parts ->
          decode (encode (join "." parts)) = join "." parts
      It is proved relative to the RFC 3492 bootstring inverse, which stays a premise (partial). ---- *)
Theorem C22_punycode_partial :
  (forall (cps : list N) (e : bytes), puny_encode cps = Some e ->
      puny_decode e = Some cps /\ is_ascii_bytes e = true /\ no_dot e = true) ->
  forall parts : list bytes,
  parts <> [] -> Forall good_part parts ->
  Forall (fun p => is_ascii_bytes p = false -> puny_encode (utf8_chars p) <> None) parts ->
  exists e, encode_punycode_novalidate (join_with dot parts) = ROk e
            /\ decode_punycode_novalidate e = ROk (join_with dot parts).
Proof. exact punycode_novalidate_roundtrip. Qed.
Print Assumptions C22_punycode_partial.

Theorem C22_punycode_ascii_passthrough : forall s : bytes,
  forallb plain_char s = true ->
  encode_punycode_novalidate s = ROk s /\ decode_punycode_novalidate s = ROk s.
Proof. exact punycode_ascii_passthrough. Qed.
Print Assumptions C22_punycode_ascii_passthrough.

(* the generalized variable-length integer of RFC 3492: the decoder reads back the delta the encoder wrote *)
Theorem C22_punycode_vli : forall (delta bias i : N) (rest : bytes),
  (i + 36 * delta <= u32_max)%N ->
  dec_vli (enc_vli 12 delta 36 bias ++ rest) i 1 36 bias = Some ((i + delta)%N, rest).
Proof. exact vli_roundtrip_u32. Qed.
Print Assumptions C22_punycode_vli.

(* a label that already is an A-label is not a fixed point: "xn--maana-pta" comes back as "mañana" *)
Theorem C22_punycode_alabel_refuted :
  exists s d, forallb (fun c => (c <? 128)%N) s = true /\ to_lowercase s = s
              /\ encode_punycode_novalidate s = ROk s /\ decode_punycode_novalidate s = ROk d /\ d <> s.
Proof. exact punycode_alabel_refuted. Qed.
Print Assumptions C22_punycode_alabel_refuted.

(* ---- library codecs: the VRL glue, for every option value, from the library's inverse law ---- *)
Theorem C22_codec_glue_flate : forall (lib_enc : Z -> bytes -> lres) (lib_dec : bytes -> lres),
  (forall l b, (0 <= l <= 9)%Z -> exists e, lib_enc l b = LOk e /\ lib_dec e = LOk b) ->
  forall (level : Z) (v : bytes),
  ((as_u32 level <= 9)%Z ->
     exists e, encode_flate lib_enc level v = ROk e /\ decode_flate lib_dec e = ROk v)
  /\ ((10 < as_u32 level)%Z -> encode_flate lib_enc level v = RErr).
Proof.
  intros lib_enc lib_dec H level v. split.
  - exact (flate_roundtrip lib_enc lib_dec H level v).
  - exact (flate_level_rejected lib_enc level v).
Qed.
Print Assumptions C22_codec_glue_flate.

(* level 10 is accepted by the VRL range check and panics inside flate2's zlib-rs backend *)
Theorem C22_flate_level10_refuted : forall lib_enc : Z -> bytes -> lres,
  (forall b, lib_enc 10%Z b = LPanic) ->
  forall v, (max_flate_level <? as_u32 10)%Z = false /\ encode_flate lib_enc 10%Z v = RPanic.
Proof. exact flate_level10_panics. Qed.
Print Assumptions C22_flate_level10_refuted.

Theorem C22_codec_glue_zstd : forall (lib_enc : Z -> bytes -> lres) (lib_dec : bytes -> lres),
  (forall l b, exists e, lib_enc l b = LOk e /\ lib_dec e = LOk b) ->
  forall (level : Z) (v : bytes),
  exists e, encode_zstd lib_enc level v = ROk e /\ decode_zstd lib_dec e = ROk v.
Proof. exact zstd_roundtrip. Qed.
Print Assumptions C22_codec_glue_zstd.

Theorem C22_codec_glue_snappy : forall (lib_enc lib_dec : bytes -> lres),
  (forall b, exists e, lib_enc b = LOk e /\ lib_dec e = LOk b) ->
  forall v : bytes, exists e, encode_snappy lib_enc v = ROk e /\ decode_snappy lib_dec e = ROk v.
Proof. exact snappy_roundtrip. Qed.
Print Assumptions C22_codec_glue_snappy.

(* lz4 blocks, with and without the prepended size, for matching options.  The side conditions are exact:
   buf_size must be a u32 (anything else is rejected up front, C22_lz4_bufsize_rejected); with prepend_size the
   input must not be 0x184D2204 bytes long (its size prefix would be the frame magic and the decoder would take
   the frame path); without it the caller's buf_size must be large enough. *)
Theorem C22_codec_glue_lz4 :
  forall (compress : bytes -> bytes) (decompress : bytes -> N -> lres) (frame_dec : bytes -> lres),
  (forall b n, (N.of_nat (List.length b) <= n)%N -> decompress (compress b) n = LOk b) ->
  (forall b, starts_with lz4_magic (compress b) = false) ->
  forall (prepend : bool) (buf_size : Z) (v : bytes),
  (N.of_nat (List.length v) < 4294967296)%N ->
  (0 <= buf_size < 2 ^ 32)%Z ->
  (prepend = true -> N.of_nat (List.length v) <> magic_len) ->
  (prepend = false -> (Z.of_nat (List.length v) <= buf_size)%Z) ->
  exists e, encode_lz4 compress prepend v = ROk e
            /\ decode_lz4 decompress frame_dec buf_size prepend e = ROk v.
Proof. exact lz4_roundtrip. Qed.
Print Assumptions C22_codec_glue_lz4.

Theorem C22_lz4_size_prefix : forall n : N, (n < 4294967296)%N ->
  match size_le n with
  | [b0; b1; b2; b3] => read_le b0 b1 b2 b3 = n
  | _ => False
  end.
Proof. exact size_prefix. Qed.
Print Assumptions C22_lz4_size_prefix.

(* the two functions' defaults are not a matching pair: decode_lz4(encode_lz4(v)) misframes the data *)
Theorem C22_lz4_default_options_refuted :
  forall (compress : bytes -> bytes) (decompress : bytes -> N -> lres) (frame_dec : bytes -> lres) (v : bytes),
  (N.of_nat (List.length v) < 4294967296)%N -> N.of_nat (List.length v) <> magic_len ->
  decompress (size_le (N.of_nat (List.length v)) ++ compress v) 1000000%N <> LOk v ->
  exists e, encode_lz4 compress default_prepend_size v = ROk e /\
            decode_lz4 decompress frame_dec default_buf_size default_prepended_size e <> ROk v.
Proof. exact lz4_default_options_refuted. Qed.
Print Assumptions C22_lz4_default_options_refuted.

(* buf_size outside 0..2^32-1 is an ordinary error, for every input and either value of prepended_size
   (repaired by c2888f1; it used to panic with a capacity overflow) *)
Theorem C22_lz4_bufsize_rejected :
  forall (decompress : bytes -> N -> lres) (frame_dec : bytes -> lres) (buf_size : Z) (prepended : bool) (v : bytes),
  (buf_size < 0 \/ 2 ^ 32 <= buf_size)%Z ->
  decode_lz4 decompress frame_dec buf_size prepended v = RErr.
Proof. exact lz4_bufsize_rejected. Qed.
Print Assumptions C22_lz4_bufsize_rejected.

Theorem C22_codec_glue_charset :
  forall (E : Type) (for_label : bytes -> option E) (cs_encode cs_decode : E -> bytes -> bytes)
         (representable : E -> bytes -> Prop),
  (forall e t, representable e t -> cs_decode e (cs_encode e t) = t) ->
  forall (label : bytes) (t : bytes),
  (forall e, for_label label = Some e -> valid_utf8 t = true -> representable e t ->
     exists b, encode_charset for_label cs_encode label t = ROk b
               /\ decode_charset for_label cs_decode label b = ROk t)
  /\ (for_label label = None ->
      encode_charset for_label cs_encode label t = RErr /\ decode_charset for_label cs_decode label t = RErr).
Proof.
  intros E for_label cs_encode cs_decode representable H label t. split.
  - intros e Hl Hv Hr. exact (charset_roundtrip E for_label cs_encode cs_decode representable H label e t Hl Hv Hr).
  - intros Hl. exact (charset_unknown_label E for_label cs_encode cs_decode label t Hl).
Qed.
Print Assumptions C22_codec_glue_charset.

(* bytes that are not UTF-8 are converted lossily before encoding (repaired by a0ffe6c; it used to panic) *)
Theorem C22_charset_invalid_utf8_lossy :
  forall (E : Type) (for_label : bytes -> option E) (cs_encode : E -> bytes -> bytes) (label : bytes) (e : E) (v : bytes),
  for_label label = Some e ->
  encode_charset for_label cs_encode label v = ROk (cs_encode e (utf8_lossy v)).
Proof. exact charset_invalid_utf8_lossy. Qed.
Print Assumptions C22_charset_invalid_utf8_lossy.

Theorem C22_codec_glue_punycode_validate :
  forall (to_ascii : bytes -> option bytes) (to_unicode : bytes -> bytes * bool) (valid_domain : bytes -> Prop),
  (forall s, valid_domain s ->
     exists a, to_ascii s = Some a /\ valid_utf8 a = true /\ to_unicode a = (s, false)
               /\ (contains xn_prefix a = false -> a = s)) ->
  forall s : bytes, valid_utf8 s = true -> valid_domain s ->
  exists a, encode_punycode_validate to_ascii s = ROk a /\ decode_punycode_validate to_unicode a = ROk s.
Proof. exact punycode_validate_roundtrip. Qed.
Print Assumptions C22_codec_glue_punycode_validate.

(* non-vacuity: the premises above are met by concrete non-trivial inputs / library instances *)
Example C22_nonvacuous :
  (* a well-formed byte string and a known charset *)
  wf_bytes (hx "00ff10fb") = true /\ charset_of cs_url_safe <> None
  (* valid UTF-8 with a '%' that is no triplet, under a set without '%' *)
  /\ valid_utf8 (hx "313030252025c3a9") = true /\ no_triplet (hx "313030252025c3a9") = true
  /\ set_contains PATH 37%N = false
  (* a domain of good parts, one of them non-ASCII and encodable: "mañana.example" *)
  /\ good_part (hx "6d61c3b1616e61") /\ good_part (hx "6578616d706c65")
  /\ is_ascii_bytes (hx "6d61c3b1616e61") = false
  /\ puny_encode (utf8_chars (hx "6d61c3b1616e61")) = Some (hx "6d61616e612d707461")
  /\ puny_decode (hx "6d61616e612d707461") = Some (utf8_chars (hx "6d61c3b1616e61"))
  (* the library premises are satisfiable: a store-only "compressor" meets them *)
  /\ (forall l b, (0 <= l <= 9)%Z -> exists e, (fun (_ : Z) x => LOk x) l b = LOk e /\ LOk e = LOk b)
  /\ (forall b n, (N.of_nat (List.length b) <= n)%N ->
        (fun (d : bytes) (_ : N) => match d with _ :: r => LOk r | [] => LErr end) ((fun x => 0%N :: x) b) n = LOk b)
  /\ (forall b : bytes, starts_with lz4_magic ((fun x => 0%N :: x) b) = false)
  (* the lz4 side conditions hold for ordinary inputs and exclude exactly one length *)
  /\ magic_len = 407708164%N /\ size_le magic_len = lz4_magic.
Proof.
  repeat split; try (vm_compute; congruence); try reflexivity.
  - intros l b _. exists b. split; reflexivity.
Qed.
