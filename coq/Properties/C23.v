(* C23 — Encryption round-trips for every algorithm.
   Models: Model/Padding.v (block-padding crate), Model/Modes.v (cbc / cfb-mode / ofb / ctr crates over an abstract
   block cipher), Model/CipherGlue.v (src/stdlib/{encrypt,decrypt,encrypt_ip,decrypt_ip}.rs).
   Nothing but statements here.  The library primitives are universally quantified: the block cipher
   (E, D : key -> block -> block, only assumed to keep 16-byte blocks 16 bytes long and D k (E k b) = b), the AEAD
   seal/open pairs (open (seal p) = Some p), the two ipcrypt permutations. *)
From Coq Require Import String.
From Coq Require Import List NArith ZArith Bool Arith.
From VRL Require Import Base.Bytes Base.Lit Model.ConvRes Model.Padding Model.Modes Model.Ip Model.CipherGlue Model.IpPfx
     Proofs.PaddingProofs Proofs.ModesProofs Proofs.CipherProofs Proofs.IpCryptProofs Proofs.IpPfxProofs.
Import ListNotations.

(* ---- paddings: every scheme, every message length (exact multiples of the block get a whole padding block),
        every ISO 10126 filler; closed, no hypotheses ---- *)
Theorem C23_unpad_pad : forall (s : scheme) (filler m : bytes), unpad s (pad s filler m) = Some m.
Proof. exact unpad_pad. Qed.
Print Assumptions C23_unpad_pad.

Theorem C23_pad_length : forall (s : scheme) (filler m : bytes),
  length (pad s filler m) = (16 * (1 + length m / 16))%nat.
Proof. exact pad_length. Qed.
Print Assumptions C23_pad_length.

(* ---- modes of operation over any block cipher, every data length ---- *)
Theorem C23_cbc : forall E D : cipher,
  (forall k b, length b = 16%nat -> length (E k b) = 16%nat) ->
  (forall k b, length b = 16%nat -> D k (E k b) = b) ->
  forall k iv d : bytes, length iv = 16%nat -> (length d mod 16 = 0)%nat ->
  cbc_decrypt D k iv (cbc_encrypt E k iv d) = d.
Proof. exact cbc_roundtrip. Qed.
Print Assumptions C23_cbc.

Theorem C23_cfb : forall E : cipher,
  (forall k b, length b = 16%nat -> length (E k b) = 16%nat) ->
  forall k iv d : bytes, length iv = 16%nat -> cfb_decrypt E k iv (cfb_encrypt E k iv d) = d.
Proof. intros E H. exact (cfb_roundtrip E H). Qed.
Print Assumptions C23_cfb.

Theorem C23_ofb : forall E : cipher,
  (forall k b, length b = 16%nat -> length (E k b) = 16%nat) ->
  forall k iv d : bytes, length iv = 16%nat -> ofb_apply E k iv (ofb_apply E k iv d) = d.
Proof. intros E H. exact (ofb_roundtrip E H). Qed.
Print Assumptions C23_ofb.

(* both counter flavours (CTR = CTR-LE: 64-bit little-endian counter in the first 8 IV bytes; CTR-BE: big-endian
   in the last 8), wrapping at 2^64 *)
Theorem C23_ctr : forall E : cipher,
  (forall k b, length b = 16%nat -> length (E k b) = 16%nat) ->
  forall (fl : ctr_flavor) (k iv d : bytes), length iv = 16%nat ->
  ctr_apply E fl k iv (ctr_apply E fl k iv d) = d.
Proof. intros E H. exact (ctr_roundtrip E H). Qed.
Print Assumptions C23_ctr.

(* ---- encrypt / decrypt: every accepted spelling of every algorithm, any plaintext, any key and IV of the sizes
        the name requires ---- *)
Theorem C23_roundtrip : forall P : prims,
  (forall k b, length b = 16%nat -> length (pE P k b) = 16%nat) ->
  (forall k b, length b = 16%nat -> pD P k (pE P k b) = b) ->
  (forall a k n p, pOpen P a k n (pSeal P a k n p) = Some p) ->
  forall (name : bytes) (pr : prim) (filler p k iv : bytes),
  lookup enc_table (upper_name name) = Some pr ->
  length k = key_len pr -> length iv = iv_len pr ->
  exists c, encrypt P filler name p k iv = COk c /\ decrypt P name c k iv = COk p.
Proof. exact roundtrip. Qed.
Print Assumptions C23_roundtrip.

(* the three Rust tables (match of encrypt, match of decrypt, is_valid_algorithm) agree on every name *)
Theorem C23_names_paired : forall name : bytes,
  lookup enc_table name = lookup dec_table name
  /\ (is_valid_algorithm name = true <-> lookup enc_table name <> None).
Proof. exact names_paired. Qed.
Print Assumptions C23_names_paired.

Theorem C23_accepted_alike : forall (P : prims) (filler name p c k iv : bytes),
  (encrypt P filler name p k iv = CErrAlg <-> decrypt P name c k iv = CErrAlg)
  /\ (encrypt P filler name p k iv = CErrAlg <-> compiles_with_constant name = false).
Proof. exact accepted_alike. Qed.
Print Assumptions C23_accepted_alike.

Theorem C23_cipher_length : forall P : prims,
  (forall k b, length b = 16%nat -> length (pE P k b) = 16%nat) ->
  (forall a k n p, length (pSeal P a k n p) = (length p + 16)%nat) ->
  forall (name : bytes) (pr : prim) (filler p k iv c : bytes),
  lookup enc_table (upper_name name) = Some pr ->
  encrypt P filler name p k iv = COk c -> length c = cipher_len pr (length p).
Proof. exact cipher_length. Qed.
Print Assumptions C23_cipher_length.

(* the hypotheses are satisfiable by a cipher that is not the identity, and the theorem covers spellings beyond the
   32 literal names *)
Example C23_hypotheses_satisfiable :
  (forall k b, length b = 16%nat -> length (pE toy_prims k b) = 16%nat)
  /\ (forall k b, length b = 16%nat -> pD toy_prims k (pE toy_prims k b) = b)
  /\ (forall a k n p, pOpen toy_prims a k n (pSeal toy_prims a k n p) = Some p)
  /\ pE toy_prims [5%N] [1%N; 2%N; 3%N] = [7%N; 6%N; 4%N]
  /\ lookup enc_table (upper_name (ascii_bytes "aes-128-cbc-pkcs7")) = Some (PCbc K128 Pkcs7)
  /\ lookup enc_table (upper_name (hx "6165732d3132382d73c4b176")) = Some (PAead Siv128).
Proof.
  split; [exact toy_E_len|]. split; [exact toy_block_inv|]. split; [exact toy_open_seal|].
  split; [reflexivity|]. split; reflexivity.
Qed.

(* ---- encrypt_ip / decrypt_ip.  Full statement intended (the property's second sentence):
        forall a s key mode, wf_addr a -> parse_ip s = Some a -> key of the size the mode requires ->
          exists c, encrypt_ip s key mode = IpOk c /\ decrypt_ip c key mode = IpOk (ip_text a)
      It is false on the pinned tree in two ways (witnesses below, both replayed on the implementation):
      IPv4-mapped IPv6 addresses and IPv6 addresses whose pfx encryption is IPv4-mapped.  (A third one, pfx keys with
      two equal halves panicking, was repaired by fb618e6: they are refused with an error now.)
      Proved: everything outside those classes. ---- *)
Theorem C23_ip_roundtrip : forall Q : ipprims,
  (forall k b, ip_wf b -> ip_wf (detE Q k b)) ->
  (forall k b, ip_wf b -> detD Q k (detE Q k b) = b) ->
  (forall k v b, ip_wf b -> ip_wf (pfxE Q k v b)) ->
  (forall k b, ip_wf b -> pfxD Q k false (pfxE Q k false b) = b) ->
  (forall k b, ip_wf b -> is_mapped b = true -> is_mapped (pfxE Q k true b) = true) ->
  (forall k b, ip_wf b -> is_mapped b = true -> pfxD Q k true (pfxE Q k true b) = b) ->
  forall (a : ipaddr) (s key mode : bytes),
  wf_addr a -> parse_ip s = Some a -> key_ok key mode -> known_ip_class Q a key mode = false ->
  exists c, encrypt_ip Q s key mode = IpOk c /\ decrypt_ip Q c key mode = IpOk (ip_text a).
Proof. exact ip_roundtrip. Qed.
Print Assumptions C23_ip_roundtrip.

(* ---- the `pfx` permutation need not be assumed: ipcrypt-pfx (Model/IpPfx.v, the bit loop of ipcrypt_rs over two
        AES-128 keys) is invertible over ANY block cipher, keeps 16 bytes 16 bytes and, in IPv4 mode, the mapped prefix ---- *)
Theorem C23_pfx_invertible : forall (E : cipher) (k b : bytes), ip_wf b ->
  (forall v, ip_wf (pfx_encrypt_bytes E k v b))
  /\ pfx_decrypt_bytes E k false (pfx_encrypt_bytes E k false b) = b
  /\ (is_mapped b = true -> is_mapped (pfx_encrypt_bytes E k true b) = true
                            /\ pfx_decrypt_bytes E k true (pfx_encrypt_bytes E k true b) = b).
Proof.
  intros E k b H. split; [intros v; apply pfx_keeps_wf; exact H|]. split; [apply pfx_inverse6; exact H|].
  intros Hm. split; [apply pfx_keeps_mapped; assumption | apply pfx_inverse4; assumption].
Qed.
Print Assumptions C23_pfx_invertible.

(* so for mode "pfx" the round trip rests on no hypothesis about the cipher at all, and for "aes128" on the block
   cipher's inverse only *)
Theorem C23_ip_roundtrip_pfx : forall (E : cipher) (dE dD : bytes -> bytes -> bytes),
  (forall k b, ip_wf b -> ip_wf (dE k b)) -> (forall k b, ip_wf b -> dD k (dE k b) = b) ->
  forall (a : ipaddr) (s key mode : bytes),
  wf_addr a -> parse_ip s = Some a -> key_ok key mode -> known_ip_class (pfx_ipprims E dE dD) a key mode = false ->
  exists c, encrypt_ip (pfx_ipprims E dE dD) s key mode = IpOk c
            /\ decrypt_ip (pfx_ipprims E dE dD) c key mode = IpOk (ip_text a).
Proof. exact ip_roundtrip_pfx. Qed.
Print Assumptions C23_ip_roundtrip_pfx.

(* every well-formed address has a text that parses to it (so the premise parse_ip s = Some a is not vacuous) *)
Theorem C23_ip_text_parses : forall a : ipaddr, wf_addr a -> parse_ip (ip_text a) = Some a.
Proof. exact parse_ip_text. Qed.
Print Assumptions C23_ip_text_parses.

Theorem C23_ip_mapped_refuted :
  exists a c d, wf_addr a
    /\ encrypt_ip id_ipprims (ip_text a) key16 mode_aes128 = IpOk c
    /\ decrypt_ip id_ipprims c key16 mode_aes128 = IpOk d /\ d <> ip_text a.
Proof. exact ip_mapped_refuted. Qed.
Print Assumptions C23_ip_mapped_refuted.

Theorem C23_ip_pfx_collision_refuted :
  exists a c d, wf_addr a /\ is_mapped (ip_to_bytes a) = false
    /\ encrypt_ip swap_ipprims (ip_text a) key32 mode_pfx = IpOk c
    /\ decrypt_ip swap_ipprims c key32 mode_pfx = IpOk d /\ d <> ip_text a.
Proof. exact ip_pfx_collision_refuted. Qed.
Print Assumptions C23_ip_pfx_collision_refuted.

(* a pfx key whose two 16-byte halves are equal is refused with a key error (repaired by fb618e6; it used to panic),
   so `key_ok` keeps its "halves differ" clause: such a key is not of a form the mode accepts *)
Theorem C23_ip_pfx_equal_halves_rejected : forall (Q : ipprims) (enc : bool) (ip key : bytes),
  parse_ip ip <> None -> length key = 32%nat -> firstn 16 key = skipn 16 key ->
  ip_crypt enc Q ip key mode_pfx = IpErrKey.
Proof. exact ip_pfx_equal_halves_rejected. Qed.
Print Assumptions C23_ip_pfx_equal_halves_rejected.

(* the IP hypotheses hold for the permutations used in the witnesses, and the theorem applies to ordinary
   addresses under them *)
Example C23_ip_hypotheses_satisfiable :
  (forall k v b, ip_wf b -> ip_wf (pfxE swap_ipprims k v b))
  /\ (forall k b, pfxD swap_ipprims k false (pfxE swap_ipprims k false b) = b)
  /\ known_ip_class id_ipprims (V4 [192; 168; 1; 1]%Z) key16 mode_aes128 = false
  /\ known_ip_class id_ipprims (V6 [8193; 3512; 0; 0; 0; 0; 0; 1]%Z) key32 mode_pfx = false
  /\ key_ok key16 mode_aes128 /\ key_ok key32 mode_pfx.
Proof.
  split; [exact swap_pfx_wf|]. split; [exact swap_pfx_inv|]. exact ip_roundtrip_applies.
Qed.
