(* C33 — Diagnostics are always renderable and point into the source.
   Modelled: the span arithmetic of verify_overwritable (Model/SpanArith.v), the only label positions the compiler
   derives from the printed form of a path instead of taking them from the lexer.  Every other span comes from the
   lexer, the LALRPOP parser and the compiler, which are NOT modelled: for those the check is exploration on the
   implementation (see props/C33.py, notes/C33.md).  Nothing but statements here. *)
From Coq Require Import String.
From Coq Require Import List NArith Bool Lia.
From VRL Require Import Base.Bytes Base.Lit Model.SpanArith Proofs.SpanArithProofs.
(* no statement below uses it: required only so that building this file also rebuilds the correspondence glue *)
From VRL Require Corr.C33.
Import ListNotations.
Local Open Scope N_scope.

(* whatever the path, the printed lengths and the kind tests: the reported segment span is ordered and ends inside the
   text; the reported parent span starts where the target starts and ends inside the text (saturating_sub) *)
Theorem C33_assign_in_bounds : forall segs valid target len ss ps,
  s_start target <= s_end target -> s_end target <= len ->
  verify_overwritable_spans segs valid target = Some (ss, ps) ->
  in_bounds len ss = true /\ s_end ps <= len /\ s_start ps = s_start target
  /\ s_end ss <= s_end target /\ s_end ps <= s_end target.
Proof. exact assign_in_bounds. Qed.
Print Assumptions C33_assign_in_bounds.

(* ... and when the printed segments (each field with its '.') are no longer than the target's text, both spans are
   ordered and lie inside the target's text *)
Theorem C33_assign_ordered : forall segs valid target len ss ps,
  s_start target <= s_end target -> s_end target <= len ->
  total_width segs <= s_end target - s_start target ->
  verify_overwritable_spans segs valid target = Some (ss, ps) ->
  in_bounds len ss = true /\ in_bounds len ps = true
  /\ s_start target <= s_start ss /\ s_end ss <= s_end target /\ s_start ps = s_start target /\ s_end ps <= s_end target.
Proof. exact assign_ordered. Qed.
Print Assumptions C33_assign_ordered.

Example C33_assign_example :                     (* x = 1 \n x.b.c = 2 : target bytes 6..11 *)
  verify_overwritable_spans [SegField 1; SegField 1] [] (mkSpan 6 11) = Some (mkSpan 10 11, mkSpan 6 9)
  /\ verify_overwritable_spans [SegField 1; SegIndex 3] [true] (mkSpan 6 11) = Some (mkSpan 7 8, mkSpan 6 6)
  /\ total_width [SegField 1; SegField 1] <= 11 - 6.
Proof. vm_compute. repeat split; discriminate. Qed.

(* Full statement: every label lies on character boundaries.  Proved for a target whose text is ASCII (span_ok = ordered,
   inside the text, both ends on boundaries).  Refuted in general below. *)
Theorem C33_assign_boundary_partial : forall src segs valid target ss ps,
  s_start target <= s_end target -> s_end target <= N.of_nat (length src) ->
  total_width segs <= s_end target - s_start target ->
  ascii_between src (s_start target) (s_end target) ->
  is_boundary src (s_start target) = true -> is_boundary src (s_end target) = true ->
  verify_overwritable_spans segs valid target = Some (ss, ps) ->
  span_ok src ss = true /\ span_ok src ps = true.
Proof. exact assign_boundary_ascii. Qed.
Print Assumptions C33_assign_boundary_partial.

(* a quoted field with a multi-byte character and escape sequences:   x = 1 \n x."é\t\t" = 2
   the printed name "é<TAB><TAB>" (6 bytes) is shorter than its source text (8 bytes): the label starts at byte 10, the
   second byte of é.  Replayed on the implementation (known finding). *)
Theorem C33_assign_boundary_refuted :
  exists src segs target ss ps,
    s_start target <= s_end target /\ s_end target <= N.of_nat (length src)
    /\ total_width segs <= s_end target - s_start target
    /\ is_boundary src (s_start target) = true /\ is_boundary src (s_end target) = true
    /\ verify_overwritable_spans segs [] target = Some (ss, ps)
    /\ is_boundary src (s_start ss) = false.
Proof. exact assign_boundary_refuted. Qed.
Print Assumptions C33_assign_boundary_refuted.

(* without the width hypothesis the arithmetic alone does not keep the parent span ordered (model level: no source
   text was found for which the printed path is longer than its source) *)
Theorem C33_assign_parent_order_refuted :
  exists segs target ss ps,
    s_start target <= s_end target /\ verify_overwritable_spans segs [] target = Some (ss, ps)
    /\ s_end ps < s_start ps.
Proof. exact assign_parent_order_refuted. Qed.
Print Assumptions C33_assign_parent_order_refuted.
