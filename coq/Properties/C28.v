(* C28 — String and collection functions obey their algebraic laws.
   Models: Model/StrFns.v, Model/CollFns.v, Model/Casing.v (+ Model/CaseTables.v, Model/CodecUtf8.v).  Nothing but statements here. *)
From Coq Require Import List NArith ZArith Bool String.
From VRL Require Import Base.Bytes Base.Value Base.Lit Model.CodecUtf8 Model.CaseTables Model.StrFns Model.CollFns
     Model.Casing Proofs.StrUtf8 Proofs.StrFnsProofs Proofs.StrFnsProofs2 Proofs.CollFnsProofs Proofs.CasingProofs.
Import ListNotations.
Local Open Scope string_scope.
Local Open Scope list_scope.

(* ======================= upcase / downcase ======================= *)

(* upcase is idempotent for EVERY per-code-point uppercase mapping whose outputs are chars and are themselves
   fixed points.  (The harness checks both hypotheses on the implementation for all 1,112,064 scalar values.) *)
Theorem C28_upcase_idem_any_table : forall upper : N -> list N,
  (forall c, is_scalar_cp c = true -> Forall (fun d => is_scalar_cp d = true) (upper c)) ->
  (forall c d, In d (upper c) -> upper d = [d]) ->
  forall s : bytes, upcase_with upper (upcase_with upper s) = upcase_with upper s.
Proof. exact upcase_with_idem. Qed.
Print Assumptions C28_upcase_idem_any_table.

(* ...and for the modelled table (complete on Model/CaseTables.v `case_domain`) on all byte strings *)
Theorem C28_upcase_idem : forall s : bytes, upcase (upcase s) = upcase s.
Proof. exact upcase_idem. Qed.
Print Assumptions C28_upcase_idem.

(* downcase (str::to_lowercase with its context-dependent final-sigma rule) is idempotent for every lowercase
   mapping with char outputs that are fixed points different from capital sigma, and any Cased/Case_Ignorable *)
Theorem C28_downcase_idem_any_table : forall (lower : N -> list N) (cased ign : N -> bool),
  (forall c, is_scalar_cp c = true -> Forall (fun d => is_scalar_cp d = true) (lower c)) ->
  (forall c d, In d (lower c) -> lower d = [d] /\ d <> capital_sigma) ->
  lower final_sigma = [final_sigma] -> lower small_sigma = [small_sigma] ->
  forall s : bytes,
    downcase_with lower cased ign (downcase_with lower cased ign s) = downcase_with lower cased ign s.
Proof. exact downcase_with_idem. Qed.
Print Assumptions C28_downcase_idem_any_table.

Theorem C28_downcase_idem : forall s : bytes, downcase (downcase s) = downcase s.
Proof. exact downcase_idem. Qed.
Print Assumptions C28_downcase_idem.

(* ======================= casing functions (convert_case), modelled on printable ASCII ======================= *)

(* snakecase, kebabcase and screamingsnakecase are idempotent *)
Theorem C28_snake_kebab_screaming_idem_ascii : forall s : bytes,
  snakecase (snakecase s) = snakecase s /\ kebabcase (kebabcase s) = kebabcase s
  /\ screamingsnakecase (screamingsnakecase s) = screamingsnakecase s.
Proof. intros s. split; [apply snakecase_idem | split; [apply kebabcase_idem | apply screamingsnakecase_idem]]. Qed.
Print Assumptions C28_snake_kebab_screaming_idem_ascii.

(* every word of the segmentation is non-empty, free of separators and has no letter|digit neighbours *)
Theorem C28_casing_words_ok : forall s : bytes, Forall okw (words s).
Proof. exact words_okw. Qed.
Print Assumptions C28_casing_words_ok.

(* KNOWN FINDING C28-casing-camel-resegmentation: camelcase("x_a_b") = "xAB" but camelcase("xAB") = "xAb";
   pascalcase("a_b") = "AB" but pascalcase("AB") = "Ab" *)
Theorem C28_camel_pascal_idem_refuted :
  (exists s, forallb printable s = true /\ camelcase (camelcase s) <> camelcase s)
  /\ (exists s, forallb printable s = true /\ pascalcase (pascalcase s) <> pascalcase s).
Proof. exact camel_pascal_not_idem. Qed.
Print Assumptions C28_camel_pascal_idem_refuted.

(* ======================= strip_whitespace ======================= *)

(* the table: exactly the 25 White_Space code points *)
Theorem C28_is_ws_spec : forall c : N, is_ws c = true <-> In c ws_cps.
Proof. exact is_ws_spec. Qed.
Print Assumptions C28_is_ws_spec.

(* the result is the input (after lossy UTF-8 conversion) minus a whitespace-only prefix and suffix, and it
   neither starts nor ends with whitespace: the removed prefix/suffix are maximal *)
Theorem C28_strip_ws_spec : forall s : bytes, exists pre t suf : list N,
  chars s = pre ++ t ++ suf /\ strip_ws s = str t
  /\ Forall (fun c => is_ws c = true) pre /\ Forall (fun c => is_ws c = true) suf
  /\ ((forall c r, t = c :: r -> is_ws c = false) /\ (forall c r, t = r ++ [c] -> is_ws c = false))
  /\ utf8_lossy s = str pre ++ strip_ws s ++ str suf.
Proof. exact strip_ws_spec. Qed.
Print Assumptions C28_strip_ws_spec.

Theorem C28_strip_ws_idem : forall s : bytes, strip_ws (strip_ws s) = strip_ws s.
Proof. exact strip_ws_idem. Qed.
Print Assumptions C28_strip_ws_idem.

(* ======================= split / join ======================= *)

(* join(split(s, d, limit), d) == s for every string pattern (the empty one included) and every limit >= 1
   (limit defaults to 999999999); with limit <= 0 split returns [] by design.  Invalid UTF-8 is replaced first. *)
Theorem C28_join_split : forall (s d : bytes) (limit : Z), (1 <= limit)%Z ->
  join_bytes (utf8_lossy d) (split_str s d limit) = utf8_lossy s.
Proof. exact join_split. Qed.
Print Assumptions C28_join_split.

Theorem C28_join_split_valid : forall (s d : bytes) (limit : Z), (1 <= limit)%Z ->
  valid_utf8 s = true -> valid_utf8 d = true -> join_bytes d (split_str s d limit) = s.
Proof. exact join_split_valid. Qed.
Print Assumptions C28_join_split_valid.

(* every piece of a split is valid UTF-8, so the law holds on the functions themselves (join converts each item
   lossily): join(split(s, d, limit: n), d) = s *)
Theorem C28_fn_join_split : forall (s d : bytes) (limit : Z), (1 <= limit)%Z ->
  exists l, fn_split (VBytes s) (VBytes d) (VInt limit) = ROk (VArr l)
            /\ fn_join (VArr l) (Some (VBytes d)) = ROk (VBytes (utf8_lossy s)).
Proof. exact fn_join_split. Qed.
Print Assumptions C28_fn_join_split.

Theorem C28_split_pieces_valid : forall (s d : bytes) (limit : Z),
  Forall (fun x => valid_utf8 x = true) (split_str s d limit).
Proof. exact split_pieces_valid. Qed.
Print Assumptions C28_split_pieces_valid.

(* ======================= starts_with / ends_with / contains ======================= *)

Theorem C28_starts_with_spec : forall s p : bytes, starts_with_cs s p = true <-> exists t, s = p ++ t.
Proof. exact starts_with_cs_spec. Qed.
Print Assumptions C28_starts_with_spec.

Theorem C28_ends_with_spec : forall s p : bytes,
  ends_with_cs s p = true <-> exists t, utf8_lossy s = t ++ utf8_lossy p.
Proof. exact ends_with_cs_spec. Qed.
Print Assumptions C28_ends_with_spec.

Theorem C28_contains_spec : forall s p : bytes,
  contains_cs s p = true <-> exists a b, utf8_lossy s = a ++ utf8_lossy p ++ b.
Proof. exact contains_cs_spec. Qed.
Print Assumptions C28_contains_spec.

(* the position found by the search (used by split) is the first one *)
Theorem C28_find_first : forall (p s b a : bytes), find_sub p s = Some (b, a) ->
  s = b ++ p ++ a /\ forall b1 b2, b = b1 ++ b2 -> b2 <> [] -> is_prefix p (b2 ++ p ++ a) = false.
Proof. intros p s b a H. split; [exact (find_sub_some p s b a H) | exact (find_sub_first p s b a H)]. Qed.
Print Assumptions C28_find_first.

(* case-insensitive ends_with/contains = the same search on the lowercased strings *)
Theorem C28_ci_spec : forall s p : bytes,
  (ends_with_ci s p = true <-> exists t, downcase s = t ++ downcase p)
  /\ (contains_ci s p = true <-> exists a b, downcase s = a ++ downcase p ++ b).
Proof. intros s p. split; [apply ends_with_ci_spec | apply contains_ci_spec]. Qed.
Print Assumptions C28_ci_spec.

(* KNOWN FINDING C28-ci-final-sigma: a case-sensitive match is not always a case-insensitive match *)
Theorem C28_ci_final_sigma_refuted : exists s p : bytes,
  valid_utf8 s = true /\ valid_utf8 p = true /\ contains_cs s p = true /\ contains_ci s p = false.
Proof. exists (utf8_of_cps [913; 931; 913]%N), (utf8_of_cps [913; 931]%N). vm_compute. repeat split. Qed.
Print Assumptions C28_ci_final_sigma_refuted.

(* KNOWN FINDING C28-starts-with-ci-zip: case-insensitive starts_with accepts a needle with more chars than the
   haystack ("K" U+212A vs "kk") *)
Theorem C28_starts_with_ci_refuted : exists s p : bytes,
  valid_utf8 s = true /\ valid_utf8 p = true /\ starts_with_ci s p = true
  /\ is_prefix (downcase p) (downcase s) = false /\ (List.length (chars s) < List.length (chars p))%nat.
Proof. exists (utf8_of_cps [8490]%N), (utf8_of_cps [107; 107]%N). vm_compute. repeat split; repeat constructor. Qed.
Print Assumptions C28_starts_with_ci_refuted.

(* ...and outside that class (every char of both strings lowercases to ONE char of the same UTF-8 length) the
   case-insensitive starts_with is exactly "the per-char lowercase of p is a prefix of that of s" *)
Theorem C28_starts_with_ci_spec : forall s p : bytes,
  valid_utf8 s = true -> valid_utf8 p = true -> KnownC28_sw_zip s p = false ->
  starts_with_ci s p = is_prefix (map low1 (utf8_chars p)) (map low1 (utf8_chars s)).
Proof. exact starts_with_ci_spec. Qed.
Print Assumptions C28_starts_with_ci_spec.

(* on arbitrary bytes (the Chars iterator yields Err(byte) for invalid UTF-8, two such items match iff equal): a
   case-sensitive match of a valid needle is a case-insensitive match, whatever the haystack; on valid UTF-8 the
   iterator yields exactly the chars *)
Theorem C28_starts_with_cs_implies_ci : forall s p : bytes,
  valid_utf8 p = true -> starts_with_cs s p = true -> starts_with_ci s p = true.
Proof. exact starts_with_cs_ci. Qed.
Print Assumptions C28_starts_with_cs_implies_ci.

Theorem C28_chars_iterator_valid : forall s : bytes,
  valid_utf8 s = true -> ci_items s = map CIok (utf8_chars s).
Proof. exact ci_items_valid. Qed.
Print Assumptions C28_chars_iterator_valid.

(* ======================= truncate / strlen ======================= *)

(* chars(truncate(s, limit, suffix)) <= max(limit, 0) + chars(suffix) *)
Theorem C28_truncate_len : forall (s : bytes) (limit : Z) (suffix : bytes),
  (nchars (truncate_str s limit suffix) <= limit_of limit + nchars suffix)%N.
Proof. exact truncate_len. Qed.
Print Assumptions C28_truncate_len.

(* short strings are returned unchanged; longer ones are cut after exactly `limit` chars and get the suffix *)
Theorem C28_truncate_spec : forall (s : bytes) (limit : Z) (suffix : bytes),
  ((nchars s <= limit_of limit)%N -> truncate_str s limit suffix = utf8_lossy s)
  /\ ((limit_of limit < nchars s)%N ->
      truncate_str s limit suffix = str (firstn (N.to_nat (limit_of limit)) (chars s)) ++ utf8_lossy suffix).
Proof. exact truncate_spec. Qed.
Print Assumptions C28_truncate_spec.

(* strlen counts Unicode scalar values *)
Theorem C28_strlen_utf8 : forall cps : list N, Forall (fun c => is_scalar_cp c = true) cps ->
  strlen (utf8_of_cps cps) = Z.of_nat (List.length cps).
Proof. exact strlen_utf8. Qed.
Print Assumptions C28_strlen_utf8.

(* ======================= slice / chunks ======================= *)

(* slice agrees with positional indexing (bytes are sliced by byte offsets, arrays by elements; negative
   start/end count from the end; an end past the length is clamped; errors exactly outside these bounds) *)
Theorem C28_slice_spec : forall (A : Type) (l : list A) (start : Z) (end_ : option Z),
  let len := Z.of_nat (List.length l) in
  let s := norm_idx start len in
  let e := match end_ with Some e => norm_idx e len | None => len end in
  if ((0 <=? s) && (s <=? len) && (s <=? e))%Z
  then exists r, slice_list l start end_ = Some r
                 /\ Z.of_nat (List.length r) = (Z.min e len - s)%Z
                 /\ forall i, (i < List.length r)%nat -> nth_error r i = nth_error l (Z.to_nat s + i)
  else slice_list l start end_ = None.
Proof. exact @slice_spec. Qed.
Print Assumptions C28_slice_spec.

Theorem C28_chunks_spec : forall (b : bytes) (n : Z), (1 <= n)%Z ->
  exists ps, fn_chunks (VBytes b) (VInt n) = ROk (VArr (map VBytes ps)) /\ List.concat ps = b
             /\ Forall (fun c => 1 <= Z.of_nat (List.length c) <= n)%Z ps.
Proof. exact chunks_spec. Qed.
Print Assumptions C28_chunks_spec.

(* ======================= unique ======================= *)

(* no element of the result equals (Rust `==` on Value: veq) an earlier one *)
Theorem C28_unique_nodup : forall l : list value, nodupv (unique_list l).
Proof. exact unique_nodup. Qed.
Print Assumptions C28_unique_nodup.

(* same elements: every input element has an equal one in the result, and the result invents nothing *)
Theorem C28_unique_same_elements : forall (l : list value) (x : value),
  (In x l -> memv x (unique_list l) = true) /\ (In x (unique_list l) -> In x l).
Proof. intros l x. split; [apply unique_complete | apply unique_sound]. Qed.
Print Assumptions C28_unique_same_elements.

(* first occurrences in order *)
Theorem C28_unique_first_occurrence : forall (x : value) (l : list value),
  unique_list (x :: l) = x :: unique_list (filter (fun y => negb (veq y x)) l).
Proof. exact unique_first_occurrence. Qed.
Print Assumptions C28_unique_first_occurrence.

Theorem C28_unique_idem : forall l : list value, unique_list (unique_list l) = unique_list l.
Proof. exact unique_idem. Qed.
Print Assumptions C28_unique_idem.

Theorem C28_veq_equiv : forall a b : value, veq a a = true /\ veq a b = veq b a.
Proof. intros a b. split; [apply veq_refl | apply veq_sym]. Qed.
Print Assumptions C28_veq_equiv.

(* ======================= compact ======================= *)

(* compact removes exactly the items that are configured-empty (after compacting them first when recursive) *)
Theorem C28_compact_spec : forall (o : compact_opts) (a : list value) (m : obj),
  compact_val o (VArr a) = VArr (filter (keep o) (map (recur o) a))
  /\ compact_val o (VObj m) = VObj (filter (fun kv => keep o (snd kv)) (map (fun kv => (fst kv, recur o (snd kv))) m)).
Proof. intros o a m. split; [apply compact_arr_spec | apply compact_obj_spec]. Qed.
Print Assumptions C28_compact_spec.

(* nothing configured-empty is left, at any depth when recursive; and compacting a clean value changes nothing *)
Theorem C28_compact_clean : forall (o : compact_opts) (v : value),
  clean o (compact_val o v) /\ (clean o v -> compact_val o v = v).
Proof. intros o v. split; [apply compact_clean | apply compact_clean_id]. Qed.
Print Assumptions C28_compact_clean.

Theorem C28_compact_idem : forall (o : compact_opts) (v : value),
  compact_val o (compact_val o v) = compact_val o v.
Proof. exact compact_idem. Qed.
Print Assumptions C28_compact_idem.

(* ======================= keys / values / length ======================= *)

Theorem C28_keys_values_length : forall m : obj,
  exists ks vs, fn_keys (VObj m) = ROk (VArr ks) /\ fn_values (VObj m) = ROk (VArr vs)
    /\ fn_length (VObj m) = ROk (VInt (Z.of_nat (List.length m)))
    /\ List.length ks = List.length m /\ List.length vs = List.length m
    /\ ks = map (fun kv => VBytes (fst kv)) m /\ vs = map snd m
    /\ (forall i k v, nth_error m i = Some (k, v) -> nth_error ks i = Some (VBytes k) /\ nth_error vs i = Some v).
Proof. exact keys_values_length. Qed.
Print Assumptions C28_keys_values_length.

(* ======================= merge ======================= *)

(* merge(a, b)[k] = b[k] on b's keys (recursively merged when deep and both fields are objects), a[k] elsewhere *)
Theorem C28_merge_right_bias : forall (deep : bool) (m1 m2 : obj) (k : bytes), NoDup (map fst m2) ->
  obj_get (merge_into deep m1 (VObj m2)) k =
  match obj_get m2 k with
  | Some x => Some (merged_field deep (obj_get m1 k) x)
  | None => obj_get m1 k
  end.
Proof. exact merge_right_bias. Qed.
Print Assumptions C28_merge_right_bias.

Theorem C28_merge_shallow : forall (m1 m2 : obj) (k : bytes), NoDup (map fst m2) ->
  obj_get (merge_into false m1 (VObj m2)) k = match obj_get m2 k with Some x => Some x | None => obj_get m1 k end.
Proof. exact merge_shallow_right_bias. Qed.
Print Assumptions C28_merge_shallow.

(* ======================= push / append / flatten ======================= *)

Theorem C28_push_append : forall (l r : list value) (x : value),
  (exists u, fn_push (VArr l) x = ROk (VArr u) /\ List.length u = S (List.length l) /\ nth_error u (List.length l) = Some x
             /\ forall i, (i < List.length l)%nat -> nth_error u i = nth_error l i)
  /\ fn_append (VArr l) (VArr r) = ROk (VArr (l ++ r)).
Proof. intros l r x. split; [apply push_spec | apply append_spec]. Qed.
Print Assumptions C28_push_append.

Theorem C28_flatten : forall l : list value,
  Forall not_array (flat_items (VArr l)) /\ flat_items (VArr (flat_items (VArr l))) = flat_items (VArr l).
Proof. intros l. split; [apply flatten_no_arrays | apply flatten_idem]. Qed.
Print Assumptions C28_flatten.

(* ======================= non-vacuity ======================= *)
Example C28_nonvacuous :
  (* hypotheses of the any-table theorems hold for the modelled tables *)
  (forall c d, In d (upper_cp c) -> upper_cp d = [d])
  /\ (forall c d, In d (lower_cp c) -> lower_cp d = [d] /\ d <> capital_sigma)
  (* ß -> SS, İ -> i + U+0307, final sigma *)
  /\ upcase (hx "c39f") = hx "5353" /\ downcase (hx "c4b0") = hx "69cc87"
  /\ downcase (hx "ce91cea3") = hx "ceb1cf82" /\ downcase (hx "ce91cea3ce91") = hx "ceb1cf83ceb1"
  (* split/join on an overlapping pattern, the empty pattern and a limit *)
  /\ split_str (hx "61616161") (hx "6161") 999999999 = [[]; []; []]
  /\ split_str (hx "616263") [] 3 = [[]; hx "61"; hx "6263"]
  /\ strip_ws (hx "e2808061c2a062e38080") = hx "61c2a062"
  /\ truncate_str (hx "68c3a96c6c6f") 2 (hx "e280a6") = hx "68c3a9e280a6"
  /\ slice_list (hx "616263") (-2) (Some 5%Z) = Some (hx "6263") /\ slice_list (hx "616263") 4 None = None
  /\ unique_list [VInt 1; VFloat (f64_of_bits 0); VInt 1; VFloat (f64_of_bits 0x8000000000000000)] = [VInt 1; VFloat (f64_of_bits 0)]
  /\ compact_val compact_defaults (VArr [VNull; VArr [VNull]; VBytes (hx "61"); VObj [(hx "6b", VBytes [])]]) = VArr [VBytes (hx "61")]
  /\ merge_into true [(hx "61", VObj [(hx "78", VInt 1)])] (VObj [(hx "61", VObj [(hx "79", VInt 2)])])
     = [(hx "61", VObj [(hx "78", VInt 1); (hx "79", VInt 2)])]
  /\ KnownC28_sw_zip (hx "c389c39f") (hx "c3a9") = false /\ starts_with_ci (hx "c389c39f") (hx "c3a9") = true
  /\ KnownC28_sw_zip (hx "e284aa") (hx "6b6b") = true
  (* invalid UTF-8: byte-wise on the invalid bytes, case-insensitive on the rest; a needle ending inside a char *)
  /\ starts_with_ci (hx "ff6162") (hx "ff41") = true /\ starts_with_ci (hx "6162") (hx "41ff") = false
  /\ starts_with_ci (hx "c3") (hx "c3") = true /\ starts_with_ci (hx "c3a9") (hx "c3") = false
  /\ snakecase (hx "763252656c6561736520584d4c48747470") = hx "765f325f72656c656173655f786d6c5f68747470"
  /\ NoDup (map fst [(hx "61", VObj [(hx "79", VInt 2)])]).
Proof.
  split; [exact upper_cp_stable|]. split; [exact lower_cp_stable|].
  vm_compute. repeat (split; [reflexivity|]). constructor; [intros []|constructor].
Qed.
