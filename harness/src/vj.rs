//! Lossless JSON encoding of vrl values and paths shared by all families.
//!   bytes  {"b": "<hex>"}      regex {"r": "<hex of pattern>"}   int {"i": "<decimal>"}
//!   float  {"f": "<16 hex digits of the IEEE-754 bits>"}         bool true/false   null null
//!   timestamp {"ts": "<nanoseconds since epoch, decimal>"}
//!   object {"o": [["<hex key>", value], ...]} (sorted by key bytes on output)   array {"a": [...]}
//!   path   [{"f": "<hex key>"} | {"i": "<decimal>"}, ...]
use serde_json::{json, Value as J};
use vrl::path::{OwnedSegment, OwnedValuePath};
use vrl::value::{ObjectMap, Value};

pub fn hex(b: &[u8]) -> String {
    let mut s = String::with_capacity(b.len() * 2);
    for x in b {
        s.push_str(&format!("{:02x}", x));
    }
    s
}
pub fn unhex(s: &str) -> Vec<u8> {
    (0..s.len() / 2)
        .map(|i| u8::from_str_radix(&s[2 * i..2 * i + 2], 16).unwrap())
        .collect()
}
pub fn unhex_str(s: &str) -> String {
    String::from_utf8(unhex(s)).expect("key must be utf-8")
}

pub fn to_json(v: &Value) -> J {
    match v {
        Value::Bytes(b) => json!({"b": hex(b)}),
        Value::Regex(r) => json!({"r": hex(r.as_str().as_bytes())}),
        Value::Integer(i) => json!({"i": i.to_string()}),
        Value::Float(f) => json!({"f": format!("{:016x}", f.into_inner().to_bits())}),
        Value::Boolean(b) => json!(*b),
        Value::Timestamp(t) => {
            let ns = (t.timestamp() as i128) * 1_000_000_000 + (t.timestamp_subsec_nanos() as i128);
            json!({"ts": ns.to_string()})
        }
        Value::Object(m) => {
            let mut kvs: Vec<(&[u8], J)> = m.iter().map(|(k, v)| (k.as_str().as_bytes(), to_json(v))).collect();
            kvs.sort_by(|a, b| a.0.cmp(b.0));
            J::Array(vec![]);
            json!({"o": kvs.into_iter().map(|(k, v)| json!([hex(k), v])).collect::<Vec<_>>()})
        }
        Value::Array(a) => json!({"a": a.iter().map(to_json).collect::<Vec<_>>()}),
        Value::Null => J::Null,
    }
}

pub fn from_json(j: &J) -> Value {
    match j {
        J::Null => Value::Null,
        J::Bool(b) => Value::Boolean(*b),
        J::Object(o) => {
            if let Some(b) = o.get("b") {
                Value::Bytes(unhex(b.as_str().unwrap()).into())
            } else if let Some(r) = o.get("r") {
                let pat = unhex_str(r.as_str().unwrap());
                Value::Regex(regex::Regex::new(&pat).expect("regex").into())
            } else if let Some(i) = o.get("i") {
                Value::Integer(i.as_str().unwrap().parse::<i64>().unwrap())
            } else if let Some(f) = o.get("f") {
                let bits = u64::from_str_radix(f.as_str().unwrap(), 16).unwrap();
                Value::Float(ordered_float::NotNan::new(f64::from_bits(bits)).expect("NaN float in case"))
            } else if let Some(t) = o.get("ts") {
                let ns: i128 = t.as_str().unwrap().parse().unwrap();
                let secs = ns.div_euclid(1_000_000_000) as i64;
                let sub = ns.rem_euclid(1_000_000_000) as u32;
                Value::Timestamp(chrono::DateTime::from_timestamp(secs, sub).expect("timestamp range"))
            } else if let Some(kvs) = o.get("o") {
                let mut m = ObjectMap::new();
                for kv in kvs.as_array().unwrap() {
                    let kv = kv.as_array().unwrap();
                    m.insert(unhex_str(kv[0].as_str().unwrap()).into(), from_json(&kv[1]));
                }
                Value::Object(m)
            } else if let Some(a) = o.get("a") {
                Value::Array(a.as_array().unwrap().iter().map(from_json).collect())
            } else {
                panic!("bad value json {j}")
            }
        }
        _ => panic!("bad value json {j}"),
    }
}

pub fn opt_to_json(v: Option<&Value>) -> J {
    match v {
        Some(v) => json!({"some": to_json(v)}),
        None => json!("none"),
    }
}

pub fn path_from_json(j: &J) -> OwnedValuePath {
    let segs = j
        .as_array()
        .unwrap()
        .iter()
        .map(|s| {
            if let Some(f) = s.get("f") {
                OwnedSegment::Field(unhex_str(f.as_str().unwrap()).into())
            } else {
                OwnedSegment::Index(s.get("i").unwrap().as_str().unwrap().parse::<isize>().unwrap())
            }
        })
        .collect();
    OwnedValuePath { segments: segs }
}

pub fn path_to_json(p: &OwnedValuePath) -> J {
    J::Array(
        p.segments
            .iter()
            .map(|s| match s {
                OwnedSegment::Field(f) => json!({"f": hex(f.as_str().as_bytes())}),
                OwnedSegment::Index(i) => json!({"i": i.to_string()}),
            })
            .collect(),
    )
}
