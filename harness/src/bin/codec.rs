//! C22: codec round trips through the stdlib's encode_*/decode_* functions.
//!
//! A case is a little script: an initial event `ev` (object of vj values) and `steps`, each a VRL
//! source plus the event field its (bytes) result is stored in for later steps:
//!   {"kind": "...", "ev": {"x": {"b": "68656c6c6f"}, "p": true},
//!    "steps": [{"src": "encode_base64!(.x, padding: .p)", "out": "e"}, {"src": "decode_base64!(.e)", "out": "d"}]}
//! `ev` values may also be given as a plain list of byte values (`"x": [104, 105]`) so that the generic
//! shrinker of checklib (which drops list elements) can shorten byte strings.
//! Every source is compiled once (cache keyed by the source text) with `vrl::stdlib::all()` and run by
//! `Runtime::resolve` on a `TargetValue`.  Per step the result is
//!   {"ok": <vj value>} | {"err": "error"} | {"err": "abort"} | {"err": "compile"} | {"panic": "<msg>"}
//! — error prose is never reported, only the class.
use serde_json::{json, Map, Value as J};
use std::cell::RefCell;
use std::collections::{BTreeMap, HashMap};
use std::rc::Rc;
use vrl::compiler::runtime::{Runtime, Terminate};
use vrl::compiler::{Program, TargetValue, TimeZone};
use vrl::value::{Secrets, Value};
use vrl_verif_harness::vj::*;

thread_local! {
    static CACHE: RefCell<HashMap<String, Option<Rc<Program>>>> = RefCell::new(HashMap::new());
    static FNS: Vec<Box<dyn vrl::compiler::Function>> = vrl::stdlib::all();
}

fn compiled(src: &str) -> Option<Rc<Program>> {
    if let Some(p) = CACHE.with(|c| c.borrow().get(src).cloned()) {
        return p;
    }
    let p = FNS.with(|fns| match vrl::compiler::compile(src, fns) {
        Ok(r) => Some(Rc::new(r.program)),
        Err(_) => None,
    });
    CACHE.with(|c| c.borrow_mut().insert(src.to_string(), p.clone()));
    p
}

fn ev_value(j: &J) -> Value {
    match j {
        J::Array(a) => {
            let b: Vec<u8> = a.iter().map(|x| x.as_u64().expect("byte") as u8).collect();
            Value::Bytes(b.into())
        }
        _ => from_json(j),
    }
}

fn run_step(src: &str, event: &Value) -> (J, Option<Value>) {
    let Some(prog) = compiled(src) else {
        return (json!({"err": "compile"}), None);
    };
    let ev = event.clone();
    let r = std::panic::catch_unwind(std::panic::AssertUnwindSafe(move || {
        let mut target = TargetValue {
            value: ev,
            metadata: Value::Object(BTreeMap::new()),
            secrets: Secrets::new(),
        };
        let mut rt = Runtime::default();
        rt.resolve(&mut target, &prog, &TimeZone::default())
    }));
    match r {
        Ok(Ok(v)) => (json!({"ok": to_json(&v)}), Some(v)),
        Ok(Err(Terminate::Error(_))) => (json!({"err": "error"}), None),
        Ok(Err(Terminate::Abort(_))) => (json!({"err": "abort"}), None),
        Err(e) => {
            let msg = if let Some(s) = e.downcast_ref::<&str>() {
                (*s).to_string()
            } else if let Some(s) = e.downcast_ref::<String>() {
                s.clone()
            } else {
                "?".to_string()
            };
            let short: String = msg.chars().take(160).collect();
            (json!({"panic": short}), None)
        }
    }
}

pub fn run(case: &J) -> J {
    let mut event = Value::Object(BTreeMap::new());
    if let Some(ev) = case.get("ev").and_then(|e| e.as_object()) {
        for (k, v) in ev {
            if let Value::Object(m) = &mut event {
                m.insert(k.as_str().into(), ev_value(v));
            }
        }
    }
    let mut out = Map::new();
    let mut results = Vec::new();
    for step in case["steps"].as_array().expect("steps") {
        let src = step["src"].as_str().expect("src");
        let (res, val) = run_step(src, &event);
        if let (Some(name), Some(v)) = (step.get("out").and_then(|o| o.as_str()), val) {
            if let Value::Object(m) = &mut event {
                m.insert(name.into(), v);
            }
        }
        results.push(res);
    }
    out.insert("steps".into(), J::Array(results));
    J::Object(out)
}

fn main() {
    vrl_verif_harness::main_loop(run);
}
