//! C28: string and collection functions of the stdlib, run through compiled VRL programs.
//!
//! A case is {"op": <name>, "args": [<vj value>, ...]}.  The arguments become the event fields
//! .a0, .a1, ... (so they are runtime values, never constants folded by the compiler) and the op
//! selects a fixed list of VRL sources (table `programs`); every source is compiled once and run by
//! `Runtime::resolve` on a fresh `TargetValue`.  Result:
//!   {"outs": [ {"ok": <vj>} | {"err": "error"} | {"err": "abort"} | {"err": "compile"} , ... ]}
//! or {"panic": "<msg>"} when any source panicked (error prose is never reported, only the class).
//!
//! Sweep ops take {"lo": n, "hi": n} (code point range, surrogates skipped) and drive the same
//! compiled programs once per code point:
//!   ws_sweep   -> {"ws": [c ...]}      code points c with strip_whitespace(c) == ""
//!   case_sweep -> {"bad_up": [c..], "bad_down": [c..], "bad_up_pt": [c..], "bad_down_pt": [c..]}
//!                 upcase/downcase not idempotent on the 1-char string / mapping not pointwise stable
//!   casetab    -> {"tab": [[c, [upper cps], [lower cps], p1, p2], ...]}   p1 = downcase(c ++ "Σ") ends in ς,
//!                 p2 = downcase("A" ++ c ++ "Σ") ends in ς  (probes for Cased / Case_Ignorable)
use serde_json::{json, Value as J};
use std::cell::RefCell;
use std::collections::{BTreeMap, HashMap};
use std::rc::Rc;
use vrl::compiler::runtime::{Runtime, Terminate};
use vrl::compiler::{Program, TargetValue, TimeZone};
use vrl::value::{Secrets, Value};
use vrl_verif_harness::vj::*;

thread_local! {
    static CACHE: RefCell<HashMap<String, Option<Rc<Program>>>> = RefCell::new(HashMap::new());
    static FNS: Vec<Box<dyn vrl::compiler::Function>> = vrl::stdlib::all();
}

fn compiled(src: &str) -> Option<Rc<Program>> {
    if let Some(p) = CACHE.with(|c| c.borrow().get(src).cloned()) {
        return p;
    }
    let p = FNS.with(|fns| match vrl::compiler::compile(src, fns) {
        Ok(r) => Some(Rc::new(r.program)),
        Err(_) => None,
    });
    CACHE.with(|c| c.borrow_mut().insert(src.to_string(), p.clone()));
    p
}

enum Out {
    Ok(Value),
    Err(&'static str),
    Panic(String),
}

fn run_src(src: &str, event: &Value) -> Out {
    let Some(prog) = compiled(src) else {
        return Out::Err("compile");
    };
    let ev = event.clone();
    let r = std::panic::catch_unwind(std::panic::AssertUnwindSafe(move || {
        let mut target = TargetValue {
            value: ev,
            metadata: Value::Object(BTreeMap::new()),
            secrets: Secrets::new(),
        };
        let mut rt = Runtime::default();
        rt.resolve(&mut target, &prog, &TimeZone::default())
    }));
    match r {
        Ok(Ok(v)) => Out::Ok(v),
        Ok(Err(Terminate::Error(_))) => Out::Err("error"),
        Ok(Err(Terminate::Abort(_))) => Out::Err("abort"),
        Err(e) => {
            let msg = if let Some(s) = e.downcast_ref::<&str>() {
                (*s).to_string()
            } else if let Some(s) = e.downcast_ref::<String>() {
                s.clone()
            } else {
                "?".to_string()
            };
            Out::Panic(msg.chars().take(160).collect())
        }
    }
}

/// op (with its argument count) -> the VRL sources whose results are reported, in order.
fn programs(op: &str, nargs: usize) -> Option<Vec<&'static str>> {
    Some(match (op, nargs) {
        ("upcase", 1) => vec!["upcase!(.a0)", "upcase!(upcase!(.a0))"],
        ("downcase", 1) => vec!["downcase!(.a0)", "downcase!(downcase!(.a0))"],
        ("casing", 1) => vec![
            "camelcase!(.a0)",
            "camelcase!(camelcase!(.a0))",
            "pascalcase!(.a0)",
            "pascalcase!(pascalcase!(.a0))",
            "snakecase!(.a0)",
            "snakecase!(snakecase!(.a0))",
            "screamingsnakecase!(.a0)",
            "screamingsnakecase!(screamingsnakecase!(.a0))",
            "kebabcase!(.a0)",
            "kebabcase!(kebabcase!(.a0))",
        ],
        ("strip", 1) => vec!["strip_whitespace!(.a0)", "strip_whitespace!(strip_whitespace!(.a0))"],
        ("split", 2) => vec!["split!(.a0, .a1)", "join!(split!(.a0, .a1), .a1)"],
        ("split", 3) => vec!["split!(.a0, .a1, limit: .a2)", "join!(split!(.a0, .a1, limit: .a2), .a1)"],
        ("join", 1) => vec!["join!(.a0)"],
        ("join", 2) => vec!["join!(.a0, .a1)"],
        ("starts_with", 2) => vec![
            "starts_with!(.a0, .a1)",
            "starts_with!(.a0, .a1, case_sensitive: false)",
            "downcase!(.a0)",
            "downcase!(.a1)",
        ],
        ("ends_with", 2) => vec![
            "ends_with!(.a0, .a1)",
            "ends_with!(.a0, .a1, case_sensitive: false)",
            "downcase!(.a0)",
            "downcase!(.a1)",
        ],
        ("contains", 2) => vec![
            "contains!(.a0, .a1)",
            "contains!(.a0, .a1, case_sensitive: false)",
            "downcase!(.a0)",
            "downcase!(.a1)",
        ],
        ("truncate", 2) => vec!["truncate!(.a0, .a1)", "strlen!(truncate!(.a0, .a1))", "strlen!(.a0)"],
        ("truncate", 3) => vec![
            "truncate!(.a0, .a1, suffix: .a2)",
            "strlen!(truncate!(.a0, .a1, suffix: .a2))",
            "strlen!(.a0)",
            "strlen!(.a2)",
        ],
        // .a1 (the code points the string was built from) is for the oracle only
        ("strlen", 2) => vec!["strlen!(.a0)", "length!(.a0)"],
        ("slice", 2) => vec!["slice!(.a0, .a1)"],
        ("slice", 3) => vec!["slice!(.a0, .a1, .a2)"],
        ("unique", 1) => vec!["unique!(.a0)", "unique!(unique!(.a0))"],
        ("compact", 1) => vec!["compact!(.a0)", "compact!(compact!(.a0))"],
        ("compact", 7) => vec![
            "compact!(.a0, recursive: .a1, null: .a2, string: .a3, object: .a4, array: .a5, nullish: .a6)",
            "x = compact!(.a0, recursive: .a1, null: .a2, string: .a3, object: .a4, array: .a5, nullish: .a6)\ncompact!(x, recursive: .a1, null: .a2, string: .a3, object: .a4, array: .a5, nullish: .a6)",
        ],
        ("kvl", 1) => vec![
            "keys!(.a0)",
            "values!(.a0)",
            "length!(.a0)",
            "length(keys!(.a0))",
            "length(values!(.a0))",
        ],
        ("length", 1) => vec!["length!(.a0)"],
        ("merge", 2) => vec!["merge!(.a0, .a1)"],
        ("merge", 3) => vec!["merge!(.a0, .a1, deep: .a2)"],
        ("push", 2) => vec!["push!(.a0, .a1)", "length(push!(.a0, .a1))"],
        ("append", 2) => vec!["append!(.a0, .a1)", "length(append!(.a0, .a1))"],
        ("flatten", 1) => vec!["flatten!(.a0)", "flatten!(flatten!(.a0))"],
        ("chunks", 2) => vec!["chunks!(.a0, .a1)"],
        _ => return None,
    })
}

fn event_of(args: &[Value]) -> Value {
    let mut m = BTreeMap::new();
    for (i, v) in args.iter().enumerate() {
        m.insert(format!("a{i}").as_str().into(), v.clone());
    }
    Value::Object(m)
}

fn bytes_of(v: &Out) -> Option<Vec<u8>> {
    match v {
        Out::Ok(Value::Bytes(b)) => Some(b.to_vec()),
        _ => None,
    }
}

fn run1(src: &str, s: &str) -> Option<Vec<u8>> {
    bytes_of(&run_src(src, &event_of(&[Value::Bytes(s.to_string().into())])))
}

fn cps(b: &[u8]) -> J {
    J::Array(String::from_utf8_lossy(b).chars().map(|c| json!(c as u32)).collect())
}

fn sweep(op: &str, case: &J) -> J {
    let lo = case["lo"].as_u64().expect("lo") as u32;
    let hi = case["hi"].as_u64().expect("hi") as u32;
    let chars = (lo..hi).filter_map(char::from_u32);
    match op {
        "ws_sweep" => {
            let mut ws = vec![];
            for c in chars {
                match run1("strip_whitespace!(.a0)", &c.to_string()) {
                    Some(b) if b.is_empty() => ws.push(json!(c as u32)),
                    Some(_) => {}
                    None => return json!({"harness_error": "strip_whitespace failed in sweep"}),
                }
            }
            json!({"ws": ws})
        }
        "case_sweep" => {
            // bad_up / bad_down: upcase(upcase(c)) != upcase(c) (resp. downcase) on the one-char string;
            // bad_up_pt / bad_down_pt: some char d of upcase(c) (resp. downcase(c)) is not itself a fixed point
            // of upcase (resp. downcase), or downcase(c) contains a capital sigma.
            let (mut bu, mut bd, mut bup, mut bdp) = (vec![], vec![], vec![], vec![]);
            for c in chars {
                let s = c.to_string();
                let u1 = run1("upcase!(.a0)", &s);
                let u2 = run1("upcase!(upcase!(.a0))", &s);
                let d1 = run1("downcase!(.a0)", &s);
                let d2 = run1("downcase!(downcase!(.a0))", &s);
                let (Some(u1), Some(d1)) = (u1, d1) else {
                    return json!({"harness_error": "upcase/downcase failed in sweep"});
                };
                if Some(&u1) != u2.as_ref() {
                    bu.push(json!(c as u32));
                }
                if Some(&d1) != d2.as_ref() {
                    bd.push(json!(c as u32));
                }
                let us = String::from_utf8_lossy(&u1).to_string();
                let ds = String::from_utf8_lossy(&d1).to_string();
                if us.chars().count() > 1 || us != s {
                    for d in us.chars() {
                        if run1("upcase!(.a0)", &d.to_string()) != Some(d.to_string().into_bytes()) {
                            bup.push(json!(c as u32));
                            break;
                        }
                    }
                }
                if ds.chars().count() > 1 || ds != s {
                    for d in ds.chars() {
                        if d == '\u{3a3}' || run1("downcase!(.a0)", &d.to_string()) != Some(d.to_string().into_bytes()) {
                            bdp.push(json!(c as u32));
                            break;
                        }
                    }
                }
            }
            json!({"bad_up": bu, "bad_down": bd, "bad_up_pt": bup, "bad_down_pt": bdp})
        }
        "casetab" => {
            let mut tab = vec![];
            for c in chars {
                let s = c.to_string();
                let (Some(u), Some(d)) = (run1("upcase!(.a0)", &s), run1("downcase!(.a0)", &s)) else {
                    return json!({"harness_error": "upcase/downcase failed in sweep"});
                };
                let p1 = run1("downcase!(.a0)", &format!("{c}\u{3a3}")).unwrap_or_default();
                let p2 = run1("downcase!(.a0)", &format!("A{c}\u{3a3}")).unwrap_or_default();
                let fin = "\u{3c2}".as_bytes();
                tab.push(json!([c as u32, cps(&u), cps(&d), p1.ends_with(fin), p2.ends_with(fin)]));
            }
            json!({"tab": tab})
        }
        _ => json!({"harness_error": format!("bad sweep {op}")}),
    }
}

pub fn run(case: &J) -> J {
    let op = case["op"].as_str().expect("op");
    if case.get("lo").is_some() {
        return sweep(op, case);
    }
    let args: Vec<Value> = case["args"].as_array().expect("args").iter().map(from_json).collect();
    let Some(progs) = programs(op, args.len()) else {
        return json!({"harness_error": format!("bad op {op}/{}", args.len())});
    };
    let event = event_of(&args);
    let mut outs = vec![];
    for src in progs {
        match run_src(src, &event) {
            Out::Ok(v) => outs.push(json!({"ok": to_json(&v)})),
            Out::Err(e) => outs.push(json!({"err": e})),
            Out::Panic(m) => return json!({"panic": m, "src": src}),
        }
    }
    json!({"outs": outs})
}

fn main() {
    vrl_verif_harness::main_loop(run);
}
