//! C35: the embedder type-conversion API `vrl::compiler::conversion::Conversion` (not a VRL function).
//!
//! A case:
//!   {"name": "<hex of the conversion name, UTF-8>", "tzs": ["UTC", "Europe/Berlin", "local", ...],
//!    "text": "<hex bytes>"}                                            -- convert this text, or
//!   {"name": .., "tzs": [..], "val": <vj value>, "render": {"kind": "display"}}      -- i64 / f64 / bool via Display
//!   {"name": .., "tzs": [..], "val": {"ts": ns}, "render": {"kind": "rfc3339"}}      -- DateTime::to_rfc3339()
//!   {"name": .., "tzs": [..], "val": {"ts": ns}, "render": {"kind": "fmt", "fmt": "<hex>", "tz": "Europe/Berlin"}}
//!        -- ts.with_timezone(tz).format(fmt)
//! Result:
//!   {"text": "<hex of the text that was converted>",
//!    "runs": [ per timezone:
//!       {"parse": "bytes"|"integer"|"float"|"boolean"|"timestamp"|{"tsfmt": hex}|{"tstzfmt": hex}|"unknown",
//!        "res": {"ok": <vj value>} | {"err": "bool"|"int"|"nan"|"float"|"ts"|"auto"} | {"panic": msg} | "none",
//!        "obs": {"local": [[hex fmt, null | [secs, nanos]], ..], "zoned": [[hex fmt, null | [secs, nanos]], ..],
//!                "rfc3339": null | [secs, nanos], "rfc2822": null | [secs, nanos]},
//!        "local_kind": "single"|"ambiguous"|"none"      (only when `val` is a timestamp: how many instants the civil
//!                                                        time of `val` in this timezone denotes)
//!       } ],
//!    "render_off": <offset of the rendering timezone at `val`, seconds>, "render_in_range": bool   (render kind "fmt")}
//! `obs` are the raw chrono results the conversion code is built on (the same calls, made through chrono's public
//! API): chrono::format::parse + Parsed::to_datetime_with_timezone for the zone-less formats, DateTime::parse_from_str
//! for the zoned ones, DateTime::parse_from_rfc3339 / parse_from_rfc2822; each as (timestamp(), timestamp_subsec_nanos()).
//! Error prose is never reported, only the class.
use bytes::Bytes;
use chrono::format::{parse, Parsed, StrftimeItems};
use chrono::{DateTime, FixedOffset, Local, MappedLocalTime, Offset as _, TimeZone as _};
use serde_json::{json, Value as J};
use std::fmt::Write as _;
use vrl::compiler::conversion::{Conversion, Error};
use vrl::compiler::TimeZone;
use vrl::value::Value;
use vrl_verif_harness::vj::*;

const LOCAL_FORMATS: &[&str] = &[
    "%F %T",
    "%v %T",
    "%FT%T",
    "%m/%d/%Y:%T",
    "%a, %d %b %Y %T",
    "%a %d %b %T %Y",
    "%A %d %B %T %Y",
    "%a %b %e %T %Y",
];
const TZ_FORMATS: &[&str] = &[
    "%+",
    "%a %d %b %T %Z %Y",
    "%a %d %b %T %z %Y",
    "%a %d %b %T %#z %Y",
    "%d/%b/%Y:%T %z",
];

fn pair<T: chrono::TimeZone>(d: &DateTime<T>) -> J {
    json!([d.timestamp().to_string(), d.timestamp_subsec_nanos().to_string()])
}

fn obs_local(tz: &TimeZone, s: &str, fmt: &str) -> J {
    let mut parsed = Parsed::new();
    if parse(&mut parsed, s, StrftimeItems::new(fmt)).is_err() {
        return J::Null;
    }
    match tz {
        TimeZone::Local => parsed.to_datetime_with_timezone(&Local).map(|d| pair(&d)).unwrap_or(J::Null),
        TimeZone::Named(tz) => parsed.to_datetime_with_timezone(tz).map(|d| pair(&d)).unwrap_or(J::Null),
    }
}

fn obs_zoned(s: &str, fmt: &str) -> J {
    DateTime::<FixedOffset>::parse_from_str(s, fmt).map(|d| pair(&d)).unwrap_or(J::Null)
}

fn conv_tag(c: &Conversion) -> J {
    match c {
        Conversion::Bytes => json!("bytes"),
        Conversion::Integer => json!("integer"),
        Conversion::Float => json!("float"),
        Conversion::Boolean => json!("boolean"),
        Conversion::Timestamp(_) => json!("timestamp"),
        Conversion::TimestampFmt(f, _) => json!({"tsfmt": hex(f.as_bytes())}),
        Conversion::TimestampTzFmt(f) => json!({"tstzfmt": hex(f.as_bytes())}),
    }
}

fn err_tag(e: &Error) -> &'static str {
    match e {
        Error::BoolParse { .. } => "bool",
        Error::IntParse { .. } => "int",
        Error::NanFloat { .. } => "nan",
        Error::FloatParse { .. } => "float",
        Error::TimestampParse { .. } => "ts",
        Error::AutoTimestampParse { .. } => "auto",
    }
}

fn panic_msg(e: Box<dyn std::any::Any + Send>) -> String {
    let msg = if let Some(s) = e.downcast_ref::<&str>() {
        (*s).to_string()
    } else if let Some(s) = e.downcast_ref::<String>() {
        s.clone()
    } else {
        "?".to_string()
    };
    msg.chars().take(160).collect()
}

fn render(case: &J) -> Vec<u8> {
    if let Some(t) = case.get("text") {
        return unhex(t.as_str().unwrap());
    }
    let val = from_json(&case["val"]);
    let r = &case["render"];
    match (r["kind"].as_str().unwrap(), &val) {
        ("display", Value::Integer(i)) => i.to_string().into_bytes(),
        ("display", Value::Float(f)) => f.into_inner().to_string().into_bytes(),
        ("exp", Value::Float(f)) => format!("{:e}", f.into_inner()).into_bytes(),
        ("display", Value::Boolean(b)) => b.to_string().into_bytes(),
        ("rfc3339", Value::Timestamp(t)) => t.to_rfc3339().into_bytes(),
        ("fmt", Value::Timestamp(t)) => {
            let fmt = unhex_str(r["fmt"].as_str().unwrap());
            let tz = TimeZone::parse(r["tz"].as_str().unwrap()).expect("render tz");
            let mut out = String::new();
            let ok = match tz {
                TimeZone::Local => write!(out, "{}", t.with_timezone(&Local).format(&fmt)),
                TimeZone::Named(z) => write!(out, "{}", t.with_timezone(&z).format(&fmt)),
            };
            ok.expect("format string not printable");
            out.into_bytes()
        }
        _ => panic!("bad render"),
    }
}

pub fn run(case: &J) -> J {
    let name = unhex_str(case["name"].as_str().unwrap());
    let text = render(case);
    let lossy = String::from_utf8_lossy(&text).to_string();
    let custom: Option<String> = name.splitn(2, '|').nth(1).map(|f| f.trim().to_string());
    let ts_val = match case.get("val").map(from_json) {
        Some(Value::Timestamp(t)) => Some(t),
        _ => None,
    };
    let mut runs = vec![];
    for tzs in case["tzs"].as_array().unwrap() {
        let tz = TimeZone::parse(tzs.as_str().unwrap()).expect("unknown timezone in case");
        let conv = Conversion::parse(&name, tz);
        let (ptag, res) = match &conv {
            Err(_) => (json!("unknown"), json!("none")),
            Ok(c) => {
                let c2 = c.clone();
                let b = Bytes::from(text.clone());
                let r = std::panic::catch_unwind(std::panic::AssertUnwindSafe(move || c2.convert::<Value>(b)));
                let res = match r {
                    Ok(Ok(v)) => json!({"ok": to_json(&v)}),
                    Ok(Err(e)) => json!({"err": err_tag(&e)}),
                    Err(e) => json!({"panic": panic_msg(e)}),
                };
                (conv_tag(c), res)
            }
        };
        // the chrono calls the conversion is built on
        let mut lf: Vec<String> = LOCAL_FORMATS.iter().map(|s| s.to_string()).collect();
        let mut zf: Vec<String> = TZ_FORMATS.iter().map(|s| s.to_string()).collect();
        if let Some(f) = &custom {
            lf.push(f.clone());
            zf.push(f.clone());
        }
        let local: Vec<J> = lf
            .iter()
            .map(|f| {
                let o = std::panic::catch_unwind(std::panic::AssertUnwindSafe(|| obs_local(&tz, &lossy, f)))
                    .unwrap_or(json!("panic"));
                json!([hex(f.as_bytes()), o])
            })
            .collect();
        let zoned: Vec<J> = zf.iter().map(|f| json!([hex(f.as_bytes()), obs_zoned(&lossy, f)])).collect();
        let r3339 = DateTime::parse_from_rfc3339(&lossy).map(|d| pair(&d)).unwrap_or(J::Null);
        let r2822 = DateTime::parse_from_rfc2822(&lossy).map(|d| pair(&d)).unwrap_or(J::Null);
        let mut run = json!({"parse": ptag, "res": res,
            "obs": {"local": local, "zoned": zoned, "rfc3339": r3339, "rfc2822": r2822}});
        if let Some(t) = ts_val {
            let kind = |m: MappedLocalTime<()>| match m {
                MappedLocalTime::Single(_) => "single",
                MappedLocalTime::Ambiguous(_, _) => "ambiguous",
                MappedLocalTime::None => "none",
            };
            // near the ends of chrono's range the civil time in a non-UTC zone is not representable (chrono panics)
            let k = std::panic::catch_unwind(std::panic::AssertUnwindSafe(|| match tz {
                TimeZone::Local => {
                    let n = t.with_timezone(&Local).naive_local();
                    kind(Local.from_local_datetime(&n).map(|_| ()))
                }
                TimeZone::Named(z) => {
                    let n = t.with_timezone(&z).naive_local();
                    kind(z.from_local_datetime(&n).map(|_| ()))
                }
            }))
            .unwrap_or("none");
            run["local_kind"] = json!(k);
        }
        runs.push(run);
    }
    let mut out = json!({"text": hex(&text), "runs": runs});
    // how faithful the rendering can be: the offset of the rendering timezone at that instant (chrono prints whole
    // minutes only) and whether the civil time there is inside chrono's date range
    if let (Some(t), Some(rtz)) = (ts_val, case.get("render").and_then(|r| r.get("tz")).and_then(|z| z.as_str())) {
        let off: FixedOffset = match TimeZone::parse(rtz).expect("render tz") {
            TimeZone::Local => Local.offset_from_utc_datetime(&t.naive_utc()).fix(),
            TimeZone::Named(z) => z.offset_from_utc_datetime(&t.naive_utc()).fix(),
        };
        out["render_off"] = json!(off.local_minus_utc());
        out["render_in_range"] = json!(t.naive_utc().checked_add_offset(off).is_some());
    }
    out
}

fn main() {
    vrl_verif_harness::main_loop(run)
}
