//! C18: Value::get / insert / remove on (value, path[, x, prune, q]).
//! Besides the operation's own outputs it reports the reads the property's laws talk about
//! (get p before/after, get q before/after) so the laws can be judged on the implementation alone.
use vrl_verif_harness::vj::*;
use serde_json::{json, Value as J};

pub fn run(case: &J) -> J {
    let v = from_json(&case["v"]);
    let p = path_from_json(&case["p"]);
    let q = case.get("q").map(path_from_json);
    match case["op"].as_str().unwrap() {
        "get" => json!({"res": opt_to_json(v.get(&p))}),
        "insert" => {
            let x = from_json(&case["x"]);
            let mut v2 = v.clone();
            let prev = v2.insert(&p, x);
            let mut out = json!({"res": opt_to_json(prev.as_ref()), "v": to_json(&v2),
                   "get_p_before": opt_to_json(v.get(&p)), "get_p_after": opt_to_json(v2.get(&p))});
            if let Some(q) = q {
                out["get_q_before"] = opt_to_json(v.get(&q));
                out["get_q_after"] = opt_to_json(v2.get(&q));
            }
            out
        }
        "remove" => {
            let prune = case["prune"].as_bool().unwrap();
            let mut v2 = v.clone();
            let prev = v2.remove(&p, prune);
            json!({"res": opt_to_json(prev.as_ref()), "v": to_json(&v2),
                   "get_p_before": opt_to_json(v.get(&p)), "get_p_after": opt_to_json(v2.get(&p))})
        }
        o => json!({"harness_error": format!("bad op {o}")}),
    }
}

fn main() {
    vrl_verif_harness::main_loop(run);
}
