//! C21: JSON encode / parse through the VRL stdlib functions and through serde directly.
//!
//! ops
//!   {"op":"enc","v":value[, "wrap":[n,"a"|"o"]]}      (wrap: n more levels of [v] / {"k": v} around v)
//!       -> {"c": hex of encode_json(.v), "p": hex of encode_json(.v, pretty: true),
//!           "sc": hex of serde_json::to_string(&v), "sp": hex of serde_json::to_string_pretty(&v),
//!           "rc": parse_json!(c), "rp": parse_json!(p)            ({"ok": value} | {"err": msg}),
//!           "src": serde_json::from_str::<Value>(sc), "srp": ...(sp),
//!           "floats": [[bits hex, hex of serde_json::to_string(&Value::Float)], ...] (every float in v),
//!           "tss": [[ns, hex of the timestamp's JSON string contents], ...]}
//!   {"op":"parse","s":hex bytes[, "max_depth": n]}
//!       -> {"r": parse_json!(.s), "strict": parse_json!(.s, lossy: false),
//!           "serde": serde_json::from_str::<Value>(s) | null when s is not UTF-8,
//!           "md": parse_json!(.s, max_depth: n) when max_depth is given,
//!           "lossy": hex of the lossy UTF-8 conversion of s (what Value::Bytes serialises as),
//!           "again": parse_json!(encode_json(x)) when r is {"ok": x}, else null}
use serde_json::{json, Value as J};
use std::cell::RefCell;
use std::collections::BTreeMap;
use vrl::compiler::runtime::{Runtime, Terminate};
use vrl::compiler::{Program, TargetValue, TimeZone};
use vrl::value::{Secrets, Value};
use vrl_verif_harness::vj::*;

struct Progs {
    enc: Program,
    enc_pretty: Program,
    parse: Program,
    parse_strict: Program,
    parse_md: Program,
}

fn compile(src: &str) -> Program {
    vrl::compiler::compile(src, &vrl::stdlib::all()).expect("harness program compiles").program
}

thread_local! {
    static PROGS: RefCell<Option<Progs>> = const { RefCell::new(None) };
}

fn with_progs<T>(f: impl FnOnce(&Progs) -> T) -> T {
    PROGS.with(|p| {
        let mut p = p.borrow_mut();
        if p.is_none() {
            *p = Some(Progs {
                enc: compile("encode_json(.v)"),
                enc_pretty: compile("encode_json(.v, pretty: true)"),
                parse: compile("parse_json!(.s)"),
                parse_strict: compile("parse_json!(.s, lossy: false)"),
                parse_md: compile("parse_json!(.s, max_depth: .d)"),
            });
        }
        f(p.as_ref().unwrap())
    })
}

fn run_prog(p: &Program, event: Value) -> Result<Value, String> {
    let mut target = TargetValue { value: event, metadata: Value::Object(BTreeMap::new()), secrets: Secrets::new() };
    let mut rt = Runtime::default();
    match rt.resolve(&mut target, p, &TimeZone::default()) {
        Ok(v) => Ok(v),
        Err(Terminate::Abort(e)) => Err(e.to_string()),
        Err(Terminate::Error(e)) => Err(e.to_string()),
    }
}

fn res_json(r: Result<Value, String>) -> J {
    match r {
        Ok(v) => json!({"ok": to_json(&v)}),
        Err(e) => json!({"err": e}),
    }
}

fn event1(k: &str, v: Value) -> Value {
    let mut m = BTreeMap::new();
    m.insert(k.into(), v);
    Value::Object(m)
}

fn collect(v: &Value, floats: &mut Vec<J>, tss: &mut Vec<J>) {
    match v {
        Value::Float(f) => {
            let s = serde_json::to_string(v).unwrap();
            floats.push(json!([format!("{:016x}", f.into_inner().to_bits()), hex(s.as_bytes())]));
        }
        Value::Timestamp(_) => {
            let s = serde_json::to_string(v).unwrap();
            let inner = &s.as_bytes()[1..s.len() - 1];
            let ns = to_json(v)["ts"].clone();
            tss.push(json!([ns, hex(inner)]));
        }
        Value::Object(m) => m.values().for_each(|x| collect(x, floats, tss)),
        Value::Array(a) => a.iter().for_each(|x| collect(x, floats, tss)),
        _ => {}
    }
}

fn text_of(r: Result<Value, String>) -> Result<Vec<u8>, String> {
    match r? {
        Value::Bytes(b) => Ok(b.to_vec()),
        other => Err(format!("encode_json returned a non-string: {other}")),
    }
}

pub fn run(case: &J) -> J {
    match case["op"].as_str().unwrap() {
        "enc" => {
            let mut v = from_json(&case["v"]);
            // {"wrap": [n, "a"|"o"]}: n more levels of [v] / {"k": v} around v (the case file itself cannot nest
            // deeper than serde_json's own recursion limit)
            if let Some(w) = case.get("wrap") {
                for _ in 0..w[0].as_u64().unwrap() {
                    v = if w[1].as_str() == Some("o") { event1("k", v) } else { Value::Array(vec![v]) };
                }
            }
            let (c, p) = with_progs(|pr| {
                (text_of(run_prog(&pr.enc, event1("v", v.clone()))), text_of(run_prog(&pr.enc_pretty, event1("v", v.clone()))))
            });
            let (c, p) = match (c, p) {
                (Ok(c), Ok(p)) => (c, p),
                (c, p) => return json!({"harness_error": format!("encode_json failed: {:?} {:?}", c.err(), p.err())}),
            };
            let sc = serde_json::to_string(&v).unwrap();
            let sp = serde_json::to_string_pretty(&v).unwrap();
            let (rc, rp) = with_progs(|pr| {
                (run_prog(&pr.parse, event1("s", Value::Bytes(c.clone().into()))), run_prog(&pr.parse, event1("s", Value::Bytes(p.clone().into()))))
            });
            let src = serde_json::from_str::<Value>(&sc).map_err(|e| e.to_string());
            let srp = serde_json::from_str::<Value>(&sp).map_err(|e| e.to_string());
            let mut floats = vec![];
            let mut tss = vec![];
            collect(&v, &mut floats, &mut tss);
            json!({"c": hex(&c), "p": hex(&p), "sc": hex(sc.as_bytes()), "sp": hex(sp.as_bytes()),
                   "rc": res_json(rc), "rp": res_json(rp), "src": res_json(src), "srp": res_json(srp),
                   "floats": floats, "tss": tss})
        }
        "parse" => {
            let s = unhex(case["s"].as_str().unwrap());
            let sv = Value::Bytes(s.clone().into());
            let (r, strict) = with_progs(|pr| (run_prog(&pr.parse, event1("s", sv.clone())), run_prog(&pr.parse_strict, event1("s", sv.clone()))));
            let serde = match std::str::from_utf8(&s) {
                Ok(t) => res_json(serde_json::from_str::<Value>(t).map_err(|e| e.to_string())),
                Err(_) => J::Null,
            };
            let lossy = {
                // what a Value::Bytes serialises as: "<lossy text>" for texts without characters to escape
                let t = serde_json::to_value(&sv).unwrap();
                hex(t.as_str().unwrap().as_bytes())
            };
            // a parsed document printed and parsed again
            let again = match &r {
                Ok(x) => with_progs(|pr| match text_of(run_prog(&pr.enc, event1("v", x.clone()))) {
                    Ok(t) => res_json(run_prog(&pr.parse, event1("s", Value::Bytes(t.into())))),
                    Err(e) => json!({"err": e}),
                }),
                Err(_) => J::Null,
            };
            let mut out = json!({"r": res_json(r), "strict": res_json(strict), "serde": serde, "lossy": lossy, "again": again});
            if let Some(d) = case.get("max_depth") {
                let d = d.as_i64().unwrap();
                let mut m = BTreeMap::new();
                m.insert("s".into(), sv.clone());
                m.insert("d".into(), Value::Integer(d));
                out["md"] = res_json(with_progs(|pr| run_prog(&pr.parse_md, Value::Object(m))));
            }
            out
        }
        o => json!({"harness_error": format!("bad op {o}")}),
    }
}

fn main() {
    vrl_verif_harness::main_loop(run);
}
