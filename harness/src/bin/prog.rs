//! Core-VRL program family: compile a VRL source text with the real lexer/parser/compiler and run it
//! on an event.  Used by C06-C09, C13 (and later C01/C02/C12/C15-C17/C34).
//! case: {"src": <utf-8 hex of the source>, "event": value, "meta": value?, "vars": [names], "tz": "UTC"?,
//!        "ro": [{"path": "<target path text>", "recursive": bool}]?, "runs": n?}
//! result: {"compile": "ok"|"err", "diags": [...], "warnings": [...],
//!          "result": {"ok": v} | {"abort": msg-hex|null} | {"error": msg}, "event": v, "meta": v,
//!          "vars": {name: {"some": v} | "none"}, "info": {...}}
use serde_json::{json, Value as J};
use std::collections::BTreeMap;
use vrl::compiler::runtime::{Runtime, Terminate};
use vrl::compiler::state::RuntimeState;
use vrl::compiler::{CompileConfig, Context, ExpressionError, TargetValue, TimeZone, TypeState};
use vrl::diagnostic::{DiagnosticList, Severity};
use vrl::path::parse_target_path;
use vrl::value::{Secrets, Value};
use vrl_verif_harness::vj::*;

pub fn diags_json(d: &DiagnosticList, src_len: usize) -> J {
    let _ = src_len;
    J::Array(
        d.iter()
            .map(|x| {
                json!({"code": x.code, "severity": match x.severity { Severity::Bug => "bug", Severity::Error => "error", Severity::Warning => "warning", Severity::Note => "note" },
                       "message": x.message,
                       "labels": x.labels.iter().map(|l| json!({"start": l.span.start(), "end": l.span.end(), "primary": l.primary, "message": l.message})).collect::<Vec<_>>()})
            })
            .collect(),
    )
}

/// TargetValue wrapper that logs every Target operation and rejects the operations the fault
/// schedule marks (n-th operation fails iff faults[n]; the runtime's own root read is operation 0).
#[derive(Debug)]
struct LogTarget {
    inner: TargetValue,
    log: std::cell::RefCell<Vec<J>>,
    faults: Vec<bool>,
    /// false: a marked operation returns Err; true: it pretends success without doing anything
    /// (a read sees "missing") - the reference behaviour C17 states for rejected operations
    skip: bool,
    n: std::cell::Cell<usize>,
}

impl LogTarget {
    fn next_bad(&self) -> bool {
        let i = self.n.get();
        self.n.set(i + 1);
        self.faults.get(i).copied().unwrap_or(false)
    }
    fn note(&self, op: &str, p: &vrl::path::OwnedTargetPath, compact: Option<bool>) {
        let pfx = match p.prefix { vrl::path::PathPrefix::Event => "event", vrl::path::PathPrefix::Metadata => "meta" };
        self.log.borrow_mut().push(json!({"op": op, "pfx": pfx, "path": path_to_json(&p.path), "compact": compact}));
    }
}

impl vrl::compiler::Target for LogTarget {
    fn target_insert(&mut self, p: &vrl::path::OwnedTargetPath, v: Value) -> Result<(), String> {
        self.note("ins", p, None);
        if self.next_bad() { return if self.skip { Ok(()) } else { Err("injected fault".into()) }; }
        self.inner.target_insert(p, v)
    }
    fn target_get(&self, p: &vrl::path::OwnedTargetPath) -> Result<Option<&Value>, String> {
        self.note("get", p, None);
        if self.next_bad() { return if self.skip { Ok(None) } else { Err("injected fault".into()) }; }
        self.inner.target_get(p)
    }
    fn target_get_mut(&mut self, p: &vrl::path::OwnedTargetPath) -> Result<Option<&mut Value>, String> {
        self.note("getmut", p, None);
        if self.next_bad() { return if self.skip { Ok(None) } else { Err("injected fault".into()) }; }
        self.inner.target_get_mut(p)
    }
    fn target_remove(&mut self, p: &vrl::path::OwnedTargetPath, compact: bool) -> Result<Option<Value>, String> {
        self.note("rem", p, Some(compact));
        if self.next_bad() { return if self.skip { Ok(None) } else { Err("injected fault".into()) }; }
        self.inner.target_remove(p, compact)
    }
}

impl vrl::compiler::SecretTarget for LogTarget {
    fn get_secret(&self, key: &str) -> Option<&str> { self.inner.get_secret(key) }
    fn insert_secret(&mut self, key: &str, value: &str) { self.inner.insert_secret(key, value) }
    fn remove_secret(&mut self, key: &str) { self.inner.remove_secret(key) }
}

fn tp_json(p: &vrl::path::OwnedTargetPath) -> J {
    let pfx = match p.prefix { vrl::path::PathPrefix::Event => "event", vrl::path::PathPrefix::Metadata => "meta" };
    json!({"pfx": pfx, "path": path_to_json(&p.path), "text": p.to_string()})
}

fn faults_of(case: &J) -> Vec<bool> {
    case.get("faults").and_then(|f| f.as_array()).map(|a| a.iter().map(|b| b.as_bool().unwrap_or(false)).collect()).unwrap_or_default()
}

fn tz_of(case: &J) -> TimeZone {
    match case.get("tz").and_then(|t| t.as_str()) {
        None | Some("UTC") => TimeZone::Named(chrono_tz::UTC),
        Some("local") => TimeZone::Local,
        Some(name) => TimeZone::parse(name).expect("timezone"),
    }
}

fn outcome(r: Result<Value, Terminate>) -> J {
    match r {
        Ok(v) => json!({"ok": to_json(&v)}),
        Err(Terminate::Abort(ExpressionError::Abort { message, .. })) => {
            json!({"abort": message.map(|m| hex(m.as_bytes()))})
        }
        Err(Terminate::Abort(e)) => json!({"abort_other": e.to_string()}),
        Err(Terminate::Error(e)) => json!({"error": e.to_string()}),
    }
}

pub fn run(case: &J) -> J {
    let src = unhex_str(case["src"].as_str().unwrap());
    let fns = vrl::stdlib::all();
    let mut config = CompileConfig::default();
    if let Some(ro) = case.get("ro").and_then(|r| r.as_array()) {
        for r in ro {
            let p = parse_target_path(r["path"].as_str().unwrap()).expect("ro path");
            config.set_read_only_path(p, r["recursive"].as_bool().unwrap_or(false));
        }
    }
    if case.get("no_unused_check").and_then(|b| b.as_bool()).unwrap_or(false) {
        config.disable_unused_expression_check();
    }
    let state = TypeState::default();
    let compiled = std::panic::catch_unwind(std::panic::AssertUnwindSafe(|| {
        vrl::compiler::compile_with_state(&src, &fns, &state, config)
    }));
    let res = match compiled {
        Err(_) => return json!({"compile": "panic"}),
        Ok(Ok(r)) => r,
        Ok(Err(d)) => {
            return json!({"compile": "err", "diags": diags_json(&d, src.len())});
        }
    };
    let program = res.program;
    let tz = tz_of(case);
    let event = from_json(&case["event"]);
    let meta = case.get("meta").map(from_json).unwrap_or_else(|| Value::Object(BTreeMap::new()));

    let skip = case.get("fault_mode").and_then(|m| m.as_str()) == Some("skip");
    // official run through Runtime::resolve
    let mut ltarget = LogTarget { inner: TargetValue { value: event.clone(), metadata: meta.clone(), secrets: Secrets::new() },
                                  log: Default::default(), faults: faults_of(case), skip, n: Default::default() };
    let mut runtime = Runtime::default();
    let r1 = runtime.resolve(&mut ltarget, &program, &tz);
    let mut log = ltarget.log.into_inner();
    if !log.is_empty() { log.remove(0); }   // the runtime's own root read
    let target = ltarget.inner;

    // second run on a state we can inspect afterwards (same mapping as Runtime::resolve)
    let mut target2 = LogTarget { inner: TargetValue { value: event, metadata: meta, secrets: Secrets::new() },
                                  log: Default::default(), faults: { let mut f = faults_of(case); if !f.is_empty() { f.remove(0); } f }, skip, n: Default::default() };
    let mut rstate = RuntimeState::default();
    let r2 = {
        let mut ctx = Context::new(&mut target2, &mut rstate, &tz);
        match program.resolve(&mut ctx) {
            Ok(value) | Err(ExpressionError::Return { value, .. }) => Ok(value),
            Err(err @ (ExpressionError::Abort { .. } | ExpressionError::Fallible { .. } | ExpressionError::Missing { .. })) => Err(Terminate::Abort(err)),
            Err(err @ ExpressionError::Error { .. }) => Err(Terminate::Error(err)),
        }
    };
    let root_rejected = faults_of(case).first().copied().unwrap_or(false);
    let mut vars = serde_json::Map::new();
    if let Some(names) = case.get("vars").and_then(|v| v.as_array()) {
        for n in names {
            let n = n.as_str().unwrap();
            // when the runtime's root read is rejected nothing runs: no variable is ever set
            let v = if root_rejected { None } else { rstate.variable(&vrl::parser::ast::Ident::new(n)) };
            vars.insert(n.to_string(), opt_to_json(v));
        }
    }
    // C01/C08: do the final event and metadata belong to the kinds the compiler reports for the end of the program?
    let fti = program.final_type_info();
    let type_ok = json!({"event": vrl_verif_harness::member::member(&target.value, fti.state.external.target_kind()),
                         "meta": vrl_verif_harness::member::member(&target.metadata, fti.state.external.metadata_kind()),
                         "event_kind": fti.state.external.target_kind().to_string().chars().take(300).collect::<String>()});
    let info = program.info();
    let o1 = outcome(r1);
    let o2 = outcome(r2);
    json!({"compile": "ok", "warnings": diags_json(&res.warnings, src.len()),
           "result": o1, "consistent": faults_of(case).first().copied().unwrap_or(false) || (o1 == o2 && target.value == target2.inner.value && target.metadata == target2.inner.metadata),
           "log": log,
           "event": to_json(&target.value), "meta": to_json(&target.metadata), "vars": J::Object(vars), "type_ok": type_ok,
           "info": {"fallible": info.fallible, "abortable": info.abortable,
                    "queries": info.target_queries.iter().map(tp_json).collect::<Vec<_>>(),
                    "assignments": info.target_assignments.iter().map(tp_json).collect::<Vec<_>>()}})
}

fn main() {
    vrl_verif_harness::main_loop(run);
}
