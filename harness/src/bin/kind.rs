//! C19: Kind::{at_path, get, insert, remove, union, merge, is_superset} next to the value-level
//! get/insert/remove, plus a membership function `member(value, kind)` written here independently
//! of the kind operations (only accessors are used), so that "type abstraction is sound" can be
//! judged on the implementation alone.
//!
//! JSON encoding of a Kind (Kind has no serde; everything goes through the public API):
//!   kind  {"p": "<subset of bifBtrnu>", "a": null | coll, "o": null | coll}
//!          b bytes, i integer, f float, B boolean, t timestamp, r regex, n null, u undefined
//!   coll  {"k": [[key, kind], ...], "u": unknown}    key: decimal index (arrays) / hex field (objects)
//!   unknown  {"x": kind}            exact (on input passed through `From<Kind> for Unknown`, which turns
//!                                   is_any / is_json kinds into the infinite variants; on output the kind
//!                                   `unknown_kind()` reports, i.e. with `undefined` forced on)
//!            {"inf": "<subset of bifBtrnao>"}   infinite (input: only any and json can be built)
//!   input only: {"union": [kind, kind]} = Kind::union of the two
use serde_json::{json, Value as J};
use std::collections::BTreeMap;
use vrl::value::kind::merge::{CollisionStrategy, Strategy};
use vrl::value::kind::{Collection, Field, Index};
use vrl::value::{Kind, Value};
use vrl_verif_harness::vj::*;

fn prims_to_string(k: &Kind) -> String {
    let mut s = String::new();
    if k.is_never() {
        return s;
    }
    if k.contains_bytes() { s.push('b'); }
    if k.contains_integer() { s.push('i'); }
    if k.contains_float() { s.push('f'); }
    if k.contains_boolean() { s.push('B'); }
    if k.contains_timestamp() { s.push('t'); }
    if k.contains_regex() { s.push('r'); }
    if k.contains_null() { s.push('n'); }
    if k.contains_undefined() { s.push('u'); }
    s
}

fn unknown_to_json(exact: bool, uk: &Kind) -> J {
    if exact {
        json!({"x": kind_to_json(uk)})
    } else {
        // Kind::from(infinite).or_undefined(): the flags are those of the infinite
        let mut s = prims_to_string(uk).replace('u', "");
        if uk.as_array().is_some() { s.push('a'); }
        if uk.as_object().is_some() { s.push('o'); }
        json!({"inf": s})
    }
}

pub fn kind_to_json(k: &Kind) -> J {
    let a = match k.as_array() {
        None => J::Null,
        Some(c) => {
            let known: Vec<J> = c.known().iter().map(|(i, kk)| json!([i.to_usize().to_string(), kind_to_json(kk)])).collect();
            json!({"k": known, "u": unknown_to_json(c.is_unknown_exact(), &c.unknown_kind())})
        }
    };
    let o = match k.as_object() {
        None => J::Null,
        Some(c) => {
            let mut known: Vec<(&[u8], J)> = c.known().iter().map(|(f, kk)| (f.as_str().as_bytes(), kind_to_json(kk))).collect();
            known.sort_by(|x, y| x.0.cmp(y.0));
            let known: Vec<J> = known.into_iter().map(|(f, kk)| json!([hex(f), kk])).collect();
            json!({"k": known, "u": unknown_to_json(c.is_unknown_exact(), &c.unknown_kind())})
        }
    };
    json!({"p": prims_to_string(k), "a": a, "o": o})
}

fn coll_from_json<T: Ord + Clone>(j: &J, key: fn(&str) -> T) -> Collection<T> {
    let mut known: BTreeMap<T, Kind> = BTreeMap::new();
    for kv in j["k"].as_array().unwrap() {
        known.insert(key(kv[0].as_str().unwrap()), kind_from_json(&kv[1]));
    }
    let u = &j["u"];
    if let Some(x) = u.get("x") {
        Collection::from_parts(known, kind_from_json(x))
    } else {
        let flags = u["inf"].as_str().unwrap();
        let mut c = match flags {
            "bifBtrnao" => Collection::any(),
            "bifBnao" => Collection::json(),
            _ => panic!("infinite unknown {flags} cannot be built through the public API"),
        };
        *c.known_mut() = known;
        c
    }
}

pub fn kind_from_json(j: &J) -> Kind {
    // {"union": [k1, k2]}: a kind obtained by Kind::union (some shapes, e.g. an exact unknown whose kind
    // has every state, cannot be built directly)
    if let Some(u) = j.get("union") {
        return kind_from_json(&u[0]).union(kind_from_json(&u[1]));
    }
    let mut k = Kind::never();
    for ch in j["p"].as_str().unwrap().chars() {
        match ch {
            'b' => { k.add_bytes(); }
            'i' => { k.add_integer(); }
            'f' => { k.add_float(); }
            'B' => { k.add_boolean(); }
            't' => { k.add_timestamp(); }
            'r' => { k.add_regex(); }
            'n' => { k.add_null(); }
            'u' => { k.add_undefined(); }
            c => panic!("bad prim flag {c}"),
        }
    }
    if !j["a"].is_null() {
        k.add_array(coll_from_json::<Index>(&j["a"], |s| Index::from(s.parse::<usize>().unwrap())));
    }
    if !j["o"].is_null() {
        k.add_object(coll_from_json::<Field>(&j["o"], |s| Field::from(unhex_str(s))));
    }
    k
}

/// does the kind literally carry the `undefined` state (a `never` kind admits nothing)
fn admits_undefined(k: &Kind) -> bool {
    !k.is_never() && k.contains_undefined()
}

/// the specification of membership, written against accessors only
pub fn member(v: &Value, k: &Kind) -> bool {
    if k.is_never() {
        return false;
    }
    match v {
        Value::Bytes(_) => k.contains_bytes(),
        Value::Integer(_) => k.contains_integer(),
        Value::Float(_) => k.contains_float(),
        Value::Boolean(_) => k.contains_boolean(),
        Value::Timestamp(_) => k.contains_timestamp(),
        Value::Regex(_) => k.contains_regex(),
        Value::Null => k.contains_null(),
        Value::Array(a) => match k.as_array() {
            None => false,
            Some(c) => {
                for (i, x) in a.iter().enumerate() {
                    let kk = c.known().get(&Index::from(i)).cloned().unwrap_or_else(|| c.unknown_kind());
                    if !member(x, &kk) {
                        return false;
                    }
                }
                c.known().iter().all(|(i, kk)| i.to_usize() < a.len() || admits_undefined(kk))
            }
        },
        Value::Object(m) => match k.as_object() {
            None => false,
            Some(c) => {
                for (f, x) in m.iter() {
                    let kk = c.known().get(&Field::from(f.clone())).cloned().unwrap_or_else(|| c.unknown_kind());
                    if !member(x, &kk) {
                        return false;
                    }
                }
                c.known().iter().all(|(f, kk)| m.contains_key(f.as_str()) || admits_undefined(kk))
            }
        },
    }
}

fn member_opt(v: Option<&Value>, k: &Kind) -> bool {
    match v {
        Some(v) => member(v, k),
        None => k.contains_undefined(),
    }
}

pub fn run(case: &J) -> J {
    match case["op"].as_str().unwrap() {
        "get" => {
            let k = kind_from_json(&case["k"]);
            let v = from_json(&case["v"]);
            let p = path_from_json(&case["p"]);
            let at = k.at_path(&p);
            let g = k.get(&p);
            let w = v.get(&p);
            json!({"at": kind_to_json(&at), "get": kind_to_json(&g), "val": opt_to_json(w),
                   "m_in": member(&v, &k), "m_out": member_opt(w, &at)})
        }
        "insert" => {
            let mut k = kind_from_json(&case["k"]);
            let kx = kind_from_json(&case["kx"]);
            let v = from_json(&case["v"]);
            let x = from_json(&case["x"]);
            let p = path_from_json(&case["p"]);
            let m_v = member(&v, &k);
            let m_x = member(&x, &kx);
            let mut v2 = v.clone();
            v2.insert(&p, x);
            k.insert(&p, kx);
            json!({"kind": kind_to_json(&k), "val": to_json(&v2), "m_v": m_v, "m_x": m_x, "m_out": member(&v2, &k)})
        }
        "remove" => {
            let mut k = kind_from_json(&case["k"]);
            let v = from_json(&case["v"]);
            let p = path_from_json(&case["p"]);
            let compact = case["compact"].as_bool().unwrap();
            let m_v = member(&v, &k);
            let mut v2 = v.clone();
            let removed = v2.remove(&p, compact);
            let rk = k.remove(&p, compact);
            json!({"kind": kind_to_json(&k), "removed_kind": kind_to_json(&rk), "val": to_json(&v2),
                   "removed": opt_to_json(removed.as_ref()), "m_v": m_v, "m_out": member(&v2, &k)})
        }
        "union" => {
            let a = kind_from_json(&case["a"]);
            let b = kind_from_json(&case["b"]);
            let v = from_json(&case["v"]);
            let u = a.union(b.clone());
            json!({"kind": kind_to_json(&u), "m_a": member(&v, &a), "m_b": member(&v, &b), "m_out": member(&v, &u)})
        }
        "merge" => {
            let mut a = kind_from_json(&case["a"]);
            let b = kind_from_json(&case["b"]);
            let overwrite = case["overwrite"].as_bool().unwrap();
            let va = from_json(&case["va"]);
            let vb = from_json(&case["vb"]);
            let m_a = member(&va, &a);
            let m_b = member(&vb, &b);
            let collisions = if overwrite { CollisionStrategy::Overwrite } else { CollisionStrategy::Union };
            a.merge(b, Strategy { collisions });
            // value-level counterpart: shallow right-biased merge of two objects (the `|` operator)
            let vm = match (&va, &vb) {
                (Value::Object(x), Value::Object(y)) => {
                    let mut m = x.clone();
                    for (f, w) in y.iter() {
                        m.insert(f.clone(), w.clone());
                    }
                    Some(Value::Object(m))
                }
                _ => None,
            };
            json!({"kind": kind_to_json(&a), "m_a": m_a, "m_b": m_b,
                   "m_out_a": member(&va, &a), "m_out_b": member(&vb, &a),
                   "merged": opt_to_json(vm.as_ref()), "m_out_m": vm.as_ref().map(|w| member(w, &a))})
        }
        "superset" => {
            let a = kind_from_json(&case["a"]);
            let b = kind_from_json(&case["b"]);
            let v = from_json(&case["v"]);
            json!({"res": a.is_superset(&b).is_ok(), "m_a": member(&v, &a), "m_b": member(&v, &b)})
        }
        "roundtrip" => {
            // the encoding itself: decode, encode
            let k = kind_from_json(&case["k"]);
            json!({"kind": kind_to_json(&k)})
        }
        o => json!({"harness_error": format!("bad op {o}")}),
    }
}

fn main() {
    vrl_verif_harness::main_loop(run);
}
