//! C32 family: Datadog grok rules.
//! case: {"patterns": [hex...], "aliases": [[hex name, hex definition]...], "input": hex, "vrl": bool?}
//! result: {"compile": "ok" | "err", "err": {"class": "circular"|"invalid_expr"|"unknown_filter"|"invalid_args", "name": hex?},
//!          "result": {"ok": value, "internal_errors": n} | "nomatch" | "engine_error",
//!          "vrl": {"ok": value} | {"error": text} | {"compile_error": text}   (the same call through parse_groks)}
use serde_json::{json, Value as J};
use std::collections::BTreeMap;
use vrl::compiler::runtime::Runtime;
use vrl::compiler::{TargetValue, TimeZone};
use vrl::datadog_grok::parse_grok::{parse_grok, FatalError};
use vrl::datadog_grok::parse_grok_rules::{parse_grok_rules, Error};
use vrl::value::{KeyString, Secrets, Value};
use vrl_verif_harness::vj::*;

fn raw_ok(s: &str) -> bool {
    !s.contains('\'') && !s.contains('\n') && !s.contains('\r')
}

fn via_vrl(patterns: &[String], aliases: &BTreeMap<KeyString, String>, input: &str) -> J {
    if !patterns.iter().all(|p| raw_ok(p)) || !aliases.iter().all(|(k, v)| raw_ok(k) && raw_ok(v) && !k.contains('"') && !k.contains('\\')) {
        return json!("skipped");
    }
    let pats: Vec<String> = patterns.iter().map(|p| format!("s'{}'", p)).collect();
    let als: Vec<String> = aliases.iter().map(|(k, v)| format!("\"{}\": s'{}'", k, v)).collect();
    let src = format!("parse_groks!(string!(.m), patterns: [{}], aliases: {{{}}})", pats.join(", "), als.join(", "));
    let fns = vrl::stdlib::all();
    let res = match std::panic::catch_unwind(std::panic::AssertUnwindSafe(|| vrl::compiler::compile(&src, &fns))) {
        Err(_) => return json!({"compile_panic": true}),
        Ok(Err(d)) => return json!({"compile_error": d.iter().map(|x| x.message.clone()).collect::<Vec<_>>().join("; ")}),
        Ok(Ok(r)) => r,
    };
    let mut ev = BTreeMap::new();
    ev.insert(KeyString::from("m"), Value::from(input));
    let mut target = TargetValue { value: Value::Object(ev), metadata: Value::Object(BTreeMap::new()), secrets: Secrets::new() };
    let mut runtime = Runtime::default();
    match runtime.resolve(&mut target, &res.program, &TimeZone::Named(chrono_tz::UTC)) {
        Ok(v) => json!({"ok": to_json(&v)}),
        Err(e) => json!({"error": e.to_string()}),
    }
}

/// A structurally broken case (the shrinker produces them) is answered, not crashed on.
fn well_formed(case: &J) -> bool {
    let pats_ok = case.get("patterns").and_then(|p| p.as_array()).is_some_and(|a| a.iter().all(|p| p.is_string()));
    let al_ok = case.get("aliases").and_then(|a| a.as_array()).is_none_or(|a| {
        a.iter().all(|kv| kv.as_array().is_some_and(|kv| kv.len() == 2 && kv[0].is_string() && kv[1].is_string()))
    });
    pats_ok && al_ok && case.get("input").is_some_and(|i| i.is_string())
}

pub fn run(case: &J) -> J {
    if !well_formed(case) {
        return json!({"bad_case": true});
    }
    let patterns: Vec<String> = case["patterns"].as_array().unwrap().iter().map(|p| unhex_str(p.as_str().unwrap())).collect();
    let mut aliases: BTreeMap<KeyString, String> = BTreeMap::new();
    if let Some(a) = case.get("aliases").and_then(|a| a.as_array()) {
        for kv in a {
            aliases.insert(unhex_str(kv[0].as_str().unwrap()).into(), unhex_str(kv[1].as_str().unwrap()));
        }
    }
    let input = unhex_str(case["input"].as_str().unwrap());
    let vrl = if case.get("vrl").and_then(|b| b.as_bool()).unwrap_or(false) { via_vrl(&patterns, &aliases, &input) } else { J::Null };
    let rules = match parse_grok_rules(&patterns, aliases) {
        Ok(r) => r,
        Err(e) => {
            let err = match &e {
                Error::CircularDependencyInAliasDefinition(n) => json!({"class": "circular", "name": hex(n.as_bytes())}),
                Error::InvalidGrokExpression(a, b) => json!({"class": "invalid_expr", "text": format!("{a}: {b}")}),
                Error::UnknownFilter(n) => json!({"class": "unknown_filter", "name": hex(n.as_bytes())}),
                Error::InvalidFunctionArguments(n) => json!({"class": "invalid_args", "name": hex(n.as_bytes())}),
            };
            return json!({"compile": "err", "err": err, "vrl": vrl});
        }
    };
    let result = match parse_grok(&input, &rules) {
        Ok(o) => json!({"ok": to_json(&o.parsed), "internal_errors": o.internal_errors.len()}),
        Err(FatalError::NoMatch) => json!("nomatch"),
        Err(FatalError::RegexEngineError) => json!("engine_error"),
    };
    json!({"compile": "ok", "result": result, "vrl": vrl})
}

fn main() {
    vrl_verif_harness::main_loop(run);
}
