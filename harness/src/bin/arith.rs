//! C10 / C11: the binary operators on two runtime values, evaluated three ways.
//!   direct : the public trait `vrl::compiler::value::VrlValueArithmetic` on two `Value`s
//!            (eq_lossy, try_gt/ge/lt/le, try_add/sub/mul/div/rem); errors reported by class
//!            (`divzero`, `nan`, `type`), never by prose;
//!   e2e    : the compiled VRL program `.a <op> .b` (resp. `mod(.a, .b)`) run by `Runtime::resolve` on the
//!            event {"a": x, "b": y}, so the operands are runtime values and the whole of
//!            `Op::resolve` / `ModFn::resolve` is on the path; an error is reported as {"err": "e"};
//!   conv   : (only for integer/float mixed pairs) `direct` again on the pair in which the integer was
//!            replaced by `i as f64` computed here, so that "mixed = float operation on the converted
//!            integer" can be judged on the implementation alone.
//! case: {"kind": "cmp" | "arith", "x": value, "y": value}
//!
//! kind "lit" (C11): x, y (and optionally z with a second operator "op2") are numbers written into the program
//! text as LITERALS, so that the compiler's constant evaluator `Op::resolve_constant` sees them.  For each of
//! + - * / the expression E = `x op y` (or `(x op y) op2 z`) is evaluated
//!   plain : `[E]`                                   -- run time, Op::resolve
//!   zip   : `zip([E], [0])`                         -- the array argument is a ConstOrExpr: the folded constant is the value
//!   var   : `x = E; object_from_array([["k", x]])`  -- the constant reaches the consumer through a variable
//! A fallible E (constant zero divisor, constant NaN) is written `(E ?? "ERR")`; folding must then give up.
//! Each literal is first checked to denote exactly the intended value on both paths ("lit_ok").
use serde_json::{json, Map, Value as J};
use std::cell::RefCell;
use std::collections::HashMap;
use vrl::compiler::runtime::Runtime;
use vrl::compiler::value::{ValueError, VrlValueArithmetic};
use vrl::compiler::{Program, TargetValue, TimeZone};
use vrl::value::{ObjectMap, Secrets, Value};
use vrl_verif_harness::vj::*;

const CMP: [&str; 6] = ["eq", "ne", "lt", "le", "gt", "ge"];
const ARITH: [&str; 5] = ["add", "sub", "mul", "div", "rem"];

fn res_json(r: Result<Value, ValueError>) -> J {
    match r {
        Ok(v) => json!({"ok": to_json(&v)}),
        Err(ValueError::DivideByZero) => json!({"err": "divzero"}),
        Err(ValueError::NanFloat) => json!({"err": "nan"}),
        Err(_) => json!({"err": "type"}),
    }
}

fn direct(op: &str, x: &Value, y: &Value) -> J {
    let (a, b) = (x.clone(), y.clone());
    match op {
        "eq" => json!({"ok": x.eq_lossy(y)}),
        // `!=` has no trait method of its own: Op::resolve negates eq_lossy; the e2e column observes it
        "ne" => json!({"ok": !x.eq_lossy(y)}),
        "lt" => res_json(a.try_lt(b)),
        "le" => res_json(a.try_le(b)),
        "gt" => res_json(a.try_gt(b)),
        "ge" => res_json(a.try_ge(b)),
        "add" => res_json(a.try_add(b)),
        "sub" => res_json(a.try_sub(b)),
        "mul" => res_json(a.try_mul(b)),
        "div" => res_json(a.try_div(b)),
        "rem" => res_json(a.try_rem(b)),
        _ => json!({"harness_error": "bad op"}),
    }
}

fn source(op: &str) -> String {
    let expr = match op {
        "eq" => return ".a == .b".to_string(),
        "ne" => return ".a != .b".to_string(),
        "lt" => ".a < .b",
        "le" => ".a <= .b",
        "gt" => ".a > .b",
        "ge" => ".a >= .b",
        "add" => ".a + .b",
        "sub" => ".a - .b",
        "mul" => ".a * .b",
        "div" => ".a / .b",
        "rem" => "mod(.a, .b)",
        _ => panic!("bad op"),
    };
    format!("r, err = {expr}\nif err == null {{ [r] }} else {{ null }}")
}

thread_local! {
    static PROGRAMS: RefCell<HashMap<String, Program>> = RefCell::new(HashMap::new());
}

fn e2e(op: &str, x: &Value, y: &Value) -> J {
    PROGRAMS.with(|p| {
        let mut p = p.borrow_mut();
        if !p.contains_key(op) {
            let src = source(op);
            let res = vrl::compiler::compile(&src, &vrl::stdlib::all())
                .unwrap_or_else(|e| panic!("harness program `{src}` does not compile: {e:?}"));
            p.insert(op.to_string(), res.program);
        }
        let program = &p[op];
        let mut ev = ObjectMap::new();
        ev.insert("a".into(), x.clone());
        ev.insert("b".into(), y.clone());
        let mut target = TargetValue {
            value: Value::Object(ev),
            metadata: Value::Object(ObjectMap::new()),
            secrets: Secrets::default(),
        };
        let out = Runtime::default().resolve(&mut target, program, &TimeZone::default());
        match (op, out) {
            ("eq" | "ne", Ok(v)) => json!({"ok": to_json(&v)}),
            (_, Ok(Value::Array(mut a))) if a.len() == 1 => json!({"ok": to_json(&a.remove(0))}),
            (_, Ok(Value::Null)) => json!({"err": "e"}),
            (_, Ok(v)) => json!({"harness_error": format!("unexpected program result {v}")}),
            (_, Err(_)) => json!({"err": "e"}),
        }
    })
}

#[allow(clippy::cast_precision_loss)]
fn converted(v: &Value) -> Value {
    match v {
        Value::Integer(i) => Value::Float(ordered_float::NotNan::new(*i as f64).unwrap()),
        v => v.clone(),
    }
}

// ---------------------------------------------------------------------------------------------------------
// literal operands: compile-time constant folding vs run time
// ---------------------------------------------------------------------------------------------------------

fn literal(v: &Value) -> Option<String> {
    match v {
        Value::Integer(i) => Some(if *i < 0 { format!("({i})") } else { format!("{i}") }),
        Value::Float(f) => {
            let f = f.into_inner();
            if !f.is_finite() {
                return None;
            }
            let mut s = format!("{f}"); // positional notation, shortest digits that round-trip
            if !s.contains('.') {
                s.push_str(".0");
            }
            Some(if s.starts_with('-') { format!("({s})") } else { s })
        }
        _ => None,
    }
}

fn op_symbol(op: &str) -> &'static str {
    match op {
        "add" => "+",
        "sub" => "-",
        "mul" => "*",
        "div" => "/",
        _ => panic!("bad op"),
    }
}

fn run_source(src: &str) -> Result<Result<Value, ()>, String> {
    thread_local! {
        static FNS: Vec<Box<dyn vrl::compiler::Function>> = vrl::stdlib::all();
    }
    let res = FNS.with(|fns| vrl::compiler::compile(src, fns)).map_err(|e| format!("{e:?}"))?;
    let mut target = TargetValue {
        value: Value::Object(ObjectMap::new()),
        metadata: Value::Object(ObjectMap::new()),
        secrets: Secrets::default(),
    };
    Ok(Runtime::default()
        .resolve(&mut target, &res.program, &TimeZone::default())
        .map_err(|_| ()))
}

/// Runs `wrap(E)`; when that does not compile (E is fallible) runs `wrap((E ?? "ERR"))`.
/// `pick` extracts the value of E from the program's result.
fn eval_wrapped(e: &str, wrap: &dyn Fn(&str) -> String, pick: &dyn Fn(Value) -> Option<Value>) -> J {
    let out = match run_source(&wrap(e)) {
        Ok(r) => r,
        Err(first) => match run_source(&wrap(&format!("({e} ?? \"ERR\")"))) {
            Ok(r) => r,
            Err(second) => return json!({"harness_error": format!("neither form compiles: {first} /// {second}")}),
        },
    };
    match out {
        Err(()) => json!({"err": "e"}),
        Ok(v) => match pick(v) {
            Some(Value::Bytes(b)) if &b[..] == b"ERR" => json!({"err": "e"}),
            Some(v) => json!({"ok": to_json(&v)}),
            None => json!({"harness_error": "unexpected shape of the program result"}),
        },
    }
}

fn first_of_array(v: Value) -> Option<Value> {
    match v {
        Value::Array(mut a) if !a.is_empty() => Some(a.remove(0)),
        _ => None,
    }
}

fn eval_three_ways(e: &str) -> J {
    let plain = eval_wrapped(e, &|e| format!("[{e}]"), &first_of_array);
    let zip = eval_wrapped(e, &|e| format!("zip([{e}], [0])"), &|v| first_of_array(v).and_then(first_of_array));
    let var = eval_wrapped(e, &|e| format!("x = {e}\nobject_from_array([[\"k\", x]])"), &|v| match v {
        Value::Object(mut m) => m.remove("k"),
        _ => None,
    });
    json!({"plain": plain, "zip": zip, "var": var})
}

fn run_lit(case: &J) -> J {
    let x = from_json(&case["x"]);
    let y = from_json(&case["y"]);
    let z = case.get("z").filter(|z| !z.is_null()).map(from_json);
    let mut lits = vec![];
    for v in [Some(&x), Some(&y), z.as_ref()].into_iter().flatten() {
        match literal(v) {
            Some(l) => lits.push((l, v.clone())),
            None => return json!({"harness_error": format!("no literal for {v}")}),
        }
    }
    // every literal denotes exactly its value, at run time and as a folded constant
    let mut lit_ok = true;
    for (l, v) in &lits {
        let r = eval_three_ways(l);
        let want = json!({"ok": to_json(v)});
        lit_ok &= r["plain"] == want && r["zip"] == want && r["var"] == want;
    }
    let mut out = Map::new();
    for op in ["add", "sub", "mul", "div"] {
        let mut e = format!("{} {} {}", lits[0].0, op_symbol(op), lits[1].0);
        if z.is_some() {
            e = format!("({e}) {} {}", op_symbol(case["op2"].as_str().unwrap()), lits[2].0);
        }
        out.insert(op.to_string(), eval_three_ways(&e));
    }
    json!({"lit_ok": lit_ok, "res": out})
}

pub fn run(case: &J) -> J {
    if case["kind"] == "lit" {
        return run_lit(case);
    }
    let x = from_json(&case["x"]);
    let y = from_json(&case["y"]);
    let ops: &[&str] = match case["kind"].as_str().unwrap() {
        "cmp" => &CMP,
        "arith" => &ARITH,
        k => return json!({"harness_error": format!("bad kind {k}")}),
    };
    let mut d = Map::new();
    let mut e = Map::new();
    for op in ops {
        d.insert((*op).to_string(), direct(op, &x, &y));
        e.insert((*op).to_string(), e2e(op, &x, &y));
    }
    let mixed = (x.is_integer() && y.is_float()) || (x.is_float() && y.is_integer());
    let conv = if mixed {
        let (cx, cy) = (converted(&x), converted(&y));
        let mut c = Map::new();
        for op in ops {
            c.insert((*op).to_string(), direct(op, &cx, &cy));
        }
        J::Object(c)
    } else {
        J::Null
    };
    json!({"direct": d, "e2e": e, "conv": conv})
}

fn main() {
    vrl_verif_harness::main_loop(run);
}
