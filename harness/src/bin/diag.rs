//! C33: every diagnostic the compiler reports for a source text must point into that text and be renderable.
//!
//! A case: {"src": "<hex of the UTF-8 source>", "ro": [{"path": ".a", "recursive": false}]?,
//!          "segs": [{"f": "<hex field>"} | {"i": "<index>"}]?}
//! Result:
//!   {"len": <bytes>, "compile": "ok" | "err" | "panic", "panic": msg?,
//!    "diags": [ {"code": n, "severity": "error"|"warning"|"bug"|"note", "message_len": n,
//!                "labels": [ {"start": s, "end": e, "primary": bool,
//!                             "sb": <src.is_char_boundary(start)>, "eb": <src.is_char_boundary(end)>} ],
//!                "plain": "ok" | "err" | "panic:<msg>", "colored": "ok" | "err" | "panic:<msg>"} ],
//!    "all_plain": .., "all_colored": ..        -- Formatter::new(src, <the whole list>) rendered once
//!    "seg_lens": [<Display length of each segment of "segs", bytes>]}
//! `diags` are the errors when compilation fails, the warnings when it succeeds.  is_char_boundary is false for a
//! position beyond the end of the text.  Rendering = `write!(s, "{}", Formatter::new(src, diagnostic))`, plain and
//! `.colored()`, each under catch_unwind: "err" = the Display impl returned fmt::Error.
use serde_json::{json, Value as J};
use std::fmt::Write as _;
use vrl::compiler::{CompileConfig, TypeState};
use vrl::diagnostic::{Diagnostic, DiagnosticList, Formatter, Severity};
use vrl::path::{parse_target_path, OwnedSegment};
use vrl_verif_harness::vj::*;

fn panic_msg(e: Box<dyn std::any::Any + Send>) -> String {
    let msg = if let Some(s) = e.downcast_ref::<&str>() {
        (*s).to_string()
    } else if let Some(s) = e.downcast_ref::<String>() {
        s.clone()
    } else {
        "?".to_string()
    };
    msg.chars().take(200).collect()
}

fn render(src: &str, list: DiagnosticList, colored: bool) -> String {
    let r = std::panic::catch_unwind(std::panic::AssertUnwindSafe(|| {
        let f = Formatter::new(src, list);
        let f = if colored { f.colored() } else { f };
        let mut out = String::new();
        write!(out, "{f}").map(|()| out.len())
    }));
    match r {
        Ok(Ok(_)) => "ok".to_string(),
        Ok(Err(_)) => "err".to_string(),
        Err(e) => format!("panic:{}", panic_msg(e)),
    }
}

fn sev(s: Severity) -> &'static str {
    match s {
        Severity::Bug => "bug",
        Severity::Error => "error",
        Severity::Warning => "warning",
        Severity::Note => "note",
    }
}

fn diag_json(src: &str, d: &Diagnostic) -> J {
    let labels: Vec<J> = d
        .labels
        .iter()
        .map(|l| {
            let (s, e) = (l.span.start(), l.span.end());
            json!({"start": s, "end": e, "primary": l.primary,
                   "sb": src.is_char_boundary(s), "eb": src.is_char_boundary(e)})
        })
        .collect();
    let one = || DiagnosticList::from(vec![d.clone()]);
    json!({"code": d.code, "severity": sev(d.severity), "message_len": d.message.len(), "labels": labels,
           "plain": render(src, one(), false), "colored": render(src, one(), true)})
}

pub fn run(case: &J) -> J {
    let src = unhex_str(case["src"].as_str().unwrap());
    let fns = vrl::stdlib::all();
    let mut config = CompileConfig::default();
    if let Some(ro) = case.get("ro").and_then(|r| r.as_array()) {
        for r in ro {
            let p = parse_target_path(r["path"].as_str().unwrap()).expect("ro path");
            config.set_read_only_path(p, r["recursive"].as_bool().unwrap_or(false));
        }
    }
    let state = TypeState::default();
    let compiled = std::panic::catch_unwind(std::panic::AssertUnwindSafe(|| {
        vrl::compiler::compile_with_state(&src, &fns, &state, config)
    }));
    let mut out = json!({"len": src.len()});
    let (status, list) = match compiled {
        Err(e) => {
            out["panic"] = json!(panic_msg(e));
            ("panic", DiagnosticList::default())
        }
        Ok(Ok(r)) => ("ok", r.warnings),
        Ok(Err(d)) => ("err", d),
    };
    out["compile"] = json!(status);
    out["diags"] = J::Array(list.iter().map(|d| diag_json(&src, d)).collect());
    out["all_plain"] = json!(render(&src, list.clone(), false));
    out["all_colored"] = json!(render(&src, list, true));
    if let Some(segs) = case.get("segs").and_then(|s| s.as_array()) {
        let lens: Vec<usize> = segs
            .iter()
            .map(|s| {
                let seg = if let Some(f) = s.get("f") {
                    OwnedSegment::field(&unhex_str(f.as_str().unwrap()))
                } else {
                    OwnedSegment::index(s["i"].as_str().unwrap().parse::<isize>().unwrap())
                };
                seg.to_string().len()
            })
            .collect();
        out["seg_lens"] = json!(lens);
    }
    out
}

fn main() {
    vrl_verif_harness::main_loop(run)
}
