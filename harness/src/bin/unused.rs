//! C34 family: unused-expression warnings vs deletion of the flagged code.
//! case: {"ast": [stmt...], "events": [value...], "meta": value?}
//! The parser-level AST (same constructors as coq/Model/Unused.v `pexpr`) is printed to VRL source
//! here, recording the byte span of every node, so that a Python-side case is only an AST:
//!   ["lit", v] ["var", name] ["qext", pfx, path] ["qvar", name, path] ["qexpr", e, path]
//!   ["group", e] ["block", [e]] ["arr", [e]] ["obj", [[keyhex, e]]] ["if", [c], [t], [f]|null]
//!   ["op", opc, a, b] ["not", e] ["assign", target, e] ["assigninf", ok, err, e, default]
//!   ["abort", e|null] ["return", e] ["call", fname, bang, [args]]
//!   ["delext", pfx, path] ["delvar", name, path] ["existsext", pfx, path] ["existsvar", name, path]
//!   ["closure", cf, bang, arg, [params], [body]]
//! targets: ["noop"] ["tvar", name, path] ["text", pfx, path]
//! Positions: flat child indices (if: predicates, if-block, else-block; closure: arg, body).
//! result: {"compile": "ok"|"err", "src": hex, "warnings": [{cls, pos|null, start, end, message}],
//!          "runs": [{result, event, meta}],
//!          "dels": [{"widx", "cls", "pos", "fallible", "kind", "src": hex, "compile", "runs": [{"orig","del"}]}]}
//! The deletion is purely textual (span of the warning + the separator that follows it).
use serde_json::{json, Value as J};
use std::collections::BTreeMap;
use vrl::compiler::runtime::{Runtime, Terminate};
use vrl::compiler::{CompileConfig, ExpressionError, Program, TargetValue, TimeZone, TypeState};
use vrl::diagnostic::Severity;
use vrl::value::{Secrets, Value};
use vrl_verif_harness::vj::*;

struct Printer {
    out: String,
    spans: Vec<(Vec<usize>, usize, usize)>,
}

fn ident_like(s: &str) -> bool {
    let mut cs = s.chars();
    match cs.next() {
        Some(c) if c.is_ascii_lowercase() || c == '_' => {}
        _ => return false,
    }
    cs.all(|c| c.is_ascii_lowercase() || c.is_ascii_digit() || c == '_')
}

fn vrl_str(s: &str) -> String {
    let mut o = String::from("\"");
    for ch in s.chars() {
        match ch {
            '"' => o.push_str("\\\""),
            '\\' => o.push_str("\\\\"),
            '\n' => o.push_str("\\n"),
            '\t' => o.push_str("\\t"),
            '\r' => o.push_str("\\r"),
            '{' => o.push_str("\\{"),
            c if (c as u32) < 0x20 => panic!("control char in literal"),
            c => o.push(c),
        }
    }
    o.push('"');
    o
}

fn path_text(p: &J, first: bool) -> String {
    let mut o = String::new();
    for (i, s) in p.as_array().unwrap().iter().enumerate() {
        if let Some(f) = s.get("f") {
            let k = unhex_str(f.as_str().unwrap());
            if !(first && i == 0) {
                o.push('.');
            }
            if ident_like(&k) { o.push_str(&k) } else { o.push_str(&vrl_str(&k)) }
        } else {
            o.push_str(&format!("[{}]", s["i"].as_str().unwrap()));
        }
    }
    o
}

fn ext_text(pfx: &J, p: &J) -> String {
    let lead = if pfx.as_str() == Some("event") { "." } else { "%" };
    format!("{}{}", lead, path_text(p, true))
}

fn target_text(t: &J) -> String {
    match t[0].as_str().unwrap() {
        "noop" => "_".into(),
        "tvar" => format!("{}{}", t[1].as_str().unwrap(), path_text(&t[2], false)),
        "text" => ext_text(&t[1], &t[2]),
        k => panic!("bad target {k}"),
    }
}

const OPS: [(&str, &str); 14] = [("mul", "*"), ("div", "/"), ("add", "+"), ("sub", "-"), ("or", "||"), ("and", "&&"), ("err", "??"),
    ("ne", "!="), ("eq", "=="), ("ge", ">="), ("gt", ">"), ("le", "<="), ("lt", "<"), ("merge", "|")];

impl Printer {
    fn lit(&mut self, v: &J) {
        match v {
            J::Null => self.out.push_str("null"),
            J::Bool(b) => self.out.push_str(if *b { "true" } else { "false" }),
            J::Object(o) => {
                if let Some(b) = o.get("b") {
                    let s = unhex_str(b.as_str().unwrap());
                    self.out.push_str(&vrl_str(&s));
                } else if let Some(i) = o.get("i") {
                    let n: i64 = i.as_str().unwrap().parse().unwrap();
                    assert!(n >= 0, "negative literals are not printed");
                    self.out.push_str(&n.to_string());
                } else {
                    panic!("only scalar literals")
                }
            }
            _ => panic!("bad literal"),
        }
    }

    fn list(&mut self, es: &J, pos: &mut Vec<usize>, off: usize, sep: &str) {
        for (i, e) in es.as_array().unwrap().iter().enumerate() {
            if i > 0 {
                self.out.push_str(sep);
            }
            pos.push(off + i);
            self.expr(e, pos);
            pos.pop();
        }
    }

    fn block(&mut self, es: &J, pos: &mut Vec<usize>, off: usize) {
        self.out.push_str("{ ");
        self.list(es, pos, off, "; ");
        self.out.push_str(" }");
    }

    fn child(&mut self, e: &J, pos: &mut Vec<usize>, i: usize) {
        pos.push(i);
        self.expr(e, pos);
        pos.pop();
    }

    fn expr(&mut self, e: &J, pos: &mut Vec<usize>) {
        let start = self.out.len();
        match e[0].as_str().unwrap() {
            "lit" => self.lit(&e[1]),
            "var" => self.out.push_str(e[1].as_str().unwrap()),
            "qext" => { let t = ext_text(&e[1], &e[2]); self.out.push_str(&t) }
            "qvar" => { let t = format!("{}{}", e[1].as_str().unwrap(), path_text(&e[2], false)); self.out.push_str(&t) }
            "qexpr" => { self.child(&e[1], pos, 0); let t = path_text(&e[2], false); self.out.push_str(&t) }
            "group" => { self.out.push('('); self.child(&e[1], pos, 0); self.out.push(')') }
            "block" => self.block(&e[1], pos, 0),
            "arr" => { self.out.push('['); self.list(&e[1], pos, 0, ", "); self.out.push(']') }
            "obj" => {
                let kvs = e[1].as_array().unwrap();
                if kvs.is_empty() {
                    self.out.push_str("{}");
                } else {
                    self.out.push_str("{ ");
                    for (i, kv) in kvs.iter().enumerate() {
                        if i > 0 { self.out.push_str(", ") }
                        let k = vrl_str(&unhex_str(kv[0].as_str().unwrap()));
                        self.out.push_str(&k);
                        self.out.push_str(": ");
                        self.child(&kv[1], pos, i);
                    }
                    self.out.push_str(" }");
                }
            }
            "if" => {
                let c = e[1].as_array().unwrap();
                self.out.push_str("if ");
                if c.len() == 1 {
                    self.child(&c[0], pos, 0);
                } else {
                    self.out.push('(');
                    self.list(&e[1], pos, 0, "; ");
                    self.out.push(')');
                }
                self.out.push(' ');
                self.block(&e[2], pos, c.len());
                if !e[3].is_null() {
                    self.out.push_str(" else ");
                    let nt = e[2].as_array().unwrap().len();
                    self.block(&e[3], pos, c.len() + nt);
                }
            }
            "op" => {
                self.child(&e[2], pos, 0);
                let sym = OPS.iter().find(|(n, _)| Some(*n) == e[1].as_str()).expect("opcode").1;
                self.out.push_str(&format!(" {} ", sym));
                self.child(&e[3], pos, 1);
            }
            "not" => { self.out.push('!'); self.child(&e[1], pos, 0) }
            "assign" => { let t = target_text(&e[1]); self.out.push_str(&t); self.out.push_str(" = "); self.child(&e[2], pos, 0) }
            "assigninf" => {
                let t = format!("{}, {} = ", target_text(&e[1]), target_text(&e[2]));
                self.out.push_str(&t);
                self.child(&e[3], pos, 0)
            }
            "abort" => { self.out.push_str("abort"); if !e[1].is_null() { self.out.push(' '); self.child(&e[1], pos, 0) } }
            "return" => { self.out.push_str("return "); self.child(&e[1], pos, 0) }
            "call" => {
                self.out.push_str(e[1].as_str().unwrap());
                if e[2].as_bool().unwrap() { self.out.push('!') }
                self.out.push('(');
                self.list(&e[3], pos, 0, ", ");
                self.out.push(')');
            }
            "delext" => { let t = format!("del({})", ext_text(&e[1], &e[2])); self.out.push_str(&t) }
            "delvar" => { let t = format!("del({}{})", e[1].as_str().unwrap(), path_text(&e[2], false)); self.out.push_str(&t) }
            "existsext" => { let t = format!("exists({})", ext_text(&e[1], &e[2])); self.out.push_str(&t) }
            "existsvar" => { let t = format!("exists({}{})", e[1].as_str().unwrap(), path_text(&e[2], false)); self.out.push_str(&t) }
            "closure" => {
                self.out.push_str(e[1].as_str().unwrap());
                if e[2].as_bool().unwrap() { self.out.push('!') }
                self.out.push('(');
                self.child(&e[3], pos, 0);
                self.out.push_str(") -> |");
                let ps: Vec<String> = e[4].as_array().unwrap().iter().map(|p| { let s = p.as_str().unwrap(); if s.is_empty() { "_".to_string() } else { s.to_string() } }).collect();
                self.out.push_str(&ps.join(", "));
                self.out.push_str("| ");
                self.block(&e[5], pos, 1);
            }
            k => panic!("unknown node {k}"),
        }
        let mut end = self.out.len();
        // the parser's span of a call with a closure / of a query on a call is not needed (never flagged)
        if e[0] == "qexpr" { end = self.out.len(); }
        self.spans.push((pos.clone(), start, end));
    }
}

fn outcome(r: Result<Value, Terminate>) -> J {
    match r {
        Ok(v) => json!({"ok": to_json(&v)}),
        Err(Terminate::Abort(ExpressionError::Abort { message, .. })) => json!({"abort": message.map(|m| hex(m.as_bytes()))}),
        Err(Terminate::Abort(e)) => json!({"abort_other": e.to_string()}),
        Err(Terminate::Error(e)) => json!({"error": e.to_string()}),
    }
}

/// Error messages embed source offsets ("... at (75:88): ..."), which move when text is deleted:
/// they are blanked before the original and the edited run are compared.
fn blank_offsets(v: &Value, re: &regex::bytes::Regex) -> Value {
    match v {
        Value::Bytes(b) => Value::Bytes(re.replace_all(b, &b"at (_:_)"[..]).into_owned().into()),
        Value::Object(m) => Value::Object(m.iter().map(|(k, x)| (k.clone(), blank_offsets(x, re))).collect()),
        Value::Array(a) => Value::Array(a.iter().map(|x| blank_offsets(x, re)).collect()),
        x => x.clone(),
    }
}

fn run_blanked(program: &Program, event: &Value, meta: &Value) -> J {
    let re = regex::bytes::Regex::new(r"at \(\d+:\d+\)").unwrap();
    let mut target = TargetValue { value: event.clone(), metadata: meta.clone(), secrets: Secrets::new() };
    let mut runtime = Runtime::default();
    let tz = TimeZone::Named(chrono_tz::UTC);
    let r = runtime.resolve(&mut target, program, &tz).map(|v| blank_offsets(&v, &re));
    json!({"result": outcome(r), "event": to_json(&blank_offsets(&target.value, &re)), "meta": to_json(&blank_offsets(&target.metadata, &re))})
}

fn run_program(program: &Program, event: &Value, meta: &Value) -> J {
    let mut target = TargetValue { value: event.clone(), metadata: meta.clone(), secrets: Secrets::new() };
    let mut runtime = Runtime::default();
    let tz = TimeZone::Named(chrono_tz::UTC);
    let r = runtime.resolve(&mut target, program, &tz);
    json!({"result": outcome(r), "event": to_json(&target.value), "meta": to_json(&target.metadata)})
}

fn compile(src: &str) -> Result<vrl::compiler::CompilationResult, J> {
    let fns = vrl::stdlib::all();
    let state = TypeState::default();
    let config = CompileConfig::default();
    match std::panic::catch_unwind(std::panic::AssertUnwindSafe(|| vrl::compiler::compile_with_state(src, &fns, &state, config))) {
        Err(_) => Err(json!({"compile": "panic"})),
        Ok(Ok(r)) => Ok(r),
        Ok(Err(d)) => Err(json!({"compile": "err", "diags": d.iter().map(|x| json!({"code": x.code, "message": x.message})).collect::<Vec<_>>()})),
    }
}

/// Textual deletion of src[a..b] together with the separator that follows (or precedes) it.
/// Returns (kind, new source) or None when the span is not an element of a list.
fn delete_span(src: &str, a: usize, b: usize) -> Option<(&'static str, String)> {
    let bytes = src.as_bytes();
    let mut j = b;
    while j < bytes.len() && bytes[j] == b' ' { j += 1 }
    let mut i = a;
    while i > 0 && bytes[i - 1] == b' ' { i -= 1 }
    let next = bytes.get(j).copied();
    let prev = if i > 0 { Some(bytes[i - 1]) } else { None };
    let cut = |from: usize, to: usize| format!("{}{}", &src[..from], &src[to..]);
    // the span must itself be a list element: a statement starts the file / a line / a block or follows `;`,
    // an array element follows `[` or `,`
    let stmt_start = matches!(prev, None | Some(b'\n') | Some(b';') | Some(b'{'));
    let elem_start = matches!(prev, Some(b'[') | Some(b','));
    match next {
        Some(b';') if stmt_start => {
            let mut k = j + 1;
            while k < bytes.len() && bytes[k] == b' ' { k += 1 }
            Some(("stmt", cut(a, k)))
        }
        Some(b'\n') if stmt_start => Some(("stmt", cut(a, j + 1))),
        Some(b',') if elem_start => {
            let mut k = j + 1;
            while k < bytes.len() && bytes[k] == b' ' { k += 1 }
            Some(("elem", cut(a, k)))
        }
        Some(b']') if prev == Some(b',') => Some(("elem", cut(i - 1, b))),
        Some(b'}') if prev == Some(b';') => Some(("last", cut(i - 1, b))),
        None if prev == Some(b'\n') => Some(("last", cut(i - 1, b))),
        _ => None,
    }
}

fn msg_class(m: &str) -> &'static str {
    if m.starts_with("unused literal") { "lit" }
    else if m.starts_with("unused object") { "obj" }
    else if m.starts_with("unused result for function call") { "call" }
    else if m.starts_with("unused variable") { "var" }
    else { "other" }
}

pub fn run(case: &J) -> J {
    if case.get("kind").and_then(|k| k.as_str()) == Some("table") {
        return json!({"compile": "table"});
    }
    // a structurally broken AST (the shrinker produces them) is answered, not crashed on
    let printed = std::panic::catch_unwind(|| {
        let mut pr = Printer { out: String::new(), spans: vec![] };
        let mut pos = vec![];
        pr.list(&case["ast"], &mut pos, 0, "\n");
        pr
    });
    let pr = match printed {
        Ok(pr) => pr,
        Err(_) => return json!({"compile": "bad_case"}),
    };
    let src = pr.out.clone();
    let res = match compile(&src) {
        Ok(r) => r,
        Err(mut j) => { j["src"] = json!(hex(src.as_bytes())); return j; }
    };
    let events: Vec<Value> = case["events"].as_array().map(|a| a.iter().map(from_json).collect()).unwrap_or_default();
    let meta = case.get("meta").filter(|m| !m.is_null()).map(from_json).unwrap_or_else(|| Value::Object(BTreeMap::new()));
    let runs: Vec<J> = events.iter().map(|e| run_program(&res.program, e, &meta)).collect();

    let mut warnings = vec![];
    let mut dels = vec![];
    for (wi, w) in res.warnings.iter().enumerate() {
        let cls = if w.code == 900 && matches!(w.severity, Severity::Warning) { msg_class(&w.message) } else { "foreign" };
        let (a, b) = w.labels.iter().find(|l| l.primary).map(|l| (l.span.start(), l.span.end())).unwrap_or((0, 0));
        let p = pr.spans.iter().find(|(_, s, e)| *s == a && *e == b).map(|(p, _, _)| p.clone());
        warnings.push(json!({"cls": cls, "pos": p, "start": a, "end": b, "code": w.code, "message": w.message,
                             "notes": w.notes.iter().map(|n| n.to_string()).collect::<Vec<_>>()}));
        if cls == "var" || cls == "other" || cls == "foreign" || b > src.len() || a > b {
            continue;
        }
        let text = &src[a..b];
        let fallible = text.contains("!(");
        match delete_span(&src, a, b) {
            None => dels.push(json!({"widx": wi, "cls": cls, "pos": p, "fallible": fallible, "kind": "none", "text": hex(text.as_bytes())})),
            Some((kind, nsrc)) => {
                let mut d = json!({"widx": wi, "cls": cls, "pos": p, "fallible": fallible, "kind": kind,
                                   "text": hex(text.as_bytes()), "src": hex(nsrc.as_bytes())});
                match compile(&nsrc) {
                    Ok(r2) => {
                        d["compile"] = json!("ok");
                        d["runs"] = J::Array(events.iter().map(|e| json!({"orig": run_blanked(&res.program, e, &meta), "del": run_blanked(&r2.program, e, &meta)})).collect());
                    }
                    Err(j) => { d["compile"] = j["compile"].clone(); d["diags"] = j["diags"].clone(); }
                }
                dels.push(d);
            }
        }
    }
    json!({"compile": "ok", "src": hex(src.as_bytes()), "warnings": warnings, "runs": runs, "dels": dels})
}

fn main() {
    vrl_verif_harness::main_loop(run);
}
