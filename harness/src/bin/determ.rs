//! C14: compile twice, run on equal events sequentially / with a cleared runtime / from many threads
//! sharing one compiled program, and report whether everything coincides.
//! case: {"src": hex, "events": [value...], "meta": value, "threads": n}
use serde_json::{json, Value as J};
use std::sync::Arc;
use vrl::compiler::runtime::{Runtime, Terminate};
use vrl::compiler::{ExpressionError, Program, TargetValue, TimeZone};
use vrl::value::{Secrets, Value};
use vrl_verif_harness::vj::*;

fn outcome(r: Result<Value, Terminate>) -> J {
    match r {
        Ok(v) => json!({"ok": to_json(&v)}),
        Err(Terminate::Abort(ExpressionError::Abort { message, .. })) => json!({"abort": message.map(|m| hex(m.as_bytes()))}),
        Err(Terminate::Abort(e)) => json!({"abort_other": e.to_string()}),
        Err(Terminate::Error(e)) => json!({"error": e.to_string()}),
    }
}

fn run_one(rt: &mut Runtime, program: &Program, event: &Value, meta: &Value, tz: &TimeZone) -> J {
    let mut target = TargetValue { value: event.clone(), metadata: meta.clone(), secrets: Secrets::new() };
    let r = rt.resolve(&mut target, program, tz);
    json!({"result": outcome(r), "event": to_json(&target.value), "meta": to_json(&target.metadata)})
}

pub fn run(case: &J) -> J {
    let src = unhex_str(case["src"].as_str().unwrap());
    let fns = vrl::stdlib::all();
    let c1 = vrl::compiler::compile(&src, &fns);
    let c2 = vrl::compiler::compile(&src, &fns);
    let (p1, p2) = match (c1, c2) {
        (Ok(a), Ok(b)) => (a, b),
        (Err(a), Err(b)) => {
            let same = format!("{:?}", a.iter().map(|d| (d.code, d.message.clone())).collect::<Vec<_>>())
                == format!("{:?}", b.iter().map(|d| (d.code, d.message.clone())).collect::<Vec<_>>());
            return json!({"compile": "err", "compile_same": same});
        }
        _ => return json!({"compile": "mixed", "compile_same": false}),
    };
    let compile_same = format!("{:?}", p1.program) == format!("{:?}", p2.program)
        && p1.program.info() == p2.program.info()
        && p1.warnings.len() == p2.warnings.len();
    let tz = TimeZone::Named(chrono_tz::UTC);
    let events: Vec<Value> = case["events"].as_array().unwrap().iter().map(from_json).collect();
    let meta = case.get("meta").map(from_json).unwrap_or_else(|| Value::Object(Default::default()));
    // sequential, fresh runtime per event
    let seq: Vec<J> = events.iter().map(|e| run_one(&mut Runtime::default(), &p1.program, e, &meta, &tz)).collect();
    // the second compilation behaves the same
    let seq2: Vec<J> = events.iter().map(|e| run_one(&mut Runtime::default(), &p2.program, e, &meta, &tz)).collect();
    // one runtime, cleared between events
    let mut rt = Runtime::default();
    let mut cleared_empty = true;
    let cleared: Vec<J> = events.iter().map(|e| {
        let r = run_one(&mut rt, &p1.program, e, &meta, &tz);
        rt.clear();
        cleared_empty &= rt.is_empty();
        r
    }).collect();
    // one runtime, never cleared (reported, not required to coincide by the property)
    let mut rt2 = Runtime::default();
    let dirty: Vec<J> = events.iter().map(|e| run_one(&mut rt2, &p1.program, e, &meta, &tz)).collect();
    // threads sharing the program
    let n = case.get("threads").and_then(|t| t.as_u64()).unwrap_or(4) as usize;
    let prog = Arc::new(p1.program.clone());
    let evs = Arc::new(events.clone());
    let metaa = Arc::new(meta.clone());
    let mut handles = vec![];
    for t in 0..n {
        let prog = prog.clone();
        let evs = evs.clone();
        let metaa = metaa.clone();
        handles.push(std::thread::spawn(move || {
            let tz = TimeZone::Named(chrono_tz::UTC);
            let mut out = vec![];
            // different threads walk the events in different orders
            let k = evs.len();
            for i in 0..k {
                let j = (i + t) % k;
                out.push((j, run_one(&mut Runtime::default(), &prog, &evs[j], &metaa, &tz)));
            }
            out
        }));
    }
    let mut threads_same = true;
    for h in handles {
        match h.join() {
            Ok(v) => {
                for (j, r) in v {
                    if r != seq[j] { threads_same = false; }
                }
            }
            Err(_) => threads_same = false,
        }
    }
    json!({"compile": "ok", "compile_same": compile_same && seq == seq2, "cleared_same": cleared == seq && cleared_empty,
           "dirty_same": dirty == seq, "threads_same": threads_same, "seq": seq})
}

fn main() {
    vrl_verif_harness::main_loop(run);
}
