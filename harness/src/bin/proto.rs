//! C26: encode_proto / parse_proto through compiled VRL programs, plus a dump of the bundled descriptor sets
//! as prost-reflect sees them (the abstract descriptor the Gallina model works on).
//!
//! Cases (`file` is relative to /repo/tests/data/protobuf unless it starts with '/'):
//!   {"op":"desc","file":F,"type":T}      -> {"messages":[{"name","map_entry","fields":[{"name","json","num","kind",
//!                                            "enum":[[name,number],..]|null,"enum_default":n|null,"msg":full name|null,"card","presence",
//!                                            "packed","is_map","is_list","default":debug text}]}]}
//!        every message type of the pool T lives in (prost-reflect is reached through the values returned by
//!        vrl::protobuf::descriptor::get_message_descriptor; its types are never named here)
//!   {"op":"rt","file":F,"type":T,"v":<vj value>,"lossy":bool|null}
//!        enc = encode_proto!(.v, F, T[, allow_lossy_string_coercion: lossy]); dec = parse_proto!(enc, F, T)
//!        -> {"enc": {"ok": hex} | {"err": "error"} | {"panic": msg}, "dec": {"ok": vj} | {"err"..} | null}
//!   {"op":"dec","file":F,"type":T,"b":hex}   parse_proto alone -> {"dec": ...}
//!   {"op":"compile","fn":"encode_proto"|"parse_proto","file":F,"type":T} -> {"compile":"ok"|"error"|"panic"}
use serde_json::{json, Value as J};
use std::cell::RefCell;
use std::collections::{BTreeMap, HashMap};
use std::path::Path;
use std::rc::Rc;
use vrl::compiler::runtime::{Runtime, Terminate};
use vrl::compiler::{Program, TargetValue, TimeZone};
use vrl::value::{Secrets, Value};
use vrl_verif_harness::vj::*;

thread_local! {
    static CACHE: RefCell<HashMap<String, Option<Rc<Program>>>> = RefCell::new(HashMap::new());
    static FNS: Vec<Box<dyn vrl::compiler::Function>> = vrl::stdlib::all();
}

fn compiled(src: &str) -> Option<Rc<Program>> {
    if let Some(p) = CACHE.with(|c| c.borrow().get(src).cloned()) {
        return p;
    }
    let p = FNS.with(|fns| match vrl::compiler::compile(src, fns) {
        Ok(r) => Some(Rc::new(r.program)),
        Err(_) => None,
    });
    CACHE.with(|c| c.borrow_mut().insert(src.to_string(), p.clone()));
    p
}

fn full_path(file: &str) -> String {
    if file.starts_with('/') {
        file.to_string()
    } else {
        format!("/repo/tests/data/protobuf/{file}")
    }
}

fn panic_msg(e: Box<dyn std::any::Any + Send>) -> String {
    let msg = if let Some(s) = e.downcast_ref::<&str>() {
        (*s).to_string()
    } else if let Some(s) = e.downcast_ref::<String>() {
        s.clone()
    } else {
        "?".to_string()
    };
    msg.chars().take(160).collect()
}

fn run_src(src: &str, v: Value) -> (J, Option<Value>) {
    let Some(prog) = compiled(src) else {
        return (json!({"err": "compile"}), None);
    };
    let mut m = BTreeMap::new();
    m.insert("v".into(), v);
    let r = std::panic::catch_unwind(std::panic::AssertUnwindSafe(move || {
        let mut target = TargetValue {
            value: Value::Object(m),
            metadata: Value::Object(BTreeMap::new()),
            secrets: Secrets::new(),
        };
        let mut rt = Runtime::default();
        rt.resolve(&mut target, &prog, &TimeZone::default())
    }));
    match r {
        Ok(Ok(v)) => (J::Null, Some(v)),
        Ok(Err(Terminate::Error(_))) => (json!({"err": "error"}), None),
        Ok(Err(Terminate::Abort(_))) => (json!({"err": "abort"}), None),
        Err(e) => (json!({"panic": panic_msg(e)}), None),
    }
}

fn lower(s: String) -> String {
    s.to_lowercase()
}

fn dump(file: &str, ty: &str) -> J {
    let path = full_path(file);
    let md = match vrl::protobuf::descriptor::get_message_descriptor(Path::new(&path), ty) {
        Ok(m) => m,
        Err(e) => return json!({"harness_error": e}),
    };
    let pool = md.parent_pool().clone();
    let mut msgs = Vec::new();
    for m in pool.all_messages() {
        let unset = {
            // a fresh message: get_field on it yields every field's default value
            let d = vrl::protobuf::encode::encode_message(
                &m,
                Value::Object(BTreeMap::new()),
                &vrl::protobuf::encode::Options::default(),
            )
            .expect("empty object encodes");
            d
        };
        let mut fields = Vec::new();
        for f in m.fields() {
            let kind = f.kind();
            let mut enum_default = J::Null;
            let (kname, en, msg) = if let Some(e) = kind.as_enum() {
                let vals: Vec<J> = e.values().map(|v| json!([v.name(), v.number()])).collect();
                enum_default = json!(e.default_value().number());
                ("enum".to_string(), J::Array(vals), J::Null)
            } else if let Some(mm) = kind.as_message() {
                ("message".to_string(), J::Null, json!(mm.full_name()))
            } else {
                (lower(format!("{:?}", kind)), J::Null, J::Null)
            };
            fields.push(json!({
                "name": f.name(), "json": f.json_name(), "num": f.number(), "kind": kname, "enum": en, "msg": msg,
                "card": lower(format!("{:?}", f.cardinality())), "presence": f.supports_presence(),
                "packed": f.is_packed(), "is_map": f.is_map(), "is_list": f.is_list(),
                "oneof": f.containing_oneof().map(|o| o.name().to_string()),
                "default": format!("{:?}", unset.get_field(&f)), "enum_default": enum_default,
            }));
        }
        msgs.push(json!({"name": m.full_name(), "map_entry": m.is_map_entry(), "fields": fields}));
    }
    json!({"messages": msgs})
}

fn lit(s: &str) -> String {
    assert!(s.chars().all(|c| c != '"' && c != '\\' && c != '{' && c != '}' && !c.is_control()), "harness: literal needs escaping");
    format!("\"{}\"", s)
}

pub fn run(case: &J) -> J {
    let file = case["file"].as_str().unwrap_or("");
    let ty = case["type"].as_str().unwrap_or("");
    match case["op"].as_str().expect("op") {
        "desc" => dump(file, ty),
        "rt" => {
            let v = from_json(&case["v"]);
            let path = full_path(file);
            let opt = match case.get("lossy").and_then(|l| l.as_bool()) {
                Some(b) => format!(", allow_lossy_string_coercion: {b}"),
                None => String::new(),
            };
            let src = format!("encode_proto!(.v, {}, {}{})", lit(&path), lit(ty), opt);
            let (r, ev) = run_src(&src, v);
            match ev {
                Some(Value::Bytes(b)) => {
                    let src = format!("parse_proto!(.v, {}, {})", lit(&path), lit(ty));
                    let (r2, dv) = run_src(&src, Value::Bytes(b.clone()));
                    let dec = match dv {
                        Some(v) => json!({"ok": to_json(&v)}),
                        None => r2,
                    };
                    json!({"enc": {"ok": hex(&b)}, "dec": dec})
                }
                Some(_) => json!({"enc": {"err": "other"}, "dec": J::Null}),
                None => json!({"enc": r, "dec": J::Null}),
            }
        }
        "dec" => {
            let path = full_path(file);
            let b = unhex(case["b"].as_str().expect("b"));
            let src = format!("parse_proto!(.v, {}, {})", lit(&path), lit(ty));
            let (r2, dv) = run_src(&src, Value::Bytes(b.into()));
            let dec = match dv {
                Some(v) => json!({"ok": to_json(&v)}),
                None => r2,
            };
            json!({"dec": dec})
        }
        "compile" => {
            let f = case["fn"].as_str().expect("fn");
            let path = full_path(file);
            let src = format!("{f}!(.v, {}, {})", lit(&path), lit(ty));
            let r = std::panic::catch_unwind(std::panic::AssertUnwindSafe(|| {
                FNS.with(|fns| vrl::compiler::compile(&src, fns).is_ok())
            }));
            match r {
                Ok(true) => json!({"compile": "ok"}),
                Ok(false) => json!({"compile": "error"}),
                Err(e) => json!({"compile": "panic", "msg": panic_msg(e)}),
            }
        }
        other => json!({"harness_error": format!("unknown op {other}")}),
    }
}

fn main() {
    vrl_verif_harness::main_loop(run);
}
