//! C29: numeric stdlib functions (round/ceil/floor/abs/mod/to_int/to_float/to_string/parse_int/parse_float).
//!
//! A case is an event `ev` (object of vj values: the function arguments) and `steps`, each a VRL source
//! (fallible calls written with `!`) whose result may be stored in an event field for later steps:
//!   {"op": "round", "ev": {"x": {"f": "4005bf0a8b145769"}, "p": {"i": "2"}},
//!    "steps": [{"src": "round!(.x, precision: .p)"}], "pow10": "2"}
//! Every source is compiled once (cache keyed by the source text) with `vrl::stdlib::all()` and run by
//! `Runtime::resolve` on a `TargetValue`.  Per step the result is
//!   {"ok": <vj value>} | {"err": "error"} | {"err": "abort"} | {"err": "compile"} | {"panic": "<msg>"}
//! -- error prose is never reported, only the class.  A panic inside the implementation (overflow check,
//! expect/unwrap) is caught per step and reported as such.
//! "pow10": "<p>" additionally reports the bits of `10_f64.powf(p as f64)` -- the libm call that
//! `round_to_precision` (src/stdlib/util.rs) makes -- so that the model's assumption about it is checked.
use serde_json::{json, Map, Value as J};
use std::cell::RefCell;
use std::collections::{BTreeMap, HashMap};
use std::rc::Rc;
use vrl::compiler::runtime::{Runtime, Terminate};
use vrl::compiler::{Program, TargetValue, TimeZone};
use vrl::value::{Secrets, Value};
use vrl_verif_harness::vj::*;

thread_local! {
    static CACHE: RefCell<HashMap<String, Option<Rc<Program>>>> = RefCell::new(HashMap::new());
    static FNS: Vec<Box<dyn vrl::compiler::Function>> = vrl::stdlib::all();
}

fn compiled(src: &str) -> Option<Rc<Program>> {
    if let Some(p) = CACHE.with(|c| c.borrow().get(src).cloned()) {
        return p;
    }
    let p = FNS.with(|fns| match vrl::compiler::compile(src, fns) {
        Ok(r) => Some(Rc::new(r.program)),
        Err(_) => None,
    });
    CACHE.with(|c| c.borrow_mut().insert(src.to_string(), p.clone()));
    p
}

fn run_step(src: &str, event: &Value) -> (J, Option<Value>) {
    let Some(prog) = compiled(src) else {
        return (json!({"err": "compile"}), None);
    };
    let ev = event.clone();
    let r = std::panic::catch_unwind(std::panic::AssertUnwindSafe(move || {
        let mut target = TargetValue {
            value: ev,
            metadata: Value::Object(BTreeMap::new()),
            secrets: Secrets::new(),
        };
        let mut rt = Runtime::default();
        rt.resolve(&mut target, &prog, &TimeZone::default())
    }));
    match r {
        Ok(Ok(v)) => (json!({"ok": to_json(&v)}), Some(v)),
        Ok(Err(Terminate::Error(_))) => (json!({"err": "error"}), None),
        Ok(Err(Terminate::Abort(_))) => (json!({"err": "abort"}), None),
        Err(e) => {
            let msg = if let Some(s) = e.downcast_ref::<&str>() {
                (*s).to_string()
            } else if let Some(s) = e.downcast_ref::<String>() {
                s.clone()
            } else {
                "?".to_string()
            };
            let short: String = msg.chars().take(160).collect();
            (json!({"panic": short}), None)
        }
    }
}

#[inline(never)]
fn pow10(p: i64) -> f64 {
    // the expression of round_to_precision, on a run-time argument
    let p = std::hint::black_box(p);
    10_f64.powf(p as f64)
}

pub fn run(case: &J) -> J {
    let mut event = Value::Object(BTreeMap::new());
    if let Some(ev) = case.get("ev").and_then(|e| e.as_object()) {
        for (k, v) in ev {
            if let Value::Object(m) = &mut event {
                m.insert(k.as_str().into(), from_json(v));
            }
        }
    }
    let mut out = Map::new();
    let mut results = Vec::new();
    if let Some(steps) = case.get("steps").and_then(|s| s.as_array()) {
        for step in steps {
            let src = step["src"].as_str().expect("src");
            let (res, val) = run_step(src, &event);
            if let (Some(name), Some(v)) = (step.get("out").and_then(|o| o.as_str()), val) {
                if let Value::Object(m) = &mut event {
                    m.insert(name.into(), v);
                }
            }
            results.push(res);
        }
    }
    out.insert("steps".into(), J::Array(results));
    if let Some(p) = case.get("pow10").and_then(|p| p.as_str()) {
        let p: i64 = p.parse().expect("pow10 exponent");
        out.insert("pow10".into(), J::String(format!("{:016x}", pow10(p).to_bits())));
    }
    J::Object(out)
}

fn main() {
    vrl_verif_harness::main_loop(run);
}
