//! C25: paired conversion functions.  Generic: the case carries two VRL sources; `fwd` is compiled with the
//! real compiler + stdlib and run on the case's event (arguments are read from event fields such as `.x`,
//! so they are runtime-typed); when it succeeds its result is stored in the event under `.y` and `back` is
//! run on that event.  Each step is reported as {"ok": value} | {"err": "compile"|"abort"|"error"} |
//! {"panic": msg}; panics are caught per step so that the model's Panic outcome can be compared.
//! case: {"op": name, "fwd": "<vrl source>", "back": "<vrl source>"|null, "event": value(object), "tz": "UTC"?}
//! result: {"fwd": step, "back": step|null}
use serde_json::{json, Value as J};
use std::cell::RefCell;
use std::collections::{BTreeMap, HashMap};
use std::rc::Rc;
use vrl::compiler::runtime::{Runtime, Terminate};
use vrl::compiler::{Program, TargetValue, TimeZone};
use vrl::value::{Secrets, Value};
use vrl_verif_harness::vj::*;

thread_local! {
    static CACHE: RefCell<HashMap<String, Option<Rc<Program>>>> = RefCell::new(HashMap::new());
}

fn compiled(src: &str) -> Option<Rc<Program>> {
    CACHE.with(|c| {
        if let Some(p) = c.borrow().get(src) {
            return p.clone();
        }
        let p = match vrl::compiler::compile(src, &vrl::stdlib::all()) {
            Ok(r) => Some(Rc::new(r.program)),
            Err(_) => None,
        };
        c.borrow_mut().insert(src.to_string(), p.clone());
        p
    })
}

fn step(src: &str, event: &Value, tz: &TimeZone) -> J {
    let r = std::panic::catch_unwind(std::panic::AssertUnwindSafe(|| {
        let program = match compiled(src) {
            Some(p) => p,
            None => return json!({"err": "compile"}),
        };
        let mut target = TargetValue {
            value: event.clone(),
            metadata: Value::Object(BTreeMap::new()),
            secrets: Secrets::new(),
        };
        let mut runtime = Runtime::default();
        match runtime.resolve(&mut target, &program, tz) {
            Ok(v) => json!({"ok": to_json(&v)}),
            Err(Terminate::Abort(_)) => json!({"err": "abort"}),
            Err(Terminate::Error(_)) => json!({"err": "error"}),
        }
    }));
    match r {
        Ok(j) => j,
        Err(e) => {
            let msg = if let Some(s) = e.downcast_ref::<&str>() {
                (*s).to_string()
            } else if let Some(s) = e.downcast_ref::<String>() {
                s.clone()
            } else {
                "?".to_string()
            };
            json!({"panic": msg})
        }
    }
}

pub fn run(case: &J) -> J {
    let tz = match case.get("tz").and_then(|t| t.as_str()) {
        None => TimeZone::parse("UTC").expect("UTC"),
        Some(name) => TimeZone::parse(name).expect("timezone"),
    };
    let event = from_json(&case["event"]);
    let fwd_src = case["fwd"].as_str().expect("fwd source");
    let fwd = step(fwd_src, &event, &tz);
    let mut back = J::Null;
    if let Some(back_src) = case.get("back").and_then(|b| b.as_str()) {
        if let Some(y) = fwd.get("ok") {
            let mut ev2 = event.clone();
            if let Value::Object(m) = &mut ev2 {
                m.insert("y".into(), from_json(y));
            }
            back = step(back_src, &ev2, &tz);
        }
    }
    json!({"fwd": fwd, "back": back})
}

fn main() {
    vrl_verif_harness::main_loop(run);
}
