//! C25: paired conversion functions.  A case names the two stdlib calls and gives the input:
//!   {"op": label, "f": fn, "g": fn|null, "x": value}
//!   fn = {"fn": "format_int", "base": value?} | {"fn": "parse_int", "base": value?} | {"fn": "ip_aton"} | ... |
//!        {"fn": "flatten", "sep": value?, "except": [str]?} | {"fn": "unflatten", "sep": value?, "recursive": value?} |
//!        {"fn": "to_unix_timestamp"|"from_unix_timestamp", "unit": str} | {"fn": "format_timestamp"|"parse_timestamp", "fmt": value}
//! The harness writes the VRL source of each call (`name!(.x, ...)`: every argument is read from an event field, so
//! it is runtime-typed; `unit`/`except` must be literals), compiles it with the real compiler + stdlib (cached by
//! source) and runs it with Runtime::resolve on an event holding the arguments.  When the first call succeeds its
//! result is stored under `.y` and the second call is run on `.y`.  Each step is reported as
//! {"ok": value} | {"err": "compile"|"abort"|"error"} | {"panic": msg}; panics are caught per step so that the
//! model's Panic outcome can be compared.
//! result: {"fwd": step, "back": step|null, "fwd_src": source, "back_src": source|null}
use serde_json::{json, Value as J};
use std::cell::RefCell;
use std::collections::{BTreeMap, HashMap};
use std::rc::Rc;
use vrl::compiler::runtime::{Runtime, Terminate};
use vrl::compiler::{Program, TargetValue, TimeZone};
use vrl::value::{ObjectMap, Secrets, Value};
use vrl_verif_harness::vj::*;

thread_local! {
    static CACHE: RefCell<HashMap<String, Option<Rc<Program>>>> = RefCell::new(HashMap::new());
}

fn compiled(src: &str) -> Option<Rc<Program>> {
    CACHE.with(|c| {
        if let Some(p) = c.borrow().get(src) {
            return p.clone();
        }
        let p = match vrl::compiler::compile(src, &vrl::stdlib::all()) {
            Ok(r) => Some(Rc::new(r.program)),
            Err(_) => None,
        };
        c.borrow_mut().insert(src.to_string(), p.clone());
        p
    })
}

fn step(src: &str, event: &Value, tz: &TimeZone) -> J {
    let r = std::panic::catch_unwind(std::panic::AssertUnwindSafe(|| {
        let program = match compiled(src) {
            Some(p) => p,
            None => return json!({"err": "compile"}),
        };
        let mut target = TargetValue {
            value: event.clone(),
            metadata: Value::Object(BTreeMap::new()),
            secrets: Secrets::new(),
        };
        let mut runtime = Runtime::default();
        match runtime.resolve(&mut target, &program, tz) {
            Ok(v) => json!({"ok": to_json(&v)}),
            Err(Terminate::Abort(_)) => json!({"err": "abort"}),
            Err(Terminate::Error(_)) => json!({"err": "error"}),
        }
    }));
    match r {
        Ok(j) => j,
        Err(e) => {
            let msg = if let Some(s) = e.downcast_ref::<&str>() {
                (*s).to_string()
            } else if let Some(s) = e.downcast_ref::<String>() {
                s.clone()
            } else {
                "?".to_string()
            };
            json!({"panic": msg})
        }
    }
}

fn vrl_str(s: &str) -> String {
    format!("\"{}\"", s.replace('\\', "\\\\").replace('"', "\\\""))
}

/// VRL source of one call on `arg` (".x" or ".y"); the other arguments are event fields filled by `event_fields`.
fn src_of(f: &J, arg: &str, second: bool) -> String {
    let n = f["fn"].as_str().expect("fn name");
    let has = |k: &str| f.get(k).is_some();
    let p = if second { "g_" } else { "f_" };
    match n {
        "format_int" | "parse_int" => {
            if has("base") { format!("{n}!({arg}, .{p}base)") } else { format!("{n}!({arg})") }
        }
        "ip_aton" | "ip_ntoa" | "ip_pton" | "ip_ntop" | "ip_to_ipv6" | "ipv6_to_ipv4" | "to_entries" | "from_entries" => {
            format!("{n}!({arg})")
        }
        "flatten" => {
            let mut s = format!("flatten!({arg}");
            if has("sep") {
                s += &format!(", separator: .{p}sep");
            }
            if let Some(ex) = f.get("except").and_then(|e| e.as_array()) {
                if !ex.is_empty() {
                    let ks: Vec<String> = ex.iter().map(|k| vrl_str(k.as_str().expect("except key"))).collect();
                    s += &format!(", except: [{}]", ks.join(", "));
                }
            }
            s + ")"
        }
        "unflatten" => {
            let mut s = format!("unflatten!({arg}");
            if has("sep") {
                s += &format!(", separator: .{p}sep");
            }
            if has("recursive") {
                s += &format!(", recursive: .{p}recursive");
            }
            s + ")"
        }
        "to_unix_timestamp" | "from_unix_timestamp" => {
            format!("{n}!({arg}, unit: {})", vrl_str(f["unit"].as_str().expect("unit")))
        }
        "format_timestamp" | "parse_timestamp" => format!("{n}!({arg}, .{p}fmt)"),
        _ => panic!("unknown function {n}"),
    }
}

fn event_fields(f: &J, second: bool, ev: &mut ObjectMap) {
    let p = if second { "g_" } else { "f_" };
    for k in ["base", "sep", "recursive", "fmt"] {
        if let Some(v) = f.get(k) {
            ev.insert(format!("{p}{k}").into(), from_json(v));
        }
    }
}

pub fn run(case: &J) -> J {
    let tz = match case.get("tz").and_then(|t| t.as_str()) {
        None => TimeZone::parse("UTC").expect("UTC"),
        Some(name) => TimeZone::parse(name).expect("timezone"),
    };
    let f = &case["f"];
    let g = case.get("g").filter(|g| !g.is_null());
    let mut ev = ObjectMap::new();
    ev.insert("x".into(), from_json(&case["x"]));
    event_fields(f, false, &mut ev);
    if let Some(g) = g {
        event_fields(g, true, &mut ev);
    }
    let fwd_src = src_of(f, ".x", false);
    let fwd = step(&fwd_src, &Value::Object(ev.clone()), &tz);
    let mut back = J::Null;
    let mut back_src = J::Null;
    if let Some(g) = g {
        let src = src_of(g, ".y", true);
        if let Some(y) = fwd.get("ok") {
            ev.insert("y".into(), from_json(y));
            back = step(&src, &Value::Object(ev), &tz);
        }
        back_src = J::String(src);
    }
    json!({"fwd": fwd, "back": back, "fwd_src": fwd_src, "back_src": back_src})
}

fn main() {
    vrl_verif_harness::main_loop(run);
}
