//! C27: digest / checksum functions of the stdlib (md5, sha1, sha2, sha3, hmac, crc, xxhash, seahash).
//!
//! A case:
//!   {"op": "sha2", "x": <vj value>, "key": <vj value>?, "mode": "default" | "lit" | "dyn",
//!    "name": "<hex of the variant/algorithm name>"?, "namev": <vj value>? , "enc": "raw" | "hex" | "b64"}
//! `x` and `key` may also be plain JSON arrays of byte values (shrinkable by the generic shrinker).
//! * mode "default": the variant/algorithm argument is omitted;
//! * mode "lit": the name (must be valid UTF-8) is written into the VRL source as a string literal
//!   (`variant: "SHA-256"`), which is what the compile-time enum check of sha2/sha3 sees;
//! * mode "dyn": the argument is read from the event (`.v`), value = `namev` if present, else bytes `name`.
//! The VRL program is `<fn>!(.x [, key: .k] [, variant|algorithm: ...])`, optionally wrapped in
//! `encode_base16(..)` / `encode_base64(..)`; it is compiled with `vrl::stdlib::all()` (cache keyed by the
//! source text) and run by `Runtime::resolve` on a `TargetValue`.
//! Result: {"ok": <vj value>} | {"err": "error" | "abort" | "compile"} | {"panic": "<msg>"} — never prose.
use serde_json::{json, Value as J};
use std::cell::RefCell;
use std::collections::{BTreeMap, HashMap};
use std::rc::Rc;
use vrl::compiler::runtime::{Runtime, Terminate};
use vrl::compiler::{Program, TargetValue, TimeZone};
use vrl::value::{Secrets, Value};
use vrl_verif_harness::vj::*;

thread_local! {
    static CACHE: RefCell<HashMap<String, Option<Rc<Program>>>> = RefCell::new(HashMap::new());
    static FNS: Vec<Box<dyn vrl::compiler::Function>> = vrl::stdlib::all();
}

fn compiled(src: &str) -> Option<Rc<Program>> {
    if let Some(p) = CACHE.with(|c| c.borrow().get(src).cloned()) {
        return p;
    }
    let s = src.to_string();
    let p = std::panic::catch_unwind(move || {
        FNS.with(|fns| match vrl::compiler::compile(&s, fns) {
            Ok(r) => Some(Rc::new(r.program)),
            Err(_) => None,
        })
    });
    let p = match p {
        Ok(p) => p,
        Err(_) => panic!("compiler panicked"),
    };
    CACHE.with(|c| c.borrow_mut().insert(src.to_string(), p.clone()));
    p
}

fn vrl_string_literal(s: &str) -> String {
    let mut out = String::from("\"");
    for ch in s.chars() {
        match ch {
            '"' => out.push_str("\\\""),
            '\\' => out.push_str("\\\\"),
            '\n' => out.push_str("\\n"),
            '\t' => out.push_str("\\t"),
            '\r' => out.push_str("\\r"),
            '\0' => out.push_str("\\0"),
            c => out.push(c),
        }
    }
    out.push('"');
    out
}

/// a plain JSON array is a byte string (so that the generic shrinker can drop elements); anything else is vj
fn arg_value(j: &J) -> Value {
    match j {
        J::Array(a) => {
            let b: Vec<u8> = a.iter().map(|x| x.as_u64().expect("byte") as u8).collect();
            Value::Bytes(b.into())
        }
        _ => from_json(j),
    }
}

fn arg_name(op: &str) -> &'static str {
    match op {
        "hmac" | "crc" => "algorithm",
        _ => "variant",
    }
}

pub fn run(case: &J) -> J {
    let op = case["op"].as_str().expect("op");
    let mode = case.get("mode").and_then(|m| m.as_str()).unwrap_or("default");
    let enc = case.get("enc").and_then(|m| m.as_str()).unwrap_or("raw");
    let mut ev: BTreeMap<vrl::value::KeyString, Value> = BTreeMap::new();
    ev.insert("x".into(), arg_value(&case["x"]));
    let mut src = format!("{op}!(.x");
    if op == "hmac" {
        ev.insert("k".into(), arg_value(&case["key"]));
        src.push_str(", key: .k");
    }
    match mode {
        "default" => {}
        "lit" => {
            let name = unhex(case["name"].as_str().expect("name"));
            let name = String::from_utf8(name).expect("literal names must be UTF-8");
            src.push_str(&format!(", {}: {}", arg_name(op), vrl_string_literal(&name)));
        }
        "dyn" => {
            let v = match case.get("namev") {
                Some(j) if !j.is_null() || case.get("name").is_none() => from_json(j),
                _ => match case.get("name").and_then(|n| n.as_str()) {
                    Some(n) => Value::Bytes(unhex(n).into()),
                    None => Value::Null,
                },
            };
            ev.insert("v".into(), v);
            src.push_str(&format!(", {}: .v", arg_name(op)));
        }
        m => panic!("harness: unknown mode {m}"),
    }
    src.push(')');
    let src = match enc {
        "raw" => src,
        "hex" => format!("encode_base16({src})"),
        "b64" => format!("encode_base64({src})"),
        e => panic!("harness: unknown enc {e}"),
    };
    let Some(prog) = compiled(&src) else {
        return json!({"err": "compile"});
    };
    let r = std::panic::catch_unwind(std::panic::AssertUnwindSafe(move || {
        let mut target = TargetValue {
            value: Value::Object(ev),
            metadata: Value::Object(BTreeMap::new()),
            secrets: Secrets::new(),
        };
        let mut rt = Runtime::default();
        rt.resolve(&mut target, &prog, &TimeZone::default())
    }));
    match r {
        Ok(Ok(v)) => json!({"ok": to_json(&v)}),
        Ok(Err(Terminate::Error(_))) => json!({"err": "error"}),
        Ok(Err(Terminate::Abort(_))) => json!({"err": "abort"}),
        Err(e) => {
            let msg = if let Some(s) = e.downcast_ref::<&str>() {
                (*s).to_string()
            } else if let Some(s) = e.downcast_ref::<String>() {
                s.clone()
            } else {
                "?".to_string()
            };
            let short: String = msg.chars().take(160).collect();
            json!({"panic": short})
        }
    }
}

fn main() {
    vrl_verif_harness::main_loop(run);
}
