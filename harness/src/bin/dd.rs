//! C30 / C31: the Datadog search syntax (parser, `to_lucene`) and `match_datadog_query`.
//!
//! Cases:
//!   {"op": "parse", "q": "<query text>"}
//!     -> {"t": <tree>|"err"|"panic", "l": "<to_lucene(t)>", "t2": <tree of parse(l)>|"err"|"panic",
//!         "l2": "<to_lucene(t2)>", "fl": [["<bits of a float bound>", "<its Display text>"], ...]}
//!        (`l`, `t2`, `l2`, `fl` only when the first parse succeeded)
//!   {"op": "match", "ev": <vj value>, "qs": ["<query>", ...], ...}
//!     -> {"r": [{"t": <tree>|"err", "m": true|false|"compile"|"error"}, ...]}
//!        every query is parsed with the public parser (tree reported) and, independently, compiled into
//!        the one-expression program `match_datadog_query(., "<query literal>")` and run on the event.
//!
//! Tree encoding (strings are JSON strings):
//!   {"k":"all"} {"k":"none"} {"k":"exists","attr":s} {"k":"missing","attr":s}
//!   {"k":"range","attr":s,"lo":cv,"li":bool,"hi":cv,"ui":bool} {"k":"cmp","attr":s,"op":"gt|lt|gte|lte","v":cv}
//!   {"k":"term","attr":s,"v":s} {"k":"quoted","attr":s,"v":s} {"k":"prefix","attr":s,"v":s} {"k":"wild","attr":s,"v":s}
//!   {"k":"not","n":tree} {"k":"and","ns":[tree..]} {"k":"or","ns":[tree..]}
//!   cv: {"u":1} | {"s":str} | {"i":"<decimal>"} | {"f":"<16 hex digits of the bits>"}
use serde_json::{json, Value as J};
use std::cell::RefCell;
use std::collections::{BTreeMap, HashMap};
use std::rc::Rc;
use vrl::compiler::runtime::{Runtime, Terminate};
use vrl::compiler::{Program, TargetValue, TimeZone};
use vrl::datadog_search_syntax::{BooleanType, Comparison, ComparisonValue, QueryNode};
use vrl::value::{Secrets, Value};
use vrl_verif_harness::vj::*;

thread_local! {
    static CACHE: RefCell<HashMap<String, Option<Rc<Program>>>> = RefCell::new(HashMap::new());
    static FNS: Vec<Box<dyn vrl::compiler::Function>> = vrl::stdlib::all();
}

fn cv(v: &ComparisonValue) -> J {
    match v {
        ComparisonValue::Unbounded => json!({"u": 1}),
        ComparisonValue::String(s) => json!({"s": s}),
        ComparisonValue::Integer(i) => json!({"i": i.to_string()}),
        ComparisonValue::Float(f) => json!({"f": format!("{:016x}", f.to_bits())}),
    }
}

fn tree(n: &QueryNode) -> J {
    match n {
        QueryNode::MatchAllDocs => json!({"k": "all"}),
        QueryNode::MatchNoDocs => json!({"k": "none"}),
        QueryNode::AttributeExists { attr } => json!({"k": "exists", "attr": attr}),
        QueryNode::AttributeMissing { attr } => json!({"k": "missing", "attr": attr}),
        QueryNode::AttributeRange {
            attr,
            lower,
            lower_inclusive,
            upper,
            upper_inclusive,
        } => json!({"k": "range", "attr": attr, "lo": cv(lower), "li": lower_inclusive, "hi": cv(upper), "ui": upper_inclusive}),
        QueryNode::AttributeComparison {
            attr,
            comparator,
            value,
        } => {
            let op = match comparator {
                Comparison::Gt => "gt",
                Comparison::Lt => "lt",
                Comparison::Gte => "gte",
                Comparison::Lte => "lte",
            };
            json!({"k": "cmp", "attr": attr, "op": op, "v": cv(value)})
        }
        QueryNode::AttributeTerm { attr, value } => json!({"k": "term", "attr": attr, "v": value}),
        QueryNode::QuotedAttribute { attr, phrase } => json!({"k": "quoted", "attr": attr, "v": phrase}),
        QueryNode::AttributePrefix { attr, prefix } => json!({"k": "prefix", "attr": attr, "v": prefix}),
        QueryNode::AttributeWildcard { attr, wildcard } => json!({"k": "wild", "attr": attr, "v": wildcard}),
        QueryNode::NegatedNode { node } => json!({"k": "not", "n": tree(node)}),
        QueryNode::Boolean { oper, nodes } => {
            let k = match oper {
                BooleanType::And => "and",
                BooleanType::Or => "or",
            };
            json!({"k": k, "ns": nodes.iter().map(tree).collect::<Vec<_>>()})
        }
    }
}

fn parse(q: &str) -> Option<QueryNode> {
    q.parse::<QueryNode>().ok()
}

/// Ok(Some(tree)) | Ok(None) = the parser's Err | Err(()) = the parser panicked
fn parse_caught(q: &str) -> Result<Option<QueryNode>, ()> {
    let q = q.to_string();
    std::panic::catch_unwind(move || q.parse::<QueryNode>().ok()).map_err(|_| ())
}

fn floats(n: &QueryNode, out: &mut Vec<J>) {
    let cvf = |v: &ComparisonValue, out: &mut Vec<J>| {
        if let ComparisonValue::Float(f) = v {
            out.push(json!([format!("{:016x}", f.to_bits()), f.to_string()]));
        }
    };
    match n {
        QueryNode::AttributeRange { lower, upper, .. } => {
            cvf(lower, out);
            cvf(upper, out);
        }
        QueryNode::AttributeComparison { value, .. } => cvf(value, out),
        QueryNode::NegatedNode { node } => floats(node, out),
        QueryNode::Boolean { nodes, .. } => {
            for x in nodes {
                floats(x, out);
            }
        }
        _ => {}
    }
}

/// the query text as a VRL string literal
fn vrl_quote(q: &str) -> String {
    let mut s = String::from("\"");
    for c in q.chars() {
        match c {
            '\\' => s.push_str("\\\\"),
            '"' => s.push_str("\\\""),
            '\n' => s.push_str("\\n"),
            '\r' => s.push_str("\\r"),
            '\t' => s.push_str("\\t"),
            '{' => s.push_str("\\{"),
            '}' => s.push_str("\\}"),
            c if (c as u32) < 0x20 || c == '\u{7f}' => s.push_str(&format!("\\u{{{:x}}}", c as u32)),
            c => s.push(c),
        }
    }
    s.push('"');
    s
}

fn compiled(src: &str) -> Option<Rc<Program>> {
    if let Some(p) = CACHE.with(|c| c.borrow().get(src).cloned()) {
        return p;
    }
    let p = FNS.with(|fns| match vrl::compiler::compile(src, fns) {
        Ok(r) => Some(Rc::new(r.program)),
        Err(_) => None,
    });
    CACHE.with(|c| {
        let mut c = c.borrow_mut();
        if c.len() > 20000 {
            c.clear();
        }
        c.insert(src.to_string(), p.clone())
    });
    p
}

fn run_match(q: &str, event: &Value) -> J {
    let src = format!("match_datadog_query(., {})", vrl_quote(q));
    let Some(prog) = compiled(&src) else {
        return json!("compile");
    };
    let ev = event.clone();
    let r = std::panic::catch_unwind(std::panic::AssertUnwindSafe(move || {
        let mut target = TargetValue {
            value: ev,
            metadata: Value::Object(BTreeMap::new()),
            secrets: Secrets::new(),
        };
        let mut rt = Runtime::default();
        rt.resolve(&mut target, &prog, &TimeZone::default())
    }));
    match r {
        Ok(Ok(Value::Boolean(b))) => json!(b),
        Ok(Ok(_)) => json!("nonbool"),
        Ok(Err(Terminate::Error(_))) | Ok(Err(Terminate::Abort(_))) => json!("error"),
        Err(_) => json!("panic"),
    }
}

pub fn run(case: &J) -> J {
    match case["op"].as_str().expect("op") {
        "parse" => {
            let q = case["q"].as_str().expect("q");
            match parse_caught(q) {
                Err(()) => json!({"t": "panic"}),
                Ok(None) => json!({"t": "err"}),
                Ok(Some(n)) => {
                    let l = n.to_lucene();
                    let mut fl = Vec::new();
                    floats(&n, &mut fl);
                    match parse_caught(&l) {
                        Err(()) => json!({"t": tree(&n), "l": l, "t2": "panic", "fl": fl}),
                        Ok(None) => json!({"t": tree(&n), "l": l, "t2": "err", "fl": fl}),
                        Ok(Some(n2)) => {
                            floats(&n2, &mut fl);
                            json!({"t": tree(&n), "l": l, "t2": tree(&n2), "l2": n2.to_lucene(), "fl": fl})
                        }
                    }
                }
            }
        }
        "match" => {
            let ev = from_json(&case["ev"]);
            let mut rs = Vec::new();
            // `qs`: an array, or an object {"q0": .., "q1": ..} taken in key order (not shrinkable)
            let qs: Vec<&J> = match &case["qs"] {
                J::Array(a) => a.iter().collect(),
                J::Object(m) => {
                    let mut ks: Vec<&String> = m.keys().collect();
                    ks.sort();
                    ks.into_iter().map(|k| &m[k]).collect()
                }
                _ => panic!("qs"),
            };
            for q in qs {
                let q = q.as_str().expect("query string");
                let t = match parse(q) {
                    None => json!("err"),
                    Some(n) => tree(&n),
                };
                rs.push(json!({"t": t, "m": run_match(q, &ev)}));
            }
            json!({"r": rs})
        }
        _ => json!({"harness_error": "unknown op"}),
    }
}

fn main() {
    vrl_verif_harness::main_loop(run);
}
