//! Stdlib-wide family for C03 (declared signature), C04 (no panic), C05 (prompt termination).
//! ops:
//!   {"op":"list"}                       -> every function of vrl::stdlib::all(): parameters, return_kind, closure, examples
//!   {"op":"call","src":hex,"event":v,"fn":name,"budget_ms":n}
//!        compile the source (one call expression, arguments literal or `.field`), report the
//!        program's type (fallible, kind bits) and run it under a watchdog; result membership in the
//!        declared kind and in the function's return_kind mask is judged here with a Rust-side member().
use serde_json::{json, Value as J};
use std::sync::mpsc;
use std::time::{Duration, Instant};
use vrl::compiler::runtime::{Runtime, Terminate};
use vrl::compiler::{ExpressionError, TargetValue, TimeZone};
use vrl::value::{Kind, Secrets, Value};
use vrl_verif_harness::member::member;
use vrl_verif_harness::vj::*;

fn kind_bits(k: &Kind) -> u16 {
    let mut b = 0u16;
    if k.contains_bytes() { b |= 1 << 0; }
    if k.contains_integer() { b |= 1 << 1; }
    if k.contains_float() { b |= 1 << 2; }
    if k.contains_boolean() { b |= 1 << 3; }
    if k.contains_object() { b |= 1 << 4; }
    if k.contains_array() { b |= 1 << 5; }
    if k.contains_timestamp() { b |= 1 << 6; }
    if k.contains_regex() { b |= 1 << 7; }
    if k.contains_null() { b |= 1 << 8; }
    if k.contains_undefined() { b |= 1 << 9; }
    b
}

fn value_bit(v: &Value) -> u16 {
    use vrl::compiler::value::kind;
    match v {
        Value::Bytes(_) => kind::BYTES,
        Value::Integer(_) => kind::INTEGER,
        Value::Float(_) => kind::FLOAT,
        Value::Boolean(_) => kind::BOOLEAN,
        Value::Object(_) => kind::OBJECT,
        Value::Array(_) => kind::ARRAY,
        Value::Timestamp(_) => kind::TIMESTAMP,
        Value::Regex(_) => kind::REGEX,
        Value::Null => kind::NULL,
    }
}

pub fn run(case: &J) -> J {
    let fns = vrl::stdlib::all();
    match case["op"].as_str().unwrap() {
        "list" => {
            let l: Vec<J> = fns.iter().map(|f| {
                json!({"name": f.identifier(), "return_kind": f.return_kind(), "pure": f.pure(),
                       "closure": f.closure().is_some(),
                       "params": f.parameters().iter().map(|p| json!({"kw": p.keyword, "kind": p.kind, "required": p.required,
                                   "default": p.default.map(to_json)})).collect::<Vec<_>>(),
                       "examples": f.examples().iter().map(|e| json!({"title": e.title, "source": e.source, "input": e.input,
                                   "ok": e.result.is_ok(), "deterministic": e.deterministic, "skip": e.skip})).collect::<Vec<_>>()})
            }).collect();
            json!({"functions": l, "kind_consts": {"BYTES": vrl::compiler::value::kind::BYTES, "INTEGER": vrl::compiler::value::kind::INTEGER,
                   "FLOAT": vrl::compiler::value::kind::FLOAT, "BOOLEAN": vrl::compiler::value::kind::BOOLEAN, "OBJECT": vrl::compiler::value::kind::OBJECT,
                   "ARRAY": vrl::compiler::value::kind::ARRAY, "TIMESTAMP": vrl::compiler::value::kind::TIMESTAMP, "REGEX": vrl::compiler::value::kind::REGEX,
                   "NULL": vrl::compiler::value::kind::NULL, "ANY": vrl::compiler::value::kind::ANY}})
        }
        "call" => {
            let src = unhex_str(case["src"].as_str().unwrap());
            let t0 = Instant::now();
            let compiled = std::panic::catch_unwind(std::panic::AssertUnwindSafe(|| vrl::compiler::compile(&src, &fns)));
            let res = match compiled {
                Err(_) => return json!({"compile": "panic"}),
                Ok(Err(d)) => return json!({"compile": "err", "messages": d.iter().map(|x| x.message.clone()).collect::<Vec<_>>()}),
                Ok(Ok(r)) => r,
            };
            let compile_ms = t0.elapsed().as_millis() as u64;
            let program = res.program;
            let ti = program.final_type_info();
            let fallible = ti.result.is_fallible();
            let kind = ti.result.kind().clone();
            let ret_mask = case.get("fn").and_then(|n| n.as_str())
                .and_then(|n| fns.iter().find(|f| f.identifier() == n)).map(|f| f.return_kind());
            let event = from_json(&case["event"]);
            let budget = case.get("budget_ms").and_then(|b| b.as_u64()).unwrap_or(2000);
            let (tx, rx) = mpsc::channel();
            let prog = program.clone();
            let t1 = Instant::now();
            std::thread::Builder::new().stack_size(64 * 1024 * 1024).spawn(move || {
                let r = std::panic::catch_unwind(std::panic::AssertUnwindSafe(|| {
                    let mut target = TargetValue { value: event, metadata: Value::Object(Default::default()), secrets: Secrets::new() };
                    let tz = TimeZone::Named(chrono_tz::UTC);
                    Runtime::default().resolve(&mut target, &prog, &tz)
                }));
                let _ = tx.send(r);
            }).unwrap();
            match rx.recv_timeout(Duration::from_millis(budget)) {
                Err(_) => {
                    // the call is still running: report it and leave; the stuck thread cannot be stopped,
                    // the driver restarts the harness for the remaining cases
                    println!("{}", json!({"compile": "ok", "fallible": fallible, "timeout_ms": budget}));
                    std::process::exit(0);
                }
                Ok(Err(_)) => json!({"compile": "ok", "fallible": fallible, "run_panic": true}),
                Ok(Ok(r)) => {
                    let run_ms = t1.elapsed().as_millis() as u64;
                    match r {
                        Ok(v) => {
                            let size = format!("{v}").len();
                            json!({"compile": "ok", "fallible": fallible, "kind_bits": kind_bits(&kind),
                                   "result": "ok", "member": member(&v, &kind) || (v.is_null() && kind.contains_undefined()), "kind": kind.to_string().chars().take(400).collect::<String>(),
                                   "in_return_kind": ret_mask.map(|m| m & value_bit(&v) != 0),
                                   "value": if size <= 4096 { to_json(&v) } else { J::Null }, "out_size": size,
                                   "compile_ms": compile_ms, "run_ms": run_ms})
                        }
                        Err(Terminate::Abort(ExpressionError::Abort { .. })) => json!({"compile": "ok", "fallible": fallible, "result": "abort", "run_ms": run_ms}),
                        Err(e) => json!({"compile": "ok", "fallible": fallible, "result": "error", "message": e.to_string().chars().take(200).collect::<String>(), "run_ms": run_ms}),
                    }
                }
            }
        }
        o => json!({"harness_error": format!("bad op {o}")}),
    }
}

fn main() {
    vrl_verif_harness::main_loop(run);
}
