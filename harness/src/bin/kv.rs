//! C24: key-value / logfmt / CSV encoders and parsers, run through compiled VRL programs.
//!
//! Cases (all texts and delimiters as hex of the bytes; objects/lists in the vj encoding):
//!   {"op":"kv", "o": {"o": [[hexkey, {"b": hex}], ...]}, "kvd": hex, "fd": hex, "ws": "lenient"|"strict", "sk": bool,
//!    "defaults": bool}
//!       enc = encode_key_value(.o, key_value_delimiter: .kvd, field_delimiter: .fd)
//!       dec = parse_key_value(enc, key_value_delimiter: .kvd, field_delimiter: .fd, whitespace: ws, accept_standalone_key: .sk)
//!       with "defaults": true the delimiter / option arguments are left out of both calls (case must carry the default values)
//!   {"op":"logfmt", "o": ...}          enc = encode_logfmt(.o); dec = parse_logfmt(enc)
//!   {"op":"kvparse", "t": hex, "kvd", "fd", "ws", "sk"}     dec only, on arbitrary text
//!   {"op":"logfmtparse", "t": hex}
//!   {"op":"csv", "l": [hex, ...], "d": hex}      enc = encode_csv(.l, delimiter: .d); dec = parse_csv(enc, delimiter: .d)
//!   {"op":"csvparse", "t": hex, "d": hex}
//! Result: {"enc": {"ok": {"b": hex}} | {"err": class}, "dec": {"ok": vj} | {"err": class} | null}
//! Error prose is never reported, only the class ("error" | "abort" | "compile"); a panic inside the
//! implementation is reported as {"panic": msg} for the whole case.
use serde_json::{json, Value as J};
use std::cell::RefCell;
use std::collections::{BTreeMap, HashMap};
use std::rc::Rc;
use vrl::compiler::runtime::{Runtime, Terminate};
use vrl::compiler::{Program, TargetValue, TimeZone};
use vrl::value::{Secrets, Value};
use vrl_verif_harness::vj::*;

thread_local! {
    static CACHE: RefCell<HashMap<String, Option<Rc<Program>>>> = RefCell::new(HashMap::new());
    static FNS: Vec<Box<dyn vrl::compiler::Function>> = vrl::stdlib::all();
}

fn compiled(src: &str) -> Option<Rc<Program>> {
    if let Some(p) = CACHE.with(|c| c.borrow().get(src).cloned()) {
        return p;
    }
    let p = FNS.with(|fns| match vrl::compiler::compile(src, fns) {
        Ok(r) => Some(Rc::new(r.program)),
        Err(_) => None,
    });
    CACHE.with(|c| c.borrow_mut().insert(src.to_string(), p.clone()));
    p
}

/// Ok(value) or Err(class)
fn run_src(src: &str, event: &Value) -> Result<Value, &'static str> {
    let Some(prog) = compiled(src) else {
        return Err("compile");
    };
    let mut target = TargetValue {
        value: event.clone(),
        metadata: Value::Object(BTreeMap::new()),
        secrets: Secrets::new(),
    };
    let mut rt = Runtime::default();
    match rt.resolve(&mut target, &prog, &TimeZone::default()) {
        Ok(v) => Ok(v),
        Err(Terminate::Error(_)) => Err("error"),
        Err(Terminate::Abort(_)) => Err("abort"),
    }
}

fn res_json(r: &Result<Value, &'static str>) -> J {
    match r {
        Ok(v) => json!({"ok": to_json(v)}),
        Err(c) => json!({"err": c}),
    }
}

fn bytes_of(case: &J, k: &str) -> Value {
    Value::Bytes(unhex(case[k].as_str().unwrap_or_else(|| panic!("missing {k}"))).into())
}

fn parse_src(case: &J, field: &str) -> String {
    if case["defaults"].as_bool().unwrap_or(false) {
        return format!("parse_key_value!(.{field})");
    }
    let ws = case["ws"].as_str().unwrap_or("lenient");
    format!(
        "parse_key_value!(.{field}, key_value_delimiter: .kvd, field_delimiter: .fd, whitespace: \"{ws}\", accept_standalone_key: .sk)"
    )
}

fn event(fields: Vec<(&str, Value)>) -> Value {
    let mut m = BTreeMap::new();
    for (k, v) in fields {
        m.insert(k.into(), v);
    }
    Value::Object(m)
}

fn with(ev: &Value, k: &str, v: Value) -> Value {
    let mut e = ev.clone();
    if let Value::Object(m) = &mut e {
        m.insert(k.into(), v);
    }
    e
}

/// run the encoder, then (if it produced bytes) the parser on its output
fn enc_dec(ev: &Value, enc_src: &str, dec_src: &str) -> J {
    let enc = run_src(enc_src, ev);
    let dec = match &enc {
        Ok(v @ Value::Bytes(_)) => res_json(&run_src(dec_src, &with(ev, "e", v.clone()))),
        _ => J::Null,
    };
    json!({"enc": res_json(&enc), "dec": dec})
}

pub fn run(case: &J) -> J {
    let op = case["op"].as_str().expect("op");
    match op {
        "kv" => {
            let ev = event(vec![
                ("o", from_json(&case["o"])),
                ("kvd", bytes_of(case, "kvd")),
                ("fd", bytes_of(case, "fd")),
                ("sk", Value::Boolean(case["sk"].as_bool().unwrap_or(true))),
            ]);
            let enc_src = if case["defaults"].as_bool().unwrap_or(false) {
                "encode_key_value!(.o)"
            } else {
                "encode_key_value!(.o, key_value_delimiter: .kvd, field_delimiter: .fd)"
            };
            enc_dec(&ev, enc_src, &parse_src(case, "e"))
        }
        "logfmt" => {
            let ev = event(vec![("o", from_json(&case["o"]))]);
            enc_dec(&ev, "encode_logfmt!(.o)", "parse_logfmt!(.e)")
        }
        "kvparse" => {
            let ev = event(vec![
                ("t", bytes_of(case, "t")),
                ("kvd", bytes_of(case, "kvd")),
                ("fd", bytes_of(case, "fd")),
                ("sk", Value::Boolean(case["sk"].as_bool().unwrap_or(true))),
            ]);
            json!({"enc": J::Null, "dec": res_json(&run_src(&parse_src(case, "t"), &ev))})
        }
        "logfmtparse" => {
            let ev = event(vec![("t", bytes_of(case, "t"))]);
            json!({"enc": J::Null, "dec": res_json(&run_src("parse_logfmt!(.t)", &ev))})
        }
        "csv" => {
            let l: Vec<Value> = case["l"]
                .as_array()
                .expect("l")
                .iter()
                .map(|h| Value::Bytes(unhex(h.as_str().expect("hex")).into()))
                .collect();
            let ev = event(vec![("l", Value::Array(l)), ("d", bytes_of(case, "d"))]);
            if case["defaults"].as_bool().unwrap_or(false) {
                enc_dec(&ev, "encode_csv!(.l)", "parse_csv!(.e)")
            } else {
                enc_dec(&ev, "encode_csv!(.l, delimiter: .d)", "parse_csv!(.e, delimiter: .d)")
            }
        }
        "csvparse" => {
            let ev = event(vec![("t", bytes_of(case, "t")), ("d", bytes_of(case, "d"))]);
            json!({"enc": J::Null, "dec": res_json(&run_src("parse_csv!(.t, delimiter: .d)", &ev))})
        }
        _ => json!({"harness_error": format!("unknown op {op}")}),
    }
}

fn main() {
    vrl_verif_harness::main_loop(run);
}
