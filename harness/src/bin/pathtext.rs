//! C20: path text.  Texts cross the boundary as hex of their UTF-8 bytes.
//!   {"op":"render","prefix":"value"|"event"|"metadata","p":path}
//!        -> {"text":hex, "reparse": RES}          (String::from(&path) / to_string(), then the matching parser)
//!   {"op":"parse","t":hex}
//!        -> {"value": RES+, "target": TRES+}      (parse_value_path / parse_target_path; on Ok also the
//!                                                  re-rendered text and its re-parse)
//!   {"op":"vrl","t":hex}
//!        -> {"ast": AST, "compiled": COMP, "target": TRES}
//!           AST  = the text parsed as a VRL program (vrl::parser::parse): {"some": tpath} when the program is exactly
//!                  one root expression that is a query on an external target, else "none"
//!           COMP = vrl::compiler::compile(text, stdlib): {"ok":[tpath...]} = Program::info().target_queries, or "err"
//!   {"op":"exhaust","kind":"parse"|"vrl","alpha":[hex..],"n":N,"prefix":hex}
//!        -> {"count": number of texts, "oks":[hex..]}   every text prefix++w, w of exactly N alphabet symbols;
//!           oks = the texts on which any of the calls above returns something other than an error
//!   RES  = {"ok": path} | "err" | "panic"          TRES = {"ok": tpath} | "err" | "panic"
//!   tpath = {"prefix":"event"|"metadata","p":path}
//! Each parser call is wrapped in its own catch_unwind so that a panic is an outcome of that call.
use serde_json::{json, Value as J};
use std::panic::{catch_unwind, AssertUnwindSafe};
use vrl::path::{parse_target_path, parse_value_path, OwnedTargetPath, OwnedValuePath, PathPrefix};
use vrl_verif_harness::vj::*;

fn text_of(j: &J) -> String {
    String::from_utf8(unhex(j.as_str().unwrap())).expect("text must be utf-8")
}

fn prefix_json(p: PathPrefix) -> &'static str {
    match p {
        PathPrefix::Event => "event",
        PathPrefix::Metadata => "metadata",
    }
}

fn tpath_json(tp: &OwnedTargetPath) -> J {
    json!({"prefix": prefix_json(tp.prefix), "p": path_to_json(&tp.path)})
}

fn pv(t: &str) -> J {
    match catch_unwind(AssertUnwindSafe(|| parse_value_path(t))) {
        Ok(Ok(p)) => json!({"ok": path_to_json(&p)}),
        Ok(Err(_)) => json!("err"),
        Err(_) => json!("panic"),
    }
}

fn pt(t: &str) -> J {
    match catch_unwind(AssertUnwindSafe(|| parse_target_path(t))) {
        Ok(Ok(p)) => json!({"ok": tpath_json(&p)}),
        Ok(Err(_)) => json!("err"),
        Err(_) => json!("panic"),
    }
}

fn vrl_ast(t: &str) -> J {
    use vrl::parser::ast::{Expr, QueryTarget, RootExpr};
    let prog = match catch_unwind(AssertUnwindSafe(|| vrl::parser::parse(t))) {
        Ok(Ok(p)) => p,
        Ok(Err(_)) => return json!("none"),
        Err(_) => return json!("panic"),
    };
    if prog.0.len() != 1 {
        return json!("none");
    }
    match prog.0[0].inner() {
        RootExpr::Expr(e) => match e.inner() {
            Expr::Query(q) => {
                let q = q.inner();
                match q.target.inner() {
                    QueryTarget::External(prefix) => {
                        json!({"some": {"prefix": prefix_json(*prefix), "p": path_to_json(q.path.inner())}})
                    }
                    _ => json!("none"),
                }
            }
            _ => json!("none"),
        },
        RootExpr::Error(_) => json!("none"),
    }
}

fn vrl_compiled(t: &str) -> J {
    match catch_unwind(AssertUnwindSafe(|| vrl::compiler::compile(t, &vrl::stdlib::all()))) {
        Ok(Ok(res)) => {
            let qs: Vec<J> = res.program.info().target_queries.iter().map(tpath_json).collect();
            json!({"ok": qs})
        }
        Ok(Err(_)) => json!("err"),
        Err(_) => json!("panic"),
    }
}

pub fn run(case: &J) -> J {
    match case["op"].as_str().unwrap() {
        "render" => {
            let p: OwnedValuePath = path_from_json(&case["p"]);
            match case["prefix"].as_str().unwrap() {
                "value" => {
                    let text = String::from(&p);
                    // Display must be the same text
                    assert_eq!(text, p.to_string());
                    json!({"text": hex(text.as_bytes()), "reparse": pv(&text)})
                }
                pre => {
                    let tp = OwnedTargetPath {
                        prefix: if pre == "event" { PathPrefix::Event } else { PathPrefix::Metadata },
                        path: p,
                    };
                    let text = tp.to_string();
                    assert_eq!(text, String::from(&tp));
                    json!({"text": hex(text.as_bytes()), "reparse": pt(&text)})
                }
            }
        }
        "parse" => {
            let t = text_of(&case["t"]);
            let mut v = json!({"res": pv(&t)});
            if let Ok(p) = catch_unwind(AssertUnwindSafe(|| parse_value_path(&t))).unwrap_or(Err(
                vrl::path::PathParseError::InvalidPathSyntax { path: String::new() },
            )) {
                let text = String::from(&p);
                v["rendered"] = json!(hex(text.as_bytes()));
                v["reparse"] = pv(&text);
            }
            let mut tg = json!({"res": pt(&t)});
            if let Ok(p) = catch_unwind(AssertUnwindSafe(|| parse_target_path(&t))).unwrap_or(Err(
                vrl::path::PathParseError::InvalidPathSyntax { path: String::new() },
            )) {
                let text = p.to_string();
                tg["rendered"] = json!(hex(text.as_bytes()));
                tg["reparse"] = pt(&text);
            }
            json!({"value": v, "target": tg})
        }
        "vrl" => {
            let t = text_of(&case["t"]);
            json!({"ast": vrl_ast(&t), "compiled": vrl_compiled(&t), "target": pt(&t)})
        }
        "exhaust" => {
            // every text prefix ++ w, w a word of exactly n symbols over alpha (first symbol major, like
            // itertools.product); reports the texts on which anything but errors happens
            let alpha: Vec<String> = case["alpha"].as_array().unwrap().iter().map(text_of).collect();
            let n = case["n"].as_u64().unwrap() as usize;
            let prefix = text_of(&case["prefix"]);
            let vrl_kind = case["kind"].as_str().unwrap() == "vrl";
            let mut idx = vec![0usize; n];
            let mut oks: Vec<J> = vec![];
            let mut count: u64 = 0;
            loop {
                let mut t = prefix.clone();
                for &i in &idx {
                    t.push_str(&alpha[i]);
                }
                count += 1;
                let loud = if vrl_kind {
                    // compile() parses first and returns the parse error: it is only worth calling (to see a
                    // compiler panic) when the text parses
                    let parses = matches!(catch_unwind(AssertUnwindSafe(|| vrl::parser::parse(&t))), Ok(Ok(_)) | Err(_));
                    vrl_ast(&t) != json!("none") || pt(&t) != json!("err") || (parses && vrl_compiled(&t) == json!("panic"))
                } else {
                    pv(&t) != json!("err") || pt(&t) != json!("err")
                };
                if loud {
                    oks.push(json!(hex(t.as_bytes())));
                }
                // next word
                let mut k = n;
                loop {
                    if k == 0 {
                        break;
                    }
                    k -= 1;
                    idx[k] += 1;
                    if idx[k] < alpha.len() {
                        break;
                    }
                    idx[k] = 0;
                    if k == 0 {
                        k = usize::MAX;
                        break;
                    }
                }
                if n == 0 || k == usize::MAX {
                    break;
                }
            }
            json!({"count": count, "oks": oks})
        }
        o => json!({"harness_error": format!("bad op {o}")}),
    }
}

fn main() {
    vrl_verif_harness::main_loop(run);
}
