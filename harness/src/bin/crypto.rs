//! C23: encrypt/decrypt and encrypt_ip/decrypt_ip of the stdlib, driven through compiled VRL programs.
//!
//! Cases (byte strings are hex strings, or lists of byte values so that the generic shrinker can shorten them):
//!   {"op":"sym","alg":B,"p":B,"k":B,"iv":B,"const":bool}
//!        enc = encrypt!(.p, <alg>, key: .k, iv: .iv); when it is Ok, dec = decrypt!(enc, <alg>, key: .k, iv: .iv).
//!        <alg> is `.alg` (a run-time value: no compile-time table) or, with "const": true, the literal
//!        (is_valid_algorithm is then consulted by `compile`).
//!        -> {"enc": R, "dec": R | null}
//!   {"op":"dec","alg":B,"c":B,"k":B,"iv":B,"const":bool}   decrypt alone            -> {"dec": R}
//!   {"op":"ip","ip":B,"k":B,"mode":B,"pre":bool}
//!        with "pre": the address used is decrypt_ip!(.ip, .k, .mode) (lets a test construct an address whose
//!        encryption is a chosen one); enc = encrypt_ip!(addr, .k, .mode); dec = decrypt_ip!(enc, .k, .mode)
//!        -> {"pre": R | null, "enc": R | null, "dec": R | null}
//!   {"op":"ipdec","ip":B,"k":B,"mode":B}                    decrypt_ip alone         -> {"dec": R}
//! R = {"ok": "<hex>"} | {"err": "<tag>"} | {"panic": "<msg>"}; the tag is the class of the error only
//! (alg | key | iv | input | parse | mode | compile | abort | other), derived from which message template fired.
use serde_json::{json, Value as J};
use std::cell::RefCell;
use std::collections::{BTreeMap, HashMap};
use std::rc::Rc;
use vrl::compiler::runtime::{Runtime, Terminate};
use vrl::compiler::{Program, TargetValue, TimeZone};
use vrl::value::{Secrets, Value};
use vrl_verif_harness::vj::*;

thread_local! {
    static CACHE: RefCell<HashMap<String, Option<Rc<Program>>>> = RefCell::new(HashMap::new());
    static FNS: Vec<Box<dyn vrl::compiler::Function>> = vrl::stdlib::all();
}

fn compiled(src: &str) -> Option<Rc<Program>> {
    if let Some(p) = CACHE.with(|c| c.borrow().get(src).cloned()) {
        return p;
    }
    let p = FNS.with(|fns| match vrl::compiler::compile(src, fns) {
        Ok(r) => Some(Rc::new(r.program)),
        Err(_) => None,
    });
    CACHE.with(|c| c.borrow_mut().insert(src.to_string(), p.clone()));
    p
}

fn bytes_of(j: &J) -> Vec<u8> {
    match j {
        J::Array(a) => a.iter().map(|x| x.as_u64().expect("byte") as u8).collect(),
        J::String(s) => unhex(s),
        _ => panic!("harness: bad bytes"),
    }
}

fn classify(msg: &str) -> &'static str {
    if msg.contains("Invalid algorithm") {
        "alg"
    } else if msg.contains("Invalid key size") || msg.contains("mode requires a") || msg.contains("halves of the key") {
        "key"
    } else if msg.contains("Invalid iv size") {
        "iv"
    } else if msg.contains("Invalid input") {
        "input"
    } else if msg.contains("unable to parse IP address") {
        "parse"
    } else if msg.contains("Invalid mode") {
        "mode"
    } else {
        "other"
    }
}

fn run_src(src: &str, fields: &[(&str, Vec<u8>)]) -> (J, Option<Vec<u8>>) {
    let Some(prog) = compiled(src) else {
        return (json!({"err": "compile"}), None);
    };
    let mut m = BTreeMap::new();
    for (k, v) in fields {
        m.insert((*k).into(), Value::Bytes(v.clone().into()));
    }
    let r = std::panic::catch_unwind(std::panic::AssertUnwindSafe(move || {
        let mut target = TargetValue {
            value: Value::Object(m),
            metadata: Value::Object(BTreeMap::new()),
            secrets: Secrets::new(),
        };
        let mut rt = Runtime::default();
        rt.resolve(&mut target, &prog, &TimeZone::default())
    }));
    match r {
        Ok(Ok(Value::Bytes(b))) => (json!({"ok": hex(&b)}), Some(b.to_vec())),
        Ok(Ok(_)) => (json!({"err": "other"}), None),
        Ok(Err(Terminate::Error(e))) => (json!({"err": classify(&e.to_string())}), None),
        Ok(Err(Terminate::Abort(_))) => (json!({"err": "abort"}), None),
        Err(e) => {
            let msg = if let Some(s) = e.downcast_ref::<&str>() {
                (*s).to_string()
            } else if let Some(s) = e.downcast_ref::<String>() {
                s.clone()
            } else {
                "?".to_string()
            };
            let short: String = msg.chars().take(120).collect();
            (json!({"panic": short}), None)
        }
    }
}

/// the algorithm argument as source text: `.alg`, or a string literal when the case asks for a constant
fn alg_src(case: &J, alg: &[u8]) -> String {
    if case.get("const").and_then(|c| c.as_bool()).unwrap_or(false) {
        let s = std::str::from_utf8(alg).expect("harness: constant algorithm must be utf-8");
        assert!(
            s.chars().all(|c| c != '"' && c != '\\' && c != '{' && c != '}' && !c.is_control()),
            "harness: constant algorithm has characters that need escaping"
        );
        format!("\"{}\"", s)
    } else {
        ".alg".to_string()
    }
}

pub fn run(case: &J) -> J {
    match case["op"].as_str().expect("op") {
        "sym" => {
            let alg = bytes_of(&case["alg"]);
            let a = alg_src(case, &alg);
            let (p, k, iv) = (bytes_of(&case["p"]), bytes_of(&case["k"]), bytes_of(&case["iv"]));
            let src = format!("encrypt!(.p, {a}, key: .k, iv: .iv)");
            let (enc, ev) = run_src(&src, &[("p", p), ("alg", alg.clone()), ("k", k.clone()), ("iv", iv.clone())]);
            let dec = match ev {
                Some(c) => {
                    let src = format!("decrypt!(.c, {a}, key: .k, iv: .iv)");
                    run_src(&src, &[("c", c), ("alg", alg), ("k", k), ("iv", iv)]).0
                }
                None => J::Null,
            };
            json!({"enc": enc, "dec": dec})
        }
        "dec" => {
            let alg = bytes_of(&case["alg"]);
            let a = alg_src(case, &alg);
            let (c, k, iv) = (bytes_of(&case["c"]), bytes_of(&case["k"]), bytes_of(&case["iv"]));
            let src = format!("decrypt!(.c, {a}, key: .k, iv: .iv)");
            let (dec, _) = run_src(&src, &[("c", c), ("alg", alg), ("k", k), ("iv", iv)]);
            json!({"dec": dec})
        }
        "ip" => {
            let (mut ip, k, mode) = (bytes_of(&case["ip"]), bytes_of(&case["k"]), bytes_of(&case["mode"]));
            let mut pre = J::Null;
            if case.get("pre").and_then(|c| c.as_bool()).unwrap_or(false) {
                let (r, v) = run_src(
                    "decrypt_ip!(.ip, .k, .mode)",
                    &[("ip", ip.clone()), ("k", k.clone()), ("mode", mode.clone())],
                );
                pre = r;
                match v {
                    Some(b) => ip = b,
                    None => return json!({"pre": pre, "enc": J::Null, "dec": J::Null}),
                }
            }
            let (enc, ev) = run_src(
                "encrypt_ip!(.ip, .k, .mode)",
                &[("ip", ip), ("k", k.clone()), ("mode", mode.clone())],
            );
            let dec = match ev {
                Some(c) => run_src("decrypt_ip!(.ip, .k, .mode)", &[("ip", c), ("k", k), ("mode", mode)]).0,
                None => J::Null,
            };
            json!({"pre": pre, "enc": enc, "dec": dec})
        }
        "ipdec" => {
            let (ip, k, mode) = (bytes_of(&case["ip"]), bytes_of(&case["k"]), bytes_of(&case["mode"]));
            let (dec, _) = run_src("decrypt_ip!(.ip, .k, .mode)", &[("ip", ip), ("k", k), ("mode", mode)]);
            json!({"dec": dec})
        }
        other => json!({"harness_error": format!("unknown op {other}")}),
    }
}

fn main() {
    vrl_verif_harness::main_loop(run);
}
