//! Correspondence harness support: every family is its own binary (src/bin/<family>.rs) that reads
//! one JSON case per line on stdin, runs it against the implementation built from /repo's working
//! tree, and prints one JSON result per line.  A panic inside the implementation is caught and
//! reported as {"panic": msg}.
#![allow(clippy::all)]
pub mod vj;
pub mod member;
use std::io::{BufRead, Write};

pub fn main_loop(run: fn(&serde_json::Value) -> serde_json::Value) {
    std::panic::set_hook(Box::new(|_| {}));
    let stdin = std::io::stdin();
    let stdout = std::io::stdout();
    let mut out = std::io::BufWriter::new(stdout.lock());
    for line in stdin.lock().lines() {
        let line = line.unwrap();
        if line.trim().is_empty() {
            continue;
        }
        let res = match serde_json::from_str::<serde_json::Value>(&line) {
            Ok(case) => match std::panic::catch_unwind(std::panic::AssertUnwindSafe(|| run(&case))) {
                Ok(v) => v,
                Err(e) => {
                    let msg = if let Some(s) = e.downcast_ref::<&str>() {
                        (*s).to_string()
                    } else if let Some(s) = e.downcast_ref::<String>() {
                        s.clone()
                    } else {
                        "?".to_string()
                    };
                    serde_json::json!({"panic": msg})
                }
            },
            Err(e) => serde_json::json!({"harness_error": format!("bad json: {e}")}),
        };
        writeln!(out, "{}", res).unwrap();
        out.flush().unwrap();
    }
}
