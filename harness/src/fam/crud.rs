//! C18: Value::get / insert / remove on (value, path[, x, prune]).
use crate::vj::*;
use serde_json::{json, Value as J};

pub fn run(case: &J) -> J {
    let v = from_json(&case["v"]);
    let p = path_from_json(&case["p"]);
    match case["op"].as_str().unwrap() {
        "get" => json!({"res": opt_to_json(v.get(&p))}),
        "insert" => {
            let x = from_json(&case["x"]);
            let mut v2 = v.clone();
            let prev = v2.insert(&p, x);
            json!({"res": opt_to_json(prev.as_ref()), "v": to_json(&v2)})
        }
        "remove" => {
            let prune = case["prune"].as_bool().unwrap();
            let mut v2 = v.clone();
            let prev = v2.remove(&p, prune);
            json!({"res": opt_to_json(prev.as_ref()), "v": to_json(&v2)})
        }
        o => json!({"harness_error": format!("bad op {o}")}),
    }
}
