//! Correspondence harness: reads one JSON case per line on stdin, runs it against the
//! implementation built from /repo's working tree, prints one JSON result per line.
//! usage: vrl-verif-harness <family>
#![allow(clippy::all)]
pub mod vj;
pub mod fam {
    include!(concat!(env!("OUT_DIR"), "/fam_gen.rs"));
}
use std::io::{BufRead, Write};

fn main() {
    let args: Vec<String> = std::env::args().collect();
    if args.len() < 2 {
        eprintln!("usage: {} <family>   families: {:?}", args[0], fam::FAMILIES);
        std::process::exit(2);
    }
    let family = args[1].clone();
    std::panic::set_hook(Box::new(|_| {}));
    let stdin = std::io::stdin();
    let stdout = std::io::stdout();
    let mut out = std::io::BufWriter::new(stdout.lock());
    for line in stdin.lock().lines() {
        let line = line.unwrap();
        if line.trim().is_empty() {
            continue;
        }
        let res = match serde_json::from_str::<serde_json::Value>(&line) {
            Ok(case) => {
                let fam2 = family.clone();
                match std::panic::catch_unwind(std::panic::AssertUnwindSafe(|| {
                    fam::dispatch(&fam2, &case)
                })) {
                    Ok(v) => v,
                    Err(e) => {
                        let msg = if let Some(s) = e.downcast_ref::<&str>() {
                            (*s).to_string()
                        } else if let Some(s) = e.downcast_ref::<String>() {
                            s.clone()
                        } else {
                            "?".to_string()
                        };
                        serde_json::json!({"panic": msg})
                    }
                }
            }
            Err(e) => serde_json::json!({"harness_error": format!("bad json: {e}")}),
        };
        writeln!(out, "{}", res).unwrap();
        out.flush().unwrap();
    }
}
