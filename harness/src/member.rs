//! Membership of a value in a kind, written against Kind's accessors only (the specification used by
//! the C19/C01/C03 oracles; first written for harness/src/bin/kind.rs).
use vrl::value::kind::{Field, Index};
use vrl::value::{Kind, Value};

pub fn admits_undefined(k: &Kind) -> bool {
    !k.is_never() && k.contains_undefined()
}

pub fn member(v: &Value, k: &Kind) -> bool {
    if k.is_never() {
        return false;
    }
    match v {
        Value::Bytes(_) => k.contains_bytes(),
        Value::Integer(_) => k.contains_integer(),
        Value::Float(_) => k.contains_float(),
        Value::Boolean(_) => k.contains_boolean(),
        Value::Timestamp(_) => k.contains_timestamp(),
        Value::Regex(_) => k.contains_regex(),
        Value::Null => k.contains_null(),
        Value::Array(a) => match k.as_array() {
            None => false,
            Some(c) => {
                for (i, x) in a.iter().enumerate() {
                    let kk = c.known().get(&Index::from(i)).cloned().unwrap_or_else(|| c.unknown_kind());
                    if !member(x, &kk) {
                        return false;
                    }
                }
                c.known().iter().all(|(i, kk)| i.to_usize() < a.len() || admits_undefined(kk))
            }
        },
        Value::Object(m) => match k.as_object() {
            None => false,
            Some(c) => {
                for (f, x) in m.iter() {
                    let kk = c.known().get(&Field::from(f.clone())).cloned().unwrap_or_else(|| c.unknown_kind());
                    if !member(x, &kk) {
                        return false;
                    }
                }
                c.known().iter().all(|(f, kk)| m.contains_key(f.as_str()) || admits_undefined(kk))
            }
        },
    }
}
