// Generates the family dispatch table from src/fam/*.rs so that adding a family is adding a file.
use std::{env, fs, path::Path};
fn main() {
    let dir = Path::new(&env::var("CARGO_MANIFEST_DIR").unwrap()).join("src/fam");
    println!("cargo:rerun-if-changed={}", dir.display());
    let mut names: Vec<String> = fs::read_dir(&dir)
        .unwrap()
        .filter_map(|e| {
            let p = e.unwrap().path();
            if p.extension().map(|x| x == "rs").unwrap_or(false) {
                Some(p.file_stem().unwrap().to_string_lossy().to_string())
            } else {
                None
            }
        })
        .collect();
    names.sort();
    let mut out = String::new();
    for n in &names {
        out += &format!("#[path = \"{}/{}.rs\"] pub mod {};\n", dir.display(), n, n);
    }
    out += "pub fn dispatch(fam: &str, case: &serde_json::Value) -> serde_json::Value {\n    match fam {\n";
    for n in &names {
        out += &format!("        \"{n}\" => {n}::run(case),\n");
    }
    out += "        _ => serde_json::json!({\"harness_error\": format!(\"unknown family {fam}\")}),\n    }\n}\n";
    out += &format!("pub const FAMILIES: &[&str] = &{:?};\n", names);
    fs::write(Path::new(&env::var("OUT_DIR").unwrap()).join("fam_gen.rs"), out).unwrap();
}
