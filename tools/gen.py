"""Shared random generators (every choice from the Run's single PRNG)."""
from vlib import jb, js, ji, jf, jf_bits, jts, jo, ja

FIELDS = ["a", "b", "c d"]
I64_MIN, I64_MAX = -2**63, 2**63 - 1
INT_EDGES = [0, 1, -1, 2, 7, -7, 2**53, 2**53 + 1, 2**53 - 1, -(2**53), -(2**53) - 1, 2**31, -(2**31), 2**32,
             I64_MAX, I64_MIN, I64_MAX - 1, I64_MIN + 1, 2**62, -(2**62), 10**18, 255, 256, 65535]
FLOAT_BITS = [0x0000000000000000, 0x8000000000000000, 0x3ff0000000000000, 0xbff0000000000000, 0x7ff0000000000000,
              0xfff0000000000000, 0x0000000000000001, 0x8000000000000001, 0x000fffffffffffff, 0x0010000000000000,
              0x7fefffffffffffff, 0xffefffffffffffff, 0x4340000000000000, 0x4340000000000001, 0x433fffffffffffff,
              0x43e0000000000000, 0xc3e0000000000000, 0x43dfffffffffffff, 0x3fe0000000000000, 0x3ff8000000000000,
              0x4000000000000000, 0x4005bf0a8b145769, 0x3fb999999999999a, 0x4059000000000000, 0x3cb0000000000000,
              0x4024000000000000, 0xc024000000000000, 0x3ff0000000000001, 0x4341c37937e08000]


def rand_int(rng):
    r = rng.random()
    if r < 0.45:
        return rng.choice(INT_EDGES)
    if r < 0.6:
        return rng.choice(INT_EDGES) + rng.randint(-2, 2) if abs(rng.choice(INT_EDGES)) < 2**62 else rng.randint(-5, 5)
    if r < 0.8:
        return rng.randint(-100, 100)
    return rng.randint(I64_MIN, I64_MAX)


def clamp_i64(z):
    return max(I64_MIN, min(I64_MAX, z))


def rand_float_bits(rng, allow_nan=False):
    while True:
        r = rng.random()
        if r < 0.5:
            b = rng.choice(FLOAT_BITS)
        elif r < 0.7:
            b = (rng.choice(FLOAT_BITS) + rng.randint(-3, 3)) % 2**64
        else:
            b = rng.getrandbits(64)
        e = (b >> 52) & 0x7ff
        if e == 0x7ff and (b & (2**52 - 1)) != 0 and not allow_nan:
            continue
        return b


STRS = ["", "a", "b", "ab", "abc", "hello world", "é", "ß", "日本", "\"q\"", "back\\slash", " lead", "trail ", "\n", "a=b"]


def rand_scalar(rng):
    r = rng.random()
    if r < 0.25:
        return ji(clamp_i64(rand_int(rng)))
    if r < 0.4:
        return jf_bits(rand_float_bits(rng))
    if r < 0.6:
        return js(rng.choice(STRS))
    if r < 0.7:
        return rng.choice([True, False])
    if r < 0.8:
        return None
    if r < 0.87:
        return jts(rng.choice([0, 1, -1, 10**9, 1600000000 * 10**9 + 123456789, -(10**15), 253402300799 * 10**9]))
    if r < 0.9:
        return {"r": rng.choice(["a+", "^x$", "."]).encode().hex()}
    return jb(bytes(rng.randrange(256) for _ in range(rng.randint(0, 4))))


def rand_value(rng, depth=3, fields=FIELDS, maxlen=3):
    r = rng.random()
    if depth <= 0 or r < 0.35:
        return rand_scalar(rng)
    if r < 0.7:
        ks = [k for k in fields if rng.random() < 0.6]
        return jo([(k, rand_value(rng, depth - 1, fields, maxlen)) for k in ks])
    return ja([rand_value(rng, depth - 1, fields, maxlen) for _ in range(rng.randint(0, maxlen))])


def rand_object(rng, depth=3, fields=FIELDS, maxlen=3):
    ks = [k for k in fields if rng.random() < 0.7]
    return jo([(k, rand_value(rng, depth - 1, fields, maxlen)) for k in ks])


def rand_seg(rng, fields=FIELDS, maxidx=4):
    if rng.random() < 0.55:
        return {"f": rng.choice(fields).encode().hex()}
    return {"i": str(rng.randint(-maxidx, maxidx))}


def rand_path(rng, v=None, maxlen=4, fields=FIELDS, maxidx=4):
    """Random path; when v is given, mostly follows v's structure for a while, then diverges."""
    n = rng.choice([0, 1, 1, 2, 2, 2, 3, 3, 4][:2 * maxlen + 1])
    p = []
    cur = v
    for _ in range(n):
        follow = cur is not None and rng.random() < 0.7
        if follow and isinstance(cur, dict) and "o" in cur and cur["o"]:
            k, cur2 = rng.choice(cur["o"])
            p.append({"f": k})
            cur = cur2
        elif follow and isinstance(cur, dict) and "a" in cur and cur["a"]:
            L = len(cur["a"])
            i = rng.randrange(L)
            cur2 = cur["a"][i]
            if rng.random() < 0.4:
                i = i - L
            p.append({"i": str(i)})
            cur = cur2
        else:
            p.append(rand_seg(rng, fields, maxidx))
            cur = None
    return p
