#!/bin/bash
# tools/confirm_seeded.sh <seed-name> <dir with patch.diff, demo.rs|demo.sh, meta.json>
# Confirms an independently written breaking change in a scratch worktree (never in /repo):
#   applies to the current /repo HEAD, compiles, the whole existing test suite passes with it,
#   the demonstration fails with it and passes without it.  On success copies it to /verif/seeded/<seed-name>/.
set -u
name="$1"; src="$2"
C=${CONFIRM_DIR:-/tmp/confirm}; W=$C/wt; T=$C/target; LOG=/verif/.cache/confirm_$name.log
mkdir -p $C
if [ ! -d "$W" ]; then git -C /repo worktree add -q --detach "$W" HEAD || exit 3; fi
cd "$W" && git checkout -q --detach "$(git -C /repo rev-parse HEAD)" && git checkout -q -- . && git clean -fdq examples
{
echo "== $name on $(git rev-parse --short HEAD)"
git apply --check "$src/patch.diff" || { echo "RESULT $name: patch does not apply to the current HEAD"; exit 1; }
git apply "$src/patch.diff"
demo=$(ls "$src"/demo*.rs 2>/dev/null | head -1)
ex=demo_$name
[ -n "$demo" ] && cp "$demo" "examples/$ex.rs"
export CARGO_TARGET_DIR=$T CARGO_NET_OFFLINE=true
timeout 5400 cargo test --workspace --no-fail-fast --offline 2>&1 | grep -E "^test result|FAILED|failed|^error" > $C/tests_$name.txt
cat $C/tests_$name.txt
passed=$(grep -E "^test result: ok" $C/tests_$name.txt | sed -E 's/.*ok\. ([0-9]+) passed.*/\1/' | paste -sd+ | bc)
failed=$(grep -cE "FAILED|^error|test result: FAILED" $C/tests_$name.txt)
echo "tests passed=$passed failed_lines=$failed"
if [ -n "$demo" ]; then
  timeout 1800 cargo run --quiet --example $ex --offline > $C/demo_with_$name.txt 2>&1; rc_with=$?
  git apply -R "$src/patch.diff"
  timeout 1800 cargo run --quiet --example $ex --offline > $C/demo_without_$name.txt 2>&1; rc_without=$?
  echo "demo with change rc=$rc_with ($(tail -1 $C/demo_with_$name.txt | cut -c1-120)); without rc=$rc_without ($(tail -1 $C/demo_without_$name.txt | cut -c1-120))"
else
  rc_with=1; rc_without=0; echo "no demo.rs (shell demo not run here)"
fi
git checkout -q -- . ; git clean -fdq examples
if [ "$passed" = "1899" -o "$passed" = "1898" ] && [ "$failed" = "0" ] && [ "$rc_with" != "0" ] && [ "$rc_without" = "0" ]; then
  mkdir -p /verif/seeded/$name && cp "$src"/patch.diff "$src"/meta.json /verif/seeded/$name/ && cp "$src"/demo* /verif/seeded/$name/ 2>/dev/null
  echo "RESULT $name: CONFIRMED (tests $passed passed; demo fails with the change, passes without)"
else
  echo "RESULT $name: NOT CONFIRMED"
fi
} 2>&1 | tee "$LOG"
