#!/bin/bash
# tools/final_evidence.sh: re-run every claimed quick check on /repo's current (clean) tree, 3 at a time, so that the
# committed evidence/*.json all come from unmutated runs of the final machinery.  Log: .cache/final_evidence.log
cd "$(dirname "$0")/.."
if [ -n "$(git -C /repo status --short)" ]; then echo "/repo is not clean"; exit 2; fi
[ $# -gt 0 ] || : > .cache/final_evidence.log
run1() { p=$1; s=$(date +%s); ./check $p --tier quick > .cache/final_$p.log 2>&1; rc=$?; echo "$p exit $rc $(( $(date +%s) - s ))s viol=$(grep -c '^VIOLATION' .cache/final_$p.log)" >> .cache/final_evidence.log; }
export -f run1
(if [ $# -gt 0 ]; then printf "%s\n" "$@"; else cat props/claimed.txt; fi) | xargs -P 3 -I{} bash -c 'run1 {}'
sort .cache/final_evidence.log
