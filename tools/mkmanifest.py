#!/usr/bin/env python3
"""Regenerates MANIFEST.json from the props/Cxx.py modules (claimed) and props/not_applicable.json."""
import importlib
import json
import os
import sys

HERE = os.path.dirname(os.path.dirname(os.path.abspath(__file__)))
sys.path.insert(0, os.path.join(HERE, "tools"))
sys.path.insert(0, os.path.join(HERE, "props"))
ids = [json.loads(l)["id"] for l in open(os.path.join(HERE, "properties.jsonl"))]
checks = []
claimed = set()
# a property is claimed only once its check has been seen to pass on the unchanged tree (props/claimed.txt)
ready = set(open(os.path.join(HERE, "props", "claimed.txt")).read().split())
for pid in ids:
    if pid not in ready or not os.path.exists(os.path.join(HERE, "props", pid + ".py")):
        continue
    m = importlib.import_module(pid)
    M = m.MANIFEST
    if M.get("disabled"):
        continue
    claimed.add(pid)
    checks.append({
        "property_id": pid,
        "quick_cmd": "./check %s --tier quick" % pid,
        "thorough_cmd": "./check %s --tier thorough" % pid,
        "evidence_file": "/verif/evidence/%s.json" % pid,
        "replay_cmd_template": "./check %s --replay {path}" % pid,
        "engine": "coq-proof+correspondence",
        "level_claimed": {"category": M["level"], "text": M["text"], "design_ref": M.get("design_ref", "DESIGN.md section 5")},
        "level_note": M["note"],
        "technique": M["technique"],
    })
na_path = os.path.join(HERE, "props", "not_applicable.json")
na = json.load(open(na_path)) if os.path.exists(na_path) else {}
not_applicable = [{"property_id": pid, "reason": na.get(pid, "not yet claimed: the model and proofs for this property are not finished; see DESIGN.md build order")}
                  for pid in ids if pid not in claimed]
manifest = {
    "version": 1,
    "setup_cmd": "bash tools/setup.sh",
    "hooks": {
        "guard": "none",
        "enable": "no source hooks: the harness (harness/, path dependency on /repo) uses only vrl's public API, rebuilt from /repo's working tree by every check",
        "baseline_off_cmd": "cd /repo && cargo test --workspace --no-fail-fast --offline",
        "source_commits": [],
        "add_only": True,
    },
    "engines": [{"name": "coq-proof+correspondence", "path": "/verif/check",
                 "serves_properties": sorted(claimed),
                 "kind_free_text": "Coq 8.16 theorems about hand-written Gallina models (coq/), tied to the Rust by a differential correspondence run (harness/ vs vm_compute of the model) on every invocation; direct property oracles on the implementation to find replays"}],
    "checks": checks,
    "not_applicable": not_applicable,
    "notes": "See DESIGN.md. known findings: known_findings/<id>.json. Seeded breaking changes: seeded/.",
}
json.dump(manifest, open(os.path.join(HERE, "MANIFEST.json"), "w"), indent=1)
print("claimed:", sorted(claimed))
