"""The standard three-leg check used by most properties (DESIGN.md section 2.3)."""
import copy
import glob
import json
import os

import vlib
from vlib import log


def load_corpus(prop):
    cases = []
    for f in sorted(glob.glob(os.path.join(vlib.VERIF, "corpus", prop, "*.json"))):
        j = json.load(open(f))
        cases += j if isinstance(j, list) else j.get("cases", [j.get("case")] if "case" in j else [])
    return [c for c in cases if c]


def impl_failed(o):
    return isinstance(o, dict) and any(k in o for k in ("panic", "crash", "timeout", "harness_error"))


def shrink_candidates(c):
    """Structural reductions of a JSON case: drop one list element, or replace a tagged value by null."""
    out = []

    def walk(node, path):
        if isinstance(node, list):
            for i in range(len(node)):
                out.append((path, "drop", i))
            for i, x in enumerate(node):
                walk(x, path + [i])
        elif isinstance(node, dict):
            for k, x in node.items():
                if isinstance(x, dict) and any(t in x for t in ("o", "a", "b", "i", "f", "ts", "r")):
                    out.append((path + [k], "null", None))
                walk(x, path + [k])

    walk(c, [])
    res = []
    for path, kind, i in out:
        d = copy.deepcopy(c)
        node = d
        try:
            if kind == "drop":
                for s in path:
                    node = node[s]
                del node[i]
            else:
                for s in path[:-1]:
                    node = node[s]
                node[path[-1]] = None
        except Exception:
            continue
        res.append(d)
    return res


def evaluate(prop, imports, fam, to_coq, cases, what=("check", "oracle"), tag="cases"):
    """Run cases through the implementation and the model.  Returns (outs, bad_check, bad_oracle, failed, err)."""
    outs = vlib.run_harness(fam, cases)
    failed = [i for i, o in enumerate(outs) if impl_failed(o)]
    idx = [i for i in range(len(cases)) if i not in set(failed)]
    terms = []
    keep = []
    for i in idx:
        try:
            terms.append(to_coq(cases[i], outs[i]))
            keep.append(i)
        except Exception as e:
            outs[i] = {"harness_error": "cannot render case: %r" % (e,)}
            failed.append(i)
    bads, err = vlib.run_model_checks_multi(prop, imports, terms, checks=tuple(what), tag=tag)
    res = {w: [keep[b] for b in bads[w]] for w in what}
    return outs, res.get("check", []), res.get("oracle", []), sorted(failed), err


def shrink(prop, imports, fam, to_coq, case, pred, rounds=12, width=40, known_matcher=None):
    """Greedy delta-debugging: keep the first candidate on which pred still holds."""
    cur = case
    for _ in range(rounds):
        cands = [c for c in shrink_candidates(cur) if len(json.dumps(c)) < len(json.dumps(cur))][:width]
        if not cands:
            break
        try:
            outs, bc, bo, failed, err = evaluate(prop, imports, fam, to_coq, cands, tag="shrink")
        except Exception:
            break
        # a minimised replay must not slide into a recorded known finding
        hit = [i for i in range(len(cands)) if pred(i, outs, bc, bo, failed)
               and not match_known(prop, cands[i], outs[i], known_matcher)]
        if not hit:
            break
        cur = min((cands[i] for i in hit), key=lambda c: len(json.dumps(c)))
    return cur


def match_known(prop, case, out, matcher):
    for e in vlib.known_findings(prop):
        try:
            if matcher and matcher(e, case, out):
                return e
        except Exception:
            pass
    return None


def standard(run, prop, theorems, imports, fam, gen_cases, to_coq, n, nontrivial=None, replay=None,
             allowed_axioms=(), known_matcher=None, extra_cov=None, trusted=None):
    """proof leg + correspondence leg + search leg, with the decision table of DESIGN.md 2.3."""
    # ---- replay mode
    if replay:
        r = json.load(open(replay))
        cases = [r["case"]] if "case" in r else r.get("cases", [])
        vlib.build_harness(fam)
        outs, bc, bo, failed, err = evaluate(prop, imports, fam, to_coq, cases, tag="replaycases")
        for i, c in enumerate(cases):
            print(json.dumps({"case": c, "impl": outs[i], "model_agrees": i not in bc and i not in failed,
                              "property_holds_on_impl": i not in bo and i not in failed}))
        bad = bool(bc or bo or failed or err)
        if bad:
            print("VIOLATION property=%s replay=%s" % (prop, replay))
        return 1 if bad else 0

    # ---- proof leg
    pl = vlib.proof_leg(prop, theorems, allowed_axioms)
    for pr in pl["problems"]:
        log("proof-leg problem:", pr["kind"], pr["detail"][:400])
    # ---- build + generate
    build_s = vlib.build_harness(fam)
    corpus = load_corpus(prop)
    cases = corpus + gen_cases(run, n)
    outs, bad_check, bad_oracle, failed, err = evaluate(prop, imports, fam, to_coq, cases)
    if err:
        log("model evaluation error:", err)

    # ---- search leg verdicts: the property judged on the implementation alone
    reported = 0
    for i in sorted(set(bad_oracle) | set(failed)):
        k = match_known(prop, cases[i], outs[i], known_matcher)
        if k:
            run.known(k["id"], k["what"])
            continue
        if reported >= 3:
            continue
        reported += 1
        is_fail = i in failed

        def pred(j, o, bc, bo, fl, is_fail=is_fail):
            return (j in fl) if is_fail else (j in bo)
        small = shrink(prop, imports, fam, to_coq, cases[i], pred, known_matcher=known_matcher)
        o2, bc2, bo2, f2, _ = evaluate(prop, imports, fam, to_coq, [small], tag="final")
        run.violation({"kind": "property fails on the implementation", "case": small, "impl": o2[0],
                       "original_case": cases[i], "family": fam,
                       "model_agrees_with_impl": 0 not in bc2 and 0 not in f2,
                       "replay_cmd": "./check %s --replay <this file>" % prop})
    # ---- correspondence verdicts
    only_corr = [i for i in bad_check if i not in set(bad_oracle) and i not in set(failed)]
    if only_corr and not run.violations:
        # neighbourhood search: more cases of the same shape, judged by the oracle alone
        more = gen_cases(run, n * 3)
        o3, bc3, bo3, f3, _ = evaluate(prop, imports, fam, to_coq, more, what=("oracle",), tag="search")
        hits = [j for j in sorted(set(bo3) | set(f3)) if not match_known(prop, more[j], o3[j], known_matcher)]
        if hits:
            j = hits[0]
            is_fail = j in f3

            def pred2(k, o, bc, bo, fl, is_fail=is_fail):
                return (k in fl) if is_fail else (k in bo)
            small = shrink(prop, imports, fam, to_coq, more[j], pred2, known_matcher=known_matcher)
            o2 = vlib.run_harness(fam, [small])
            run.violation({"kind": "property fails on the implementation (found after the correspondence broke)",
                           "case": small, "impl": o2[0], "family": fam})
        else:
            i = only_corr[0]

            def pred3(k, o, bc, bo, fl):
                return k in bc
            small = shrink(prop, imports, fam, to_coq, cases[i], pred3)
            o2 = vlib.run_harness(fam, [small])
            mo = vlib.eval_model(prop, imports, "model_out (%s)" % to_coq(small, o2[0]))
            run.violation({"kind": "correspondence broken: model and implementation disagree",
                           "correspondence_suite": "%s/%s" % (prop, fam), "case": small, "impl": o2[0],
                           "model": mo, "disagreements": len(only_corr), "searched_cases": len(more),
                           "theorems_about_model": theorems}, nofail=True)
    if err and not run.violations:
        run.violation({"kind": "model evaluation failed", "detail": err}, nofail=True)
    # ---- proof verdicts
    if pl["problems"] and not any(not nf for _, nf in run.violations):
        run.violation({"kind": "proof obligation no longer checks",
                       "theorems": theorems, "problems": pl["problems"][:10]}, nofail=True)

    nt = [c for c in cases if (nontrivial(c) if nontrivial else True)]
    distinct = len({json.dumps(c, sort_keys=True) for c in nt})
    hist = {}
    for c in cases:
        k = c.get("op", c.get("kind", "case"))
        hist[k] = hist.get(k, 0) + 1
    cov = {
        "obligations": pl["obligations"], "discharged": pl["discharged"],
        "checker_cmd": "make -C coq Properties/%s.vo (coqc 8.16.1, full .vo build) + Print Assumptions + pinned statements" % prop,
        "trusted_base": trusted or ["Coq 8.16.1 kernel incl. vm_compute", "hand-written Gallina model (tied by the correspondence run below)",
                                    "Rust harness + JSON codec", "Python generator/renderer"],
        "axioms": pl.get("axioms", {}),
        "evaluations": len(cases), "distinct_nontrivial": distinct,
        "rule": "random structured cases from one PRNG (seed %d) + committed corpus; non-trivial per the property module's rule" % run.seed,
        "traces_validated_against_impl": len(cases) - len(failed),
        "correspondence_disagreements": len(bad_check), "oracle_failures": len(bad_oracle),
        "impl_panics_or_crashes": len(failed), "corpus_cases": len(corpus), "case_histogram": hist,
        "samples": [{"case": cases[i], "impl": outs[i]} for i in range(min(3, len(cases)))],
        "harness_build_s": round(build_s, 1),
    }
    if extra_cov:
        cov.update(extra_cov(cases, outs) if callable(extra_cov) else extra_cov)
    return run.finish(cov)
