#!/bin/bash
# tools/run_seeded.sh <seed-name> <Cxx> [more Cyy ...]: run the named checks against a confirmed seeded change
# and record the verdicts in seeded/<seed-name>/meta.json (key checks_run / caught_by).
cd "$(dirname "$0")/.."
name="$1"; shift
res=""
for p in "$@"; do
  out=$(timeout 5400 tools/mutate.sh seeded/$name/patch.diff $p 2>/dev/null | grep -E "^VIOLATION" | head -3)
  if echo "$out" | grep -q "^VIOLATION"; then
    if echo "$out" | grep "^VIOLATION" | grep -qv "no-failing-input-found"; then v="caught with failing input"; else v="caught (proof/correspondence broken, no-failing-input-found)"; fi
  else v="MISSED"; fi
  echo "$name $p: $v"
  res="$res$p: $v; "
done
python3 - "$name" "$res" <<'PY'
import json,sys
p='/verif/seeded/%s/meta.json'%sys.argv[1]
m=json.load(open(p)); m["caught_by"]=sys.argv[2].strip("; "); m["checks_run"]="tools/mutate.sh seeded/%s/patch.diff <check> (quick tier, seed 0)"%sys.argv[1]
json.dump(m,open(p,'w'),indent=1)
PY
