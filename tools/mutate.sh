#!/bin/bash
# tools/mutate.sh <patch.diff> <check args...>
# Applies a patch to /repo under an exclusive lock (no other ./check runs meanwhile), runs ./check with the
# given arguments, and always restores /repo.  Prints the check's output; exit status is the check's.
set -u
cd "$(dirname "$0")/.."
patch="$(readlink -f "$1")"; shift
mkdir -p .cache
# gate first (keeps new checks from starting while we wait), then the lock itself
exec 8> .cache/repo.gate
flock -x 8
exec 9> .cache/repo.lock
flock -x 9
if [ -n "$(git -C /repo status --short)" ]; then echo "mutate.sh: /repo is not clean"; exit 3; fi
restore() { git -C /repo checkout -- . ; git -C /repo clean -fdq -- src lib 2>/dev/null; }
trap restore EXIT
git -C /repo apply "$patch" || { echo "mutate.sh: patch does not apply"; exit 3; }
VERIF_EVIDENCE_DIR="$PWD/.cache/evidence_mutated" VERIF_HOLDING_REPO_LOCK=1 ./check "$@"
rc=$?
exit $rc
