"""Shared machinery for the /verif checks.

Three legs per property (DESIGN.md section 2.3):
  proof leg          - make the property's .vo, Print Assumptions allow-list, pinned statements, grep
  correspondence leg - the same generated cases through the Rust harness (built from /repo's working
                       tree) and through the Gallina model evaluated by vm_compute inside coqc
  search leg         - the property's own oracle evaluated directly on the implementation outputs
"""
import concurrent.futures as cf
import hashlib
import json
import os
import random
import re
import subprocess
import sys
import time

VERIF = os.path.dirname(os.path.dirname(os.path.abspath(__file__)))
REPO = os.environ.get("VERIF_REPO", "/repo")
CACHE = os.path.join(VERIF, ".cache")
COQ = os.path.join(VERIF, "coq")
TARGET = os.path.join(CACHE, "target")
NPROC = min(16, os.cpu_count() or 4)

os.makedirs(CACHE, exist_ok=True)


def log(*a):
    print(*a, file=sys.stderr, flush=True)


# --------------------------------------------------------------------------------------------
# building
# --------------------------------------------------------------------------------------------

def build_harness(fam):
    """cargo build of one harness family binary against /repo's current working tree (incremental)."""
    env = dict(os.environ, CARGO_TARGET_DIR=TARGET, CARGO_NET_OFFLINE="true")
    t0 = time.time()
    # serialise concurrent checks on one lock so that cargo's own lock does not time anything out
    import fcntl
    with open(os.path.join(CACHE, "cargo.lock.flock"), "w") as lk:
        fcntl.flock(lk, fcntl.LOCK_EX)
        p = subprocess.run(["cargo", "build", "--offline", "--quiet", "--bin", fam], cwd=os.path.join(VERIF, "harness"),
                           env=env, stdout=subprocess.PIPE, stderr=subprocess.STDOUT, text=True)
    if p.returncode != 0:
        log(p.stdout[-6000:])
        raise SystemExit("INFRASTRUCTURE: harness build failed (this is not a verdict about the property)")
    return time.time() - t0


def build_coq(targets=None):
    """Full .vo build through coq_makefile (never -vos)."""
    import fcntl
    with open(os.path.join(CACHE, "coq.lock.flock"), "w") as lk:
        fcntl.flock(lk, fcntl.LOCK_EX)
        subprocess.run(["bash", os.path.join(VERIF, "tools", "mkcoqproject.sh")], check=True, cwd=COQ,
                       stdout=subprocess.DEVNULL)
        cmd = ["make", "-j%d" % NPROC, "-f", "Makefile.coq"] + (targets or [])
        p = subprocess.run(["timeout", "3000"] + cmd, cwd=COQ, stdout=subprocess.PIPE, stderr=subprocess.STDOUT,
                           text=True)
    return p.returncode == 0, p.stdout


# --------------------------------------------------------------------------------------------
# running the implementation
# --------------------------------------------------------------------------------------------

def _limit_memory():
    # a call that allocates without bound must kill its own harness process (reported as a crash), not the machine
    import resource
    resource.setrlimit(resource.RLIMIT_AS, (24 << 30, 24 << 30))


def _run_chunk(fam, lines, timeout):
    p = subprocess.run([os.path.join(TARGET, "debug", fam)], input="\n".join(lines) + "\n", stdout=subprocess.PIPE,
                       stderr=subprocess.PIPE, text=True, timeout=timeout, preexec_fn=_limit_memory)
    out = [l for l in p.stdout.split("\n") if l.strip()]
    res = []
    for l in out:
        try:
            res.append(json.loads(l))
        except Exception:
            res.append({"harness_error": "unparsable output: " + l[:200]})
    # a process abort (stack overflow, abort()) leaves fewer results than cases
    while len(res) < len(lines):
        res.append({"crash": "harness process died (exit %s) before answering; stderr: %s"
                    % (p.returncode, p.stderr[-300:])} if len(res) == len(out) else {"skipped": True})
    return res


def run_harness(fam, cases, timeout=600, procs=NPROC):
    """Run JSON cases through the harness family; returns one JSON result per case, in order.
    A case that kills the process is reported as {"crash":..}; the cases after it in the same chunk are
    re-run in a new process so one crash does not hide the others."""
    lines = [json.dumps(c, separators=(",", ":")) for c in cases]
    n = len(lines)
    if n == 0:
        return []
    procs = max(1, min(procs, (n + 49) // 50))
    size = (n + procs - 1) // procs
    chunks = [(i, lines[i:i + size]) for i in range(0, n, size)]
    results = [None] * n

    def work(start, chunk):
        pos = 0
        out = []
        while pos < len(chunk):
            try:
                r = _run_chunk(fam, chunk[pos:], timeout)
            except subprocess.TimeoutExpired:
                r = [{"timeout": "harness chunk exceeded %ss" % timeout}]
                # binary search would be better; fall back to one-by-one with a short timeout
                r = []
                for l in chunk[pos:]:
                    try:
                        r += _run_chunk(fam, [l], 20)
                    except subprocess.TimeoutExpired:
                        r.append({"timeout": "case exceeded 20s"})
            k = 0
            while k < len(r) and not r[k].get("skipped"):
                out.append(r[k])
                k += 1
            pos += k
            if k == 0:
                out.append({"crash": "no progress"})
                pos += 1
        return start, out

    with cf.ThreadPoolExecutor(max_workers=procs) as ex:
        for start, out in ex.map(lambda a: work(*a), chunks):
            results[start:start + len(out)] = out
    return results


# --------------------------------------------------------------------------------------------
# JSON value encoding (see harness/src/vj.rs) and its rendering as Gallina terms
# --------------------------------------------------------------------------------------------

def jb(b):
    return {"b": bytes(b).hex()}


def js(s):
    return {"b": s.encode("utf-8").hex()}


def ji(i):
    return {"i": str(i)}


def jf_bits(bits):
    return {"f": "%016x" % bits}


def jf(x):
    import struct
    return jf_bits(struct.unpack("<Q", struct.pack("<d", x))[0])


def jts(ns):
    return {"ts": str(ns)}


def jo(kvs):
    """kvs: dict or list of (str|bytes key, value); sorted by key bytes."""
    items = kvs.items() if isinstance(kvs, dict) else kvs
    l = []
    for k, v in items:
        kb = k.encode("utf-8") if isinstance(k, str) else bytes(k)
        l.append((kb, v))
    l.sort(key=lambda kv: kv[0])
    return {"o": [[k.hex(), v] for k, v in l]}


def ja(vs):
    return {"a": list(vs)}


def coq_hex(h):
    return '(hx "%s")' % h


def coq_z(i):
    i = int(i)
    return "(%d)" % i if i < 0 else "%d" % i


def coq_value(j):
    if j is None:
        return "VNull"
    if j is True:
        return "(VBool true)"
    if j is False:
        return "(VBool false)"
    if "b" in j:
        return "(VBytes %s)" % coq_hex(j["b"])
    if "r" in j:
        return "(VRegex %s)" % coq_hex(j["r"])
    if "i" in j:
        return "(VInt %s)" % coq_z(j["i"])
    if "f" in j:
        return "(VFloat (f64_of_bits 0x%s))" % j["f"]
    if "ts" in j:
        return "(VTs %s)" % coq_z(j["ts"])
    if "o" in j:
        return "(VObj [%s])" % "; ".join("(%s, %s)" % (coq_hex(k), coq_value(v)) for k, v in j["o"])
    if "a" in j:
        return "(VArr [%s])" % "; ".join(coq_value(v) for v in j["a"])
    raise ValueError("bad value json %r" % (j,))


def coq_opt(j, inner=coq_value):
    if j == "none":
        return "None"
    return "(Some %s)" % inner(j["some"])


def coq_path(p):
    segs = []
    for s in p:
        if "f" in s:
            segs.append("SField %s" % coq_hex(s["f"]))
        else:
            segs.append("SIndex %s" % coq_z(s["i"]))
    return "[%s]" % "; ".join(segs)


def coq_bool(b):
    return "true" if b else "false"


def coq_list(xs):
    return "[%s]" % "; ".join(xs)


# --------------------------------------------------------------------------------------------
# running the model (vm_compute inside coqc)
# --------------------------------------------------------------------------------------------

def _coqc(path, timeout):
    p = subprocess.run(["timeout", str(timeout), "coqc", "-noglob", "-Q", COQ, "VRL", "-w", "none", path],
                       stdout=subprocess.PIPE, stderr=subprocess.STDOUT, text=True, cwd=os.path.dirname(path))
    return p.returncode, p.stdout


def run_model_checks_multi(prop, imports, case_terms, checks=("check",), shard=400, timeout=900, tag="cases"):
    """case_terms: Gallina terms of the property's `case` type, each embedding the inputs and the
    implementation's outputs.  Every function in `checks` (case -> bool) is evaluated on every one of them
    by vm_compute (kernel evaluation of the model's own definitions); the case file is elaborated once.
    Returns ({check: mismatch indices}, error text|None)."""
    # the glue modules the case files import must be up to date with the models (full .vo build)
    targets = sorted({"%s/%s.vo" % (m.group(1), m.group(2)) for m in re.finditer(r"\b(Corr|Model|Base)\.(\w+)", imports)})
    if targets:
        ok, out = build_coq(targets)
        if not ok:
            return {c: [] for c in checks}, "building %s failed: %s" % (targets, out[-1500:])
    d = os.path.join(CACHE, "cases", prop)
    os.makedirs(d, exist_ok=True)
    for f in os.listdir(d):
        if f.startswith(tag + "_"):
            os.unlink(os.path.join(d, f))
    files = []
    for si, start in enumerate(range(0, len(case_terms), shard)):
        path = os.path.join(d, "%s_%04d.v" % (tag, si))
        with open(path, "w") as f:
            f.write(imports + "\nImport ListNotations.\nLocal Open Scope Z_scope.\n")
            f.write("Definition the_cases := [\n  %s\n].\n" % ";\n  ".join(case_terms[start:start + shard]))
            for c in checks:
                f.write("Eval vm_compute in (mismatches %s the_cases).\n" % c)
        files.append((start, path))
    bad = {c: [] for c in checks}
    err = None
    with cf.ThreadPoolExecutor(max_workers=NPROC) as ex:
        for (start, path), (rc, out) in zip(files, ex.map(lambda sp: _coqc(sp[1], timeout), files)):
            if rc != 0:
                err = "coqc failed on %s (rc=%s): %s" % (path, rc, out[-1500:])
                continue
            ms = re.findall(r"=\s*(.*?)\s*:\s*list N", out, re.S)
            if len(ms) != len(checks):
                err = "unparsable coqc output for %s: %s" % (path, out[-500:])
                continue
            for c, m in zip(checks, ms):
                for x in re.findall(r"\d+", m):
                    bad[c].append(start + int(x))
    return {c: sorted(v) for c, v in bad.items()}, err


def run_model_checks(prop, imports, case_terms, check="check", shard=400, timeout=900, tag="cases"):
    bad, err = run_model_checks_multi(prop, imports, case_terms, (check,), shard, timeout, tag)
    return bad[check], err


def eval_model(prop, imports, term, timeout=300, tag="replay"):
    """Eval vm_compute of one term; returns coqc's raw text (for replay files)."""
    d = os.path.join(CACHE, "cases", prop)
    os.makedirs(d, exist_ok=True)
    path = os.path.join(d, "%s_%s.v" % (tag, hashlib.sha1(term.encode()).hexdigest()[:10]))
    with open(path, "w") as f:
        f.write(imports + "\nImport ListNotations.\nLocal Open Scope Z_scope.\n")
        f.write("Eval vm_compute in (%s).\n" % term)
    rc, out = _coqc(path, timeout)
    return out.strip()


# --------------------------------------------------------------------------------------------
# proof leg
# --------------------------------------------------------------------------------------------

STD_AXIOM_ALLOW = {
    # standard-library axioms, allowed only where a property's module lists them explicitly
}

FORBIDDEN_RE = re.compile(
    r"\b(Admitted|admit|Axiom|Axioms|Parameter|Parameters|Conjecture|Conjectures|Abort All)\b|"
    r"Unset\s+Guard|bypass_check|Admit\s+Obligations|type-in-type|impredicative-set|"
    r"Unset\s+Universe\s+Checking|Unset\s+Positivity")


def strip_coq_comments(src):
    out = []
    depth = 0
    i = 0
    while i < len(src):
        if src.startswith("(*", i):
            depth += 1
            i += 2
        elif src.startswith("*)", i) and depth > 0:
            depth -= 1
            i += 2
        else:
            if depth == 0:
                out.append(src[i])
            i += 1
    return "".join(out)


def coq_deps(vfile):
    """transitive .v dependencies of a file inside the project (via coqdep)."""
    p = subprocess.run(["coqdep", "-Q", ".", "VRL", "-sort", vfile], cwd=COQ, stdout=subprocess.PIPE,
                       stderr=subprocess.DEVNULL, text=True)
    files = [f if f.endswith(".v") else f + ".v" for f in p.stdout.split()]
    return [f for f in files if os.path.exists(os.path.join(COQ, f))]


def norm_ws(s):
    return re.sub(r"\s+", " ", s).strip()


def proof_leg(prop, theorems, allowed_axioms=()):
    """theorems: names in Properties/<prop>.v.  Returns dict with obligations, discharged, problems."""
    problems = []
    vfile = "Properties/%s.v" % prop
    ok, out = build_coq([vfile + "o"])
    if not ok:
        problems.append({"kind": "build", "detail": out[-3000:]})
        return {"obligations": len(theorems), "discharged": 0, "problems": problems, "axioms": {}}
    # forbidden constructs in every file the property depends on
    deps = coq_deps(vfile)
    for f in deps:
        src = strip_coq_comments(open(os.path.join(COQ, f)).read())
        for m in FORBIDDEN_RE.finditer(src):
            problems.append({"kind": "forbidden", "detail": "%s: %s" % (f, m.group(0))})
        if re.search(r"^\s*(Variable|Variables|Hypothesis|Hypotheses)\b", src, re.M):
            # allowed only inside a Section: check crude nesting
            depth = 0
            for line in src.split("\n"):
                if re.match(r"\s*Section\b", line):
                    depth += 1
                elif re.match(r"\s*End\b", line) and depth > 0:
                    depth -= 1
                elif re.match(r"\s*(Variable|Variables|Hypothesis|Hypotheses)\b", line) and depth == 0:
                    problems.append({"kind": "forbidden", "detail": "%s: %s outside a Section" % (f, line.strip())})
    # statements and assumptions
    d = os.path.join(CACHE, "cases", prop)
    os.makedirs(d, exist_ok=True)
    path = os.path.join(d, "assumptions.v")
    with open(path, "w") as f:
        f.write("From Coq Require Import String.\nFrom VRL Require Import Properties.%s.\nSet Printing Width 100000.\nSet Printing Depth 100000.\n" % prop)
        for t in theorems:
            f.write('Check "BEGIN %s"%%string.\nCheck %s.\nPrint Assumptions %s.\nCheck "END %s"%%string.\n' % (t, t, t, t))
    rc, out = _coqc(path, 600)
    axioms = {}
    statements = {}
    if rc != 0:
        problems.append({"kind": "assumptions", "detail": out[-2000:]})
    for t in theorems:
        m = re.search(r'"BEGIN %s"(?:%%string)?\s*:\s*string\s*(.*?)"END %s"' % (re.escape(t), re.escape(t)), out, re.S)
        if not m:
            problems.append({"kind": "missing", "detail": "theorem %s not found" % t})
            continue
        body = m.group(1)
        mm = re.match(r"\s*%s\s*:\s*(.*?)(Closed under the global context|Axioms:|Fetching opaque)" % re.escape(t), body, re.S)
        stmt = norm_ws(mm.group(1)) if mm else norm_ws(body)
        statements[t] = stmt
        if "Closed under the global context" in body:
            axioms[t] = []
        else:
            ax = re.findall(r"^([A-Za-z_][\w.']*)\s*:", body.split("Axioms:")[-1], re.M) if "Axioms:" in body else ["?"]
            axioms[t] = ax
            for a in ax:
                if a not in allowed_axioms and "*" not in allowed_axioms:
                    problems.append({"kind": "axiom", "detail": "%s depends on %s" % (t, a)})
    # pinned statements
    exp_path = os.path.join(COQ, "Properties", "%s.expected" % prop)
    if os.path.exists(exp_path):
        expected = json.load(open(exp_path))
        for t in theorems:
            if t in statements and expected.get(t) != statements[t]:
                problems.append({"kind": "statement", "detail": "statement of %s differs from the pinned one" % t})
    else:
        problems.append({"kind": "statement", "detail": "no pinned statements (%s)" % exp_path})
    # thorough tier: independent re-check of the compiled property file and everything it depends on
    coqchk = None
    if os.environ.get("VERIF_TIER") == "thorough":
        pc = subprocess.run(["timeout", "3000", "coqchk", "-o", "-silent", "-Q", ".", "VRL", "VRL.Properties.%s" % prop],
                            cwd=COQ, stdout=subprocess.PIPE, stderr=subprocess.STDOUT, text=True)
        secs = {}
        for mm in re.finditer(r"^\* ([^:\n]+):(.*?)(?=^\* |\Z)", pc.stdout, re.S | re.M):
            secs[mm.group(1).strip()] = [x.strip() for x in mm.group(2).strip().split("\n") if x.strip() and x.strip() != "<none>"]
        want = ["Axioms", "Constants/Inductives relying on type-in-type",
                "Constants/Inductives relying on unsafe (co)fixpoints", "Inductives whose positivity is assumed"]
        if pc.returncode != 0 or any(w not in secs for w in want) or "Theory: Set is predicative" not in pc.stdout:
            problems.append({"kind": "assumptions", "detail": "coqchk failed: " + pc.stdout[-1500:]})
        else:
            coqchk = {"axioms": secs["Axioms"]}
            for a in secs["Axioms"]:
                # coqchk lists the axioms of every loaded library, used by the theorem or not: those the
                # standard library declares (Coq.*) are allowed and recorded, anything else is forbidden
                if not a.startswith("Coq.") and not any(a.endswith(x) for x in allowed_axioms):
                    problems.append({"kind": "forbidden", "detail": "coqchk: dependency on axiom %s" % a})
            for w in want[1:]:
                if secs[w]:
                    problems.append({"kind": "forbidden", "detail": "coqchk: %s: %s" % (w, secs[w][:5])})
    bad = set()
    for pr in problems:
        mt = re.search(r"(C\d+_\w+)", pr["detail"])
        if pr["kind"] in ("axiom", "statement", "missing") and mt:
            bad.add(mt.group(1))
    discharged = 0 if any(p["kind"] in ("build", "forbidden", "assumptions") for p in problems) else len(theorems) - len(bad)
    return {"obligations": len(theorems), "discharged": discharged, "problems": problems, "axioms": axioms,
            "statements": statements, "deps": deps, "coqchk": coqchk}


def pin_statements(prop, theorems):
    r = proof_leg(prop, theorems, allowed_axioms=("*",))
    exp_path = os.path.join(COQ, "Properties", "%s.expected" % prop)
    json.dump(r.get("statements", {}), open(exp_path, "w"), indent=1, sort_keys=True)
    return r


# --------------------------------------------------------------------------------------------
# verdicts, replays, evidence, known findings
# --------------------------------------------------------------------------------------------

def known_findings(prop):
    """known_findings/<prop>.json: {"findings": [{"id", "status": "known"|"fixed", "what", "match": {...}}]}.
    Only status == "known" entries suppress anything; "fixed" entries are documentation."""
    path = os.path.join(VERIF, "known_findings", "%s.json" % prop)
    if not os.path.exists(path):
        return []
    return [e for e in json.load(open(path)).get("findings", []) if e.get("status", "known") == "known"]


def write_replay(prop, obj):
    d = os.path.join(VERIF, "replays", prop)
    os.makedirs(d, exist_ok=True)
    blob = json.dumps(obj, indent=1, sort_keys=True)
    path = os.path.join(d, hashlib.sha1(blob.encode()).hexdigest()[:12] + ".json")
    open(path, "w").write(blob)
    return path


class Run:
    """Collects what one check run did and turns it into evidence + exit status."""

    def __init__(self, prop, level="proof"):
        self.prop = prop
        self.level = level
        self.tier = os.environ.get("VERIF_TIER", "quick")
        self.seed = int(os.environ.get("VERIF_SEED", "0") or 0)
        self.t0 = time.time()
        self.violations = []     # (replay path, nofail flag)
        self.known_hits = {}     # finding id -> description
        self.cov = {"samples": []}
        self.assumptions = []
        self.rng = random.Random(self.seed * 1000003 + int(hashlib.sha1(prop.encode()).hexdigest()[:6], 16))

    def violation(self, replay_obj, nofail=False):
        replay_obj = dict(replay_obj, property=self.prop, seed=self.seed, tier=self.tier)
        path = write_replay(self.prop, replay_obj)
        self.violations.append((path, nofail))

    def known(self, fid, what):
        self.known_hits[fid] = what

    def finish(self, extra_cov=None):
        cov = dict(self.cov)
        if extra_cov:
            cov.update(extra_cov)
        ev = {"property_id": self.prop, "tier": self.tier, "seed": self.seed, "level": self.level,
              "coverage": cov, "assumptions": self.assumptions, "wall_s": round(time.time() - self.t0, 2),
              "violations": len(self.violations)}
        # runs against a deliberately mutated /repo (tools/mutate.sh) must not overwrite the evidence of the real tree
        evdir = os.environ.get("VERIF_EVIDENCE_DIR") or os.path.join(VERIF, "evidence")
        os.makedirs(evdir, exist_ok=True)
        json.dump(ev, open(os.path.join(evdir, "%s.json" % self.prop), "w"), indent=1)
        for fid, what in sorted(self.known_hits.items()):
            print("KNOWN-FINDING: property=%s %s" % (self.prop, what))
        seen = set()
        for path, nofail in self.violations:
            if path in seen:
                continue
            seen.add(path)
            print("VIOLATION property=%s replay=%s%s" % (self.prop, path, " no-failing-input-found" if nofail else ""))
        sys.stdout.flush()
        return 1 if self.violations else 0
