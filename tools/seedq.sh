#!/bin/bash
# tools/seedq.sh: single sequential runner of seeded-change checks (.cache/seedq/NNN.job holds "<seed-name> <Cxx>..."),
# pausing between runs so that waiting ./check runs (readers of the repo lock) get through the gate.
cd "$(dirname "$0")/.."
while [ ! -f .cache/seedq/STOP ]; do
  job=$(ls .cache/seedq/*.job 2>/dev/null | head -1)
  if [ -z "$job" ]; then sleep 20; continue; fi
  args=$(cat "$job"); rm -f "$job"
  tools/run_seeded.sh $args >> .cache/seedq.log 2>&1
  sleep 60
done
