#!/bin/bash
# MANIFEST.setup_cmd: build everything from files on disk, offline.
# Work in progress on one property must not block the others: both builds keep going past a failing
# file/binary; every check rebuilds exactly what it needs (and reports a broken proof as a violation).
cd "$(dirname "$0")/.."
export CARGO_NET_OFFLINE=true
mkdir -p .cache evidence replays
bash tools/mkcoqproject.sh
( cd coq && timeout 7200 make -k -j16 -f Makefile.coq > ../.cache/coq_build.log 2>&1 ) || { grep -E "^Error|Error:" -B2 .cache/coq_build.log | tail -30; echo "setup: some Coq files failed to build (see .cache/coq_build.log)"; }
( cd harness && CARGO_TARGET_DIR=$PWD/../.cache/target timeout 7200 cargo build --offline --lib > ../.cache/harness_build.log 2>&1 ) || { tail -50 .cache/harness_build.log; echo "harness lib build failed"; exit 1; }
for b in harness/src/bin/*.rs; do
  n=$(basename "$b" .rs)
  ( cd harness && CARGO_TARGET_DIR=$PWD/../.cache/target timeout 3600 cargo build --offline --bin "$n" >> ../.cache/harness_build.log 2>&1 ) || echo "setup: harness family $n failed to build"
done
echo "setup ok"
