#!/bin/bash
# MANIFEST.setup_cmd: build everything from files on disk, offline.
set -e
cd "$(dirname "$0")/.."
export CARGO_NET_OFFLINE=true
mkdir -p .cache evidence replays
bash tools/mkcoqproject.sh
( cd coq && timeout 7200 make -j16 -f Makefile.coq > ../.cache/coq_build.log 2>&1 ) || { tail -50 .cache/coq_build.log; echo "coq build failed"; exit 1; }
( cd harness && CARGO_TARGET_DIR=$PWD/../.cache/target timeout 7200 cargo build --offline --bins > ../.cache/harness_build.log 2>&1 ) || { tail -50 .cache/harness_build.log; echo "harness build failed"; exit 1; }
echo "setup ok"
