#!/bin/bash
# Regenerates coq/_CoqProject (all .v files of the development) and coq/Makefile.coq when the list changes.
set -e
cd "$(dirname "$0")/../coq"
{
  echo "-Q . VRL"
  echo "-arg -w -arg -notation-overridden,-deprecated-hint-without-locality,-deprecated-instance-without-locality,-ambiguous-paths"
  find Base Model Proofs Properties Corr -name '*.v' 2>/dev/null | LC_ALL=C sort
} > _CoqProject.new
if ! cmp -s _CoqProject.new _CoqProject || [ ! -f Makefile.coq ]; then
  mv _CoqProject.new _CoqProject
  coq_makefile -f _CoqProject -o Makefile.coq > /dev/null
else
  rm -f _CoqProject.new
fi
