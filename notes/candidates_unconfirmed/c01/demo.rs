// Demo for seeded defect C01 (type soundness of `??` error-coalescing).
// Run from the worktree root:
//   CARGO_TARGET_DIR=/tmp/m3-c01/target cargo run --example demo_C01 --offline
// Prints PASS (exit 0) on unmodified code, FAIL (exit 1) with the change.
use std::collections::BTreeMap;
use vrl::{
    compiler::{Context, TargetValue, TimeZone, state::RuntimeState},
    value,
    value::{Kind, Secrets, Value},
};

fn check(src: &str, event: Value) -> bool {
    let fns = vrl::stdlib::all();
    let result = vrl::compiler::compile(src, &fns).unwrap();
    let info = result.program.final_type_info();
    let result_kind = info.result.kind().clone();
    let event_kind = info.state.external.target_kind().clone();

    let mut target = TargetValue {
        value: event,
        metadata: Value::Object(BTreeMap::new()),
        secrets: Secrets::default(),
    };
    let mut state = RuntimeState::default();
    let timezone = TimeZone::default();
    let mut ctx = Context::new(&mut target, &mut state, &timezone);
    let value = result.program.resolve(&mut ctx).unwrap();

    let value_kind = Kind::from(&value);
    let final_event_kind = Kind::from(&target.value);
    let ok_result = result_kind.is_superset(&value_kind).is_ok();
    let ok_event = event_kind.is_superset(&final_event_kind).is_ok();
    println!(
        "program: {src:?}\n  result value {value} : reported kind {result_kind} -> {}\n  event {} : reported kind {event_kind} -> {}",
        if ok_result { "ok" } else { "UNSOUND" },
        target.value,
        if ok_event { "ok" } else { "UNSOUND" },
    );
    ok_result && ok_event
}

fn main() {
    // The rhs of `??` (which reassigns `x` to a string) only runs when the lhs fails.
    // With .a = "5" the lhs succeeds, so `x` keeps the integer 1 at runtime.
    let src = r#"
        x = 1
        n = to_int(.a) ?? { x = "fallback"; 0 }
        .n = n
        .x = x
        x
    "#;
    let mut ok = check(src, value!({a: "5"}));
    // the failing-lhs path must of course stay sound as well
    ok &= check(src, value!({a: "not a number"}));

    if ok {
        println!("PASS");
    } else {
        println!("FAIL");
        std::process::exit(1);
    }
}
