// Demo for C33. Copy to <vrl worktree>/examples/demo_C33.rs and run from the worktree:
//   CARGO_TARGET_DIR=/tmp/m3-c33/target cargo run --example demo_C33 --offline
// Prints PASS (exit 0) on unmodified code, FAIL (exit 1) with the seeded change (patch.diff).
use vrl::diagnostic::{DiagnosticList, Formatter};

fn check(src: &str) -> bool {
    let diags: DiagnosticList = match vrl::compiler::compile(src, &vrl::stdlib::all()) {
        Ok(res) => res.warnings,
        Err(d) => d,
    };
    let mut ok = true;
    for d in diags.iter() {
        for l in &d.labels {
            let (s, e) = (l.span.start(), l.span.end());
            let good = s <= e
                && e <= src.len()
                && src.is_char_boundary(s)
                && src.is_char_boundary(e);
            if !good {
                println!(
                    "bad label span {s}..{e} (source len {}) in {:?}: {}",
                    src.len(),
                    src,
                    l.message
                );
                ok = false;
            }
        }
    }
    let src_owned = src.to_string();
    let rendered = std::panic::catch_unwind(move || {
        use std::fmt::Write;
        let mut out = String::new();
        write!(out, "{}", Formatter::new(&src_owned, diags)).map(|_| out)
    });
    match rendered {
        Ok(Ok(_)) => {}
        Ok(Err(_)) => {
            println!("rendering returned an error for {src:?}");
            ok = false;
        }
        Err(_) => {
            println!("rendering panicked for {src:?}");
            ok = false;
        }
    }
    ok
}

fn main() {
    let sources = [
        // control: same bad escape at top level (not inside delimiters)
        "x = \"\\u{}é\"",
        // bad unicode escape inside a delimited region, followed by a multi-byte char
        "x = [\"\\u{}é\"]",
        // bad unicode escape inside a delimited region at the very end of the source
        "x = [\"\\u{}",
        "foo(\"\\u{110000}",
        "x = [1, \"\\u{}é\"]",
        "x = [1, \"\\u{}",
        "x = {\"a\": \"\\u{}é\"}.a",
        ".a = (1 + \"\\u{}é\").b",
        "foo(1, \"\\u{110000}",
    ];
    let mut ok = true;
    for s in sources {
        ok &= check(s);
    }
    if ok {
        println!("PASS");
    } else {
        println!("FAIL");
        std::process::exit(1);
    }
}
