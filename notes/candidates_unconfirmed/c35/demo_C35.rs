// Demo for property C35 (embedder conversions round-trip canonical text).
//
// How to run (from the vrl checkout, file placed at examples/demo_C35.rs):
//   cargo run --example demo_C35 --offline
// Prints PASS and exits 0 when the property holds, prints FAIL lines and
// exits 1 otherwise.
//
// A timestamp rendered with an explicit numeric zone must convert to the same
// instant whatever default timezone the conversion was configured with.
use bytes::Bytes;
use chrono::{TimeZone as _, Utc};
use vrl::compiler::TimeZone;
use vrl::compiler::conversion::Conversion;
use vrl::value::Value;

fn main() {
    let expected = Value::Timestamp(Utc.with_ymd_and_hms(2001, 2, 3, 4, 5, 6).unwrap());
    // (conversion name, canonical text of the instant 2001-02-03T04:05:06Z)
    let cases = [
        ("timestamp|%Y-%m-%d %H:%M:%S %z", "2001-02-03 07:05:06 +0300"),
        ("timestamp|%Y-%m-%d %H:%M:%S %:z", "2001-02-03 07:05:06 +03:00"),
        ("timestamp|%Y-%m-%d %H:%M:%S %#z", "2001-02-03 07:05:06 +0300"),
        ("timestamp|%Y-%m-%d %H:%M:%S %#z", "2001-02-02 22:05:06 -06"),
        ("timestamp|%a %d %b %T %#z %Y", "Sat 03 Feb 14:05:06 +1000 2001"),
    ];
    let zones = ["UTC", "Australia/Brisbane", "America/New_York", "Asia/Kolkata"];

    let mut failures = 0;
    for (name, text) in cases {
        for zone in zones {
            let tz = TimeZone::parse(zone).expect("valid zone");
            let conv = Conversion::parse(name, tz).expect("accepted conversion name");
            let got: Result<Value, _> = conv.convert(Bytes::from(text));
            match got {
                Ok(v) if v == expected => {}
                other => {
                    failures += 1;
                    println!("FAIL: {name:?} on {text:?} with default tz {zone}: got {other:?}, expected {expected:?}");
                }
            }
        }
    }

    if failures == 0 {
        println!("PASS");
    } else {
        println!("FAIL ({failures} mismatches)");
        std::process::exit(1);
    }
}
