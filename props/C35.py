"""C35 — Embedder type conversions round-trip canonical text."""
import datetime
import itertools

import vlib
from vlib import coq_value, coq_z, coq_bool, ji, jf_bits, jts
import gen

ID = "C35"
THEOREMS = ["C35_int", "C35_int_only_decimal", "C35_bool", "C35_bool_numeric", "C35_bool_exact",
            "C35_names", "C35_names_sound", "C35_tz_indep", "C35_tz_indep_names", "C35_tz_indep_auto",
            "C35_tz_indep_auto_inhabited", "C35_float_partial", "C35_float_partial_inhabited", "C35_float_int_text",
            "C35_float_nan", "C35_rfc3339_partial", "C35_rfc3339_partial_inhabited", "C35_layout_fmt_partial",
            "C35_layout_fmt_partial_inhabited", "C35_zone_spec_refuted", "C35_literal_percent_refuted",
            "C35_leap_panic_refuted"]
IMPORTS = ("From Coq Require Import List ZArith String.\n"
           "From VRL Require Import Base.Bytes Base.Value Base.Lit Model.ConvRes Model.Conversion Corr.C35.\n"
           "Local Open Scope string_scope.")
MANIFEST = {
    "level": "proof",
    "technique": "Coq proofs on a hand model of compiler/conversion/mod.rs (+ datetime.rs) with chrono's parsers as Section "
                 "variables + differential correspondence vs vrl::compiler::conversion::Conversion (the model's chrono "
                 "functions instantiated with the results of the same chrono calls on the case's text) + round-trip / "
                 "timezone-independence oracle on the implementation",
    "text": "Partial. Proved about Model/Conversion.v, closed: convert Integer (Display z) = z for every i64 and only "
            "decimal i64 texts are accepted; every documented boolean spelling in every letter case gives its meaning, "
            "integers give n != 0, and nothing else is accepted; Conversion::parse accepts exactly the documented names "
            "(after trimming Unicode white space, case-sensitively; `timestamp|FORMAT` with any format); a format "
            "for which format_has_zone holds is converted without consulting the default timezone, and the auto-detecting "
            "`timestamp` conversion is timezone-independent on every text that no zone-less format of its list accepts "
            "(that side condition is necessary: witness in C35_tz_indep_auto_inhabited). Floats: conditional on f64's "
            "Display reading back (checked on the implementation for every generated bit pattern); closed for the "
            "integer-valued texts. Timestamps: RFC 3339 / `%+` and the full-precision layouts of Model/TsText.v round-trip "
            "under the hypothesis that chrono's parser agrees with that model (C25's correspondence) and that no zone-less "
            "format accepts an RFC 3339 text. Refuted (known findings, replayed on the implementation): %::z / %:::z are "
            "not recognised as zones; `%%z` (a literal) is; a leap second under a default timezone whose offset is not a "
            "whole minute panics in datetime_to_utc.",
    "note": "Trusted: Coq kernel + vm_compute; the hand-written model (tied by correspondence only); chrono (format::parse, "
            "Parsed::to_datetime_with_timezone, DateTime::parse_from_str / parse_from_rfc3339 / parse_from_rfc2822, the tz "
            "database) is abstract: Section variables, every theorem universally quantified over them; str::parse::<i64>/"
            "<f64> are the exact models of C25/C29; str::to_lowercase is modelled on ASCII (see Model/Conversion.v header); "
            "str::trim on the UTF-8 encodings of the 25 White_Space scalars. No axioms. Inherent limits, not findings: a "
            "zone-less civil format cannot round-trip an instant whose civil time is ambiguous in the default timezone (DST "
            "overlap) and formats without fractional seconds drop them: the oracle expects the truncated instant.",
    "design_ref": "DESIGN.md section 5 C35; notes/C35.md",
}

I64_MIN, I64_MAX = -2**63, 2**63 - 1
TS_MIN_S, TS_MAX_S = -8334601228800, 8210266876799
NS = 10**9


def h(s):
    return (s.encode("utf-8") if isinstance(s, str) else bytes(s)).hex()


def unh(x):
    return bytes.fromhex(x)


# ------------------------------------------------------------------------------------------------
# strftime formats: an independent reading of chrono's specifier syntax (used to decide what the property
# expects of a format -- NOT format_has_zone)
# ------------------------------------------------------------------------------------------------

def tokens(fmt):
    """the specifiers of a strftime string, padding modifiers dropped; '%%' is the literal '%'"""
    out = []
    i = 0
    while i < len(fmt):
        if fmt[i] != "%":
            i += 1
            continue
        i += 1
        if i < len(fmt) and fmt[i] in "-_0":
            i += 1
        for spec in (":::z", "::z", ":z", "#z", ".3f", ".6f", ".9f", ".f", "3f", "6f", "9f"):
            if fmt.startswith(spec, i):
                out.append(spec)
                i += len(spec)
                break
        else:
            if i < len(fmt):
                out.append("%%" if fmt[i] == "%" else fmt[i])
                i += 1
    return out


NUMERIC_ZONES = {"z", ":z", "::z", ":::z", "#z", "+"}


def fmt_class(fmt):
    t = tokens(fmt)
    zoned = any(x in NUMERIC_ZONES for x in t)
    if any(x in ("f", ".f", ".9f", "9f", "+") for x in t):
        unit = 1
    elif any(x in (".6f", "6f") for x in t):
        unit = 1000
    elif any(x in (".3f", "3f") for x in t):
        unit = 10**6
    else:
        unit = NS
    return {"zoned": zoned, "unit": unit, "abs": "s" in t, "Z": "Z" in t, "toks": t}


ZONED_FORMATS = ["%+", "%F %T %z", "%a, %d %b %Y %T %z", "%Y-%m-%dT%H:%M:%S%.f%:z", "%Y-%m-%d %H:%M:%S%.9f %z",
                 "%d/%b/%Y:%T %z", "%a %d %b %T %z %Y", "%FT%T%.3f%:z", "%Y%m%d%H%M%S%z", "%F %r %z", "%c %z",
                 "%F %T%.6f %:z", "%A, %B %e %Y %T %z", "%j %Y %T %z", "%FT%T%:z"]
LOCAL_FORMATS = ["%F %T", "%v %T", "%FT%T", "%m/%d/%Y:%T", "%a, %d %b %Y %T", "%a %d %b %T %Y", "%A %d %B %T %Y",
                 "%a %b %e %T %Y"]
LOCAL_EXTRA = ["%F %T%.f", "%Y-%m-%d %H:%M:%S.%f", "%Y%m%d %H%M%S", "%d.%m.%Y %H:%M:%S"]
ABS_FORMATS = ["%s", "%s%.9f"]
BAD_FORMATS = ["%a %d %b %T %Z %Y", "%F %T %Z", "%F %T %::z", "%F %T %:::z", "%F %T %%z", "%FT%T%%+"]
AUTO_TZ_RENDER = ["%+", "%a %d %b %T %z %Y", "%d/%b/%Y:%T %z", "%a %d %b %T %Z %Y", "%a, %d %b %Y %T %z"]

TZS = ["UTC", "Europe/Berlin", "America/New_York", "Etc/GMT+12", "Etc/GMT-14", "Asia/Kolkata", "Asia/Kathmandu",
       "Australia/Lord_Howe", "local"]

# instants (seconds): range edges, year 0 / 9999 boundaries, DST transitions of Berlin / New York / Lord Howe, the
# LMT era (offsets with seconds)
EDGE_SECS = [0, -1, 1, TS_MIN_S, TS_MIN_S + 86400 * 2, TS_MAX_S, TS_MAX_S - 86400 * 2, 253402300799, 253402300800,
             -62167219200, -62167219201, -62135596800, -62135596801,
             1572137999, 1572138000, 1572139800, 1572141600, 1572141599, 1553993999, 1553994000, 1553995800,
             1572759000, 1572762600, 1572764400, 1552201199, 1552201200,
             1554564600, 1554566400, 1570289400,
             -2840140800, -2840137592, -2717640000, -2717636400, -1693706400,
             951782400, 951868800, 1078012800, 4107542400, 1483228799, 1483228800, 1500000000, 2147483647, 2147483648,
             -2147483648, 4294967296, 1000000000, 1234567890, 68169600, 13046400]
NANOS = [0, 0, 0, 1, 999999999, 500000000, 123456789, 123000000, 120000, 100, 999000000, 1000]


# formats that can only be read back for a restricted range of years: no separator after %Y (a longer or signed
# year runs into the month), RFC 2822 (the auto-detection's parser takes four-digit years from 1900)
COMPACT_FORMATS = {"%Y%m%d%H%M%S%z", "%Y%m%d %H%M%S"}
RFC2822_LIKE = "%a, %d %b %Y %T %z"


def rand_ns_years(rng, lo, hi):
    return max(lo, min(hi, rng.choice([rng.randint(lo, hi), rng.choice(EDGE_SECS), rng.randint(0, 2 * 10**9)]))) * NS \
        + rng.choice(NANOS)


def ns_for(rng, fmt, auto=False):
    if fmt in COMPACT_FORMATS:
        return rand_ns_years(rng, -62167219200 + 86400, 253402300799 - 86400)         # years 0 .. 9999
    if auto and fmt == RFC2822_LIKE:
        return rand_ns_years(rng, -2208988800 + 86400, 253402300799 - 86400)          # years 1900 .. 9999
    return rand_ns(rng)


def rand_ns(rng, whole=False):
    r = rng.random()
    if r < 0.45:
        s = rng.choice(EDGE_SECS)
    elif r < 0.55:
        s = rng.choice(EDGE_SECS) + rng.randint(-3700, 3700)
    elif r < 0.85:
        s = rng.randint(-2208988800, 4102444800)          # 1900 .. 2100
    elif r < 0.93:
        s = rng.randint(-62135596800, 253402300799)       # years 1 .. 9999
    else:
        s = rng.randint(TS_MIN_S, TS_MAX_S)
    s = max(TS_MIN_S, min(TS_MAX_S, s))
    n = 0 if whole else (rng.choice(NANOS) if rng.random() < 0.8 else rng.randrange(NS))
    return s * NS + n


def pick_tzs(rng, first=None, k=None):
    k = k or rng.choice([2, 3, 3, 4])
    out = [first] if first else []
    pool = [t for t in TZS if t != first]
    rng.shuffle(pool)
    if "UTC" not in out and rng.random() < 0.6:
        out.append("UTC")
    for t in pool:
        if len(out) >= k:
            break
        if t not in out:
            out.append(t)
    return out


# ------------------------------------------------------------------------------------------------
# names
# ------------------------------------------------------------------------------------------------

GOOD_NAMES = ["asis", "bytes", "string", "integer", "int", "float", "bool", "boolean", "timestamp"]
BAD_NAMES = ["", " ", "Int", "INT", "Bool", "BOOLEAN", "Timestamp", "integer64", "str", "text", "double", "number",
             "ints", "in t", "boo", "timestamps", "time", "date", "null", "i\u0307nt", "\u212aint", "\u0131nt",
             "bool\u200b", "\ufeffint", "int\u0000", "a|b", "|", "||", "|timestamp", "|int", "int|", "int|x",
             "float|%f", "bool|", "bytes|asis", "timestamp |", "timestamp|", "timestamp||", "asis |",
             "timestamp\u200b|%F", "Timestamp|%F"]
PADS = ["", " ", "  ", "\t", "\n", "\r\n", "\u000b", "\u000c", "\u0085", "\u00a0", "\u1680", "\u2000", "\u2003",
        "\u200a", "\u2028", "\u2029", "\u202f", "\u205f", "\u3000", " \u3000\t"]
NON_PADS = ["\u200b", "\ufeff", "\u2060", "\u180e", "\u00ad", "x", "\u0000", "\u001f", "\u0008", "\u200e", "\u0084",
            "\u00a1", "\u200b ", "\u2027", "\u3001"]
SAMPLE_TEXTS = ["", "1", "0", "true", "-5", "1.5", "abc", "2020-01-02T03:04:05Z", "2020-01-02 03:04:05", "1600000000",
                "nan", "Yes", "é", "2020-01-02"]


def name_cases(rng, n):
    out = []
    for _ in range(n):
        r = rng.random()
        if r < 0.3:
            base = rng.choice(GOOD_NAMES)
            name = rng.choice(PADS) + base + rng.choice(PADS)
        elif r < 0.4:
            base = rng.choice(GOOD_NAMES)
            name = rng.choice(PADS + NON_PADS) + base + rng.choice(PADS + NON_PADS)
        elif r < 0.65:
            name = rng.choice(BAD_NAMES)
            if rng.random() < 0.3:
                name = rng.choice(PADS) + name + rng.choice(PADS)
        elif r < 0.75:
            base = rng.choice(GOOD_NAMES)          # one edit
            i = rng.randrange(len(base))
            name = rng.choice([base[:i] + base[i + 1:], base[:i] + base[i].upper() + base[i + 1:],
                               base[:i] + " " + base[i:], base + base[-1], base[:i] + "|" + base[i:]])
        else:
            fmt = rng.choice(ZONED_FORMATS + LOCAL_FORMATS + BAD_FORMATS + ["", "%", "%%", "|", "%F|%T", "%z", "z%", "%:",
                                                                            "%#", "%+%", "% z", "%:Z", "%#Z", "%-z",
                                                                            "é%Z", "%éz"])
            name = (rng.choice(PADS) + "timestamp" + rng.choice(PADS) + "|" + rng.choice(PADS + NON_PADS[:3]) + fmt
                    + rng.choice(PADS + NON_PADS[:3]))
        text = rng.choice(SAMPLE_TEXTS)
        out.append({"kind": "name", "name": h(name), "tzs": pick_tzs(rng, k=2), "text": h(text)})
    return out


# ------------------------------------------------------------------------------------------------
# integers, floats, booleans
# ------------------------------------------------------------------------------------------------

INT_TEXTS = ["+5", "-0", "+0", "00012", " 5", "5 ", "9223372036854775808", "-9223372036854775809", "1e3", "0x10", "",
             "-", "+", "--1", "+-1", "1_000", "1,000", "٣", "１", "1\u0000", "1.0", "12a", "a12", "0b1",
             "9223372036854775807", "-9223372036854775808", "000000000000000000000000000001", "1" * 25, "−1"]
FLOAT_TEXTS = ["NaN", "nan", "NAN", "-nan", "+NaN", "inf", "-inf", "+inf", "Inf", "infinity", "-Infinity", "INFINITY",
               "infinit", "1e400", "-1e400", "1e-400", "-1e-400", ".5", "5.", ".", "-.5", "+.5e1", "1_000", "0x1p3", "1e",
               "1e+", "1e-", "e5", "1E5", "1e+05", "1e0005", "0.1", "0.3", "1.7976931348623157e308",
               "1.7976931348623159e308", "4.9e-324", "2.4703282292062327e-324", "2.4703282292062328e-324",
               "9007199254740993", "9007199254740992.5", "0." + "0" * 400 + "1", "1" + "0" * 400, "1" + "0" * 308,
               "", " 1.5", "1.5 ", "1,5", "1.5f", "--1.5", "+-1", "١.5", "1.5e3.2", "123456789012345678901234567890",
               "0.1e1", "100e-2", "1e65536", "1e-65536", "0e99999999999"]
SPELLINGS = ["true", "t", "yes", "y", "false", "f", "no", "n"]
BOOL_TEXTS = ["0", "1", "-1", "+0", "00", "2", "-0", "+1", "9223372036854775807", "9223372036854775808",
              "-9223372036854775808", "-9223372036854775809", " true", "true ", "tRuE\n", "on", "off", "ja", "Ｔ",
              "K", "ｙ", "yeś", "İ", "tru", "truee", "ye", "nope", "fals", "null", "", "1.0", "0.0",
              "0x1", "T", "F", "Y", "N", "TRUE", "FALSE", "YES", "NO", "ı", "trüe", "nó", "y\u0000"]
BOOL_BYTES = [b"\xfft", b"t\xff", b"\xff", b"\xc3", b"ye\xf0\x9f", b"\xe2\x84\xaa"]


def case_masks(word):
    for mask in itertools.product([False, True], repeat=len(word)):
        yield "".join(c.upper() if m else c for c, m in zip(word, mask))


def scalar_cases(rng, n):
    out = []
    # every boolean spelling in every letter case: 68 texts, always
    for w in SPELLINGS:
        for t in case_masks(w):
            out.append({"kind": "bool", "name": h(rng.choice(["bool", "boolean"])), "tzs": ["UTC"], "text": h(t),
                        "expect": w in ("true", "t", "yes", "y")})
    for t in BOOL_TEXTS:
        c = {"kind": "bool", "name": h("bool"), "tzs": ["UTC"], "text": h(t)}
        try:
            z = int(t) if t.strip() == t and not t.startswith(("+-", "--")) and t.isascii() and "_" not in t else None
        except ValueError:
            z = None
        if z is not None and I64_MIN <= z <= I64_MAX:
            c["expect"] = z != 0
        out.append(c)
    for b in BOOL_BYTES:
        out.append({"kind": "bool", "name": h("boolean"), "tzs": ["UTC"], "text": h(b)})
    for v in (True, False):
        out.append({"kind": "bool", "name": h("bool"), "tzs": ["UTC"], "val": v, "render": {"kind": "display"},
                    "expect": v})
    for t in INT_TEXTS:
        out.append({"kind": "int", "name": h(rng.choice(["int", "integer"])), "tzs": ["UTC"], "text": h(t)})
    for t in FLOAT_TEXTS:
        out.append({"kind": "float", "name": h("float"), "tzs": ["UTC"], "text": h(t)})
    for _ in range(n):
        r = rng.random()
        if r < 0.4:
            z = gen.clamp_i64(gen.rand_int(rng))
            name = rng.choice(["int", "integer", " int", "integer\n"])
            if rng.random() < 0.12:
                name = rng.choice(["bool", "float", "timestamp", "bytes", "string", "asis"])
            out.append({"kind": "int", "name": h(name), "tzs": pick_tzs(rng, k=2), "val": ji(z),
                        "render": {"kind": "display"}})
        elif r < 0.85:
            b = gen.rand_float_bits(rng)
            if rng.random() < 0.25:      # decimal-looking magnitudes
                import struct
                x = rng.choice([0.1, 0.2, 0.3, 1.1, 2.5, 1e21, 1e22, 1e23, 123456.789, 5e-324, 1e-7, 1e16, 1e15,
                                0.000001, 9007199254740993.0, 1 / 3]) * rng.choice([1, -1, 10, 0.1, 3, 7])
                b = struct.unpack("<Q", struct.pack("<d", x))[0]
            out.append({"kind": "float", "name": h("float"), "tzs": ["UTC"], "val": jf_bits(b),
                        "render": {"kind": rng.choice(["display", "display", "exp"])}})
        else:
            # mutated number texts
            z = gen.rand_int(rng)
            s = str(z)
            i = rng.randrange(len(s) + 1)
            s = s[:i] + rng.choice(["", " ", "+", "-", ".", "e", "0", "9", "_", "٠", "x"]) + s[i:]
            out.append({"kind": rng.choice(["int", "float", "bool"]), "name": None, "tzs": ["UTC"], "text": h(s)})
            out[-1]["name"] = h({"int": "int", "float": "float", "bool": "bool"}[out[-1]["kind"]])
    return out


# ------------------------------------------------------------------------------------------------
# timestamps
# ------------------------------------------------------------------------------------------------

def ts_cases(rng, n):
    out = []
    for _ in range(n):
        r = rng.random()
        if r < 0.22:        # a format with an explicit numeric zone: rendered in any zone, converted under several
            fmt = rng.choice(ZONED_FORMATS)
            out.append({"kind": "ts_zoned", "name": h("timestamp|" + fmt), "tzs": pick_tzs(rng),
                        "val": jts(ns_for(rng, fmt)), "render": {"kind": "fmt", "fmt": h(fmt), "tz": rng.choice(TZS)}})
        elif r < 0.40:      # zone-less civil format: rendered and converted in the same default timezone (+ others)
            fmt = rng.choice(LOCAL_FORMATS + LOCAL_EXTRA)
            tz = rng.choice(TZS)
            out.append({"kind": "ts_local", "name": h("timestamp|" + fmt), "tzs": pick_tzs(rng, first=tz),
                        "val": jts(ns_for(rng, fmt)), "render": {"kind": "fmt", "fmt": h(fmt), "tz": tz}})
        elif r < 0.47:      # unix seconds as a format
            fmt = rng.choice(ABS_FORMATS)
            out.append({"kind": "ts_abs", "name": h("timestamp|" + fmt), "tzs": pick_tzs(rng),
                        "val": jts(rand_ns(rng)), "render": {"kind": "fmt", "fmt": h(fmt), "tz": rng.choice(TZS)}})
        elif r < 0.52:      # formats the conversion mishandles (known findings)
            fmt = rng.choice(BAD_FORMATS)
            tz = rng.choice(TZS)
            out.append({"kind": "ts_bad", "name": h("timestamp|" + fmt), "tzs": pick_tzs(rng, first=tz),
                        "val": jts(rand_ns(rng)), "render": {"kind": "fmt", "fmt": h(fmt), "tz": tz}})
        elif r < 0.66:      # auto-detection on RFC 3339
            out.append({"kind": "auto_rfc3339", "name": h(rng.choice(["timestamp", " timestamp "])),
                        "tzs": pick_tzs(rng), "val": jts(rand_ns(rng)), "render": {"kind": "rfc3339"}})
        elif r < 0.76:      # auto-detection on the zoned formats of its list
            fmt = rng.choice(AUTO_TZ_RENDER)
            out.append({"kind": "auto_zoned", "name": h("timestamp"), "tzs": pick_tzs(rng), "val": jts(ns_for(rng, fmt, True)),
                        "render": {"kind": "fmt", "fmt": h(fmt), "tz": rng.choice(TZS)}})
        elif r < 0.88:      # auto-detection on the zone-less formats of its list
            fmt = rng.choice(LOCAL_FORMATS)
            tz = rng.choice(TZS)
            out.append({"kind": "auto_local", "name": h("timestamp"), "tzs": pick_tzs(rng, first=tz),
                        "val": jts(rand_ns(rng)), "render": {"kind": "fmt", "fmt": h(fmt), "tz": tz}})
        else:               # auto-detection on unix seconds
            out.append({"kind": "auto_unix", "name": h("timestamp"), "tzs": pick_tzs(rng), "val": jts(rand_ns(rng)),
                        "render": {"kind": "fmt", "fmt": h("%s"), "tz": "UTC"}})
    return out


MAL_TS = ["", " ", "2020-02-30 00:00:00", "2019-03-31 02:30:00", "2019-10-27 02:30:00", "2019-11-03 01:30:00",
          "1880-01-01 00:00:60", "1880-01-01T00:00:60", "2016-12-31 23:59:60", "2016-12-31T23:59:60Z",
          "2016-12-31T23:59:60+05:45", "2016-12-31T18:14:60-05:45", "1572139800", "-1", "+1", "007", "99999999999999",
          "-99999999999999", "8210266876799", "8210266876800", "-8334601228800", "-8334601228801",
          "9223372036854775807", "9223372036854775808", "1572139800.5", "1572139800 ",
          "Sun, 27 Oct 2019 01:30:00 +0000", "Sun, 27 Oct 2019 01:30:00 GMT", "Sun, 27 Oct 2019 01:30:00 EST",
          "27 Oct 2019 01:30:00 +0100", "Mon, 27 Oct 2019 01:30:00 +0000", "sun, 27 oct 2019 01:30:00 -0000",
          "2019-10-27t01:30:00z", "2019-10-27 01:30:00Z", "2019-10-27T01:30:00", "2019-10-27T01:30:00 +01:00",
          "2019-10-27T01:30:00+0100", "2019-10-27T01:30:00+01", "2019-10-27T01:30:00.123456789123+01:00",
          "2019-10-27T01:30:00,5+01:00", "2019-10-27T24:00:00Z", "2019-10-27T01:30Z", "20191027T013000Z",
          "2019-10-27 01:30:00 +01:00", "2019-10-27  01:30:00", "2019-10-27 01:30:00 ", " 2019-10-27 01:30:00",
          "27-Oct-2019 01:30:00", "10/27/2019:01:30:00", "Sun 27 Oct 01:30:00 2019", "Sunday 27 October 01:30:00 2019",
          "Sun Oct 27 01:30:00 2019", "Sun Oct  7 01:30:00 2019", "Sun 27 Oct 01:30:00 UTC 2019",
          "Sun 27 Oct 01:30:00 +0100 2019", "Sun 27 Oct 01:30:00 +01 2019", "27/Oct/2019:01:30:00 +0100",
          "Tue 27 Oct 01:30:00 2019", "+10000-01-01T00:00:00Z", "-0001-01-01T00:00:00Z", "10000-01-01 00:00:00",
          "0000-01-01 00:00:00", "99-01-01 00:00:00", "2019-10-27T01:30:00−01:00", "2019-10-27T01:30:00+24:00",
          "2019-10-27T01:30:00-23:59", "2019-10-27T01:30:00+00:60", "٢٠١٩-10-27 01:30:00",
          "2019-10-27 01:30:00", "2019-10-27　01:30:00"]
MAL_BYTES = [b"2019-10-27 01:30:00\xff", b"\xff", b"15721398\xc3\xa9", b"2019-10-27T01:30:00\xe2\x88\x9201:00"]


def py_text(rng, ns):
    """a well-formed text of a modern instant, rendered here (then mutated)"""
    s = ns // NS
    d = datetime.datetime(1970, 1, 1) + datetime.timedelta(seconds=s)
    return rng.choice([d.strftime("%Y-%m-%d %H:%M:%S"), d.strftime("%Y-%m-%dT%H:%M:%S"), d.strftime("%Y-%m-%dT%H:%M:%SZ"),
                       d.strftime("%Y-%m-%dT%H:%M:%S+00:00"), d.strftime("%a, %d %b %Y %H:%M:%S +0000"),
                       d.strftime("%a, %d %b %Y %H:%M:%S"), d.strftime("%a %d %b %H:%M:%S %Y"),
                       d.strftime("%d/%b/%Y:%H:%M:%S +0000"), d.strftime("%a %b %e %H:%M:%S %Y"), str(s),
                       d.strftime("%a %d %b %H:%M:%S +0000 %Y"), d.strftime("%d-%b-%Y %H:%M:%S"),
                       d.strftime("%Y-%m-%dT%H:%M:%S.") + "%09d" % (ns % NS) + "-05:00"])


def mutate(rng, s):
    if not s:
        return s
    i = rng.randrange(len(s))
    r = rng.random()
    if r < 0.2:
        return s[:i] + s[i + 1:]
    if r < 0.4:
        return s[:i] + rng.choice("0123456789:-+ TZz.,/") + s[i + 1:]
    if r < 0.6:
        return s[:i] + rng.choice(["0", "6", " ", ":", "-", "+", "Z", "60", " ", "−", "x"]) + s[i:]
    if r < 0.7 and i + 1 < len(s):
        return s[:i] + s[i + 1] + s[i] + s[i + 2:]
    if r < 0.8:
        return s[:i]
    if r < 0.9:
        return s + rng.choice([" ", "Z", "+00:00", " UTC", " GMT", ".5", "\n", "x", " +0100"])
    return rng.choice([" ", "\t", "+", "-"]) + s


def malformed_ts_cases(rng, n):
    out = []
    names = ["timestamp"] * 5 + ["timestamp|%F %T", "timestamp|%FT%T", "timestamp|%+", "timestamp|%F %T %z",
                                 "timestamp|%s", "timestamp|%a, %d %b %Y %T %z", "timestamp|%F %T%.f", "timestamp|%F %T %Z",
                                 "timestamp|%FT%T%:z", "timestamp|%F %T %::z", "timestamp|%d/%b/%Y:%T %z"]
    for t in MAL_TS:
        out.append({"kind": "mal_ts", "name": h(rng.choice(names)), "tzs": pick_tzs(rng, first="Europe/Berlin"), "text": h(t)})
        out.append({"kind": "mal_ts", "name": h("timestamp"), "tzs": pick_tzs(rng), "text": h(t)})
    for b in MAL_BYTES:
        out.append({"kind": "mal_ts", "name": h(rng.choice(names)), "tzs": pick_tzs(rng), "text": h(b)})
    for _ in range(n):
        ns = rng.randint(-2208988800, 4102444800) * NS + rng.choice(NANOS)
        if rng.random() < 0.3:
            ns = rng.choice([s for s in EDGE_SECS if -2208988800 <= s <= 4102444800]) * NS
        t = py_text(rng, ns)
        for _ in range(rng.choice([0, 1, 1, 2])):
            t = mutate(rng, t)
        out.append({"kind": "mal_ts", "name": h(rng.choice(names)), "tzs": pick_tzs(rng), "text": h(t)})
    return out


def gen_cases(run, n):
    rng = run.rng
    cases = []
    cases += name_cases(rng, n // 6)
    cases += scalar_cases(rng, n // 4)
    cases += ts_cases(rng, n // 3)
    cases += malformed_ts_cases(rng, n // 6)
    return cases


# ------------------------------------------------------------------------------------------------
# what the property expects of a case (used to render the Coq case, and by the known-finding matcher)
# ------------------------------------------------------------------------------------------------

def name_of(c):
    return unh(c["name"]).decode("utf-8")


def render_fmt(c):
    r = c.get("render")
    if r and r["kind"] == "fmt":
        return unh(r["fmt"]).decode("utf-8")
    return None


def expectation(c, o):
    """-> (expected value json | None, [rt flag per run], zoned flag)"""
    runs = o["runs"]
    k = c.get("kind")
    nrt = [False] * len(runs)
    name = name_of(c)
    custom = name.split("|", 1)[1].strip() if "|" in name else None
    zoned = bool(custom is not None and name.split("|", 1)[0].strip() == "timestamp" and fmt_class(custom)["zoned"])
    if k in ("bool",) and "expect" in c:
        return c["expect"], [True] * len(runs), zoned
    if "val" not in c:
        return None, nrt, zoned
    val = c["val"]
    if k == "int":
        if name.strip() in ("int", "integer"):
            return val, [True] * len(runs), zoned
        return None, nrt, zoned
    if k == "float":
        return val, [True] * len(runs), zoned
    if isinstance(val, dict) and "ts" in val:
        ns = int(val["ts"])
        rf = render_fmt(c)
        if c["render"]["kind"] == "rfc3339":
            return val, [True] * len(runs), True
        fc = fmt_class(rf)
        exp = jts(ns - ns % fc["unit"])
        # the text is a faithful rendering only if the civil time in the rendering zone exists in chrono's date range
        # and, where an offset is printed, the zone's offset is a whole number of minutes (chrono prints hh:mm only)
        faithful = o.get("render_in_range", True)
        if fc["zoned"]:
            faithful = faithful and o.get("render_off", 0) % 60 == 0
            return exp, [faithful] * len(runs), True
        if fc["abs"]:
            return exp, [True] * len(runs), False
        # zone-less civil time: only under the timezone it was rendered in, and only if that civil time is unambiguous
        rtz = c["render"]["tz"]
        rt = [(faithful and tz == rtz and r.get("local_kind") == "single") for tz, r in zip(c["tzs"], runs)]
        return exp, rt, False
    return None, nrt, zoned


# ------------------------------------------------------------------------------------------------
# rendering as Gallina
# ------------------------------------------------------------------------------------------------

def coq_dt(j):
    if j is None or j == "panic":
        return "None"
    return "(Some (%s, %s))" % (coq_z(j[0]), coq_z(j[1]))


def coq_ptag(p):
    if isinstance(p, dict):
        if "tsfmt" in p:
            return '(TTsFmt (hx "%s"))' % p["tsfmt"]
        return '(TTsTzFmt (hx "%s"))' % p["tstzfmt"]
    return {"unknown": "TUnknown", "bytes": "TBytes", "integer": "TInteger", "float": "TFloat", "boolean": "TBoolean",
            "timestamp": "TTimestamp"}[p]


ERRS = {"bool": "EcBool", "int": "EcInt", "nan": "EcNan", "float": "EcFloat", "ts": "EcTs", "auto": "EcAuto"}


def coq_ires(r):
    if r == "none":
        return "INone"
    if "ok" in r:
        return "(IOk %s)" % coq_value(r["ok"])
    if "err" in r:
        return "(IErr %s)" % ERRS[r["err"]]
    return "IPanic"


def coq_obs(o):
    tab = lambda l: "[%s]" % "; ".join('(hx "%s", %s)' % (f, coq_dt(r)) for f, r in l)
    return "(mkObs %s %s %s %s)" % (tab(o["local"]), tab(o["zoned"]), coq_dt(o["rfc3339"]), coq_dt(o["rfc2822"]))


def to_coq(c, o):
    exp, rt, zoned = expectation(c, o)
    runs = "; ".join("mkRun %s %s %s %s" % (coq_ptag(r["parse"]), coq_ires(r["res"]), coq_obs(r["obs"]), coq_bool(f))
                     for r, f in zip(o["runs"], rt))
    e = "None" if exp is None else "(Some %s)" % coq_value(exp)
    canon = "None"
    if c.get("render", {}).get("kind") == "rfc3339":
        canon = "(Some %s)" % coq_z(c["val"]["ts"])
    return '(Case (hx "%s") (hx "%s") [%s] %s %s %s)' % (c["name"], o["text"], runs, e, coq_bool(zoned), canon)


# ------------------------------------------------------------------------------------------------
# known findings
# ------------------------------------------------------------------------------------------------

def explain(c, o):
    """classes of known findings that account for EVERY failing run of this case; [] if some failure is unexplained"""
    exp, rt, zoned = expectation(c, o)
    runs = o["runs"]
    name = name_of(c)
    custom = name.split("|", 1)[1].strip() if "|" in name else None
    fmts = [f for f in (custom, render_fmt(c)) if f is not None]
    toks = set()
    for f in fmts:
        toks |= set(fmt_class(f)["toks"])
    lit_zone = any(("%%" + z) in f for f in fmts for z in ("z", "Z", ":z", "#z", "+")) and not (toks & NUMERIC_ZONES) \
        and "Z" not in toks
    classes = set()
    ok_json = lambda v: {"ok": v}
    failing = []
    for i, r in enumerate(runs):
        res = r["res"]
        bad = False
        if isinstance(res, dict) and "panic" in res:
            bad = True
        if exp is not None and rt[i] and res != ok_json(exp):
            bad = True
        auto_zoned = all(x["parse"] == "timestamp" and all(d is None for _, d in x["obs"]["local"]) for x in runs)
        if (zoned or auto_zoned) and res != runs[0]["res"]:
            bad = True
        if bad:
            failing.append(i)
    if not failing:
        return []
    # a disagreement between timezones involves run 0 too
    for i in failing:
        r = runs[i]
        res = r["res"]
        why = None
        if isinstance(res, dict) and "panic" in res:
            leap = False
            for tab in (r["obs"]["local"], r["obs"]["zoned"]):
                for _, d in tab:
                    if d and d != "panic" and int(d[1]) >= NS and int(d[0]) % 60 != 59:
                        leap = True
            if leap and "invalid timestamp" in res["panic"]:
                why = "leap-panic"
        elif "::z" in toks or ":::z" in toks:
            why = "colon-colon-z"
        elif "Z" in toks and not (toks & NUMERIC_ZONES):
            why = "percent-Z"
        elif lit_zone:
            why = "literal-percent"
        elif "s" in toks and custom is not None and unh(o["text"]).startswith(b"-") and res == {"err": "ts"}:
            why = "unix-negative"
        elif "s" in toks and not (toks & NUMERIC_ZONES) and custom is not None and r.get("local_kind") == "ambiguous" \
                and res == {"err": "ts"}:
            why = "unix-overlap"
        elif "s" in toks and not (toks & NUMERIC_ZONES) and custom is not None and r.get("local_kind") == "none" \
                and res == {"err": "ts"}:
            why = "unix-overlap"
        if why is None:
            return []
        classes.add(why)
    return sorted(classes)


def known_matcher(entry, case, out):
    if not isinstance(out, dict) or "runs" not in out:
        return False
    return entry["match"]["class"] in explain(case, out)


def nontrivial(c):
    return "val" in c or c.get("kind") in ("bool", "mal_ts") or "|" in name_of(c)


def main(run, args):
    import checklib
    n = 1500 if run.tier == "quick" else 20000
    if args.cases:
        n = args.cases
    return checklib.standard(run, ID, THEOREMS, IMPORTS, "conversion", gen_cases, to_coq, n, nontrivial=nontrivial,
                             replay=args.replay, known_matcher=known_matcher)
