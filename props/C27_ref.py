"""C27: independent Python opinions on the digest / checksum functions.

* md5, sha1, sha2, sha3, hmac: CPython's hashlib / hmac (OpenSSL) — a third, unrelated implementation.
* crc: a 20-line bit-at-a-time Rocksoft model; catalogue parameters parsed at run time from the
  `crc-catalog` crate source that Cargo.lock pins (a transcription independent of coq/Model/Crc.v);
  zlib.crc32 / binascii.crc_hqx additionally for CRC_32_ISO_HDLC / CRC_16_XMODEM.
* xxhash (XXH32, XXH64, XXH3-64, XXH3-128, seed 0, default secret) and seahash: hand-written from the
  xxHash specification (doc/xxhash_spec.md of Cyan4973/xxHash) and the seahash reference.rs.
Everything returns what the VRL function is documented to return (hex text, raw bytes, decimal text, i64).
"""
import binascii
import glob
import hashlib
import hmac as _hmac
import os
import re
import zlib

M32 = (1 << 32) - 1
M64 = (1 << 64) - 1

SHA2 = {"SHA-224": "sha224", "SHA-256": "sha256", "SHA-384": "sha384", "SHA-512": "sha512",
        "SHA-512/224": "sha512_224", "SHA-512/256": "sha512_256"}
SHA3 = {"SHA3-224": "sha3_224", "SHA3-256": "sha3_256", "SHA3-384": "sha3_384", "SHA3-512": "sha3_512"}
HMAC = {"SHA1": "sha1", "SHA-224": "sha224", "SHA-256": "sha256", "SHA-384": "sha384", "SHA-512": "sha512"}
XXH = ["XXH32", "XXH64", "XXH3-64", "XXH3-128"]
DEFAULTS = {"sha2": "SHA-512/256", "sha3": "SHA3-512", "hmac": "SHA-256", "crc": "CRC_32_ISO_HDLC", "xxhash": "XXH32"}


# ------------------------------------------------------------------------------------------- CRC
def crc_catalog():
    """name -> (width, poly, init, refin, refout, xorout, check) from the vendored crc-catalog source."""
    pats = glob.glob(os.path.expanduser("~/.cargo/registry/src/*/crc-catalog-2.4.0/src/algorithm.rs"))
    if not pats:
        return {}
    src = open(pats[0]).read()
    out = {}
    for m in re.finditer(r"pub const (CRC_\w+): Algorithm<\w+> = Algorithm \{([^}]*)\}", src):
        f = dict((k.strip(), v.strip()) for k, v in (kv.split(":") for kv in m.group(2).split(",") if ":" in kv))
        out[m.group(1)] = (int(f["width"]), int(f["poly"], 16), int(f["init"], 16), f["refin"] == "true",
                           f["refout"] == "true", int(f["xorout"], 16), int(f["check"], 16))
    return out


def reflect(x, w):
    r = 0
    for i in range(w):
        if (x >> i) & 1:
            r |= 1 << (w - 1 - i)
    return r


def crc_rocksoft(params, data):
    w, poly, init, refin, refout, xorout = params[:6]
    top = 1 << (w - 1)
    mask = (1 << w) - 1
    reg = init
    for byte in data:
        if refin:
            byte = reflect(byte, 8)
        for i in range(7, -1, -1):
            bit = (byte >> i) & 1
            msb = 1 if reg & top else 0
            reg = (reg << 1) & mask
            if bit ^ msb:
                reg ^= poly
    if refout:
        reg = reflect(reg, w)
    return reg ^ xorout


# ---------------------------------------------------------------------------------------- xxHash
P32_1, P32_2, P32_3, P32_4, P32_5 = 0x9E3779B1, 0x85EBCA77, 0xC2B2AE3D, 0x27D4EB2F, 0x165667B1
P64_1, P64_2, P64_3, P64_4, P64_5 = (0x9E3779B185EBCA87, 0xC2B2AE3D27D4EB4F, 0x165667B19E3779F9,
                                     0x85EBCA77C2B2AE63, 0x27D4EB2F165667C5)


def rotl32(x, r):
    return ((x << r) | (x >> (32 - r))) & M32


def rotl64(x, r):
    return ((x << r) | (x >> (64 - r))) & M64


def r32(b, i):
    return int.from_bytes(b[i:i + 4], "little")


def r64(b, i):
    return int.from_bytes(b[i:i + 8], "little")


def xxh32(b, seed=0):
    n = len(b)
    i = 0

    def rnd(acc, inp):
        return (rotl32((acc + inp * P32_2) & M32, 13) * P32_1) & M32
    if n >= 16:
        v = [(seed + P32_1 + P32_2) & M32, (seed + P32_2) & M32, seed, (seed - P32_1) & M32]
        while i + 16 <= n:
            for k in range(4):
                v[k] = rnd(v[k], r32(b, i + 4 * k))
            i += 16
        h = (rotl32(v[0], 1) + rotl32(v[1], 7) + rotl32(v[2], 12) + rotl32(v[3], 18)) & M32
    else:
        h = (seed + P32_5) & M32
    h = (h + n) & M32
    while i + 4 <= n:
        h = (h + r32(b, i) * P32_3) & M32
        h = (rotl32(h, 17) * P32_4) & M32
        i += 4
    while i < n:
        h = (h + b[i] * P32_5) & M32
        h = (rotl32(h, 11) * P32_1) & M32
        i += 1
    h ^= h >> 15
    h = (h * P32_2) & M32
    h ^= h >> 13
    h = (h * P32_3) & M32
    h ^= h >> 16
    return h


def xxh64_avalanche(h):
    h ^= h >> 33
    h = (h * P64_2) & M64
    h ^= h >> 29
    h = (h * P64_3) & M64
    h ^= h >> 32
    return h


def xxh64(b, seed=0):
    n = len(b)
    i = 0

    def rnd(acc, inp):
        return (rotl64((acc + inp * P64_2) & M64, 31) * P64_1) & M64

    def merge(acc, val):
        acc ^= rnd(0, val)
        return (acc * P64_1 + P64_4) & M64
    if n >= 32:
        v = [(seed + P64_1 + P64_2) & M64, (seed + P64_2) & M64, seed, (seed - P64_1) & M64]
        while i + 32 <= n:
            for k in range(4):
                v[k] = rnd(v[k], r64(b, i + 8 * k))
            i += 32
        h = (rotl64(v[0], 1) + rotl64(v[1], 7) + rotl64(v[2], 12) + rotl64(v[3], 18)) & M64
        for k in range(4):
            h = merge(h, v[k])
    else:
        h = (seed + P64_5) & M64
    h = (h + n) & M64
    while i + 8 <= n:
        h ^= rnd(0, r64(b, i))
        h = (rotl64(h, 27) * P64_1 + P64_4) & M64
        i += 8
    if i + 4 <= n:
        h ^= (r32(b, i) * P64_1) & M64
        h = (rotl64(h, 23) * P64_2 + P64_3) & M64
        i += 4
    while i < n:
        h ^= (b[i] * P64_5) & M64
        h = (rotl64(h, 11) * P64_1) & M64
        i += 1
    return xxh64_avalanche(h)


KSECRET = bytes.fromhex(
    "b8fe6c3923a44bbe7c01812cf721ad1cded46de9839097db7240a4a4b7b3671f"
    "cb79e64eccc0e578825ad07dccff7221b8084674f743248ee03590e6813a264c"
    "3c2852bb91c300cb88d0658b1b532ea371644897a20df94e3819ef46a9deacd8"
    "a8fa763fe39c343ff9dcbbc7c70b4f1d8a51e04bcdb45931c89f7ec9d9787364"
    "eac5ac8334d3ebc3c581a0fffa1363eb170ddd51b7f0da49d316552629d4689e"
    "2b16be587d47a1fc8ff8b8d17ad031ce45cb3a8f95160428afd7fbcabb4b407e")
PRIME_MX1 = 0x165667919E3779F9
PRIME_MX2 = 0x9FB21C651E98DF25


def bswap32(x):
    return int.from_bytes(x.to_bytes(4, "little"), "big")


def bswap64(x):
    return int.from_bytes(x.to_bytes(8, "little"), "big")


def mul128_fold64(a, b):
    p = a * b
    return (p & M64) ^ (p >> 64)


def xxh3_avalanche(h):
    h ^= h >> 37
    h = (h * PRIME_MX1) & M64
    h ^= h >> 32
    return h


def mix16(b, i, s, seed=0):
    return mul128_fold64(r64(b, i) ^ ((r64(KSECRET, s) + seed) & M64), r64(b, i + 8) ^ ((r64(KSECRET, s + 8) - seed) & M64))


def xxh3_accumulate_512(acc, b, i, s):
    for k in range(8):
        dv = r64(b, i + 8 * k)
        dk = dv ^ r64(KSECRET, s + 8 * k)
        acc[k ^ 1] = (acc[k ^ 1] + dv) & M64
        acc[k] = (acc[k] + (dk & M32) * (dk >> 32)) & M64


def xxh3_scramble(acc, s):
    for k in range(8):
        a = acc[k]
        a ^= a >> 47
        a ^= r64(KSECRET, s + 8 * k)
        acc[k] = (a * P32_1) & M64


def xxh3_long_acc(b):
    n = len(b)
    acc = [P32_3, P64_1, P64_2, P64_3, P64_4, P32_2, P64_5, P32_1]
    nstripes = (len(KSECRET) - 64) // 8
    block = 64 * nstripes
    nblocks = (n - 1) // block
    for blk in range(nblocks):
        for st in range(nstripes):
            xxh3_accumulate_512(acc, b, blk * block + st * 64, st * 8)
        xxh3_scramble(acc, len(KSECRET) - 64)
    rest = ((n - 1) - block * nblocks) // 64
    for st in range(rest):
        xxh3_accumulate_512(acc, b, nblocks * block + st * 64, st * 8)
    xxh3_accumulate_512(acc, b, n - 64, len(KSECRET) - 64 - 7)
    return acc


def xxh3_merge(acc, s, start):
    r = start
    for k in range(4):
        r = (r + mul128_fold64(acc[2 * k] ^ r64(KSECRET, s + 16 * k), acc[2 * k + 1] ^ r64(KSECRET, s + 16 * k + 8))) & M64
    return xxh3_avalanche(r)


def xxh3_64(b):
    n = len(b)
    S = KSECRET
    if n == 0:
        return xxh64_avalanche(r64(S, 56) ^ r64(S, 64))
    if n <= 3:
        comb = (b[0] << 16) | (b[n >> 1] << 24) | b[n - 1] | (n << 8)
        return xxh64_avalanche(comb ^ ((r32(S, 0) ^ r32(S, 4)) & M64))
    if n <= 8:
        in1, in2 = r32(b, 0), r32(b, n - 4)
        keyed = (in2 + (in1 << 32)) ^ (r64(S, 8) ^ r64(S, 16))
        h = keyed
        h ^= rotl64(h, 49) ^ rotl64(h, 24)
        h = (h * PRIME_MX2) & M64
        h ^= (h >> 35) + n
        h = (h * PRIME_MX2) & M64
        return h ^ (h >> 28)
    if n <= 16:
        lo = r64(b, 0) ^ (r64(S, 24) ^ r64(S, 32))
        hi = r64(b, n - 8) ^ (r64(S, 40) ^ r64(S, 48))
        return xxh3_avalanche((n + bswap64(lo) + hi + mul128_fold64(lo, hi)) & M64)
    if n <= 128:
        acc = (n * P64_1) & M64
        if n > 32:
            if n > 64:
                if n > 96:
                    acc += mix16(b, 48, 96) + mix16(b, n - 64, 112)
                acc += mix16(b, 32, 64) + mix16(b, n - 48, 80)
            acc += mix16(b, 16, 32) + mix16(b, n - 32, 48)
        acc += mix16(b, 0, 0) + mix16(b, n - 16, 16)
        return xxh3_avalanche(acc & M64)
    if n <= 240:
        acc = (n * P64_1) & M64
        for k in range(8):
            acc = (acc + mix16(b, 16 * k, 16 * k)) & M64
        acc = xxh3_avalanche(acc)
        for k in range(8, n // 16):
            acc = (acc + mix16(b, 16 * k, 16 * (k - 8) + 3)) & M64
        acc = (acc + mix16(b, n - 16, 136 - 17)) & M64
        return xxh3_avalanche(acc)
    return xxh3_merge(xxh3_long_acc(b), 11, (n * P64_1) & M64)


def xxh3_128(b):
    n = len(b)
    S = KSECRET
    if n == 0:
        lo = xxh64_avalanche(r64(S, 64) ^ r64(S, 72))
        hi = xxh64_avalanche(r64(S, 80) ^ r64(S, 88))
    elif n <= 3:
        cl = (b[0] << 16) | (b[n >> 1] << 24) | b[n - 1] | (n << 8)
        ch = rotl32(bswap32(cl), 13)
        lo = xxh64_avalanche(cl ^ (r32(S, 0) ^ r32(S, 4)))
        hi = xxh64_avalanche(ch ^ (r32(S, 8) ^ r32(S, 12)))
    elif n <= 8:
        ilo, ihi = r32(b, 0), r32(b, n - 4)
        keyed = (ilo + (ihi << 32)) ^ (r64(S, 16) ^ r64(S, 24))
        m = keyed * ((P64_1 + (n << 2)) & M64)
        mlo, mhi = m & M64, m >> 64
        mhi = (mhi + (mlo << 1)) & M64
        mlo ^= mhi >> 3
        mlo ^= mlo >> 35
        mlo = (mlo * PRIME_MX2) & M64
        mlo ^= mlo >> 28
        lo, hi = mlo, xxh3_avalanche(mhi)
    elif n <= 16:
        bl = r64(S, 32) ^ r64(S, 40)
        bh = r64(S, 48) ^ r64(S, 56)
        ilo, ihi = r64(b, 0), r64(b, n - 8)
        m = (ilo ^ ihi ^ bl) * P64_1
        mlo, mhi = m & M64, m >> 64
        mlo = (mlo + ((n - 1) << 54)) & M64
        ihi ^= bh
        mhi = (mhi + ihi + (ihi & M32) * (P32_2 - 1)) & M64
        mlo ^= bswap64(mhi)
        h = mlo * P64_2
        hlo, hhi = h & M64, h >> 64
        hhi = (hhi + mhi * P64_2) & M64
        lo, hi = xxh3_avalanche(hlo), xxh3_avalanche(hhi)
    elif n <= 240:
        al, ah = (n * P64_1) & M64, 0

        def mix32(al, ah, i1, i2, s):
            al = (al + mix16(b, i1, s)) & M64
            al ^= (r64(b, i2) + r64(b, i2 + 8)) & M64
            ah = (ah + mix16(b, i2, s + 16)) & M64
            ah ^= (r64(b, i1) + r64(b, i1 + 8)) & M64
            return al, ah
        if n <= 128:
            if n > 32:
                if n > 64:
                    if n > 96:
                        al, ah = mix32(al, ah, 48, n - 64, 96)
                    al, ah = mix32(al, ah, 32, n - 48, 64)
                al, ah = mix32(al, ah, 16, n - 32, 32)
            al, ah = mix32(al, ah, 0, n - 16, 0)
        else:
            for i in range(32, 160, 32):
                al, ah = mix32(al, ah, i - 32, i - 16, i - 32)
            al, ah = xxh3_avalanche(al), xxh3_avalanche(ah)
            i = 160
            while i <= n:
                al, ah = mix32(al, ah, i - 32, i - 16, 3 + i - 160)
                i += 32
            al, ah = mix32(al, ah, n - 16, n - 32, 136 - 17 - 16)
        lo = xxh3_avalanche((al + ah) & M64)
        hi = (-xxh3_avalanche((al * P64_1 + ah * P64_4 + n * P64_2) & M64)) & M64
    else:
        acc = xxh3_long_acc(b)
        lo = xxh3_merge(acc, 11, (n * P64_1) & M64)
        hi = xxh3_merge(acc, len(S) - 64 - 11, (~(n * P64_2)) & M64)
    return (hi << 64) | lo


# --------------------------------------------------------------------------------------- seahash
def sea_diffuse(x):
    x = (x * 0x6eed0e9da4d94a4f) & M64
    x ^= (x >> 32) >> (x >> 60)
    return (x * 0x6eed0e9da4d94a4f) & M64


def seahash(b):
    s = [0x16f11fe89b0d677c, 0xb480a793d8e6c86c, 0x6fe2e5aaf078ebc9, 0x14f994a4c5259381]
    for i in range(0, len(b), 8):
        a = sea_diffuse(s[0] ^ int.from_bytes(b[i:i + 8], "little"))
        s = [s[1], s[2], s[3], a]
    return sea_diffuse(s[0] ^ s[1] ^ s[2] ^ s[3] ^ len(b))


def as_i64(u):
    return u - (1 << 64) if u >= (1 << 63) else u


# ------------------------------------------------------------------------------ the VRL functions
_CAT = None


def catalog():
    global _CAT
    if _CAT is None:
        _CAT = crc_catalog()
    return _CAT


def vrl_ref(op, name, x, key=b""):
    """What `op(x [, key], name)` must return for a *canonical* name: ('b', bytes) | ('i', int) | None if
    this module has no opinion (unknown name)."""
    x = bytes(x)
    if op == "md5":
        return ("b", hashlib.md5(x).hexdigest().encode())
    if op == "sha1":
        return ("b", hashlib.sha1(x).hexdigest().encode())
    if op == "sha2" and name in SHA2:
        return ("b", hashlib.new(SHA2[name], x).hexdigest().encode())
    if op == "sha3" and name in SHA3:
        return ("b", hashlib.new(SHA3[name], x).hexdigest().encode())
    if op == "hmac" and name in HMAC:
        return ("b", _hmac.new(bytes(key), x, HMAC[name]).digest())
    if op == "crc" and name in catalog():
        v = crc_rocksoft(catalog()[name], x)
        if name == "CRC_32_ISO_HDLC":
            assert v == zlib.crc32(x)
        if name == "CRC_16_XMODEM":
            assert v == binascii.crc_hqx(x, 0)
        return ("b", str(v).encode())
    if op == "xxhash":
        if name == "XXH32":
            return ("i", xxh32(x))
        if name == "XXH64":
            return ("i", as_i64(xxh64(x)))
        if name == "XXH3-64":
            return ("i", as_i64(xxh3_64(x)))
        if name == "XXH3-128":
            return ("b", str(xxh3_128(x)).encode())
    if op == "seahash":
        return ("i", as_i64(seahash(x)))
    return None


if __name__ == "__main__":
    assert xxh32(b"foo") == 3792637401
    assert xxh64(b"foo") == 3728699739546630719
    assert as_i64(xxh3_64(b"foo")) == -6093828362558603894
    assert xxh3_128(b"foo") == 161745101148472925293886522910304009610
    assert seahash(b"to be or not to be") == 1988685042348123509
    cat = crc_catalog()
    assert len(cat) == 112
    for k, p in cat.items():
        assert crc_rocksoft(p, b"123456789") == p[6], k
    print("ok")
