"""C18 — Value path operations obey get/insert/remove laws."""
import vlib
from vlib import coq_value, coq_path, coq_opt, coq_bool
import gen

ID = "C18"
THEOREMS = ["C18_get_insert", "C18_insert_returns_get", "C18_insert_frame", "C18_insert_frame_fields",
            "C18_remove_returns_get", "C18_through_scalar", "C18_remove_frame_fields", "C18_remove_nothing_unchanged",
            "C18_frame_nonvacuous"]
IMPORTS = "From Coq Require Import List ZArith String.\nFrom VRL Require Import Base.Bytes Base.Value Base.Lit Model.ValueCrud Corr.C18.\nLocal Open Scope string_scope."
MANIFEST = {
    "level": "proof",
    "technique": "Coq proof (induction over paths) on a hand model of crud/*.rs + differential correspondence vs Value::get/insert/remove",
    "text": "Closed Coq theorems over all values, paths (negative indices, coercions) and inserted values: get-after-insert, "
            "insert/remove return what get returned, frame law under the explicit disjoint_stable side condition, paths "
            "through scalars find nothing. The model is tied to the code by running get/insert/remove on generated "
            "(value, path, x, prune) cases through both the Rust implementation and the Gallina definitions (vm_compute).",
    "note": "Trusted: Coq kernel + vm_compute, the hand-written model Model/ValueCrud.v (tied by correspondence only), "
            "harness JSON codec, Python generator. BTreeMap/Vec are modelled as sorted association lists/lists. "
            "No axioms (Print Assumptions: closed).",
    "design_ref": "DESIGN.md section 5 C18",
}


def gen_cases(run, n):
    rng = run.rng
    cases = []
    for _ in range(n):
        v = gen.rand_value(rng, depth=3) if rng.random() < 0.85 else gen.rand_scalar(rng)
        p = gen.rand_path(rng, v)
        r = rng.random()
        if r < 0.15:
            cases.append({"op": "get", "v": v, "p": p})
        elif r < 0.65:
            q = gen.rand_path(rng, v)
            if rng.random() < 0.4 and p:   # a sibling of p: same prefix, different last segment
                q = p[:-1] + [gen.rand_seg(rng)]
            cases.append({"op": "insert", "v": v, "p": p, "q": q, "x": gen.rand_value(rng, depth=1)})
        else:
            cases.append({"op": "remove", "v": v, "p": p, "prune": rng.random() < 0.5})
    return cases


def to_coq(c, o):
    if c["op"] == "get":
        return "CGet %s %s %s" % (coq_value(c["v"]), coq_path(c["p"]), coq_opt(o["res"]))
    if c["op"] == "insert":
        return "CInsert %s %s %s %s %s %s %s %s %s %s" % (
            coq_value(c["v"]), coq_path(c["p"]), coq_path(c["q"]), coq_value(c["x"]), coq_opt(o["res"]),
            coq_value(o["v"]), coq_opt(o["get_p_before"]), coq_opt(o["get_p_after"]),
            coq_opt(o["get_q_before"]), coq_opt(o["get_q_after"]))
    return "CRemove %s %s %s %s %s %s %s" % (
        coq_value(c["v"]), coq_path(c["p"]), coq_bool(c["prune"]), coq_opt(o["res"]), coq_value(o["v"]),
        coq_opt(o["get_p_before"]), coq_opt(o["get_p_after"]))


def nontrivial(c):
    return len(c["p"]) >= 2 or any("i" in s and int(s["i"]) < 0 for s in c["p"])


def main(run, args):
    import checklib
    n = 3000 if run.tier == "quick" else 60000
    return checklib.standard(run, ID, THEOREMS, IMPORTS, "crud", gen_cases, to_coq, n, nontrivial=nontrivial,
                             replay=args.replay)
