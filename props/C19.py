"""C19 — Type abstraction (Kind) is sound for path operations and merging."""
import json

import vlib
from vlib import coq_value, coq_path, coq_opt, coq_bool, coq_hex
import gen

ID = "C19"
THEOREMS = ["C19_union_sound", "C19_union_sound_any_fuel", "C19_fuel_adequate", "C19_union_exact_vs_json_refuted",
            "C19_get_sound", "C19_get_sound_nonneg", "C19_kget_sound", "C19_get_negidx_optional_refuted",
            "C19_superset_sound", "C19_superset_exact_any_refuted",
            "C19_insert_sound", "C19_negidx_insert_refuted", "C19_insert_coerce_required_refuted",
            "C19_insert_optional_hole_refuted",
            "C19_remove_sound", "C19_remove_shift_refuted", "C19_remove_inside_unknown_refuted",
            "C19_remove_single_segment_no_panic", "C19_remove_negidx_below_known_fixed", "C19_merge_union_sound", "C19_merge_overwrite_refuted",
            "C19_domains_nonvacuous"]
IMPORTS = ("From Coq Require Import List ZArith String.\n"
           "From VRL Require Import Base.Bytes Base.Value Base.Lit Model.ValueCrud Model.Kind Model.KindCrud Model.KindDomains Corr.C19.\n"
           "Local Open Scope string_scope.")
MANIFEST = {
    "level": "proof",
    "technique": "Coq proofs on a hand model of src/value/kind/** with an independent membership predicate + "
                 "differential correspondence vs Kind::{at_path,insert,remove,union,merge,is_superset}",
    "text": "Closed Coq theorems over all values, kinds and paths, against an independent membership predicate: "
            "union/merge(Union) contain every member of their operands (under union_compat), at_path/get of a member "
            "is a member of the kind's view of the path (unconditionally without negative indices), is_superset implies "
            "containment (no_exact_any), Kind::insert is sound on the ins_ok domain (fields, padding, coercion, in-range "
            "negative indices), Kind::remove on the remove_ok domain (no nested compaction, at most one known element behind a removed one). Ten classes where the code "
            "is unsound are refuted by vm_compute witnesses and recorded as known findings. The model is tied to the "
            "code by running the six operations, the value-level CRUD and a Rust-side membership function on generated "
            "(kind, value-from-kind, path) cases through both the implementation and the Gallina definitions.",
    "note": "Partial: merge with Overwrite is checked by the correspondence/oracle run only (refuted in general); the insert branch for negative indices into arrays with unknown elements is refuted. Trusted: Coq kernel + vm_compute, the hand-written models Model/Kind.v, Model/KindCrud.v "
            "(tied by correspondence), harness Kind codec, Python generator. No axioms.",
    "design_ref": "DESIGN.md section 5 C19",
}

PRIMS = "bifBtrnu"
INF_ANY = "bifBtrnao"
INF_JSON = "bifBnao"
FIELDS = gen.FIELDS


# ------------------------------------------------------------------------------------------------
# kinds
# ------------------------------------------------------------------------------------------------

def K(p="", a=None, o=None):
    return {"p": "".join(c for c in PRIMS if c in p), "a": a, "o": o}


def C(known, u):
    return {"k": known, "u": u}


UNDEF = K("u")
U_NONE = {"x": UNDEF}
U_ANY = {"inf": INF_ANY}
U_JSON = {"inf": INF_JSON}


def hexs(s):
    return s.encode().hex()


def rand_prims(rng, allow_u=True):
    r = rng.random()
    pool = PRIMS if allow_u else PRIMS[:-1]
    if r < 0.35:
        s = rng.choice(pool[:7])
    elif r < 0.6:
        s = "".join(rng.sample(pool, 2))
    elif r < 0.75:
        s = "".join(c for c in pool if rng.random() < 0.5)
    elif r < 0.8:
        s = "bifBnu" if allow_u else "bifBn"     # the json primitive set
    elif r < 0.85:
        s = pool
    else:
        s = ""
    return s


def rand_unknown(rng, depth):
    r = rng.random()
    if r < 0.4:
        return U_NONE
    if r < 0.6:
        return {"x": K(rand_prims(rng))}
    if r < 0.72:
        return U_ANY
    if r < 0.84:
        return U_JSON
    return {"x": rand_kind(rng, depth)}


def rand_coll(rng, depth, typ):
    known = []
    if typ == "a":
        n = rng.choice([0, 0, 1, 1, 2, 2, 3])
        idx = list(range(n))
        if rng.random() < 0.15 and n:
            idx = sorted(set(rng.randint(0, 4) for _ in range(n)))     # gaps
        for i in idx:
            kk = rand_kind(rng, depth, opt=0.2)
            known.append([str(i), kk])
    else:
        ks = [f for f in FIELDS if rng.random() < 0.5]
        for f in sorted(ks, key=lambda s: s.encode()):
            known.append([hexs(f), rand_kind(rng, depth, opt=0.3)])
    return C(known, rand_unknown(rng, depth))


def rand_kind(rng, depth, opt=None):
    """opt: probability that `undefined` is part of the kind (None: as the prims generator decides)."""
    p = rand_prims(rng, allow_u=opt is None)
    a = o = None
    if depth > 0:
        r = rng.random()
        if r < 0.3:
            a = rand_coll(rng, depth - 1, "a")
        elif r < 0.6:
            o = rand_coll(rng, depth - 1, "o")
        elif r < 0.7:
            a = rand_coll(rng, depth - 1, "a")
            o = rand_coll(rng, depth - 1, "o")
        if (a or o) and rng.random() < 0.5:
            p = ""          # exact collection kinds are the common case in VRL
    if opt is not None and rng.random() < opt:
        p += "u"
    return K(p, a, o)


def rand_top_kind(rng):
    r = rng.random()
    if r < 0.75:
        return rand_kind(rng, 2)
    if r < 0.8:
        return K(PRIMS, C([], U_ANY), C([], U_ANY))                 # any
    if r < 0.85:
        return K("bifBn", C([], U_JSON), C([], U_JSON))            # json
    if r < 0.95:
        k = rand_kind(rng, 2)
        return K("", k["a"] or rand_coll(rng, 1, "a"), None) if rng.random() < 0.5 else K("", None, k["o"] or rand_coll(rng, 1, "o"))
    return K("")


# ------------------------------------------------------------------------------------------------
# values from kinds
# ------------------------------------------------------------------------------------------------

def scalar_for(rng, c):
    if c == "b":
        return vlib.js(rng.choice(["", "a", "xyz"]))
    if c == "i":
        return vlib.ji(rng.choice([0, 1, -7, 42]))
    if c == "f":
        return vlib.jf(rng.choice([0.0, 1.5, -2.25]))
    if c == "B":
        return rng.choice([True, False])
    if c == "t":
        return vlib.jts(rng.choice([0, 1600000000 * 10**9]))
    if c == "r":
        return {"r": rng.choice(["a+", "."]).encode().hex()}
    if c == "n":
        return None
    raise ValueError(c)


def unknown_kind_of(u):
    """the kind `unknown_kind()` yields (python mirror used only for generating values)"""
    if "x" in u:
        return u["x"]
    f = u["inf"]
    p = "".join(c for c in f if c in PRIMS)
    return K(p, C([], u) if "a" in f else None, C([], u) if "o" in f else None)


def has_defined(k):
    return bool(k["p"].replace("u", "")) or k["a"] is not None or k["o"] is not None


def member_of(rng, k, depth=3):
    """a value that is a member of k by construction, or raises ValueError when k has no (small) member"""
    opts = [c for c in k["p"] if c != "u"]
    if k["a"] is not None:
        opts.append("A")
    if k["o"] is not None:
        opts.append("O")
    if not opts:
        raise ValueError("no defined state")
    rng.shuffle(opts)
    for c in opts:
        try:
            if c == "A":
                if depth <= 0:
                    raise ValueError("deep")
                col = k["a"]
                known = {int(i): kk for i, kk in col["k"]}
                uk = unknown_kind_of(col["u"])
                # the largest length reachable: stop at the first index that cannot be present
                maxlen = (max(known) + 1 if known else 0) + (2 if has_defined(uk) else 0)
                minlen = 0
                for i in sorted(known):
                    if "u" not in known[i]["p"]:
                        minlen = i + 1
                vals = []
                want = rng.randint(minlen, max(minlen, maxlen))
                for i in range(want):
                    kk = known.get(i, uk)
                    try:
                        vals.append(member_of(rng, kk, depth - 1))
                    except ValueError:
                        break
                if len(vals) < minlen:
                    raise ValueError("required index has no member")
                return vlib.ja(vals)
            if c == "O":
                if depth <= 0:
                    raise ValueError("deep")
                col = k["o"]
                uk = unknown_kind_of(col["u"])
                kvs = []
                for f, kk in col["k"]:
                    optional = "u" in kk["p"]
                    if optional and rng.random() < 0.4:
                        continue
                    try:
                        kvs.append((bytes.fromhex(f), member_of(rng, kk, depth - 1)))
                    except ValueError:
                        if not optional:
                            raise
                if has_defined(uk):
                    names = {bytes.fromhex(f) for f, _ in col["k"]}
                    for f in FIELDS + ["z"]:
                        if f.encode() not in names and rng.random() < 0.3:
                            try:
                                kvs.append((f.encode(), member_of(rng, uk, depth - 1)))
                            except ValueError:
                                pass
                return vlib.jo(kvs)
            return scalar_for(rng, c)
        except ValueError:
            continue
    raise ValueError("no member found")


def perturb(rng, v):
    """replace one node of v by a random small value (membership is then no longer guaranteed)"""
    if isinstance(v, dict) and "a" in v and v["a"] and rng.random() < 0.7:
        i = rng.randrange(len(v["a"]))
        a = list(v["a"])
        r = rng.random()
        if r < 0.6:
            a[i] = perturb(rng, a[i])
        elif r < 0.8:
            del a[i]
        else:
            a.append(gen.rand_value(rng, depth=1))
        return vlib.ja(a)
    if isinstance(v, dict) and "o" in v and v["o"] and rng.random() < 0.7:
        kvs = [(bytes.fromhex(k), x) for k, x in v["o"]]
        i = rng.randrange(len(kvs))
        r = rng.random()
        if r < 0.6:
            kvs[i] = (kvs[i][0], perturb(rng, kvs[i][1]))
        elif r < 0.8:
            del kvs[i]
        else:
            kvs.append((b"zz", gen.rand_value(rng, depth=1)))
        return vlib.jo(kvs)
    return small_value(rng, 1)


def small_value(rng, depth):
    r = rng.random()
    if depth <= 0 or r < 0.5:
        return scalar_for(rng, rng.choice("bifBtrn"))
    if r < 0.75:
        return vlib.jo([(f, small_value(rng, depth - 1)) for f in FIELDS if rng.random() < 0.4])
    return vlib.ja([small_value(rng, depth - 1) for _ in range(rng.randint(0, 3))])


def value_for(rng, k):
    """mostly a member of k; sometimes perturbed; falls back to a random value"""
    try:
        v = member_of(rng, k)
    except ValueError:
        return small_value(rng, 2)
    if rng.random() < 0.12:
        v = perturb(rng, v)
    return v


def kind_path(rng, k, v):
    """a path that mostly follows the kind's (or the value's) structure"""
    if rng.random() < 0.5:
        return gen.rand_path(rng, v, maxlen=3)
    n = rng.choice([1, 1, 2, 2, 3])
    p = []
    cur = k
    for _ in range(n):
        if cur is not None and rng.random() < 0.75:
            cands = []
            if cur["o"] is not None:
                cands += [("f", f, kk) for f, kk in cur["o"]["k"]] + [("f", hexs(rng.choice(FIELDS)), unknown_kind_of(cur["o"]["u"]))]
            if cur["a"] is not None:
                known = cur["a"]["k"]
                L = len(known)
                cands += [("i", int(i), kk) for i, kk in known]
                cands += [("i", rng.randint(-L - 2, -1), None), ("i", rng.randint(-4, 4), None)]
            if cands:
                t, key, nxt = rng.choice(cands)
                p.append({"f": key} if t == "f" else {"i": str(key)})
                cur = nxt
                continue
        p.append(gen.rand_seg(rng))
        cur = None
    return p


# ------------------------------------------------------------------------------------------------
# cases
# ------------------------------------------------------------------------------------------------

def closed_coll(rng, typ, depth=1):
    """a collection with one to three required (or, rarely, optional) known entries and a closed unknown"""
    known = []
    if typ == "a":
        for i in range(rng.choice([1, 1, 2, 3])):
            known.append([str(i), rand_kind(rng, depth - 1 if depth > 0 else 0, opt=0.1)])
    else:
        for f in sorted(rng.sample(FIELDS, rng.choice([1, 2, 2, 3])), key=lambda s: s.encode()):
            known.append([hexs(f), rand_kind(rng, depth - 1 if depth > 0 else 0, opt=0.1)])
    return C(known, U_NONE if rng.random() < 0.7 else rand_unknown(rng, 0))


def oa_kind(rng):
    """a kind whose only alternatives are an object and an array (is_collection, not is_exact), with known
    fields / indices; sometimes one level down inside an object field or an array element"""
    k = K("", closed_coll(rng, "a"), closed_coll(rng, "o"))
    r = rng.random()
    if r < 0.6:
        return k, []
    if r < 0.8:
        f = hexs(rng.choice(FIELDS))
        return K("", None, C([[f, k]], U_NONE)), [{"f": f}]
    return K("", C([["0", k]], U_NONE), None), [{"i": "0"}]


def oa_member(rng, k, prefix):
    """a member of an oa_kind, from the array or the object alternative with equal probability"""
    node = k
    for sg in prefix:
        node = dict(node["o"]["k"])[sg["f"]] if "f" in sg else dict(node["a"]["k"])[sg["i"]]
    alt = K("", node["a"], None) if rng.random() < 0.5 else K("", None, node["o"])
    v = member_of(rng, alt)
    for sg in reversed(prefix):
        v = vlib.jo([(sg["f"], v)]) if "f" in sg else vlib.ja([v])
    return v, node


def gen_targeted(rng):
    """shapes the random generator reaches too rarely: object-or-array kinds read / written / removed through
    field and index paths with members of both alternatives; subtype tests against a closed collection that
    lacks a required known entry"""
    r = rng.random()
    if r < 0.7:
        k, prefix = oa_kind(rng)
        try:
            v, node = oa_member(rng, k, prefix)
        except ValueError:
            return None
        segs = [{"f": f} for f, _ in node["o"]["k"]] + [{"i": i} for i, _ in node["a"]["k"]]
        segs += [{"f": hexs(rng.choice(FIELDS))}, {"i": str(rng.randint(-3, 4))}]
        p = prefix + [rng.choice(segs)]
        if rng.random() < 0.2:
            p.append(gen.rand_seg(rng))
        op = rng.choice(["get", "get", "insert", "remove"])
        if op == "get":
            return {"op": "get", "k": k, "v": v, "p": p}
        if op == "insert":
            kx = rand_kind(rng, 1)
            return {"op": "insert", "k": k, "v": v, "p": p, "kx": kx, "x": value_for(rng, kx)}
        return {"op": "remove", "k": k, "v": v, "p": p, "compact": rng.random() < 0.5}
    # superset: b is a closed collection, a requires an entry b does not mention (possibly one level down)
    typ = rng.choice(["a", "o"])
    big = closed_coll(rng, typ, 0)
    big["u"] = rng.choice([U_NONE, U_NONE, U_ANY])
    small = json.loads(json.dumps(big))
    small["u"] = U_NONE
    if typ == "a":
        del small["k"][-1:]
    else:
        del small["k"][rng.randrange(len(small["k"]))]
    a = K("", big, None) if typ == "a" else K("", None, big)
    b = K("", small, None) if typ == "a" else K("", None, small)
    if rng.random() < 0.4:
        f = hexs(rng.choice(FIELDS))
        a, b = K("", None, C([[f, a]], U_NONE)), K("", None, C([[f, b]], U_NONE))
    if rng.random() < 0.15:
        a, b = b, a
    try:
        v = member_of(rng, b)
    except ValueError:
        return None
    return {"op": "superset", "a": a, "b": b, "v": v}


def gen_cases(run, n):
    rng = run.rng
    cases = []
    for _ in range(n):
        r = rng.random()
        if r < 0.12:
            c = gen_targeted(rng)
            if c is not None:
                cases.append(c)
                continue
            r = rng.random()
        if r < 0.2:
            k = rand_top_kind(rng)
            v = value_for(rng, k)
            cases.append({"op": "get", "k": k, "v": v, "p": kind_path(rng, k, v)})
        elif r < 0.45:
            k = rand_top_kind(rng)
            v = value_for(rng, k)
            kx = rand_kind(rng, 1)
            x = value_for(rng, kx)
            cases.append({"op": "insert", "k": k, "v": v, "p": kind_path(rng, k, v), "kx": kx, "x": x})
        elif r < 0.65:
            k = rand_top_kind(rng)
            v = value_for(rng, k)
            cases.append({"op": "remove", "k": k, "v": v, "p": kind_path(rng, k, v), "compact": rng.random() < 0.5})
        elif r < 0.8:
            a, b = rand_top_kind(rng), rand_top_kind(rng)
            if rng.random() < 0.4:
                b = mutate_kind(rng, a)
            v = value_for(rng, rng.choice([a, b]))
            cases.append({"op": "union", "a": a, "b": b, "v": v})
        elif r < 0.88:
            a, b = rand_top_kind(rng), rand_top_kind(rng)
            if rng.random() < 0.6:
                a = K("", None, rand_coll(rng, 1, "o"))
                b = K("", None, rand_coll(rng, 1, "o"))
            cases.append({"op": "merge", "a": a, "b": b, "overwrite": rng.random() < 0.6,
                          "va": value_for(rng, a), "vb": value_for(rng, b)})
        else:
            b = rand_top_kind(rng)
            r2 = rng.random()
            if r2 < 0.5:
                a = widen_kind(rng, b)
            elif r2 < 0.8:
                a = mutate_kind(rng, b)
            else:
                a = rand_top_kind(rng)
            cases.append({"op": "superset", "a": a, "b": b, "v": value_for(rng, b)})
    return cases


def mutate_kind(rng, k):
    """a kind close to k: one node changed"""
    k = json.loads(json.dumps(k))
    r = rng.random()
    if r < 0.3:
        k["p"] = K(rand_prims(rng))["p"]
    elif r < 0.65 and k["a"] is not None:
        mutate_coll(rng, k["a"], "a")
    elif k["o"] is not None:
        mutate_coll(rng, k["o"], "o")
    elif r < 0.8:
        k["a"] = rand_coll(rng, 1, "a")
    else:
        k["o"] = rand_coll(rng, 1, "o")
    return k


def mutate_coll(rng, c, typ):
    r = rng.random()
    if r < 0.35 and c["k"]:
        i = rng.randrange(len(c["k"]))
        c["k"][i][1] = mutate_kind(rng, c["k"][i][1])
    elif r < 0.5 and c["k"]:
        del c["k"][rng.randrange(len(c["k"]))]
    elif r < 0.7:
        key = str(rng.randint(0, 4)) if typ == "a" else hexs(rng.choice(FIELDS))
        if key not in [x[0] for x in c["k"]]:
            c["k"].append([key, rand_kind(rng, 0, opt=0.3)])
            c["k"].sort(key=(lambda x: int(x[0])) if typ == "a" else (lambda x: bytes.fromhex(x[0])))
    else:
        c["u"] = rand_unknown(rng, 0)


def widen_kind(rng, k):
    """a kind meant to contain k: more prims, wider unknowns"""
    k = json.loads(json.dumps(k))
    k["p"] = K(k["p"] + rand_prims(rng))["p"]
    for t in ("a", "o"):
        c = k[t]
        if c is None:
            if rng.random() < 0.2:
                k[t] = rand_coll(rng, 0, t)
            continue
        r = rng.random()
        if r < 0.3:
            c["u"] = U_ANY
        elif r < 0.4:
            c["u"] = U_JSON
        elif r < 0.6 and "x" in c["u"]:
            c["u"] = {"x": widen_kind(rng, c["u"]["x"])}
        for kv in c["k"]:
            if rng.random() < 0.6:
                kv[1] = widen_kind(rng, kv[1])
        if rng.random() < 0.2 and c["k"]:
            del c["k"][rng.randrange(len(c["k"]))]
    return k


# ------------------------------------------------------------------------------------------------
# rendering as Gallina terms
# ------------------------------------------------------------------------------------------------

def coq_prims(p):
    return "(mkP %s)" % " ".join(coq_bool(c in p) for c in PRIMS)


def coq_inf(f):
    return "(mkI %s)" % " ".join(coq_bool(c in f) for c in INF_ANY)


def coq_unknown(u, inp):
    if "x" in u:
        return ("(unk_of_kind %s)" if inp else "(UExact %s)") % coq_kind(u["x"], inp)
    return "(UInf %s)" % coq_inf(u["inf"])


def coq_coll(c, typ, inp):
    if c is None:
        return "None"
    if typ == "a":
        known = "; ".join("(%d%%nat, %s)" % (int(i), coq_kind(kk, inp)) for i, kk in c["k"])
    else:
        known = "; ".join("(%s, %s)" % (coq_hex(f), coq_kind(kk, inp)) for f, kk in c["k"])
    return "(Some (mkC [%s] %s))" % (known, coq_unknown(c["u"], inp))


def coq_kind(k, inp=True):
    if "union" in k:
        return "(union %s %s)" % (coq_kind(k["union"][0], inp), coq_kind(k["union"][1], inp))
    return "(Kind %s %s %s)" % (coq_prims(k["p"]), coq_coll(k["a"], "a", inp), coq_coll(k["o"], "o", inp))


def to_coq(c, o):
    op = c["op"]
    if op == "get":
        return "CGet %s %s %s %s %s %s %s %s" % (
            coq_kind(c["k"]), coq_value(c["v"]), coq_path(c["p"]), coq_kind(o["at"], False), coq_kind(o["get"], False),
            coq_opt(o["val"]), coq_bool(o["m_in"]), coq_bool(o["m_out"]))
    if op == "insert":
        return "CInsert %s %s %s %s %s %s %s %s %s %s" % (
            coq_kind(c["k"]), coq_value(c["v"]), coq_path(c["p"]), coq_kind(c["kx"]), coq_value(c["x"]),
            coq_kind(o["kind"], False), coq_value(o["val"]), coq_bool(o["m_v"]), coq_bool(o["m_x"]), coq_bool(o["m_out"]))
    if op == "remove":
        return "CRemove %s %s %s %s %s %s %s %s %s %s" % (
            coq_kind(c["k"]), coq_value(c["v"]), coq_path(c["p"]), coq_bool(c["compact"]),
            coq_kind(o["kind"], False), coq_kind(o["removed_kind"], False), coq_value(o["val"]), coq_opt(o["removed"]),
            coq_bool(o["m_v"]), coq_bool(o["m_out"]))
    if op == "union":
        return "CUnion %s %s %s %s %s %s %s" % (
            coq_kind(c["a"]), coq_kind(c["b"]), coq_value(c["v"]), coq_kind(o["kind"], False),
            coq_bool(o["m_a"]), coq_bool(o["m_b"]), coq_bool(o["m_out"]))
    if op == "merge":
        return "CMerge %s %s %s %s %s %s %s %s %s %s %s" % (
            coq_kind(c["a"]), coq_kind(c["b"]), coq_bool(c["overwrite"]), coq_value(c["va"]), coq_value(c["vb"]),
            coq_kind(o["kind"], False), coq_bool(o["m_a"]), coq_bool(o["m_b"]), coq_bool(o["m_out_a"]),
            coq_bool(o["m_out_b"]), coq_opt(o["merged"]))
    if op == "superset":
        return "CSuperset %s %s %s %s %s %s" % (
            coq_kind(c["a"]), coq_kind(c["b"]), coq_value(c["v"]), coq_bool(o["res"]), coq_bool(o["m_a"]), coq_bool(o["m_b"]))
    raise ValueError(op)


def nontrivial(c):
    if c["op"] in ("get", "insert", "remove"):
        return len(c["p"]) >= 1
    return True


# ------------------------------------------------------------------------------------------------
# known findings: the class of a case is computed by Corr/C19.v `finding_class` (the first side
# condition of the proved domain that fails), never guessed here
# ------------------------------------------------------------------------------------------------

CLASS = {}      # json key of a case -> finding class number (0 = inside a proved domain)


def case_key(c):
    return json.dumps(c, sort_keys=True)


def coq_map_n(terms, fn, tag, shard=400):
    """Eval vm_compute (map fn terms) : list N, sharded over coqc processes."""
    import concurrent.futures as cf
    import os
    import re
    d = os.path.join(vlib.CACHE, "cases", ID)
    os.makedirs(d, exist_ok=True)
    files = []
    for si, start in enumerate(range(0, len(terms), shard)):
        path = os.path.join(d, "%s_%04d.v" % (tag, si))
        with open(path, "w") as f:
            f.write(IMPORTS + "\nImport ListNotations.\nLocal Open Scope Z_scope.\n")
            f.write("Definition the_cases := [\n  %s\n].\n" % ";\n  ".join(terms[start:start + shard]))
            f.write("Eval vm_compute in (map %s the_cases).\n" % fn)
        files.append(path)
    res = []
    with cf.ThreadPoolExecutor(max_workers=vlib.NPROC) as ex:
        for path, (rc, out) in zip(files, ex.map(lambda p: vlib._coqc(p, 900), files)):
            m = re.search(r"=\s*\[(.*?)\]\s*:\s*list N", out, re.S)
            if rc != 0 or not m:
                raise RuntimeError("finding_class evaluation failed on %s: %s" % (path, out[-800:]))
            res += [int(x) for x in re.findall(r"\d+", m.group(1))]
    return res


def classify(cases):
    """fills CLASS for the given cases (one harness run + one Coq pass)"""
    todo = [c for c in cases if case_key(c) not in CLASS]
    if not todo:
        return
    outs = vlib.run_harness("kind", todo)
    import checklib
    idx = [i for i, o in enumerate(outs) if not checklib.impl_failed(o)]
    terms = [to_coq(todo[i], outs[i]) for i in idx]
    cls = coq_map_n(terms, "finding_class", "classes")
    assert len(cls) == len(idx), (len(cls), len(idx))
    for i, k in zip(idx, cls):
        CLASS[case_key(todo[i])] = k


def has_negative_index(p):
    return any("i" in s and int(s["i"]) < 0 for s in p)


def known_matcher(entry, case, out):
    m = entry["match"]
    if isinstance(out, dict) and "panic" in out:
        # debug-build usize underflow in remove_inner's negative-index branch
        return (m.get("panic") is not None and m["panic"] in out["panic"] and case["op"] == m.get("op")
                and has_negative_index(case["p"]))
    if m.get("panic") is not None:
        return False
    k = case_key(case)
    if k not in CLASS:
        classify([case])
    return CLASS.get(k, 99) == m["class"] and case["op"] in m["ops"]


def main(run, args):
    import checklib
    n = args.cases or (2500 if run.tier == "quick" else 40000)
    # checklib builds Properties/C19.vo only; the case files also need Corr/C19.vo up to date
    ok, out = vlib.build_coq(["Corr/C19.vo"])
    if not ok:
        vlib.log(out[-3000:])
    if not args.replay:
        vlib.build_harness("kind")
        st = run.rng.getstate()
        cases = checklib.load_corpus(ID) + gen_cases(run, n)
        run.rng.setstate(st)
        classify(cases)
    cov = lambda cases, outs: {"cases_inside_proved_domains": sum(1 for c in cases if CLASS.get(case_key(c)) == 0),
                               "finding_class_histogram": {str(k): sum(1 for c in cases if CLASS.get(case_key(c)) == k)
                                                           for k in sorted(set(CLASS.values()))}}
    return checklib.standard(run, ID, THEOREMS, IMPORTS, "kind", gen_cases, to_coq, n, nontrivial=nontrivial,
                             replay=args.replay, known_matcher=known_matcher, extra_cov=cov)
