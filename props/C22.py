"""C22 — Binary codecs round-trip (base16, base64, percent, punycode, gzip, zlib, zstd, snappy, lz4, charset)."""
import re

import vlib
from vlib import coq_hex, coq_bool, coq_z

ID = "C22"
THEOREMS = [
    "C22_base16", "C22_base64", "C22_base64_unknown_charset", "C22_percent", "C22_percent_sets_with_percent",
    "C22_percent_unescaped_refuted", "C22_utf8_lossy_valid",
    "C22_punycode_partial", "C22_punycode_ascii_passthrough", "C22_punycode_vli", "C22_punycode_alabel_refuted",
    "C22_codec_glue_flate", "C22_flate_level10_refuted", "C22_codec_glue_zstd", "C22_codec_glue_snappy",
    "C22_codec_glue_lz4", "C22_lz4_size_prefix", "C22_lz4_default_options_refuted", "C22_lz4_bufsize_rejected",
    "C22_codec_glue_charset", "C22_charset_invalid_utf8_lossy", "C22_codec_glue_punycode_validate", "C22_nonvacuous",
]
IMPORTS = ("From Coq Require Import List NArith ZArith String.\n"
           "From VRL Require Import Base.Bytes Base.Lit Model.Base16 Model.Base64 Model.CodecUtf8 Model.Percent "
           "Model.Punycode Model.CodecGlue Corr.C22.\nLocal Open Scope string_scope.")
MANIFEST = {
    "level": "proof",
    "technique": "Coq proofs (induction over byte lists, finite sweeps lifted by forallb) on hand models of the "
                 "stdlib codec functions + differential correspondence vs the functions run through compiled VRL programs",
    "text": "Closed Coq theorems: decode(encode b) = b for base16 (all byte strings), base64 (both alphabets x both padding "
            "modes, all lengths, decoder as decode_base64.rs implements it: strip every trailing '=', NO_PAD engine), "
            "percent-encoding (all nine AsciiSets, UTF-8 input, under the exact side condition: '%' in the set or no %XX in "
            "the input; refuted otherwise with \"%41\"); from_utf8_lossy is the identity on valid UTF-8; punycode glue "
            "(validate: false) and the variable-length-integer lemma of RFC 3492; for gzip/zlib/zstd/snappy/lz4/charset and "
            "punycode validate: true the VRL glue (option conversion and ranges, defaults, lz4 frame dispatch and size "
            "prefix, error/panic mapping) is modelled and the round trip is derived for every option combination from the "
            "library's inverse law. Encoders/decoders are compared byte for byte with the implementation, decoders also on "
            "malformed text; decode(encode x) = x is searched directly on the implementation for every codec and option.",
    "note": "Partial where a library is involved: flate2, zstd, snap, lz4_flex, encoding_rs and idna (UTS46) are Section "
            "variables with the inverse law as hypothesis (trusted base, exercised by the search leg). The bootstring "
            "(RFC 3492) inverse is a hypothesis of C22_punycode_partial; its integer coding lemma is proved. "
            "str::to_lowercase is modelled for ASCII/Latin-1/Greek/Cyrillic only. Known findings: percent sets without '%', "
            "gzip/zlib level 10 panics, lz4 default options do not match, charset UTF-16 labels and BOM sniffing "
            "(repaired: lz4 buf_size out of range, encode_charset on non-UTF-8 input). No axioms (Print Assumptions: closed).",
    "design_ref": "DESIGN.md section 5 C22",
}

# ------------------------------------------------------------------------------------------------
# VRL sources
# ------------------------------------------------------------------------------------------------
PCT_SETS = ["NON_ALPHANUMERIC", "CONTROLS", "FRAGMENT", "QUERY", "SPECIAL", "PATH", "USERINFO", "COMPONENT",
            "WWW_FORM_URLENCODED"]
PCT_WITH_PERCENT = {"NON_ALPHANUMERIC", "COMPONENT", "WWW_FORM_URLENCODED"}
LIB_DECODERS = ["decode_gzip!(.y)", "decode_zlib!(.y)", "decode_zstd!(.y)", "decode_snappy!(.y)",
                "decode_lz4!(.y)", "decode_lz4!(.y, prepended_size: true)", "decode_lz4!(.y, buf_size: 64)"]


def step(src, out=None):
    return {"src": src, "out": out} if out else {"src": src}


def jbytes(b):
    return list(b)


def jstr(s):
    return {"b": s.encode().hex()}


def jint(i):
    return {"i": str(i)}


def mk(kind, ev, steps, **opts):
    c = {"kind": kind, "ev": ev, "steps": steps}
    c.update(opts)
    return c


def case_b16(x, y):
    return mk("base16", {"x": jbytes(x), "y": jbytes(y)},
              [step("encode_base16!(.x)", "e"), step("decode_base16!(.e)", "d"), step("decode_base16!(.y)")])


def case_b64(x, y, pad, cs, defaults=0):
    ev = {"x": jbytes(x), "y": jbytes(y), "p": pad, "c": jstr(cs)}
    if defaults == 2:      # both options left to their defaults (padding: true, charset: "standard")
        steps = [step("encode_base64!(.x)", "e"), step("decode_base64!(.e)", "d"), step("decode_base64!(.y)")]
        ev["p"], ev["c"] = True, jstr("standard")
    elif defaults == 1:    # charset left to its default
        steps = [step("encode_base64!(.x, padding: .p)", "e"), step("decode_base64!(.e)", "d"),
                 step("decode_base64!(.y)")]
        ev["c"] = jstr("standard")
    else:
        steps = [step("encode_base64!(.x, padding: .p, charset: .c)", "e"),
                 step("decode_base64!(.e, charset: .c)", "d"), step("decode_base64!(.y, charset: .c)")]
    return mk("base64", ev, steps)


def case_pct(x, y, aset, default=False):
    enc = "encode_percent!(.x)" if default else 'encode_percent!(.x, ascii_set: "%s")' % aset
    return mk("percent", {"x": jbytes(x), "y": jbytes(y)},
              [step(enc, "e"), step("decode_percent!(.e)", "d"), step("decode_percent!(.y)")],
              set="NON_ALPHANUMERIC" if default else aset)


def case_puny(x, y):
    return mk("punycode", {"x": jbytes(x), "y": jbytes(y)},
              [step("encode_punycode!(.x, validate: false)", "e"), step("decode_punycode!(.e, validate: false)", "d"),
               step("decode_punycode!(.y, validate: false)")])


def case_punyv(x, valid, default=False):
    if default:
        steps = [step("encode_punycode!(.x)", "e"), step("decode_punycode!(.e)", "d")]
    else:
        steps = [step("encode_punycode!(.x, validate: true)", "e"), step("decode_punycode!(.e, validate: true)", "d")]
    return mk("punycode_validate", {"x": jbytes(x)}, steps, valid=valid)


def case_flate(fn, x, lvl):
    if lvl is None:
        return mk(fn, {"x": jbytes(x)}, [step("encode_%s!(.x)" % fn, "e"), step("decode_%s!(.e)" % fn, "d")], level=6)
    return mk(fn, {"x": jbytes(x), "l": jint(lvl)},
              [step("encode_%s!(.x, compression_level: .l)" % fn, "e"), step("decode_%s!(.e)" % fn, "d")], level=lvl)


def case_zstd(x, lvl):
    if lvl is None:
        return mk("zstd", {"x": jbytes(x)}, [step("encode_zstd!(.x)", "e"), step("decode_zstd!(.e)", "d")], level=3)
    return mk("zstd", {"x": jbytes(x), "l": jint(lvl)},
              [step("encode_zstd!(.x, compression_level: .l)", "e"), step("decode_zstd!(.e)", "d")], level=lvl)


def case_snappy(x):
    return mk("snappy", {"x": jbytes(x)}, [step("encode_snappy!(.x)", "e"), step("decode_snappy!(.e)", "d")])


def case_lz4(x, prepend, prepended, buf, defaults=False):
    if defaults:
        return mk("lz4", {"x": jbytes(x)},
                  [step("encode_lz4!(.x)", "e"), step("encode_lz4!(.x, prepend_size: false)", "o"),
                   step("decode_lz4!(.e)", "d")], defaults=True, prepend=True, prepended=False, buf=1000000)
    return mk("lz4", {"x": jbytes(x), "p": prepend, "q": not prepend, "pp": prepended, "l": jint(buf)},
              [step("encode_lz4!(.x, prepend_size: .p)", "e"), step("encode_lz4!(.x, prepend_size: .q)", "o"),
               step("decode_lz4!(.e, buf_size: .l, prepended_size: .pp)", "d")],
              defaults=False, prepend=prepend, prepended=prepended, buf=buf)


def case_lz4frame(x, frame, buf):
    return mk("lz4frame", {"x": jbytes(x), "f": jbytes(frame), "l": jint(buf)},
              [step("decode_lz4!(.f, buf_size: .l)", "d")], buf=buf)


def case_charset(x, label, repr_):
    return mk("charset", {"x": jbytes(x), "c": jstr(label)},
              [step("encode_charset!(.x, .c)", "e"), step("decode_charset!(.e, .c)", "d")], label=label, repr=repr_)


def case_libdec(y, src):
    return mk("libdec", {"y": jbytes(y)}, [step(src)])


# ------------------------------------------------------------------------------------------------
# lz4 frames built by hand (the VRL encoder only produces blocks; the decoder also accepts frames)
# ------------------------------------------------------------------------------------------------
def _rotl(x, r):
    return ((x << r) | (x >> (32 - r))) & 0xffffffff


def xxh32(data, seed=0):
    P1, P2, P3, P4, P5 = 2654435761, 2246822519, 3266489917, 668265263, 374761393
    n = len(data)
    i = 0
    if n >= 16:
        v = [(seed + P1 + P2) & 0xffffffff, (seed + P2) & 0xffffffff, seed, (seed - P1) & 0xffffffff]
        while i + 16 <= n:
            for k in range(4):
                w = int.from_bytes(data[i + 4 * k:i + 4 * k + 4], "little")
                v[k] = (_rotl((v[k] + w * P2) & 0xffffffff, 13) * P1) & 0xffffffff
            i += 16
        h = (_rotl(v[0], 1) + _rotl(v[1], 7) + _rotl(v[2], 12) + _rotl(v[3], 18)) & 0xffffffff
    else:
        h = (seed + P5) & 0xffffffff
    h = (h + n) & 0xffffffff
    while i + 4 <= n:
        w = int.from_bytes(data[i:i + 4], "little")
        h = (_rotl((h + w * P3) & 0xffffffff, 17) * P4) & 0xffffffff
        i += 4
    while i < n:
        h = (_rotl((h + data[i] * P5) & 0xffffffff, 11) * P1) & 0xffffffff
        i += 1
    h ^= h >> 15
    h = (h * P2) & 0xffffffff
    h ^= h >> 13
    h = (h * P3) & 0xffffffff
    h ^= h >> 16
    return h


def lz4_literal_block(chunk):
    """A valid compressed lz4 block consisting of one literal-only sequence."""
    n = len(chunk)
    out = bytearray()
    if n < 15:
        out.append(n << 4)
    else:
        out.append(0xf0)
        r = n - 15
        while r >= 255:
            out.append(255)
            r -= 255
        out.append(r)
    return bytes(out) + bytes(chunk)


def lz4_frame(rng, x):
    content_checksum = rng.random() < 0.4
    content_size = rng.random() < 0.3
    block_checksum = rng.random() < 0.3
    flg = 0x40 | 0x20 | (0x10 if block_checksum else 0) | (0x08 if content_size else 0) | (0x04 if content_checksum else 0)
    bd = rng.choice([4, 5, 6, 7]) << 4
    desc = bytes([flg, bd]) + (len(x).to_bytes(8, "little") if content_size else b"")
    out = bytearray(b"\x04\x22\x4d\x18") + desc + bytes([(xxh32(desc) >> 8) & 0xff])
    i = 0
    while i < len(x):
        k = rng.randint(1, max(1, min(len(x) - i, rng.choice([3, 64, 5000]))))
        chunk = bytes(x[i:i + k])
        i += k
        if rng.random() < 0.5:
            data = chunk
            out += (len(data) | 0x80000000).to_bytes(4, "little") + data       # stored block
        else:
            data = lz4_literal_block(chunk)
            out += len(data).to_bytes(4, "little") + data
        if block_checksum:
            out += xxh32(data).to_bytes(4, "little")
    out += b"\x00\x00\x00\x00"
    if content_checksum:
        out += xxh32(bytes(x)).to_bytes(4, "little")
    return bytes(out)


# ------------------------------------------------------------------------------------------------
# input generators
# ------------------------------------------------------------------------------------------------
def edge_contents(n):
    return [bytes(n), bytes([255]) * n, bytes(i % 256 for i in range(n))]


def rand_len(rng, long_ok=True):
    r = rng.random()
    if r < 0.4:
        return rng.randint(0, 8)
    if r < 0.8:
        return rng.randint(9, 64)
    if r < 0.95 or not long_ok:
        return rng.randint(65, 200)
    return rng.randint(201, 4096)


def rand_bytes(rng, n=None, long_ok=True):
    if n is None:
        n = rand_len(rng, long_ok)
    r = rng.random()
    if r < 0.5:
        return bytes(rng.randrange(256) for _ in range(n))
    if r < 0.7:     # compressible: a short pattern repeated
        pat = bytes(rng.randrange(256) for _ in range(rng.randint(1, 7)))
        return (pat * (n // len(pat) + 1))[:n]
    if r < 0.85:    # few distinct symbols
        alpha = bytes(rng.randrange(256) for _ in range(rng.randint(1, 4)))
        return bytes(rng.choice(alpha) for _ in range(n))
    return bytes(rng.choice(b"abcdefghij \n0123456789%=-_+/.") for _ in range(n))


UNI_POOL = ("a", "b", "z", "A", "Z", "0", "9", "-", ".", "%", " ", "é", "ü", "ß", "ñ", "ÿ", "à", "É", "Ü", "Ñ", "α", "ω",
            "ς", "Α", "Ω", "я", "а", "Я", "Ж", "Ё", "日", "本", "語", "中", "文", "あ", "ん", "カ", "한", "글", "😀", "𝒳",
            " ", "߿", "ࠀ", "￿", "\U00010000", "\U0010ffff", "Ā", "×", "÷")


def rand_text(rng, n=None, pool=UNI_POOL):
    if n is None:
        n = rng.choice([0, 1, 2, 3, 5, 8, 13, 21, 40])
    return "".join(rng.choice(pool) for _ in range(n))


def corrupt(rng, b):
    b = bytearray(b)
    for _ in range(rng.randint(1, 3)):
        r = rng.random()
        if r < 0.35 and b:
            b[rng.randrange(len(b))] = rng.randrange(256)
        elif r < 0.6 and b:
            del b[rng.randrange(len(b))]
        elif r < 0.85:
            b.insert(rng.randint(0, len(b)), rng.choice(b"=%-.xX \n\xff\x80\xc3AZaz09+/_g"))
        else:
            b += bytes(rng.choice(b"=%-.") for _ in range(rng.randint(1, 3)))
    return bytes(b)


def b16_text(rng):
    n = rng.randint(0, 24)
    s = bytes(rng.choice(b"0123456789abcdefABCDEF") for _ in range(n))
    return s if rng.random() < 0.4 else corrupt(rng, s)


B64_STD = b"ABCDEFGHIJKLMNOPQRSTUVWXYZabcdefghijklmnopqrstuvwxyz0123456789+/"
B64_URL = b"ABCDEFGHIJKLMNOPQRSTUVWXYZabcdefghijklmnopqrstuvwxyz0123456789-_"


B64_EDGE_BYTES = bytes([0xfb, 0xff, 0xfe, 0xfa, 0xef, 0xbf, 0xbe, 0x3e, 0x3f, 0xf8, 0xfc, 0x00, 0x7f])


def b64_rich(rng, n=None):
    """bytes whose encoding is full of the 62nd/63rd alphabet characters ('+' '/' resp. '-' '_')"""
    if n is None:
        n = rng.choice([1, 2, 3, 4, 5, 7, 8, 10, 11, 16, 17])
    return bytes(rng.choice(B64_EDGE_BYTES) for _ in range(n))


def b64_wellformed(rng):
    """a correct encoding made outside the implementation, in any (alphabet, padding) style: the decoder is run on
    it under the case's charset, so every (encode style, decode charset) pair is compared with the model"""
    import base64
    raw = b64_rich(rng) if rng.random() < 0.7 else bytes(rng.randrange(256) for _ in range(rng.randint(0, 12)))
    t = base64.urlsafe_b64encode(raw) if rng.random() < 0.5 else base64.b64encode(raw)
    r = rng.random()
    if r < 0.35:
        t = t.rstrip(b"=")
    elif r < 0.45:
        t = t + b"=" * rng.randint(1, 3)
    return t


def b64_text(rng, cs):
    if rng.random() < 0.3:
        return b64_wellformed(rng)
    n = rng.randint(0, 24)
    alpha = B64_URL if cs == "url_safe" else B64_STD
    if rng.random() < 0.2:
        alpha = B64_STD + b"-_"
    s = bytes(rng.choice(alpha) for _ in range(n))
    r = rng.random()
    if r < 0.5:
        s += b"=" * rng.randint(0, 4)
    elif r < 0.7:
        s = corrupt(rng, s)
    elif r < 0.8 and s:
        k = rng.randrange(len(s))
        s = s[:k] + b"=" + s[k:]
    return s


def pct_text(rng):
    n = rng.randint(0, 20)
    out = bytearray()
    for _ in range(n):
        r = rng.random()
        if r < 0.35:
            out += b"%" + bytes(rng.choice(b"0123456789abcdefABCDEF") for _ in range(2))
        elif r < 0.45:
            out += b"%" + bytes([rng.choice(b"0123456789abcdefgGxX% ")])
        elif r < 0.5:
            out += b"%"
        elif r < 0.6:
            out += rng.choice(UNI_POOL).encode()
        elif r < 0.65:
            out.append(rng.randrange(128, 256))
        else:
            out.append(rng.choice(b"abcXYZ019 +&=/?#:@!~'()*,;$-_."))
    return bytes(out)


def pct_input(rng):
    r = rng.random()
    if r < 0.35:
        return rand_text(rng).encode()
    if r < 0.6:
        return bytes(rng.randrange(128) for _ in range(rng.randint(0, 30)))
    if r < 0.85:
        return pct_text(rng)
    return rand_bytes(rng, rng.randint(0, 40))


PUNY_LOWER = ("a", "b", "c", "x", "n", "z", "0", "1", "9", "-", "é", "ü", "ß", "ñ", "ÿ", "à", "ö", "α", "β", "ω", "ς", "я", "а",
              "ж", "ё", "日", "本", "語", "中", "文", "あ", "ん", "カ", "한", "글", "😀", "\U0010ffff", "\u0080", "߿", "ࠀ")
PUNY_UPPER = ("A", "Z", "X", "N", "É", "Ü", "Ñ", "À", "Þ", "Α", "Ω", "Я", "Ж", "Ё", "А")


def puny_part(rng):
    r = rng.random()
    n = rng.choice([0, 1, 1, 2, 3, 4, 6, 9, 14])
    if r < 0.25:
        return "".join(rng.choice("abcdefxnz0189-") for _ in range(n))
    if r < 0.75:
        return "".join(rng.choice(PUNY_LOWER) for _ in range(n))
    if r < 0.85:
        return "".join(rng.choice(PUNY_LOWER + PUNY_UPPER) for _ in range(n))
    if r < 0.93:
        return rng.choice(["xn--", "xn--maana-pta", "xn--bcher-kva", "XN--maana-pta", "xn---", "xn--a", "xn--99999999",
                           "xn--zzzzzzzzzzz", "xn--a-é", "xn--é", "xn--ab-", "xn---a", "xn--80ak6aa92e", "xn--0",
                           "xn--a-0", "xn--A-0", "xn--b1abfaaepdrnnbgefbaDotcwatmq2g4l"])
    return "xn--" + "".join(rng.choice("abz019-AZ") for _ in range(n))


def puny_input(rng):
    k = rng.choice([1, 1, 1, 2, 2, 3, 4])
    s = ".".join(puny_part(rng) for _ in range(k)).encode()
    if rng.random() < 0.05:
        s = corrupt(rng, s)
    return s


VALID_NONASCII = ("é", "ü", "ß", "ñ", "ÿ", "à", "ö", "ø", "α", "β", "ω", "ς", "я", "а", "ж", "ё", "日", "本", "語", "中", "文", "あ",
                  "ん", "カ", "ナ", "한", "글")


def valid_label(rng):
    n = rng.randint(1, 10)
    chars = []
    for i in range(n):
        r = rng.random()
        if r < 0.5:
            chars.append(rng.choice("abcdefghijklmnopqrstuvwxyz0123456789"))
        elif r < 0.9:
            chars.append(rng.choice(VALID_NONASCII))
        elif 0 < i < n - 1 and i not in (2, 3) and chars[-1] != "-":
            chars.append("-")
        else:
            chars.append("q")
    return "".join(chars)


def valid_domain(rng):
    return ".".join(valid_label(rng) for _ in range(rng.choice([1, 1, 2, 3])))


SB = {"windows-1252": "cp1252", "iso-8859-1": "cp1252", "latin1": "cp1252", "iso-8859-2": "iso8859_2",
      "iso-8859-5": "iso8859_5", "iso-8859-7": "iso8859_7", "iso-8859-15": "iso8859_15", "windows-1250": "cp1250",
      "windows-1251": "cp1251", "windows-1253": "cp1253", "koi8-r": "koi8_r", "koi8-u": "koi8_u", "ibm866": "cp866",
      "macintosh": "mac_roman"}
MB = {"shift_jis": "shift_jis", " SJIS ": "shift_jis", "euc-jp": "euc_jp", "iso-2022-jp": "iso2022_jp", "euc-kr": "euc_kr",
      "gbk": "gbk", "gb18030": "gb18030", "big5": "big5"}
_CJK = ("日本語漢字中文國国学學校東京北海道山川田人大小上下左右一二三四五六七八九十百千万年月火水木金土時間今何私愛心手足目口耳花鳥風雨雪空海天地春夏秋冬"
        "男女子父母兄弟姉妹友先生車電話書読見聞行来食飲買売高安新古長短白黒赤青")
_KANA = "".join(chr(c) for c in range(0x3041, 0x3094)) + "".join(chr(c) for c in range(0x30a1, 0x30f7)) + "、。「」"
_HANGUL = "가나다라마바사아자차카타파하한국어서울김이박최정강조윤장임"
_MB_POOL = sorted(set(_CJK + _KANA + _HANGUL + "".join(chr(c) for c in range(0x20, 0x7f)) + "\t\n\r"
                      + "αβγδεζηθικλμνξοπρστυφχψωΑΒΓΔабвгдежзийклмнопрстуфхцчшщъыьэюяАБВГ"))
# code points the WHATWG encoder of the label cannot produce although Python's codec of the same name can
_EXCLUDE = {"koi8-u": "╝╬"}
UTF16_LABELS = ["utf-16le", "utf-16be", "utf-16", "UTF-16LE"]


def _alphabet(label):
    if label in SB:
        py = SB[label]
        s = set()
        for b in range(256):
            try:
                s.add(bytes([b]).decode(py))
            except UnicodeDecodeError:
                pass
        return sorted(s - set(_EXCLUDE.get(label, "")))
    py = MB[label]
    out = []
    for ch in _MB_POOL:
        try:
            ch.encode(py)
            out.append(ch)
        except UnicodeEncodeError:
            pass
    return out


ALPHABETS = {lab: _alphabet(lab) for lab in list(SB) + list(MB)}


def charset_case(rng):
    r = rng.random()
    if r < 0.08:
        return case_charset(rand_text(rng).encode(), rng.choice(["nope", "", "utf-99", "ebcdic"]), False)
    if r < 0.13:
        return case_charset(rand_text(rng).encode(), rng.choice(UTF16_LABELS), True)
    if r < 0.3:
        return case_charset(rand_text(rng).encode(), rng.choice(["utf-8", "UTF8", " utf-8\n", "gb18030", "utf-8"]), True)
    if r < 0.34:
        n = rng.randint(0, 20)
        t = "".join(chr(rng.randrange(0xf780, 0xf800)) if rng.random() < 0.5 else chr(rng.randrange(128)) for _ in range(n))
        return case_charset(t.encode(), "x-user-defined", True)
    if r < 0.38:   # text the charset cannot represent: only "no panic" is asked
        return case_charset(rand_text(rng).encode(), rng.choice(list(SB) + list(MB)), False)
    if r < 0.41:   # not text at all
        return case_charset(rand_bytes(rng, rng.randint(1, 12)), rng.choice(["utf-8", "windows-1252", "nope"]), False)
    label = rng.choice(list(ALPHABETS))
    al = ALPHABETS[label]
    n = rng.choice([0, 1, 2, 3, 5, 8, 13, 30])
    if rng.random() < 0.5:   # mostly printable
        al2 = [c for c in al if ord(c) >= 0x20] or al
        t = "".join(rng.choice(al2) for _ in range(n))
    else:
        t = "".join(rng.choice(al) for _ in range(n))
    return case_charset(t.encode(), label, True)


FLATE_LEVELS = [0, 1, 5, 6, 9, 10, 11, 12, -1, 255, 2 ** 32, 2 ** 32 + 5, 2 ** 32 + 10, 2 ** 32 + 11, -(2 ** 32) + 3,
                2 ** 63 - 1, -(2 ** 63), 2 ** 31, None]
ZSTD_LEVELS = [0, 1, 3, 5, 9, -1, -5, -131072, -131073, -(2 ** 31), 2 ** 31, 2 ** 32 + 3, 2 ** 63 - 1, -(2 ** 63), None]
# levels >= 16 or so make libzstd allocate its large-window contexts (0.5 s and more per call): sampled rarely
ZSTD_HEAVY_LEVELS = [19, 22, 23, 100, 2 ** 31 - 1, 2 ** 32 + 22]


def lz4_buf(rng, n):
    return rng.choice([n, n, n + 1, 1000000, 65536, max(0, n - 1), 0, -1, 2 ** 32, 2 ** 63 - 1, -(2 ** 63), 2 * n + 7])


def gen_cases(run, n):
    rng = run.rng
    cases = []
    # --- fixed sweeps: every option combination x lengths 0..64 x {all-00, all-ff, ramp}
    for ln in range(65):
        for x in edge_contents(ln):
            cases.append(case_b16(x, b16_text(rng)))
            for pad in (True, False):
                for cs in ("standard", "url_safe"):
                    cases.append(case_b64(x, b64_text(rng, cs), pad, cs))
            if ln % 4 == 0:
                for fn in ("gzip", "zlib"):
                    cases.append(case_flate(fn, x, rng.choice([0, 1, 6, 9])))
                cases.append(case_zstd(x, rng.choice([1, 3, 9, -5])))
                cases.append(case_snappy(x))
                for p in (True, False):
                    cases.append(case_lz4(x, p, p, rng.choice([ln, 1000000])))
                cases.append(case_lz4frame(x, lz4_frame(rng, x), rng.choice([ln, 1000000, 0])))
    # base64: bytes that produce the alphabet's last two characters, lengths 1..6 (1 and 2 mod 3 carry padding),
    # for every (padding, charset) pair and with the options left to their defaults
    for ln in range(1, 7):
        for b in B64_EDGE_BYTES:
            x = bytes([b]) * ln
            for pad in (True, False):
                for cs in ("standard", "url_safe"):
                    cases.append(case_b64(x, b64_wellformed(rng), pad, cs))
        for _ in range(6):
            x = b64_rich(rng, ln)
            for pad in (True, False):
                for cs in ("standard", "url_safe"):
                    cases.append(case_b64(x, b64_wellformed(rng), pad, cs))
            cases.append(case_b64(x, b64_wellformed(rng), True, "standard", 2))
            cases.append(case_b64(x, b64_wellformed(rng), False, "standard", 1))
    # every ASCII byte under every set (table sync), and every byte value
    for s in PCT_SETS:
        cases.append(case_pct(bytes(range(128)), b"", s))
        cases.append(case_pct(bytes(range(128, 256)), bytes(range(256)), s))
    cases.append(case_b16(bytes(range(256)), bytes(range(256))))
    # --- random
    for _ in range(n):
        r = rng.random()
        if r < 0.08:
            cases.append(case_b16(rand_bytes(rng), b16_text(rng)))
        elif r < 0.26:
            cs = rng.choice(["standard", "url_safe", "standard", "url_safe", "bogus", "URL_SAFE", ""])
            d = rng.choice([0, 0, 0, 1, 2])
            x = b64_rich(rng) if rng.random() < 0.3 else rand_bytes(rng)
            cases.append(case_b64(x, b64_text(rng, cs), rng.random() < 0.5, cs, d))
        elif r < 0.46:
            s = rng.choice(PCT_SETS + ["BOGUS"] if rng.random() < 0.03 else PCT_SETS)
            cases.append(case_pct(pct_input(rng), pct_text(rng), s, default=rng.random() < 0.05))
        elif r < 0.60:
            y = puny_input(rng)
            cases.append(case_puny(puny_input(rng), y))
        elif r < 0.66:
            if rng.random() < 0.7:
                cases.append(case_punyv(valid_domain(rng).encode(), True, default=rng.random() < 0.3))
            else:
                cases.append(case_punyv(puny_input(rng), False, default=rng.random() < 0.3))
        elif r < 0.72:
            cases.append(case_flate(rng.choice(["gzip", "zlib"]), rand_bytes(rng), rng.choice(FLATE_LEVELS)))
        elif r < 0.75:
            heavy = rng.random() < 0.04
            cases.append(case_zstd(rand_bytes(rng), rng.choice(ZSTD_HEAVY_LEVELS if heavy else ZSTD_LEVELS)))
        elif r < 0.78:
            cases.append(case_snappy(rand_bytes(rng)))
        elif r < 0.86:
            x = rand_bytes(rng)
            q = rng.random()
            if q < 0.1:
                cases.append(case_lz4(x, True, False, 1000000, defaults=True))
            elif q < 0.8:
                p = rng.random() < 0.5
                cases.append(case_lz4(x, p, p, lz4_buf(rng, len(x))))
            else:
                cases.append(case_lz4(x, rng.random() < 0.5, rng.random() < 0.5, lz4_buf(rng, len(x))))
        elif r < 0.89:
            x = rand_bytes(rng)
            cases.append(case_lz4frame(x, lz4_frame(rng, x), lz4_buf(rng, len(x))))
        elif r < 0.97:
            cases.append(charset_case(rng))
        else:
            y = rand_bytes(rng, rng.randint(0, 40))
            if rng.random() < 0.5:
                y = rng.choice([b"\x1f\x8b\x08\x00", b"\x78\x9c", b"\x28\xb5\x2f\xfd", b"\x04\x22\x4d\x18", b"\x05\x00\x00\x00",
                                b"\xff\x06\x00\x00sNaPpY"]) + y
            cases.append(case_libdec(y, rng.choice(LIB_DECODERS)))
    return cases


# ------------------------------------------------------------------------------------------------
# rendering for Coq
# ------------------------------------------------------------------------------------------------
LONG = 600     # inputs longer than this are judged by the direct oracle only (CDirect)


def ires(o):
    if "ok" in o:
        v = o["ok"]
        if isinstance(v, dict) and "b" in v:
            return "(IOk %s)" % coq_hex(v["b"])
        return "IOther"
    if "panic" in o:
        return "IPanic"
    if o.get("err") == "compile":
        return "ICompile"
    return "IErr"


def hexs(b):
    return coq_hex(bytes(b).hex())


def ok_bytes(o):
    if "ok" in o and isinstance(o["ok"], dict) and "b" in o["ok"]:
        return bytes.fromhex(o["ok"]["b"])
    return None


def to_coq(c, o):
    k = c["kind"]
    st = o["steps"]
    ev = c["ev"]
    if any(v is None for v in ev.values()):
        raise ValueError("an option value was shrunk away")     # keeps the shrinker from degenerating the case
    x = bytes(ev.get("x") or [])
    if len(x) > LONG and k in ("base16", "base64", "gzip", "zlib", "zstd", "snappy", "lz4", "lz4frame"):
        return "CDirect %s" % coq_bool(direct_ok(c, o))
    if k == "base16":
        return "CB16 %s %s %s %s %s" % (hexs(x), ires(st[0]), ires(st[1]), hexs(ev["y"]), ires(st[2]))
    if k == "base64":
        return "CB64 %s %s %s %s %s %s %s" % (coq_bool(ev["p"]), coq_hex(ev["c"]["b"]), hexs(x), ires(st[0]), ires(st[1]),
                                             hexs(ev["y"]), ires(st[2]))
    if k == "percent":
        return "CPct %s %s %s %s %s %s" % (hexs(c["set"].encode()), hexs(x), ires(st[0]), ires(st[1]), hexs(ev["y"]), ires(st[2]))
    if k == "punycode":
        return "CPuny %s %s %s %s %s" % (hexs(x), ires(st[0]), ires(st[1]), hexs(ev["y"]), ires(st[2]))
    if k == "punycode_validate":
        return "CPunyV %s %s %s %s" % (coq_bool(c["valid"]), hexs(x), ires(st[0]), ires(st[1]))
    if k in ("gzip", "zlib"):
        return "CFlate %s %s %s %s %s" % (coq_bool(k == "zlib"), coq_z(c["level"]), hexs(x), ires(st[0]), ires(st[1]))
    if k == "zstd":
        return "CZstd %s %s %s %s" % (coq_z(c["level"]), hexs(x), ires(st[0]), ires(st[1]))
    if k == "snappy":
        return "CSnappy %s %s %s" % (hexs(x), ires(st[0]), ires(st[1]))
    if k == "lz4":
        return "CLz4 %s %s %s %s %s %s %s %s" % (coq_bool(c["defaults"]), coq_bool(c["prepend"]), coq_bool(c["prepended"]),
                                                coq_z(c["buf"]), hexs(x), ires(st[0]), ires(st[1]), ires(st[2]))
    if k == "lz4frame":
        return "CLz4Frame %s %s %s %s" % (coq_z(c["buf"]), hexs(x), hexs(ev["f"]), ires(st[0]))
    if k == "charset":
        return "CCharset %s %s %s %s %s" % (coq_bool(c["repr"]), hexs(c["label"].encode()), hexs(x), ires(st[0]), ires(st[1]))
    if k == "libdec":
        return "CLibDec %s %s" % (hexs(ev["y"]), ires(st[0]))
    raise ValueError("unknown kind %r" % k)


def direct_ok(c, o):
    """decode(encode x) == x judged in Python for long inputs (only generated with valid, matching options)."""
    k = c["kind"]
    st = o["steps"]
    x = bytes(c["ev"].get("x") or [])
    d = ok_bytes(st[-1]) if k != "base16" and k != "base64" else ok_bytes(st[1])
    if k == "base64" and bytes.fromhex(c["ev"]["c"]["b"]) not in (b"standard", b"url_safe"):
        return st[0].get("err") == "error"
    if k in ("gzip", "zlib") and (c["level"] % 2 ** 32) > 10:
        return st[0].get("err") == "error"
    if k == "lz4" and not c["defaults"]:
        valid = 0 <= c["buf"] < 2 ** 32
        if not valid:
            return st[2].get("err") == "error"
        match = c["prepend"] == c["prepended"] and (c["prepended"] or len(x) <= c["buf"])
        if not match:
            return all("panic" not in s for s in st)
    if k == "lz4frame" and not (0 <= c["buf"] < 2 ** 32):
        return st[0].get("err") == "error"
    return d == x


# ------------------------------------------------------------------------------------------------
# known findings
# ------------------------------------------------------------------------------------------------
_TRIPLET = re.compile(rb"%[0-9a-fA-F]{2}")


def known_matcher(entry, c, o):
    m = entry.get("match", {})
    cls = m.get("class")
    k = c.get("kind")
    x = bytes(c.get("ev", {}).get("x") or [])
    if cls == "percent-set-without-percent":
        return k == "percent" and c["set"] in PCT_SETS and c["set"] not in PCT_WITH_PERCENT and bool(_TRIPLET.search(x))
    if cls == "flate-level-10":
        return k in ("gzip", "zlib") and c["level"] % 2 ** 32 == 10 and "panic" in o["steps"][0]
    if cls == "lz4-default-options":
        return k == "lz4" and c.get("defaults") is True
    if cls == "lz4-bufsize-out-of-range":
        bad = not (0 <= c.get("buf", 0) < 2 ** 32)
        if k == "lz4":
            return bad and not c["defaults"] and not c["prepended"] and "panic" in o["steps"][2]
        return k == "lz4frame" and bad and "panic" in o["steps"][0]
    if cls == "lz4-magic-length":
        return k == "lz4" and c.get("prepend") is True and len(x) == 0x184D2204
    if cls == "charset-utf16-encoder":
        return k == "charset" and c["label"].strip().lower() in ("utf-16le", "utf-16be", "utf-16") and len(x) > 0
    if cls == "charset-bom-sniffing":
        e = ok_bytes(o["steps"][0]) if k == "charset" else None
        return e is not None and (e.startswith(b"\xef\xbb\xbf") or e.startswith(b"\xff\xfe") or e.startswith(b"\xfe\xff"))
    return False


def nontrivial(c):
    ev = c.get("ev", {})
    return len(ev.get("x") or ev.get("y") or []) >= 1


def main(run, args):
    import checklib
    n = 2500 if run.tier == "quick" else 60000
    if args.cases:
        n = args.cases
    return checklib.standard(run, ID, THEOREMS, IMPORTS, "codec", gen_cases, to_coq, n, nontrivial=nontrivial,
                             replay=args.replay, known_matcher=known_matcher)
