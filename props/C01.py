"""C01 — compiled programs are type-sound (result, event, metadata)."""
import typedvrl as tv

ID = "C01"
THEOREMS = ['C01_early_return_refuted', 'C01_closure_effect_refuted', 'C01_scope_leak_refuted', 'C01_negidx_insert_refuted', 'C01_remove_shift_refuted']
MANIFEST = {
    "level": "proof",
    "technique": "Coq proof on a hand model of Expression::type_info (Model/TypeInfo.v, kinds of Model/Kind.v) against the "
                 "Core-VRL evaluator + differential correspondence on compiled programs (final_type_info, runs)",
    "text": "",
    "note": "",
    "design_ref": "DESIGN.md section 5 C01",
}


def gen_cases(run, n, stats=None):
    cands = tv.gen_random(run, int(n * 1.1), bang=True) + tv.gen_unhandled(run, int(n * 2.5))
    kept = tv.keep_compiled(cands, stats)
    run.rng.shuffle(kept)
    return kept[:n]


def main(run, args):
    return tv.standard_main(run, args, ID, THEOREMS, gen_cases, 1500, 25000)
