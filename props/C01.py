"""C01 — compiled programs are type-sound (result, event, metadata)."""
import typedvrl as tv

ID = "C01"
THEOREMS = ['C01_early_return_refuted', 'C01_closure_effect_refuted', 'C01_scope_leak_refuted', 'C01_negidx_insert_refuted', 'C01_remove_shift_refuted', 'C01_pure_sound_partial', 'C01_statement_sound_partial', 'C01_straightline_sound_partial', 'C01_fragment_nonvacuous']
MANIFEST = {
    "level": "proof",
    "technique": "Coq proof on a hand model of Expression::type_info (Model/TypeInfo.v, kinds of Model/Kind.v) against the "
                 "Core-VRL evaluator + differential correspondence on compiled programs (final_type_info, runs)",
    "text": "Closed Coq theorems: (1) every effect-free expression (literals, variables, event/metadata/variable/expression queries inside C19's get_ok, arrays, objects, groups, ==, !=, ! on booleans, exists) typed in a type state the run-time state conforms to evaluates to a member of its inferred kind and changes nothing, for every function table; (2) a statement (such an expression or its assignment to a variable, a path below a known variable or an event/metadata path inside C19's ins_ok) re-establishes conformance with the type state after it; (3) for every straight-line program of such statements and every conforming event and metadata the run succeeds, its value is in the program's reported kind and the final event/metadata are in the kinds of Program::final_type_info. The model is a Gallina transcription of every Expression::type_info / resolve_constant impl of the Core-VRL constructs (Model/TypeInfo.v over the Kind model of C19) tied to the code by running each generated program through the compiler and runtime (harness `typed`: final_type_info kinds, fallibility, returns, run outcome, final event/metadata, Rust-side membership) and through type_info/eval in Coq. Outside the fragment the property is FALSE on the unchanged tree: 17 classes (early return vs final kinds, closure effects dropped, scope leak, `||` with undefined lhs, LocalEnv::merge of rhs-only variables, `??`/`ok,err=` partial lhs, Div dropping rhs effects, del on variable paths, and the C19 kind defects reached from programs) are refuted by vm_compute witnesses replayed on the implementation and recorded as known findings; the oracle (conforming input => result/event/metadata are members of the reported kinds) runs on every generated program.",
    "note": "Partial: soundness is proved for the straight-line fragment only (no if/else, no short-circuit operators, no arithmetic, no calls, no closures, no del, no blocks) - those constructs are covered by correspondence + oracle search only, and the full statement is refuted. Hypotheses of the generic theorems: == and != of the operator table return booleans (discharged for the instantiated table). Trusted: Coq kernel + vm_compute, the hand-written models (Model/TypeInfo.v, Model/Kind*.v, Model/Eval.v, tied by correspondence), the Core-VRL printer/AST codec, harness typed.rs, Python generator. No axioms.",
    "design_ref": "DESIGN.md section 5 C01",
}


def gen_cases(run, n, stats=None):
    cands = tv.gen_random(run, int(n * 1.1), bang=True) + tv.gen_unhandled(run, int(n * 2.5))
    kept = tv.keep_compiled(cands, stats)
    run.rng.shuffle(kept)
    return kept[:n]


def main(run, args):
    return tv.standard_main(run, args, ID, THEOREMS, gen_cases, 1000, 25000)
