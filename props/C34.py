"""C34 — Unused-expression warnings only flag removable code."""
import os
import re

import corevrl as cv
import vlib
from vlib import coq_value, coq_path, coq_hex, ji, js, jo

ID = "C34"
THEOREMS = ["C34_flagged_shape", "C34_effect_free_pure", "C34_removable_partial", "C34_removable_root_partial",
            "C34_removable_nested_partial",
            "C34_removable_fallible_root_partial", "C34_object_refuted", "C34_call_arg_refuted",
            "C34_coalesce_refuted", "C34_closure_stale_refuted", "C34_short_circuit_refuted", "C34_example"]
IMPORTS = ("From Coq Require Import List ZArith String.\n"
           "From VRL Require Import Base.Bytes Base.Value Base.Lit Model.Expr Model.Unused Corr.Core Corr.C34.\n"
           "Local Open Scope string_scope.")
MANIFEST = {
    "level": "proof",
    "technique": "Coq model of the AstVisitor state machine over a parser-level AST + structural-induction proofs on the Core-VRL "
                 "evaluator (purity, deletion of effect-free statements) + differential correspondence of the flagged set and "
                 "a delete-and-rerun oracle on the real compiler",
    "text": "The visitor of unused_expression_checker.rs (levels, expecting_result, within_block_expression, scoped_visit, "
            "SIDE_EFFECT_FUNCTIONS) is modelled state by state and compared, warning by warning (position, message class, order), "
            "with the real compiler on generated programs. Proved for all programs, states, F: a flagged expression is a literal, "
            "an object or a closure-free call of a non-side-effect function; an effect-free expression leaves event, metadata and "
            "variables untouched; deleting any set of effect-free infallible non-last statements of any blocks preserves the run; "
            "at every flagged position (any depth) whose flagged expression has effect-free infallible children the statement can "
            "be deleted (root-level fallible variant: a successful run is preserved). The full property is FALSE on the pinned tree: refutation witnesses for flagged objects / calls whose "
            "children assign or delete (D10), flagged `f!()` calls under `??`, literals flagged after a closure call although "
            "their value is used, and the value of the left operand of `||`/`&&`/`??` flagged although it decides whether the "
            "right operand's effects happen. The oracle deletes every flagged span from the source text, recompiles and compares runs.",
    "note": "Partial: the removal theorems need the flagged expression's children to be effect-free (the four refuted classes "
            "are recorded in known_findings/C34.json); positions other than statements (array elements, operands) are covered by "
            "the oracle only. Unused-variable warnings are outside the property. Template strings, `else if`, named arguments and "
            "functions outside the evaluator's instance are not generated. Trusted: Coq kernel + vm_compute, hand models "
            "Model/Unused.v, Model/Eval.v (tied by correspondence), Rust harness incl. its AST printer, Python generator. No axioms.",
    "design_ref": "DESIGN.md section 5 C34, D10",
}

SE = ["del", "log", "assert", "assert_eq", "set_semantic_meaning"]
ATOMS = ("lit", "var", "qext", "qvar", "qexpr", "arr", "obj", "block", "group", "call", "delext", "delvar",
         "existsext", "existsvar", "closure")


def f(name):
    return {"f": name.encode().hex()}


# ------------------------------------------------------------------ corevrl AST -> parser-level AST (JSON lists)

def lit_node(v):
    if isinstance(v, dict) and "a" in v:
        return ["arr", [lit_node(x) for x in v["a"]]]
    if isinstance(v, dict) and "o" in v:
        return ["obj", [[k, lit_node(x)] for k, x in v["o"]]]
    if isinstance(v, dict) and "i" in v and int(v["i"]) < 0:
        return ["lit", ji(4)]
    if isinstance(v, dict) and "f" in v:
        return ["lit", ji(5)]
    return ["lit", v]


def as_expr(n):
    """wrap for an expression position (array element, object value, argument)"""
    if n[0] in ("assign", "assigninf"):
        return ["group", n]
    if n[0] in ("if", "abort", "return"):
        return ["block", [n]]
    return n


def as_atom(n):
    if n[0] in ATOMS:
        return n
    if n[0] in ("if", "abort", "return"):
        return ["block", [n]]
    return ["group", n]


def norm_target(t):
    return list(t)


def norm(e):
    k = e[0]
    if k == "lit":
        return lit_node(e[1])
    if k in ("var", "qext", "qvar"):
        return list(e)
    if k == "qexpr":
        inner = norm(e[1])
        if inner[0] not in ("arr", "obj", "block", "group", "call"):
            inner = ["group", inner]
        return ["qexpr", inner, e[2]]
    if k == "arr":
        return ["arr", [as_expr(norm(x)) for x in e[1]]]
    if k == "obj":
        return ["obj", [[kk, as_expr(norm(x))] for kk, x in sorted(e[1], key=lambda kv: bytes.fromhex(kv[0]))]]
    if k == "block":
        return ["block", [norm(x) for x in e[1]]]
    if k == "group":
        return ["group", norm(e[1])]
    if k == "if":
        c = [norm(x) for x in e[1]]
        if len(c) == 1 and c[0][0] not in ("op", "not", "lit", "var", "qext", "qvar", "call", "existsext", "existsvar", "group"):
            c = [["group", c[0]]]
        return ["if", c, [norm(x) for x in e[2]], None if e[3] is None else [norm(x) for x in e[3]]]
    if k == "op":
        return ["op", e[1], as_atom(norm(e[2])), as_atom(norm(e[3]))]
    if k == "not":
        return ["not", as_atom(norm(e[1]))]
    if k == "assign":
        r = norm(e[2])
        if r[0] in ("abort", "return"):
            r = ["block", [r]]
        return ["assign", norm_target(e[1]), r]
    if k == "assigninf":
        r = norm(e[3])
        if r[0] in ("abort", "return"):
            r = ["block", [r]]
        return ["assigninf", norm_target(e[1]), norm_target(e[2]), r, e[4]]
    if k == "abort":
        return ["abort", None if e[1] is None else as_expr(norm(e[1]))]
    if k == "return":
        return ["return", as_expr(norm(e[1]))]
    if k == "call":
        return ["call", e[1], bool(e[2]), [as_expr(norm(a)) for a in e[3]]]
    if k in ("delext", "delvar", "existsext", "existsvar"):
        return [k, e[1], e[2]]
    if k == "closure":
        return ["closure", e[1], False, as_expr(norm(e[2])), list(e[3]), [norm(x) for x in e[4]]]
    raise ValueError(k)


# ------------------------------------------------------------------ generator

class G34(cv.Gen):
    """corevrl's grammar with discarded expressions of every flagged class injected at statement positions,
    their children sometimes carrying effects, and `used' contexts that exercise the level bookkeeping."""

    def pure(self, d):
        r = self.rng
        c = r.random()
        if d <= 0 or c < 0.45:
            c2 = r.random()
            if c2 < 0.5:
                return ("lit", r.choice([ji(0), ji(1), ji(7), js("a"), js("x y"), True, False, None]))
            if c2 < 0.65 and self.defined:
                return ("var", r.choice(self.defined))
            return self.query()
        if c < 0.55:
            return ("arr", [self.pure(d - 1) for _ in range(r.randint(0, 3))])
        if c < 0.65:
            return ("obj", [(k.encode().hex(), self.pure(d - 1)) for k in r.sample(["p", "q", "r"], r.randint(0, 2))])
        if c < 0.75:
            return ("call", r.choice(["is_null", "is_string"]), False, [self.pure(d - 1)])
        if c < 0.82:
            return ("existsext", "event", [f(r.choice(self.fields))])
        if c < 0.9:
            return ("op", "err", ("call", r.choice(cv.ASSERT_FNS), False, [self.equery()]), self.pure(d - 1))
        return ("op", r.choice(["eq", "ne"]), self.pure(d - 1), self.pure(d - 1))

    def effect(self, d):
        r = self.rng
        c = r.random()
        if c < 0.4:
            return ("assign", ("text", "event", [f(r.choice(self.fields + ["w1", "w2"]))]), self.pure(d - 1))
        if c < 0.55:
            v = r.choice(cv.VARS)
            if v not in self.defined:
                self.defined.append(v)
            return ("assign", ("tvar", v, []), self.pure(d - 1))
        if c < 0.8:
            return ("delext", "event", [f(r.choice(self.fields))], False)
        if c < 0.9:
            return ("call", "log", False, [("lit", js("m"))])
        return ("block", [("assign", ("text", "meta", [f("m2")]), self.pure(d - 1)), self.pure(d - 1)])

    def child(self, d):
        r = self.rng
        c = r.random()
        if c < 0.62:
            return self.pure(d)
        if c < 0.85:
            return self.effect(d)
        if c < 0.93:
            return ("call", r.choice(["int", "string", "bool"]), True, [self.equery()])
        return self.inf(d)

    def discard(self, d):
        r = self.rng
        c = r.random()
        if c < 0.2:
            return ("lit", r.choice([ji(0), ji(1), js("foo"), js("unused"), True, None]))
        if c < 0.42:
            return ("obj", [(k.encode().hex(), self.child(d - 1)) for k in r.sample(["p", "q", "r", "c d"], r.randint(0, 3))])
        if c < 0.54:
            return ("arr", [self.child(d - 1) for _ in range(r.randint(0, 3))])
        if c < 0.7:
            return ("call", r.choice(["is_null", "is_string"]), False, [self.child(d - 1)])
        if c < 0.76:
            return ("existsext", "event", [f(r.choice(self.fields))])
        if c < 0.84:
            return ("call", r.choice(["int", "string", "bool", "array", "object"]), True, [self.equery() if r.random() < 0.7 else self.child(d - 1)])
        if c < 0.88:
            return ("group", self.discard(d - 1)) if d > 0 else ("lit", ji(3))
        if c < 0.92:
            return ("block", [self.discard(d - 1) if d > 0 else ("lit", ji(1)), self.child(d - 1)])
        if c < 0.95:
            return ("not", ("lit", r.choice([True, False])))
        if c < 0.97:
            return ("op", r.choice(["eq", "ne", "or"]), self.child(d - 1), self.child(d - 1))
        return ("call", "log", False, [self.child(d - 1)])

    def used_ctx(self, d):
        """contexts whose value is used but which contain statement lists / closure calls"""
        r = self.rng
        c = r.random()
        tgt = self.target()
        if tgt[0] == "tvar" and tgt[1] not in self.defined:
            self.defined.append(tgt[1])
        if c < 0.25:
            return ("assign", tgt, ("block", [self.discard(d - 1), self.discard(d - 1) if r.random() < 0.5 else self.pure(d - 1), self.pure(d - 1)]))
        if c < 0.45:
            clo = self.closure_node(d - 1)
            return ("assign", tgt, ("arr", [clo] + [self.child(d - 1) for _ in range(r.randint(1, 2))]))
        if c < 0.6:
            fal = ("call", r.choice(cv.ASSERT_FNS), False, [self.equery()])
            bang = ("call", r.choice(["int", "string", "bool"]), True, [self.equery()])
            return ("assign", tgt, ("op", "err", ("block", [bang if r.random() < 0.7 else self.discard(d - 1), fal]), self.pure(d - 1)))
        if c < 0.7:
            fn = r.choice(cv.ASSERT_FNS)
            fal = ("call", fn, False, [self.equery()])
            bang = ("call", r.choice(["int", "string", "bool"]), True, [self.equery()])
            return ("assigninf", tgt, r.choice([("tvar", "ev", []), ("noop",)]), ("block", [bang, fal]), cv.DEFAULTS[fn])
        if c < 0.78:
            # a used array whose first elements are calls without `!` (they toggle the level's expectation inside blocks)
            call = r.choice([("call", r.choice(["is_null", "is_string"]), False, [self.pure(d - 1)]),
                             ("op", "err", ("call", r.choice(cv.ASSERT_FNS), False, [self.equery()]), self.pure(0))])
            arr = ("arr", [call] + [self.child(d - 1) if r.random() < 0.4 else self.pure(0) for _ in range(r.randint(1, 2))])
            return ("assign", tgt, ("obj", [("list".encode().hex(), arr)]) if r.random() < 0.6 else arr)
        if c < 0.88:
            return ("assign", tgt, ("if", [self.boolean(d - 1)], [self.discard(d - 1), self.pure(d - 1)],
                                    [self.discard(d - 1), self.pure(d - 1)] if r.random() < 0.6 else None))
        return ("call", "is_null", False, [("block", [self.discard(d - 1), self.pure(d - 1)])])

    def closure_node(self, d):
        n = self.closure(max(d, 1))
        return n[2] if n[0] == "assign" else n

    def stmt(self, d):
        r = self.rng
        c = r.random()
        if c < 0.3:
            return self.discard(d)
        if c < 0.42:
            return self.used_ctx(d)
        return super().stmt(d)


def rand_program(rng):
    g = G34(rng)
    g.defined = []
    g.marker = 0
    out = [g.stmt(3) for _ in range(rng.randint(1, 5))]
    if rng.random() < 0.15:
        # a block value assigned early, a used array starting with a call without `!` assigned later: the level
        # bookkeeping of the first must not leak into the second
        blk = ("assign", ("text", "event", [f("w1")]), ("block", [g.discard(1), g.pure(1)]))
        call = rng.choice([("call", "is_string", False, [g.pure(1)]),
                           ("op", "err", ("call", "string", False, [g.equery()]), ("lit", js("unknown")))])
        lst = ("assign", ("text", "event", [f("w2")]),
               ("obj", [("list".encode().hex(), ("arr", [call, ("lit", js("static"))] + ([g.pure(1)] if rng.random() < 0.4 else [])))]))
        out.insert(rng.randint(0, len(out)), blk)
        out.append(lst)
    c = rng.random()
    if c < 0.6:
        out.append(("qext", "event", []))
    elif c < 0.8:
        out.append(g.inf(2))
    else:
        out.append(g.discard(2))
    return [norm(s) for s in out]


def gen_cases(run, n):
    rng = run.rng
    cases = [{"kind": "table", "names": se_table_from_source()}]
    while len(cases) < n:
        try:
            ast = rand_program(rng)
        except ValueError:
            continue
        cases.append({"kind": "program", "ast": ast, "events": [cv.rand_event(rng), cv.rand_event(rng)],
                      "meta": jo([("m1", ji(5))])})
    return cases


def se_table_from_source():
    src = open(os.path.join(vlib.REPO, "src/compiler/unused_expression_checker.rs")).read()
    m = re.search(r"const\s+SIDE_EFFECT_FUNCTIONS\s*:[^=]*=\s*\[(.*?)\]\s*;", src, re.S)
    if not m:
        return ["<SIDE_EFFECT_FUNCTIONS not found>"]
    return re.findall(r'"([^"]*)"', m.group(1))


# ------------------------------------------------------------------ Gallina rendering

def cid(name):
    return coq_hex(name.encode().hex())


def ctarget(t):
    if t[0] == "noop":
        return "TNoop"
    if t[0] == "tvar":
        return "(TVar %s %s)" % (cid(t[1]), coq_path(t[2]))
    return "(TExt %s %s)" % (cv.coq_pfx(t[1]), coq_path(t[2]))


def clist(es):
    return "[%s]" % "; ".join(cp(e) for e in es)


def cp(e):
    k = e[0]
    if k == "lit":
        return "(PLit %s)" % coq_value(e[1])
    if k == "var":
        return "(PVar %s)" % cid(e[1])
    if k == "qext":
        return "(PQExt %s %s)" % (cv.coq_pfx(e[1]), coq_path(e[2]))
    if k == "qvar":
        return "(PQVar %s %s)" % (cid(e[1]), coq_path(e[2]))
    if k == "qexpr":
        return "(PQExpr %s %s)" % (cp(e[1]), coq_path(e[2]))
    if k == "group":
        return "(PGroup %s)" % cp(e[1])
    if k == "block":
        return "(PBlock %s)" % clist(e[1])
    if k == "arr":
        return "(PArr %s)" % clist(e[1])
    if k == "obj":
        return "(PObj [%s])" % "; ".join("(%s, %s)" % (coq_hex(kk), cp(x)) for kk, x in e[1])
    if k == "if":
        return "(PIf %s %s %s)" % (clist(e[1]), clist(e[2]), "None" if e[3] is None else "(Some %s)" % clist(e[3]))
    if k == "op":
        return "(POp %s %s %s)" % (cv.COQ_OPS[e[1]], cp(e[2]), cp(e[3]))
    if k == "not":
        return "(PNot %s)" % cp(e[1])
    if k == "assign":
        return "(PAssign %s %s)" % (ctarget(e[1]), cp(e[2]))
    if k == "assigninf":
        return "(PAssignInf %s %s %s %s)" % (ctarget(e[1]), ctarget(e[2]), cp(e[3]), coq_value(e[4]))
    if k == "abort":
        return "(PAbort %s)" % ("None" if e[1] is None else "(Some %s)" % cp(e[1]))
    if k == "return":
        return "(PReturn %s)" % cp(e[1])
    if k == "call":
        return "(PCall %s %s %s)" % (cid(e[1]), "true" if e[2] else "false", clist(e[3]))
    if k == "delext":
        return "(PDelExt %s %s)" % (cv.coq_pfx(e[1]), coq_path(e[2]))
    if k == "delvar":
        return "(PDelVar %s %s)" % (cid(e[1]), coq_path(e[2]))
    if k == "existsext":
        return "(PExistsExt %s %s)" % (cv.coq_pfx(e[1]), coq_path(e[2]))
    if k == "existsvar":
        return "(PExistsVar %s %s)" % (cid(e[1]), coq_path(e[2]))
    if k == "closure":
        return "(PClosure %s %s %s [%s] %s)" % (cv.CFN[e[1]], "true" if e[2] else "false", cp(e[3]),
                                                "; ".join(cid(p) for p in e[4]), clist(e[5]))
    raise ValueError(k)


WCLS = {"lit": "WLit", "obj": "WObj", "call": "WCall"}


def cpos(p):
    return "[%s]" % "; ".join("%d%%nat" % i for i in p) if p is not None else "[999%nat; 999%nat]"


def crun(r):
    return "(%s, %s, %s)" % (cv.coq_iout(r["result"]), coq_value(r["event"]), coq_value(r["meta"]))


def in_domain(ast):
    """the model's domain: a non-empty program without empty statement lists (the shrinker can produce them)"""
    def ok(e):
        k = e[0]
        if k == "block" and not e[1]:
            return False
        if k == "if" and (not e[1] or not e[2] or (e[3] is not None and not e[3])):
            return False
        if k == "closure" and not e[5]:
            return False
        return all(ok(c) for c in children(e))
    return bool(ast) and all(ok(e) for e in ast)


def to_coq(case, out):
    if case.get("kind") == "table":
        return "CTable [%s]" % "; ".join(cid(n) for n in case["names"])
    if out.get("compile") != "ok":
        if out.get("compile") == "panic":
            raise ValueError("compiler panic")
        return "CSkip"
    if not in_domain(case["ast"]):
        return "CSkip"
    flags = ["(%s, %s)" % (cpos(w["pos"]), WCLS[w["cls"]]) for w in out["warnings"] if w["cls"] in WCLS]
    # a warning of a class the model does not know is a disagreement
    flags += ["([998%nat], WLit)" for w in out["warnings"] if w["cls"] == "other"]
    dels = []
    for d in out["dels"]:
        if d.get("compile") == "ok":
            dels.append("(mkDel %s [%s])" % ("true" if d["fallible"] else "false",
                                              "; ".join("(%s, %s)" % (crun(r["orig"]), crun(r["del"])) for r in d["runs"])))
    meta = case.get("meta") or {"o": []}
    return "CProg %s [%s] [%s] [%s] [%s]" % (
        clist(case["ast"]), "; ".join("(%s, %s)" % (coq_value(e), coq_value(meta)) for e in case["events"]),
        "; ".join(flags), "; ".join(crun(r) for r in out["runs"]), "; ".join(dels))


# ------------------------------------------------------------------ known-finding classes

def children(e):
    k = e[0]
    if k in ("qexpr", "group", "not"):
        return [e[1]]
    if k in ("block", "arr"):
        return list(e[1])
    if k == "obj":
        return [x for _, x in e[1]]
    if k == "if":
        return list(e[1]) + list(e[2]) + (list(e[3]) if e[3] is not None else [])
    if k == "op":
        return [e[2], e[3]]
    if k == "assign":
        return [e[2]]
    if k == "assigninf":
        return [e[3]]
    if k in ("abort", "return"):
        return [e[1]] if e[1] is not None else []
    if k == "call":
        return list(e[3])
    if k == "closure":
        return [e[3]] + list(e[5])
    return []


def node_at(ast, pos):
    cur = None
    kids = ast
    for i in pos:
        cur = kids[i]
        kids = children(cur)
    return cur


def has_effect(e):
    if e[0] in ("assign", "assigninf", "delext", "delvar", "abort", "return"):
        return True
    if e[0] == "call" and e[1] in SE:
        return True
    return any(has_effect(c) for c in children(e))


def under_catch(ast, pos):
    """the position lies in the left operand of `??` or in the right-hand side of `ok, err = ...`"""
    kids = ast
    for depth, i in enumerate(pos):
        cur = kids[i]
        if depth + 1 < len(pos):
            if cur[0] == "op" and cur[1] == "err" and pos[depth + 1] == 0:
                return True
            if cur[0] == "assigninf":
                return True
        kids = children(cur)
    return False


def decides_short_circuit(ast, pos):
    """the flagged expression is (through groups, `!` and last statements of blocks only) the value of the left operand
    of `||`, `&&` or `??` whose right operand has side effects: its value decides whether those effects happen"""
    kids = ast
    chain = []
    for i in pos:
        cur = kids[i]
        chain.append((cur, i))
        kids = children(cur)
    # chain[d] = (node at depth d, its index in its parent); look for an op ancestor entered through operand 0
    for d in range(len(chain) - 1):
        node = chain[d][0]
        if node[0] == "op" and node[1] in ("or", "and", "err") and chain[d + 1][1] == 0 and has_effect(node[3]):
            ok = True
            for k in range(d + 1, len(chain) - 1):
                par, idx = chain[k][0], chain[k + 1][1]
                if par[0] in ("group", "not"):
                    continue
                if par[0] == "block" and idx == len(par[1]) - 1:
                    continue
                ok = False
                break
            if ok:
                return True
    return False


class Vis:
    """the visitor, re-implemented only to name the stale-state class precisely: with restore=True the
    closure branch of visit_function_call puts the level's previous expectation back"""

    def __init__(self, restore):
        self.restore = restore
        self.level = 0
        self.exp = {}
        self.blk = {}
        self.flags = []

    def unused(self):
        return not self.exp.get(self.level, False)

    def scoped(self, fn):
        self.level += 1
        self.exp[self.level] = True
        fn()
        self.exp[self.level] = False
        self.level -= 1

    def block(self, es, pos, off):
        if not es:
            return
        self.level += 1
        self.blk[self.level] = True
        for i, x in enumerate(es):
            if i == len(es) - 1:
                self.blk[self.level] = False
                self.level -= 1
            self.visit(x, pos + [off + i])

    def call_tail(self, name, bang, clo, pos):
        wb = (not bang) and self.blk.get(self.level, False)
        if wb:
            self.exp[self.level] = True
        if name not in SE:
            if clo is not None:
                old = self.exp.get(self.level, False)
                self.exp[self.level] = True
                clo()
                self.exp[self.level] = old if self.restore else False
            elif self.unused():
                self.flags.append(pos)
        if (not bang) and self.blk.get(self.level, False):
            self.exp[self.level] = False

    def visit(self, e, pos):
        k = e[0]
        if k == "lit":
            if self.unused():
                self.flags.append(pos)
        elif k == "qexpr":
            if e[1][0] in ("call", "delext", "delvar", "existsext", "existsvar", "closure"):
                self.visit(e[1], pos + [0])
        elif k in ("group", "not"):
            self.visit(e[1], pos + [0])
        elif k == "block":
            self.block(e[1], pos, 0)
        elif k == "arr":
            for i, x in enumerate(e[1]):
                self.visit(x, pos + [i])
        elif k == "obj":
            if self.unused():
                self.flags.append(pos)
            for i, (_, x) in enumerate(e[1]):
                self.scoped(lambda x=x, i=i: self.visit(x, pos + [i]))
        elif k == "if":
            def body():
                for i, x in enumerate(e[1]):
                    self.visit(x, pos + [i])
                self.scoped(lambda: self.block(e[2], pos, len(e[1])))
                if e[3] is not None:
                    self.scoped(lambda: self.block(e[3], pos, len(e[1]) + len(e[2])))
            self.scoped(body)
        elif k == "op":
            self.visit(e[2], pos + [0])
            self.scoped(lambda: self.visit(e[3], pos + [1]))
        elif k == "assign":
            self.scoped(lambda: self.visit(e[2], pos + [0]))
        elif k == "assigninf":
            self.scoped(lambda: self.visit(e[3], pos + [0]))
        elif k == "return":
            self.scoped(lambda: self.visit(e[1], pos + [0]))
        elif k == "call":
            for i, x in enumerate(e[3]):
                self.scoped(lambda x=x, i=i: self.visit(x, pos + [i]))
            self.call_tail(e[1], e[2], None, pos)
        elif k in ("delext", "delvar"):
            self.call_tail("del", False, None, pos)
        elif k in ("existsext", "existsvar"):
            self.call_tail("exists", False, None, pos)
        elif k == "closure":
            self.scoped(lambda: self.visit(e[3], pos + [0]))
            self.call_tail(e[1], e[2], lambda: self.block(e[5], pos, 1), pos)

    def program(self, ast):
        for i, x in enumerate(ast):
            last = i == len(ast) - 1
            if last:
                self.level += 1
                self.exp[self.level] = True
            self.visit(x, [i])
            if last:
                self.level -= 1
                self.exp[self.level] = False
        return self.flags


def succ(r):
    return "ok" in r["result"]


def del_ok(d, r):
    o, e = r["orig"], r["del"]
    if succ(o):
        return succ(e) and o["event"] == e["event"] and o["meta"] == e["meta"]
    if d["fallible"]:
        return True
    return list(o["result"].keys())[0] == list(e["result"].keys())[0] and o["event"] == e["event"] and o["meta"] == e["meta"]


def classify(case, d, stale):
    """the known class a failing deletion belongs to, or None"""
    pos = d.get("pos")
    if pos is None:
        return None
    node = node_at(case["ast"], pos)
    if node is None:
        return None
    if node[0] in ("obj", "call") and any(has_effect(c) for c in children(node)):
        return "child-effects"
    if d["fallible"] and under_catch(case["ast"], pos):
        return "bang-call-under-catch"
    if pos in stale:
        return "stale-after-closure"
    if decides_short_circuit(case["ast"], pos):
        return "short-circuit-operand"
    return None


def failing_classes(case, out):
    if case.get("kind") != "program" or out.get("compile") != "ok":
        return None
    stale = None
    res = []
    for d in out["dels"]:
        if d.get("compile") != "ok":
            continue
        if all(del_ok(d, r) for r in d["runs"]):
            continue
        if stale is None:
            faithful = Vis(False).program(case["ast"])
            fixed = Vis(True).program(case["ast"])
            stale = [p for p in faithful if p not in fixed]
        res.append(classify(case, d, stale))
    return res


def known_matcher(entry, case, out):
    cl = failing_classes(case, out)
    if not cl or any(c is None for c in cl):
        return False
    return entry["match"]["class"] in cl


def extra_cov(cases, outs):
    comp = [o for o in outs if isinstance(o, dict) and o.get("compile") == "ok"]
    wc = {}
    dk = {}
    nfail = 0
    for o in comp:
        for w in o["warnings"]:
            wc[w["cls"]] = wc.get(w["cls"], 0) + 1
        for d in o["dels"]:
            k = d["kind"] + ("" if d.get("compile") in ("ok", None) else "/no-compile")
            dk[k] = dk.get(k, 0) + 1
            if d.get("compile") == "ok" and not all(del_ok(d, r) for r in d["runs"]):
                nfail += 1
    return {"programs_compiled": len(comp), "warnings_by_class": wc, "deletions_by_kind": dk,
            "deletions_judged": sum(1 for o in comp for d in o["dels"] if d.get("compile") == "ok"),
            "deletions_failing_oracle_incl_known": nfail,
            "distinct_nontrivial": len({o["src"] for o in comp if any(w["cls"] in WCLS for w in o["warnings"])})}


def nontrivial(c):
    return c.get("kind") == "program"


def main(run, args):
    import checklib
    n = args.cases or (1200 if run.tier == "quick" else 20000)
    return checklib.standard(run, ID, THEOREMS, IMPORTS, "unused", gen_cases, to_coq, n, nontrivial=nontrivial,
                             replay=args.replay, known_matcher=known_matcher, extra_cov=extra_cov)
