"""Typed Core-VRL program family shared by C01, C02, C12: programs compiled against declared external
kinds (harness family `typed`), the compiler's final type information next to the run, rendering as
Corr/Typed.v `tcase` terms."""
import json

import vlib
from vlib import coq_value, coq_hex, coq_opt, coq_bool, ji, js, jo, ja
import corevrl as cv
import C19 as K19

IMPORTS = ("From Coq Require Import List ZArith String.\n"
           "From VRL Require Import Base.Bytes Base.Value Base.Lit Model.ValueCrud Model.Kind Model.KindCrud Model.Expr "
           "Model.Eval Model.EvalInst Model.TypeInfo Model.TypeInfoInst Corr.Core Corr.Typed Corr.%s.\n"
           "Local Open Scope string_scope.")

ANY_OBJ = K19.K("", None, K19.C([], K19.U_ANY))


def f(name):
    return {"f": name.encode().hex()}


def bangify(e):
    """('call', name, True, args) -> ('call', name + '!', False, args): the Coq side encodes the
    abort-on-error flag in the function name"""
    if isinstance(e, (list, tuple)):
        if len(e) >= 4 and e[0] == "call":
            return ("call", e[1] + ("!" if e[2] else ""), False, [bangify(a) for a in e[3]])
        return tuple(bangify(x) for x in e) if isinstance(e, tuple) else [bangify(x) for x in e]
    return e


def tuplify(e):
    """JSON round trip turns the AST tuples into lists; the printers want tuples at node level"""
    if isinstance(e, list) and e and isinstance(e[0], str) and e[0] in NODE_TAGS:
        return tuple(tuplify(x) for x in e)
    if isinstance(e, list):
        return [tuplify(x) for x in e]
    return e


NODE_TAGS = {"lit", "var", "qext", "qvar", "qexpr", "arr", "obj", "block", "if", "op", "not", "assign", "assigninf",
             "abort", "return", "call", "closure", "delext", "delvar", "existsext", "existsvar", "noop", "tvar", "text"}


def fix_ast(ast):
    """after a JSON round trip: tuples at node level, but value literals / paths / obj pairs stay as they are"""
    def go(e):
        if isinstance(e, (list, tuple)) and e and isinstance(e[0], str) and e[0] in NODE_TAGS:
            k = e[0]
            if k == "lit":
                return ("lit", e[1])
            if k in ("var",):
                return tuple(e)
            if k in ("qext", "delext", "existsext", "qvar", "delvar", "existsvar", "tvar", "text", "noop"):
                return tuple(e)
            if k == "qexpr":
                return ("qexpr", go(e[1]), e[2])
            if k == "arr":
                return ("arr", [go(x) for x in e[1]])
            if k == "obj":
                return ("obj", [(kk, go(x)) for kk, x in e[1]])
            if k == "block":
                return ("block", [go(x) for x in e[1]])
            if k == "if":
                return ("if", [go(x) for x in e[1]], [go(x) for x in e[2]], None if e[3] is None else [go(x) for x in e[3]])
            if k == "op":
                return ("op", e[1], go(e[2]), go(e[3]))
            if k == "not":
                return ("not", go(e[1]))
            if k == "assign":
                return ("assign", tuple(e[1]), go(e[2]))
            if k == "assigninf":
                return ("assigninf", tuple(e[1]), tuple(e[2]), go(e[3]), e[4])
            if k == "abort":
                return ("abort", None if e[1] is None else go(e[1]))
            if k == "return":
                return ("return", go(e[1]))
            if k == "call":
                return ("call", e[1], e[2], [go(a) for a in e[3]])
            if k == "closure":
                return ("closure", e[1], go(e[2]), list(e[3]), [go(x) for x in e[4]])
        raise ValueError("bad ast node %r" % (e,))
    return [go(e) for e in ast]


def has_node(ast, pred):
    def go(e):
        if isinstance(e, (list, tuple)):
            if e and isinstance(e[0], str) and e[0] in NODE_TAGS and pred(e):
                return True
            return any(go(x) for x in e)
        return False
    return go(ast)


def make_case(kind, ast, event, meta=None, ekind=None, mkind=None, names=None, extra=None):
    c = {"op": kind, "ast": ast, "src": cv.vrl_program(ast).encode().hex(), "event": event,
         "meta": meta if meta is not None else jo([]), "vars": names or (cv.VARS + cv.CLOSURE_PARAMS + ["ev"]),
         "ekind": ekind, "mkind": mkind}
    if extra:
        c.update(extra)
    return c


def keep_compiled(cases, stats=None):
    """run the candidates once and keep those the compiler accepts (a panic of the compiler or of the run is
    counted, not kept: those are C04's subject)"""
    outs = vlib.run_harness("typed", cases)
    kept = []
    for c, o in zip(cases, outs):
        ok = o.get("compile") == "ok" and o.get("consistent", True) and not any(k in o for k in ("panic", "crash", "timeout", "harness_error"))
        if stats is not None:
            key = "compiled" if ok else ("compile_" + str(o.get("compile", "failed")))
            stats[key] = stats.get(key, 0) + 1
        if ok:
            kept.append(c)
    return kept


def coq_okind(k):
    return K19.coq_kind(k if k is not None else ANY_OBJ, True)


def to_coq(case, out):
    ast = fix_ast(case["ast"])
    names = case["vars"]
    res = out["result"]
    nan = "error" in res and "NaN" in res["error"]
    t = out["tinfo"]
    m = out["member"]
    mres = "None" if m["result"] is None else "(Some %s)" % coq_bool(m["result"])
    info = out["info"]
    return "mkTCase %s %s %s %s %s [%s] %s %s %s %s [%s] %s %s %s %s %s %s %s %s %s %s %s %s" % (
        cv.coq_exprs(bangify(ast)), coq_okind(case.get("ekind")), coq_okind(case.get("mkind")),
        coq_value(case["event"]), coq_value(case.get("meta", {"o": []})),
        "; ".join(cv.coq_ident(n) for n in names),
        cv.coq_iout(res), coq_bool(nan), coq_value(out["event"]), coq_value(out["meta"]),
        "; ".join(coq_opt(out["vars"][n]) for n in names),
        coq_bool(out["via_return"]), coq_bool(info["fallible"] or info["abortable"]),
        K19.coq_kind(t["kind"], False), coq_bool(t["fallible"]), K19.coq_kind(t["returns"], False),
        K19.coq_kind(t["target"], False), K19.coq_kind(t["meta"], False),
        mres, coq_bool(m["event"]), coq_bool(m["meta"]), coq_bool(m["in_event"]), coq_bool(m["in_meta"]))


# ------------------------------------------------------------------ declared external kinds and events

def rand_ekind(rng):
    """an object kind with a few typed known fields, the rest unknown any / json / nothing"""
    K, C = K19.K, K19.C
    known = []
    pool = {"i": K("i"), "s": K("b"), "b": K("B"), "n": K("in"), "l": K("", C([["0", K("i")], ["1", K("i")]], K19.U_NONE)),
            "o": K("", None, C([[K19.hexs("p"), K("i")], [K19.hexs("q"), K("b")]], K19.U_NONE)),
            "a": K("ib"), "go": K("B"), "c": K("Bu")}
    for name in sorted(pool, key=lambda s: s.encode()):
        if rng.random() < 0.6:
            known.append([K19.hexs(name), pool[name]])
    u = rng.choice([K19.U_ANY, K19.U_ANY, K19.U_JSON, K19.U_NONE])
    return K("", None, C(known, u))


def event_for(rng, ekind):
    try:
        return K19.member_of(rng, ekind)
    except ValueError:
        return jo([])


def gen_random(run, n, kinded=0.5, bang=True):
    """random Core-VRL programs (corevrl.Gen) compiled against default or declared external kinds"""
    rng = run.rng
    g = cv.Gen(rng)
    cases = []
    while len(cases) < n:
        try:
            ast = g.program()
            cv.vrl_program(ast)
        except ValueError:
            continue
        if not bang and has_node(ast, lambda e: (e[0] == "call" and e[2]) or e[0] == "abort"):
            continue
        if rng.random() < kinded:
            ek = rand_ekind(rng)
            ev = event_for(rng, ek)
        else:
            ek = None
            ev = cv.rand_event(rng)
        meta = jo([("m1", ji(5))] if rng.random() < 0.5 else [])
        cases.append(make_case("random", ast, ev, meta, ek, None))
    return cases
