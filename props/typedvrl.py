"""Typed Core-VRL program family shared by C01, C02, C12: programs compiled against declared external
kinds (harness family `typed`), the compiler's final type information next to the run, rendering as
Corr/Typed.v `tcase` terms."""
import json

import vlib
from vlib import coq_value, coq_hex, coq_opt, coq_bool, ji, js, jo, ja
import corevrl as cv
import C19 as K19

IMPORTS = ("From Coq Require Import List ZArith String.\n"
           "From VRL Require Import Base.Bytes Base.Value Base.Lit Model.ValueCrud Model.Kind Model.KindCrud Model.Expr "
           "Model.Eval Model.EvalInst Model.TypeInfo Model.TypeInfoInst Corr.Core Corr.Typed Corr.%s.\n"
           "Local Open Scope string_scope.")

ANY_OBJ = K19.K("", None, K19.C([], K19.U_ANY))


def f(name):
    return {"f": name.encode().hex()}


def bangify(e):
    """('call', name, True, args) -> ('call', name + '!', False, args): the Coq side encodes the
    abort-on-error flag in the function name"""
    if isinstance(e, (list, tuple)):
        if len(e) >= 4 and e[0] == "call":
            return ("call", e[1] + ("!" if e[2] else ""), False, [bangify(a) for a in e[3]])
        return tuple(bangify(x) for x in e) if isinstance(e, tuple) else [bangify(x) for x in e]
    return e


def tuplify(e):
    """JSON round trip turns the AST tuples into lists; the printers want tuples at node level"""
    if isinstance(e, list) and e and isinstance(e[0], str) and e[0] in NODE_TAGS:
        return tuple(tuplify(x) for x in e)
    if isinstance(e, list):
        return [tuplify(x) for x in e]
    return e


NODE_TAGS = {"lit", "var", "qext", "qvar", "qexpr", "arr", "obj", "block", "if", "op", "not", "assign", "assigninf",
             "mergeassign", "abort", "return", "call", "closure", "delext", "delvar", "existsext", "existsvar", "noop", "tvar", "text"}


def fix_ast(ast):
    """after a JSON round trip: tuples at node level, but value literals / paths / obj pairs stay as they are.
    Cases carry the AST as one JSON string (atomic for checklib's structural shrinker, which would otherwise
    drop AST nodes while the precomputed source text stays the same)."""
    if isinstance(ast, str):
        ast = json.loads(ast)

    def go(e):
        if isinstance(e, (list, tuple)) and e and isinstance(e[0], str) and e[0] in NODE_TAGS:
            k = e[0]
            if k == "lit":
                return ("lit", e[1])
            if k in ("var",):
                return tuple(e)
            if k in ("qext", "delext", "existsext", "qvar", "delvar", "existsvar", "tvar", "text", "noop"):
                return tuple(e)
            if k == "qexpr":
                return ("qexpr", go(e[1]), e[2])
            if k == "arr":
                return ("arr", [go(x) for x in e[1]])
            if k == "obj":
                return ("obj", [(kk, go(x)) for kk, x in e[1]])
            if k == "block":
                return ("block", [go(x) for x in e[1]])
            if k == "if":
                return ("if", [go(x) for x in e[1]], [go(x) for x in e[2]], None if e[3] is None else [go(x) for x in e[3]])
            if k == "op":
                return ("op", e[1], go(e[2]), go(e[3]))
            if k == "not":
                return ("not", go(e[1]))
            if k == "assign":
                return ("assign", tuple(e[1]), go(e[2]))
            if k == "assigninf":
                return ("assigninf", tuple(e[1]), tuple(e[2]), go(e[3]), e[4])
            if k == "mergeassign":
                return ("mergeassign", tuple(e[1]), go(e[2]))
            if k == "abort":
                return ("abort", None if e[1] is None else go(e[1]))
            if k == "return":
                return ("return", go(e[1]))
            if k == "call":
                return ("call", e[1], e[2], [go(a) for a in e[3]])
            if k == "closure":
                return ("closure", e[1], go(e[2]), list(e[3]), [go(x) for x in e[4]])
        raise ValueError("bad ast node %r" % (e,))
    return [go(e) for e in ast]


def has_node(ast, pred):
    if isinstance(ast, str):
        ast = json.loads(ast)

    def go(e):
        if isinstance(e, (list, tuple)):
            if e and isinstance(e[0], str) and e[0] in NODE_TAGS and pred(e):
                return True
            return any(go(x) for x in e)
        return False
    return go(ast)


def make_case(kind, ast, event, meta=None, ekind=None, mkind=None, names=None, extra=None):
    c = {"op": kind, "ast": json.dumps(ast), "src": cv.vrl_program(ast).encode().hex(), "event": event,
         "meta": meta if meta is not None else jo([]), "vars": names or (cv.VARS + cv.CLOSURE_PARAMS + ["ev"]),
         "ekind": ekind, "mkind": mkind}
    if extra:
        c.update(extra)
    return c


def keep_compiled(cases, stats=None):
    """run the candidates once and keep those the compiler accepts (a panic of the compiler or of the run is
    counted, not kept: those are C04's subject)"""
    outs = vlib.run_harness("typed", cases)
    kept = []
    for c, o in zip(cases, outs):
        ok = o.get("compile") == "ok" and o.get("consistent", True) and not any(k in o for k in ("panic", "crash", "timeout", "harness_error"))
        if stats is not None:
            key = "compiled" if ok else ("compile_" + str(o.get("compile", "failed")))
            stats[key] = stats.get(key, 0) + 1
        if ok:
            kept.append(c)
    return kept


def coq_okind(k):
    return K19.coq_kind(k if k is not None else ANY_OBJ, True)


def to_coq(case, out):
    if out.get("compile") != "ok":
        raise ValueError("the program does not compile: %r" % (out.get("diags") or out.get("compile"),))
    ast = fix_ast(case["ast"])
    names = case["vars"]
    res = out["result"]
    nan = "error" in res and "NaN" in res["error"]
    t = out["tinfo"]
    m = out["member"]
    mres = "None" if m["result"] is None else "(Some %s)" % coq_bool(m["result"])
    info = out["info"]
    return "mkTCase %s %s %s %s %s [%s] %s %s %s %s [%s] %s %s %s %s %s %s %s %s %s %s %s %s" % (
        cv.coq_exprs(bangify(ast)), coq_okind(case.get("ekind")), coq_okind(case.get("mkind")),
        coq_value(case["event"]), coq_value(case.get("meta", {"o": []})),
        "; ".join(cv.coq_ident(n) for n in names),
        cv.coq_iout(res), coq_bool(nan), coq_value(out["event"]), coq_value(out["meta"]),
        "; ".join(coq_opt(out["vars"][n]) for n in names),
        coq_bool(out["via_return"]), coq_bool(info["fallible"] or info["abortable"]),
        K19.coq_kind(t["kind"], False), coq_bool(t["fallible"]), K19.coq_kind(t["returns"], False),
        K19.coq_kind(t["target"], False), K19.coq_kind(t["meta"], False),
        mres, coq_bool(m["event"]), coq_bool(m["meta"]), coq_bool(m["in_event"]), coq_bool(m["in_meta"]))


# ------------------------------------------------------------------ declared external kinds and events

def rand_ekind(rng):
    """an object kind with a few typed known fields, the rest unknown any / json / nothing"""
    K, C = K19.K, K19.C
    known = []
    pool = {"i": K("i"), "s": K("b"), "b": K("B"), "n": K("in"), "l": K("", C([["0", K("i")], ["1", K("i")]], K19.U_NONE)),
            "o": K("", None, C([[K19.hexs("p"), K("i")], [K19.hexs("q"), K("b")]], K19.U_NONE)),
            "a": K("ib"), "go": K("B"), "c": K("Bu")}
    for name in sorted(pool, key=lambda s: s.encode()):
        if rng.random() < 0.6:
            known.append([K19.hexs(name), pool[name]])
    u = rng.choice([K19.U_ANY, K19.U_ANY, K19.U_JSON, K19.U_NONE])
    return K("", None, C(known, u))


def event_for(rng, ekind):
    try:
        return K19.member_of(rng, ekind)
    except ValueError:
        return jo([])


def gen_random(run, n, kinded=0.5, bang=True):
    """random Core-VRL programs (corevrl.Gen) compiled against default or declared external kinds"""
    rng = run.rng
    g = cv.Gen(rng)
    cases = []
    while len(cases) < n:
        try:
            ast = g.program()
            cv.vrl_program(ast)
        except ValueError:
            continue
        if not bang and has_node(ast, lambda e: (e[0] == "call" and e[2]) or e[0] == "abort"):
            continue
        if rng.random() < kinded:
            ek = rand_ekind(rng)
            ev = event_for(rng, ek)
        else:
            ek = None
            ev = cv.rand_event(rng)
        meta = jo([("m1", ji(5))] if rng.random() < 0.5 else [])
        cases.append(make_case("random", ast, ev, meta, ek, None))
    return cases


# ------------------------------------------------------------------ unhandled-operation programs

class UGen:
    """Programs that compute on queries and variables WITHOUT handling errors: the compiler accepts such a
    program only where it believes the operations cannot fail, so every accepted one probes that belief
    (C02), the kinds behind it (C01) and the constants behind it (C12)."""

    def __init__(self, rng, fields):
        self.rng = rng
        self.fields = fields            # names declared in the external kind (plus a few undeclared)
        self.vars = []

    def lit(self, t=None):
        r = self.rng
        t = t or r.choice(["i", "i", "s", "b", "f", "n", "o", "a"])
        if t == "i":
            return ("lit", ji(r.choice([0, 1, 2, 3, -1, 7])))
        if t == "s":
            return ("lit", js(r.choice(["", "a", "b"])))
        if t == "b":
            return ("lit", r.choice([True, False]))
        if t == "f":
            return ("lit", vlib.jf(r.choice([0.0, 1.5, 2.0, -0.5])))
        if t == "n":
            return ("lit", None)
        if t == "o":
            return ("lit", jo([(k, ji(r.randint(0, 3))) for k in r.sample(["a", "p", "q"], r.randint(0, 2))]))
        return ("lit", ja([ji(r.randint(0, 3)) for _ in range(r.randint(0, 3))]))

    def path(self):
        r = self.rng
        c = r.random()
        if c < 0.55:
            return []
        if c < 0.8:
            return [f(r.choice(["a", "p", "q"]))]
        if c < 0.95:
            return [{"i": str(r.choice([0, 1, 2, -1, -2]))}]
        return [f(r.choice(["a", "p"])), {"i": str(r.choice([0, 1, -1]))}]

    def atom(self):
        r = self.rng
        c = r.random()
        if c < 0.3:
            return self.lit()
        if c < 0.65 or not self.vars:
            return ("qext", "event", [f(r.choice(self.fields))] + self.path())
        x = r.choice(self.vars)
        p = self.path()
        return ("var", x) if not p else ("qvar", x, p)

    def expr(self, d):
        r = self.rng
        c = r.random()
        if d <= 0 or c < 0.3:
            return self.atom()
        if c < 0.55:
            return ("op", r.choice(["add", "sub", "mul", "div", "add", "div"]), self.expr(d - 1), self.expr(d - 1))
        if c < 0.65:
            return ("op", r.choice(["gt", "lt", "ge", "le", "eq", "ne"]), self.expr(d - 1), self.expr(d - 1))
        if c < 0.75:
            return ("op", r.choice(["or", "and", "or"]), self.expr(d - 1), self.expr(d - 1))
        if c < 0.8:
            return ("op", "merge", self.expr(d - 1), self.expr(d - 1))
        if c < 0.85:
            return ("not", self.expr(d - 1))
        if c < 0.9:
            return ("arr", [self.expr(d - 1) for _ in range(r.randint(1, 2))])
        if c < 0.95:
            return ("block", [self.stmt(d - 1), self.expr(d - 1)])
        return ("call", r.choice(["length", "is_null", "is_string"]), False, [self.expr(d - 1)])

    def stmt(self, d):
        r = self.rng
        c = r.random()
        if c < 0.3:
            x = r.choice(["x", "y"])
            e = self.expr(d) if r.random() < 0.6 else self.lit()
            s = ("assign", ("tvar", x, [] if r.random() < 0.7 or x not in self.vars else self.path()), e)
            if x not in self.vars:
                self.vars.append(x)
            return s
        if c < 0.45:
            return ("assign", ("text", "event", [f(r.choice(self.fields))] + self.path()), self.expr(d) if r.random() < 0.6 else self.lit())
        if c < 0.55 and self.vars:
            return ("delvar", r.choice(self.vars), self.path() or [f("a")], False)
        if c < 0.65:
            return ("delext", "event", [f(r.choice(self.fields))] + self.path(), r.random() < 0.3)
        if c < 0.8:
            saved = list(self.vars)
            t = [self.stmt(d - 1) for _ in range(r.randint(1, 2))]
            self.vars = list(saved)
            e = [self.stmt(d - 1) for _ in range(r.randint(1, 2))] if r.random() < 0.5 else None
            self.vars = saved
            cond = ("op", "eq", ("qext", "event", [f("c")]), ("lit", True))
            return ("if", [cond], t, e)
        if c < 0.9:
            saved = list(self.vars)
            params = [r.choice(["k", "x"]), r.choice(["v", "y"])]
            self.vars = saved + [p for p in params if p not in saved]
            body = [self.stmt(d - 1) for _ in range(r.randint(1, 2))] + [("lit", None)]
            self.vars = saved
            coll = ("lit", ja([ji(1), ji(2)])) if r.random() < 0.5 else ("lit", jo([("a", ji(1))]))
            return ("closure", "for_each", coll, params, body)
        return self.expr(d)

    def program(self):
        self.vars = []
        r = self.rng
        out = [self.stmt(2) for _ in range(r.randint(1, 5))]
        out.append(self.expr(2))
        return out


def gen_unhandled(run, n):
    rng = run.rng
    K, C = K19.K, K19.C
    cases = []
    while len(cases) < n:
        pool = {"i": K("i"), "j": K("i"), "s": K("b"), "b": K("B"), "fl": K("f"), "c": K("B"),
                "l": K("", C([["0", K("i")], ["1", K("i")]], K19.U_NONE)),
                "o": K("", None, C([[K19.hexs("a"), K("i")], [K19.hexs("p"), K("i")], [K19.hexs("q"), K("b")]], K19.U_NONE)),
                "m": K("iu"), "u": K("i", C([["0", K("i")]], K19.U_NONE))}
        names = [k for k in pool if rng.random() < 0.8]
        known = [[K19.hexs(k), pool[k]] for k in sorted(names, key=lambda s: s.encode())]
        ek = K("", None, C(known, rng.choice([K19.U_NONE, K19.U_NONE, K19.U_ANY])))
        g = UGen(rng, names + ["zz"] if names else ["zz"])
        try:
            ast = g.program()
            cv.vrl_program(ast)
        except ValueError:
            continue
        cases.append(make_case("unhandled", ast, event_for(rng, ek), jo([]), ek, None, names=["x", "y", "k", "v"]))
    return cases


# ------------------------------------------------------------------ the check driver shared by C01, C02, C12

CLASS = {}


def case_key(c):
    return c["src"] + "|" + json.dumps([c["event"], c.get("meta"), c.get("ekind"), c.get("mkind")], sort_keys=True)


def coq_map_n(prop, terms, fn, tag, shard=300):
    import concurrent.futures as cf
    import os
    import re
    d = os.path.join(vlib.CACHE, "cases", prop)
    os.makedirs(d, exist_ok=True)
    files = []
    for si, start in enumerate(range(0, len(terms), shard)):
        path = os.path.join(d, "%s_%04d.v" % (tag, si))
        with open(path, "w") as fh:
            fh.write((IMPORTS % prop) + "\nImport ListNotations.\nLocal Open Scope Z_scope.\n")
            fh.write("Definition the_cases := [\n  %s\n].\n" % ";\n  ".join(terms[start:start + shard]))
            fh.write("Eval vm_compute in (map %s the_cases).\n" % fn)
        files.append(path)
    res = []
    with cf.ThreadPoolExecutor(max_workers=vlib.NPROC) as ex:
        for path, (rc, out) in zip(files, ex.map(lambda p: vlib._coqc(p, 900), files)):
            m = re.search(r"=\s*\[(.*?)\]\s*:\s*list N", out, re.S)
            if rc != 0 or not m:
                raise RuntimeError("finding_class evaluation failed on %s: %s" % (path, out[-800:]))
            res += [int(x) for x in re.findall(r"\d+", m.group(1))]
    return res


def classify(prop, cases):
    import checklib
    todo = [c for c in cases if case_key(c) not in CLASS]
    if not todo:
        return
    outs = vlib.run_harness("typed", todo)
    idx = [i for i, o in enumerate(outs) if o.get("compile") == "ok" and not checklib.impl_failed(o)]
    terms = [to_coq(todo[i], outs[i]) for i in idx]
    cls = coq_map_n(prop, terms, "finding_class", "classes")
    for i, k in zip(idx, cls):
        CLASS[case_key(todo[i])] = k


def known_matcher_for(prop):
    def known_matcher(entry, case, out):
        if isinstance(out, dict) and any(k in out for k in ("panic", "crash", "timeout", "harness_error")):
            return False
        k = case_key(case)
        if k not in CLASS:
            classify(prop, [case])
        return CLASS.get(k, 0) == entry["match"]["class"]
    return known_matcher


def standard_main(run, args, prop, theorems, gen_cases, n_quick, n_thorough, nontrivial=None):
    import checklib
    n = args.cases or (n_quick if run.tier == "quick" else n_thorough)
    ok, out = vlib.build_coq(["Corr/%s.vo" % prop])
    if not ok:
        vlib.log(out[-3000:])
    stats = {}

    def gen(run_, n_):
        return gen_cases(run_, n_, stats)

    if not args.replay:
        vlib.build_harness("typed")
        st = run.rng.getstate()
        cases = [dict(c) for c in checklib.load_corpus(prop)] + gen(run, n)
        run.rng.setstate(st)
        stats.clear()
        classify(prop, cases)

    def cov(cases, outs):
        hist = {}
        for c in cases:
            k = CLASS.get(case_key(c))
            hist[str(k)] = hist.get(str(k), 0) + 1
        return {"programs_outside_known_classes": hist.get("0", 0), "finding_class_histogram": hist,
                "generator_stats": dict(stats)}
    return checklib.standard(run, prop, theorems, IMPORTS % prop, "typed", gen, to_coq, n,
                             nontrivial=nontrivial or (lambda c: True), replay=args.replay,
                             known_matcher=known_matcher_for(prop), extra_cov=cov)
