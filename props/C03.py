"""C03 — every stdlib function honours its declared signature."""
import json

import stdcommon as sc
import vlib
from vlib import coq_value, ji, js, jo, ja

ID = "C03"
THEOREMS = ["C03_modelled_functions_honour_signatures_partial", "C03_type_assertions_fail_exactly_on_wrong_type", "C03_example"]
MODELLED = ["string", "int", "bool", "array", "object", "is_null", "is_string", "length"]
IMPORTS = ("From Coq Require Import List ZArith NArith String.\nFrom VRL Require Import Base.Bytes Base.Value Base.Lit Model.Expr Model.EvalInst Model.StdSig Model.Fuel Corr.C03.\n"
           "Local Open Scope string_scope.")
MANIFEST = {
    "level": "exploration",
    "technique": "stdlib-wide differential sweep on the implementation (every function x examples + generated argument tuples: result vs declared type_def kind and return_kind, infallible typing vs runtime errors) + Coq theorems for the 8 modelled functions tied by correspondence",
    "text": "EXPLORATION with a small proved core. A machine-checked proof does not reach this property as a whole: it ranges over "
            "~200 Rust functions, each with its own type_def, and no Rust-to-Gallina translator exists here (DESIGN.md section 9). "
            "Proved (closed, Coq): the 8 closure-free functions that have a Gallina model honour their declared signatures for all "
            "arguments (result kind in return_kind, typed-infallible calls never fail, wrong kinds are errors); the model and its "
            "signature table are compared with the implementation on every run. For all 203 functions the check enumerates "
            "vrl::stdlib::all() at run time and calls each with its documented examples and generated argument tuples (every "
            "accepted kind per parameter, edge values, literal vs runtime-typed position, optional arguments), judging with a "
            "Rust-side membership function that the returned value is in the declared type_def kind and return_kind mask, that "
            "infallibly typed calls do not fail, and that wrong runtime types are errors.",
    "note": "Trusted: the harness's member() specification of kind membership, the Python generator; thread of evidence for the "
            "proved core: Coq kernel + vm_compute + correspondence. 30+ functions violate the property on the pinned tree "
            "(known_findings/C03.json, keyed by function and failure class).",
    "design_ref": "DESIGN.md section 5 C03",
}


def main(run, args):
    quick = run.tier == "quick"
    per_fn = 12 if quick else 60
    pl = vlib.proof_leg(ID, THEOREMS)
    for pr in pl["problems"]:
        vlib.log("proof-leg problem:", pr["kind"], pr["detail"][:400])
    if args.replay:
        r = json.load(open(args.replay))
        vlib.build_harness("stdfn")
        c = {"fn": r["function"], "plain": r["source"], "bang": None, "event": r["event"], "args": [], "origin": r.get("origin", "generated")}
        o = sc.run_calls([c], 5000)[0]
        v = [cls for p, cls in sc.classify(c, o) if p == ID]
        print(json.dumps({"impl": o, "violations": v}))
        if v:
            print("VIOLATION property=%s replay=%s" % (ID, args.replay))
        return 1 if v else 0
    fns, cases, outs, viol = sc.sweep(run, ID, per_fn, 3000)
    sc.report(run, ID, fns, cases, outs, viol)
    # ---- proved core tied to the code: signatures and behaviour of the modelled functions
    terms = []
    byname = {f["name"]: f for f in fns}
    for n in MODELLED:
        f = byname.get(n)
        if f is None or len(f["params"]) != 1:
            terms.append('CSig "%s" 0%%N 0%%N' % n)
        else:
            terms.append('CSig "%s" %d%%N %d%%N' % (n, f["params"][0]["kind"], f["return_kind"]))
    mcases = [{"op": "call", "src": ("%s!(.p0)" % n if n not in ("is_null", "is_string") else "%s(.p0)" % n).encode().hex(),
               "event": jo([("p0", v)]), "fn": n} for n in MODELLED for v in sc.ALLV if not (isinstance(v, dict) and "r" in v)]
    mouts = vlib.run_harness("stdfn", mcases)
    for c, o in zip(mcases, mouts):
        n = c["fn"]
        v = c["event"]["o"][0][1]
        if o.get("result") == "ok" and o.get("value") is not None or (o.get("result") == "ok" and o.get("out_size", 0) <= 4096):
            terms.append('CCall "%s" %s (Some %s)' % (n, coq_value(v), coq_value(o.get("value"))))
        elif o.get("result") == "error":
            terms.append('CCall "%s" %s None' % (n, coq_value(v)))
    bad, err = vlib.run_model_checks(ID, IMPORTS, terms, check="check", tag="sig")
    if (bad or err) and not run.violations:
        run.violation({"kind": "correspondence broken: the modelled functions / their declared signatures differ from the implementation",
                       "correspondence_suite": "C03/stdfn", "terms": [terms[b] for b in bad[:5]], "detail": err,
                       "theorems_about_model": THEOREMS}, nofail=True)
    if pl["problems"] and not any(not nf for _, nf in run.violations):
        run.violation({"kind": "proof obligation no longer checks", "theorems": THEOREMS, "problems": pl["problems"][:10]}, nofail=True)
    cov = sc.coverage(run, fns, cases, outs, viol, pl)
    cov.update({"checker_cmd": "make -C coq Properties/C03.vo + Print Assumptions + pinned statements (proved core only)",
                "trusted_base": ["harness member() (kind membership spec)", "Python generator", "Coq kernel + vm_compute for the proved core"],
                "modelled_function_cases": len(terms), "modelled_function_disagreements": len(bad),
                "known_finding_hits": sorted(run.known_hits)})
    return run.finish(cov)
