"""C12 — compile-time constant knowledge matches runtime values."""
import typedvrl as tv
import corevrl as cv
import C19 as K19
import vlib
from vlib import ji, js, jo, ja

ID = "C12"
THEOREMS = ['C12_const_sound', 'C12_const_expr_no_type_effect', 'C12_assign_constant_sound', 'C12_del_local_refuted', 'C12_path_assign_refuted', 'C12_closure_assign_refuted', 'C12_div_effect_refuted', 'C12_maybe_rhs_var_refuted', 'C12_err_partial_refuted', 'C12_nonvacuous', 'C12_straightline_consts_partial', 'C12_statement_consts_partial']
MANIFEST = {
    "level": "proof",
    "technique": "Coq proof on a hand model of Expression::resolve_constant / type_info (Model/TypeInfo.v) against the "
                 "Core-VRL evaluator + differential correspondence on compiled programs (final_type_info, runs)",
    "text": "Closed Coq theorems: (1) C12_const_sound - for EVERY expression, type state, run-time state, stdlib semantics and operator semantics: if resolve_constant returns c and the run-time variables hold the constants the type state records for them (consts_ok), evaluation returns exactly c and changes nothing; such an expression's type_info has no effect on the type state; (2) assigning a constant expression to a variable records c, stores c and keeps consts_ok; (3) consts_ok is preserved by every statement of the straight-line fragment (effect-free expressions, assignments to variables, event/metadata paths, and paths below variables with a non-constant right-hand side) and holds at the end of every such program on every conforming input. The model is a Gallina transcription of every Expression::type_info / resolve_constant impl of the Core-VRL constructs (Model/TypeInfo.v over the Kind model of C19) tied to the code by running each generated program through the compiler and runtime (harness `typed`: final_type_info kinds, fallibility, returns, run outcome, final event/metadata, Rust-side membership) and through type_info/eval in Coq. The invariant is FALSE in general on the unchanged tree - six ways the compiler's constant goes stale are refuted by vm_compute witnesses that also fail on the implementation: del(x.a) on a variable path (`x = {\"a\": 2}; del(x.a); 10 / x.a`), path assignment recording the rhs constant for the whole variable (`x = {}; x.b = 5; 10 / x`), assignments inside closures, Div dropping the rhs type effects, `||`/`??` merging rhs-only variables, `??`/`ok, err =` with a partially executed lhs.",
    "note": "Partial: invariant preservation is proved on the straight-line fragment only; if/else, short-circuit merges (Details::merge), closures and del are covered by correspondence + oracle search (a targeted generator assigns a constant, mutates the variable through each channel and takes a decision based on the constant) and are refuted where the code is wrong. Trusted: Coq kernel + vm_compute, the hand-written models tied by correspondence, the printer/AST codec, harness typed.rs, Python generator. No axioms.",
    "design_ref": "DESIGN.md section 5 C12",
}

f = tv.f
CONSTS = [jo([("a", ji(2))]), jo([("a", ji(0)), ("b", ji(3))]), ji(5), ji(0), ji(2), vlib.jf(2.0), vlib.jf(0.0), True, False, None,
          ja([ji(1), ji(2)]), js("s")]


def lit(v):
    return ("lit", v)


def gen_targeted(rng):
    """x = constant; mutate x through some channel; take a decision the compiler bases on x's constant"""
    c0 = rng.choice(CONSTS)
    c1 = rng.choice(CONSTS)
    prog = [("assign", ("tvar", "x", []), lit(c0))]
    cond = ("op", "eq", ("qext", "event", [f("c")]), lit(True))
    for _ in range(rng.choice([0, 1, 1, 1, 2])):
        m = rng.choice(["delvar", "delidx", "pathassign", "idxassign", "ifassign", "ifboth", "block", "closure_assign",
                        "closure_shadow", "inf_assign", "alias", "self", "reassign", "merge", "nested_assign", "div_effect"])
        if m == "delvar":
            prog.append(("delvar", "x", [f(rng.choice(["a", "b"]))], False))
        elif m == "delidx":
            prog.append(("delvar", "x", [{"i": str(rng.choice([0, 1, -1]))}], False))
        elif m == "pathassign":
            prog.append(("assign", ("tvar", "x", [f(rng.choice(["a", "b"]))]), lit(rng.choice(CONSTS)) if rng.random() < 0.7 else ("qext", "event", [f("i")])))
        elif m == "idxassign":
            prog.append(("assign", ("tvar", "x", [{"i": str(rng.choice([0, 1, 2]))}]), lit(rng.choice(CONSTS))))
        elif m == "ifassign":
            prog.append(("if", [cond], [("assign", ("tvar", "x", []), lit(c1))], None))
        elif m == "ifboth":
            prog.append(("if", [cond], [("assign", ("tvar", "x", []), lit(c1))], [("assign", ("tvar", "x", []), lit(rng.choice([c0, c1])))]))
        elif m == "block":
            prog.append(("block", [("assign", ("tvar", "x", []), lit(c1)), lit(None)]))
        elif m == "closure_assign":
            prog.append(("closure", "for_each", lit(ja([ji(1)])), ["k", "v"], [("assign", ("tvar", "x", []), lit(c1)), lit(None)]))
        elif m == "closure_shadow":
            prog.append(("closure", "for_each", lit(ja([ji(7)])), [rng.choice(["k", "x"]), rng.choice(["v", "x"])], [lit(None)]))
        elif m == "inf_assign":
            prog.append(("assigninf", ("tvar", "x", []), ("tvar", "err", []), ("call", "int", False, [("qext", "event", [f("zz")])]), ji(0)))
        elif m == "alias":
            prog.append(("assign", ("tvar", "y", []), ("var", "x")))
            prog.append(("assign", ("tvar", "y", [f("a")]), lit(ji(0))))
        elif m == "self":
            prog.append(("assign", ("tvar", "x", []), ("var", "x")))
        elif m == "reassign":
            prog.append(("assign", ("tvar", "x", []), lit(c1)))
        elif m == "merge":
            prog.append(("assign", ("tvar", "x", []), ("op", "merge", ("var", "x"), lit(jo([("a", ji(0))])))))
        elif m == "nested_assign":
            prog.append(("assign", ("tvar", "y", []), ("arr", [("assign", ("tvar", "x", []), lit(c1)), ("var", "x")])))
        elif m == "div_effect":
            prog.append(("assign", ("tvar", "y", []), ("op", "err", ("op", "div", lit(ji(1)), ("block", [("assign", ("tvar", "x", []), lit(c1)), lit(ji(2))])), lit(ji(0)))))
    u = rng.choice(["div", "divpath", "divf", "arith", "or", "and", "divy", "divarr"])
    if u == "div":
        prog.append(("op", "div", lit(ji(10)), ("var", "x")))
    elif u == "divpath":
        prog.append(("op", "div", lit(ji(10)), ("qvar", "x", [f(rng.choice(["a", "b"]))])))
    elif u == "divarr":
        prog.append(("op", "div", lit(ji(10)), ("qvar", "x", [{"i": str(rng.choice([0, 1, -1]))}])))
    elif u == "divf":
        prog.append(("op", "div", lit(vlib.jf(1.5)), ("var", "x")))
    elif u == "divy":
        prog.append(("op", "div", lit(ji(10)), ("var", "y")))
    elif u == "arith":
        prog.append(("op", "div", lit(ji(1)), ("op", rng.choice(["sub", "add", "mul"]), ("var", "x"), lit(ji(rng.choice([1, 2, 5]))))))
    elif u == "or":
        prog.append(("assign", ("tvar", "r", []), ("op", "or", ("var", "x"), lit(js("s")))))
        prog.append(("op", "add", ("var", "r"), lit(js("t"))))
    else:
        prog.append(("assign", ("tvar", "r", []), ("op", "and", ("var", "x"), lit(True))))
        prog.append(("not", ("var", "r")))
    return prog


def gen_cases(run, n, stats=None):
    rng = run.rng
    cands = []
    K, C = K19.K, K19.C
    ek = K("", None, C([[K19.hexs("c"), K("B")], [K19.hexs("i"), K("i")]], K19.U_ANY))
    for _ in range(int(n * 2.2)):
        try:
            ast = gen_targeted(rng)
            cv.vrl_program(ast)
        except ValueError:
            continue
        ev = jo([("c", rng.random() < 0.5), ("i", ji(rng.choice([0, 1, 7])))])
        cands.append(tv.make_case("constants", ast, ev, jo([]), ek, None, names=["x", "y", "r", "err", "k", "v"]))
    cands += tv.gen_unhandled(run, n)
    kept = tv.keep_compiled(cands, stats)
    return kept[:n]


def main(run, args):
    return tv.standard_main(run, args, ID, THEOREMS, gen_cases, 1500, 25000)
