"""C06 — `return` always ends the program (or the closure iteration) with its value."""
import corevrl as cv
from corevrl import lit, ev_field, set_field, mark, f
from vlib import ji, js, jo, ja

ID = "C06"
THEOREMS = ["C06_return_ends_program", "C06_return_crosses_every_context", "C06_return_ends_iteration_one_param",
            "C06_return_ends_iteration_two_params", "C06_return_never_escapes_closure_call", "C06_example"]
MANIFEST = {
    "level": "proof",
    "technique": "Coq proof by induction over evaluation contexts on a hand model of Expression::resolve + differential correspondence on compiled VRL programs",
    "text": "Closed Coq theorems, for every function/operator semantics: a return at the hole of any evaluation context "
            "(23 context constructors: ?? both sides, ok/err assignment, call arguments, arrays, objects, if predicate/branches, "
            "operators, blocks, queries, closure arguments) ends the program with e's value in exactly the state reached at "
            "that point; inside a closure body it ends only the iteration (both runners, hence every closure function and "
            "both collection kinds) and never escapes the call. Tied to the code by compiling generated VRL source with the "
            "real compiler, running Runtime::resolve and comparing result/event/metadata/variables with the model.",
    "note": "Trusted: Coq kernel + vm_compute; the hand model Model/Eval.v mirrors the Rust AFTER the fix: commits listed in "
            "known_findings/C06.json (tie = correspondence); for_each/filter/map_keys/map_values modelled non-recursive; "
            "replace_with not modelled (oracle only). No axioms.",
    "design_ref": "DESIGN.md section 5 C06",
}

RETS = [ji(424242), js("ret-val"), ja([ji(1), js("x")]), None, False]


def gen_targeted(run, n):
    rng = run.rng
    cases = []
    for _ in range(n):
        b = cv.CtxBuilder(rng)
        if rng.random() < 0.6:
            rv = rng.choice(RETS)
            R = lit(rv) if rng.random() < 0.7 else ev_field("ret")

            def hole(kind, R=R):
                tail = ev_field("i") if kind == "inf" else cv.TAILS[kind]
                return ("block", [mark("reached"), ("if", [("op", "eq", ev_field("go"), lit(True))], [("return", R)], None), tail])
            e, kind, names = b.build(hole, rng.randint(1, 4))
            prog = [mark("pre_top"), cv.finish_stmt(e, kind), mark("post_top"), lit(ji(1))]
            event = jo(cv.BASE_EVENT + [("ret", rv)])
            cases.append({"kind": "targeted", "ast": prog, "event": event, "meta": jo([]), "vars": ["r", "ok1", "err1", "tmpv", "cv"],
                          "expect": {"what": "program", "ret": rv, "ctx": names}, "meta_info": {"ctx": names}})
        else:
            cases.append(closure_case(rng, b))
    for c in cases:
        c["meta"] = c.get("meta", jo([]))
    return cases


def closure_case(rng, b):
    fn = rng.choice(["map_values_obj", "map_values_arr", "map_keys", "filter_obj", "filter_arr", "for_each_obj", "for_each_arr"])
    vals = [rng.randint(1, 4) for _ in range(rng.randint(1, 4))]
    trig = rng.choice(vals + [9])
    keys = ["a", "b", "c", "d"][:len(vals)]
    obj = lit(jo([(k, ji(v)) for k, v in zip(keys, vals)]))
    arr = lit(ja([ji(v) for v in vals]))
    nest = rng.random() < 0.4      # the return sits under ?? inside the body

    def ret_if(cond, R):
        stmt = ("if", [cond], [("return", R)], None)
        if nest:
            return ("assign", ("tvar", "tmpv", []), ("op", "err", ("block", [stmt, ("call", "int", False, [ev_field("s")])]), lit(ji(0))))
        return stmt
    exp = {"what": fn, "ctx": [fn] + (["errL"] if nest else [])}
    if fn.startswith("map_values"):
        body = [ret_if(("op", "eq", ("var", "v"), lit(ji(trig))), lit(ji(100))), mark("post_in_iter_" + "x"), ("var", "v")]
        # the marker after the return site inside the body still runs in OTHER iterations; not judged
        body = [body[0], body[2]]
        call = ("closure", "map_values", obj if fn.endswith("obj") else arr, ["v"], body)
        res = [100 if v == trig else v for v in vals]
        exp["result"] = jo([(k, ji(x)) for k, x in zip(keys, res)]) if fn.endswith("obj") else ja([ji(x) for x in res])
    elif fn == "map_keys":
        tk = rng.choice(keys + ["zz"])
        body = [ret_if(("op", "eq", ("var", "k"), lit(js(tk))), lit(js("renamed"))), ("var", "k")]
        call = ("closure", "map_keys", obj, ["k"], body)
        exp["result"] = jo([("renamed" if k == tk else k, ji(v)) for k, v in zip(keys, vals)])
    elif fn.startswith("filter"):
        rb, db = rng.choice([True, False]), rng.choice([True, False])
        body = [ret_if(("op", "eq", ("var", "v"), lit(ji(trig))), lit(rb)), lit(db)]
        call = ("closure", "filter", obj if fn.endswith("obj") else arr, ["k", "v"], body)
        keep = [(k, v) for k, v in zip(keys, vals) if (rb if v == trig else db)]
        exp["result"] = jo([(k, ji(v)) for k, v in keep]) if fn.endswith("obj") else ja([ji(v) for _, v in keep])
    else:
        inc = set_field("cnt", ("op", "add", ("op", "err", ("call", "int", False, [ev_field("cnt")]), lit(ji(0))), lit(ji(1))))
        body = [ret_if(("op", "eq", ("var", "v"), lit(ji(trig))), lit(None)), inc]
        call = ("closure", "for_each", obj if fn.endswith("obj") else arr, ["k", "v"], body)
        exp["result"] = None
        exp["cnt"] = len([v for v in vals if v != trig])
    prog = [("assign", ("tvar", "r", []), call), mark("after_call"), ("var", "r")]
    return {"kind": "targeted", "ast": prog, "event": jo(cv.BASE_EVENT), "meta": jo([]), "vars": ["r", "k", "v", "tmpv"],
            "expect": exp, "meta_info": {"ctx": exp["ctx"]}}


def oracle(case, out):
    exp = case["expect"]
    res = out["result"]
    if exp["what"] == "program":
        if res != {"ok": exp["ret"]}:
            return "program did not end with the returned value: expected ok(%r), got %r" % (exp["ret"], res)
        if not cv.event_has(out, "reached") or not cv.event_has(out, "pre_top"):
            return "effects before the return point are missing from the final event"
        late = [k for k in cv.event_keys(out) if k.startswith("post")]
        if late:
            return "expressions after the return point ran: markers %r" % late
        if out["vars"].get("r") != "none":
            return "the assignment enclosing the return was performed"
        return None
    if res != {"ok": exp["result"]}:
        return "closure call result differs: expected %r got %r" % (exp["result"], res)
    if not cv.event_has(out, "after_call"):
        return "the program did not continue after the closure call"
    if "cnt" in exp:
        got = cv.event_get(out, "cnt")
        want = ji(exp["cnt"]) if exp["cnt"] else "absent"
        if got != want:
            return "for_each: iterations after/besides the returning one miscounted: expected %r got %r" % (want, got)
    return None


def main(run, args):
    return cv.standard_main(run, ID, THEOREMS, MANIFEST, gen_targeted, oracle, args)
