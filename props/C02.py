"""C02 — accepted programs without `!` or `abort` never fail at runtime."""
import typedvrl as tv
import corevrl as cv
from vlib import ji, js, jo, jf

ID = "C02"
THEOREMS = ['C02_or_undefined_refuted', 'C02_insert_coerce_refuted', 'C02_remove_shift_refuted', 'C02_closure_effect_refuted', 'C02_and_true_rhs_refuted', 'C02_div_lhs_fallible_refuted', 'C02_nan_exception_typed', 'C02_statement_never_errors_partial', 'C02_straightline_never_fails_partial']
MANIFEST = {
    "level": "proof",
    "technique": "Coq proof on a hand model of Expression::type_info (Model/TypeInfo.v) against the Core-VRL evaluator + "
                 "differential correspondence on compiled programs (final_type_info, runs)",
    "text": "Closed Coq theorems: a statement of the straight-line fragment (effect-free expressions - literals, variables, queries, arrays, objects, ==, !=, ! on a boolean-typed operand, exists - and their assignments to variables, paths below known variables and event/metadata paths), evaluated in any run-time state conforming to the compiler's type state, never ends in an error, abort, return or panic (for every function table), and every straight-line program of such statements succeeds on every conforming event and metadata. The NaN exception is modelled (constant float arithmetic producing NaN is typed fallible) and exhibited. The model is a Gallina transcription of every Expression::type_info / resolve_constant impl of the Core-VRL constructs (Model/TypeInfo.v over the Kind model of C19) tied to the code by running each generated program through the compiler and runtime (harness `typed`: final_type_info kinds, fallibility, returns, run outcome, final event/metadata, Rust-side membership) and through type_info/eval in Coq. The oracle - a program reported non-fallible run on a conforming input must succeed, NaN excepted - runs on every generated program, including if/else, short-circuit and arithmetic operators, ??, ok/err assignment, blocks, closures, del and typed stdlib calls with and without `!`. On the unchanged tree the property is FALSE: programs such as `.a = 1; x = (.a.q || \"s\"); x && true`, `.x = [1,\"a\",true,7]; del(.x[0]); .x[3] + 1` or `.a = 1; for_each([1]) -> |k,v| { .a = \"s\"; null }; .a + 1` compile as infallible and fail at runtime (refuted theorems + known findings).",
    "note": "Partial: the never-fails theorem covers the straight-line fragment only; operators that can fail (arithmetic, !, function calls under a conformance hypothesis fn_sound F T) are NOT proved - they are covered by correspondence + oracle search. Hypothesis of the generic theorem: == and != return booleans (discharged for the instantiated table). Trusted: Coq kernel + vm_compute, the hand-written models tied by correspondence, the printer/AST codec, harness typed.rs, Python generator. No axioms.",
    "design_ref": "DESIGN.md section 5 C02",
}


f = tv.f
PAIRS = [(ji(0), ji(2)), (ji(2), ji(0)), (ji(5), ji(0)), (True, False), (False, True), (jf(0.0), jf(2.0)), (jf(2.0), jf(0.0)),
         (ji(3), ji(3)), (True, True)]


def lit(v):
    return ("lit", v)


def same_kind_reassign(rng, demo=None):
    """x = literal; on one path of an if / if-else / block x gets another literal OF THE SAME KIND; then a decision
    the compiler may only take when it still knows x's value (constant divisor, `&&` / `||` with a constant
    left operand).  The clean compiler rejects most of these (unhandled fallible expression) and they are
    dropped; a compiler that keeps a stale literal accepts them and the run fails on the other path."""
    c0, c1 = rng.choice(PAIRS)
    x = rng.choice(["x", "ok"])
    asg = lambda v: ("assign", ("tvar", x, []), lit(v))
    cond = ("op", "eq", ("qext", "event", [f("c")]), lit(rng.choice([True, ji(1)])))
    ch = rng.choice(["if", "if", "ifelse", "ifelse_same", "block", "nested"])
    prog = [asg(c0)]
    if ch == "if":
        prog.append(("if", [cond], [asg(c1)], None))
    elif ch == "ifelse":
        prog.append(("if", [cond], [asg(c1)], [asg(c0)]))
    elif ch == "ifelse_same":
        prog.append(("if", [cond], [asg(c0)], [asg(c1)]))
    elif ch == "block":
        prog.append(("block", [asg(c1), lit(None)]))
    else:
        prog.append(("if", [cond], [("block", [asg(c1), lit(None)])], None))
    isbool = isinstance(c0, bool)
    u = rng.choice(["and", "or", "andr"]) if isbool else rng.choice(["div", "divr", "divf"])
    if u == "div":
        prog.append(("op", "div", lit(ji(10)), ("var", x)))
    elif u == "divr":
        prog.append(("assign", ("text", "event", [f("r")]), ("op", "div", lit(ji(10)), ("var", x))))
    elif u == "divf":
        prog.append(("op", "div", lit(jf(1.5)), ("var", x)))
    elif u == "and":
        prog.append(("assign", ("text", "event", [f("r")]), ("op", "and", ("var", x), lit(ji(5)))))
    elif u == "andr":
        prog.append(("assign", ("tvar", "r", []), ("op", "and", ("var", x), lit(js("s")))))
        prog.append(("not", ("var", "r")))
    else:
        prog.append(("assign", ("tvar", "r", []), ("op", "or", ("var", x), lit(js("fallback")))))
        prog.append(("not", ("var", "r")))
    return prog


def demo_programs():
    """the shapes of seeded/C02-a and seeded/C12-a, verbatim"""
    eqa = ("op", "eq", ("qext", "event", [f("c")]), lit(ji(1)))
    flag = ("op", "eq", ("qext", "event", [f("c")]), lit(True))
    ax = lambda v: ("assign", ("tvar", "x", []), lit(v))
    aok = lambda v: ("assign", ("tvar", "ok", []), lit(v))
    return [
        [ax(ji(0)), ("if", [eqa], [ax(ji(2))], None), ("assign", ("text", "event", [f("r")]), ("op", "div", lit(ji(10)), ("var", "x")))],
        [ax(True), ("if", [eqa], [ax(False)], None), ("assign", ("text", "event", [f("r")]), ("op", "and", ("var", "x"), lit(ji(5))))],
        [ax(ji(2)), ("if", [flag], [ax(ji(0))], None), ("assign", ("text", "event", [f("y")]), ("op", "div", lit(ji(10)), ("var", "x")))],
        [aok(True), ("if", [flag], [aok(False)], None), ("assign", ("tvar", "r", []), ("op", "or", ("var", "ok"), lit(js("fallback")))),
         ("if", [("var", "r")], [lit(ji(1))], None)],
    ]


def targeted_cases(run, n):
    rng = run.rng
    names = ["x", "ok", "r", "y", "k", "v"]
    evs = [jo([("c", True)]), jo([("c", ji(1))]), jo([("c", ji(2))]), jo([("c", False)]), jo([])]
    cands = [tv.make_case("same_kind_reassign", p, ev, jo([]), None, None, names=names) for p in demo_programs() for ev in evs[:4]]
    for _ in range(n):
        try:
            ast = same_kind_reassign(rng)
            cv.vrl_program(ast)
        except ValueError:
            continue
        cands.append(tv.make_case("same_kind_reassign", ast, rng.choice(evs), jo([]), None, None, names=names))
    return cands


def gen_cases(run, n, stats=None):
    cands = targeted_cases(run, int(n * 0.5)) + tv.gen_unhandled(run, int(n * 4)) + tv.gen_random(run, int(n * 0.7), bang=False)
    kept = tv.keep_compiled(cands, stats)
    # the targeted shapes that the compiler accepts are few on the unchanged tree: keep them all
    first = [c for c in kept if c["op"] == "same_kind_reassign"]
    rest = [c for c in kept if c["op"] != "same_kind_reassign"]
    run.rng.shuffle(rest)
    return (first + rest)[:n]


def main(run, args):
    return tv.standard_main(run, args, ID, THEOREMS, gen_cases, 1500, 25000)
