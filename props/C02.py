"""C02 — accepted programs without `!` or `abort` never fail at runtime."""
import typedvrl as tv

ID = "C02"
THEOREMS = ['C02_or_undefined_refuted', 'C02_insert_coerce_refuted', 'C02_remove_shift_refuted', 'C02_closure_effect_refuted', 'C02_and_true_rhs_refuted', 'C02_div_lhs_fallible_refuted', 'C02_nan_exception_typed', 'C02_statement_never_errors_partial', 'C02_straightline_never_fails_partial']
MANIFEST = {
    "level": "proof",
    "technique": "Coq proof on a hand model of Expression::type_info (Model/TypeInfo.v) against the Core-VRL evaluator + "
                 "differential correspondence on compiled programs (final_type_info, runs)",
    "text": "Closed Coq theorems: a statement of the straight-line fragment (effect-free expressions - literals, variables, queries, arrays, objects, ==, !=, ! on a boolean-typed operand, exists - and their assignments to variables, paths below known variables and event/metadata paths), evaluated in any run-time state conforming to the compiler's type state, never ends in an error, abort, return or panic (for every function table), and every straight-line program of such statements succeeds on every conforming event and metadata. The NaN exception is modelled (constant float arithmetic producing NaN is typed fallible) and exhibited. The model is a Gallina transcription of every Expression::type_info / resolve_constant impl of the Core-VRL constructs (Model/TypeInfo.v over the Kind model of C19) tied to the code by running each generated program through the compiler and runtime (harness `typed`: final_type_info kinds, fallibility, returns, run outcome, final event/metadata, Rust-side membership) and through type_info/eval in Coq. The oracle - a program reported non-fallible run on a conforming input must succeed, NaN excepted - runs on every generated program, including if/else, short-circuit and arithmetic operators, ??, ok/err assignment, blocks, closures, del and typed stdlib calls with and without `!`. On the unchanged tree the property is FALSE: programs such as `.a = 1; x = (.a.q || \"s\"); x && true`, `.x = [1,\"a\",true,7]; del(.x[0]); .x[3] + 1` or `.a = 1; for_each([1]) -> |k,v| { .a = \"s\"; null }; .a + 1` compile as infallible and fail at runtime (refuted theorems + known findings).",
    "note": "Partial: the never-fails theorem covers the straight-line fragment only; operators that can fail (arithmetic, !, function calls under a conformance hypothesis fn_sound F T) are NOT proved - they are covered by correspondence + oracle search. Hypothesis of the generic theorem: == and != return booleans (discharged for the instantiated table). Trusted: Coq kernel + vm_compute, the hand-written models tied by correspondence, the printer/AST codec, harness typed.rs, Python generator. No axioms.",
    "design_ref": "DESIGN.md section 5 C02",
}


def gen_cases(run, n, stats=None):
    cands = tv.gen_unhandled(run, int(n * 4)) + tv.gen_random(run, int(n * 0.7), bang=False)
    kept = tv.keep_compiled(cands, stats)
    run.rng.shuffle(kept)
    return kept[:n]


def main(run, args):
    return tv.standard_main(run, args, ID, THEOREMS, gen_cases, 1500, 25000)
