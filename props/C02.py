"""C02 — accepted programs without `!` or `abort` never fail at runtime."""
import typedvrl as tv

ID = "C02"
THEOREMS = ['C02_or_undefined_refuted', 'C02_insert_coerce_refuted', 'C02_remove_shift_refuted', 'C02_closure_effect_refuted', 'C02_nan_exception_typed']
MANIFEST = {
    "level": "proof",
    "technique": "Coq proof on a hand model of Expression::type_info (Model/TypeInfo.v) against the Core-VRL evaluator + "
                 "differential correspondence on compiled programs (final_type_info, runs)",
    "text": "",
    "note": "",
    "design_ref": "DESIGN.md section 5 C02",
}


def gen_cases(run, n, stats=None):
    cands = tv.gen_unhandled(run, int(n * 4)) + tv.gen_random(run, int(n * 0.7), bang=False)
    kept = tv.keep_compiled(cands, stats)
    run.rng.shuffle(kept)
    return kept[:n]


def main(run, args):
    return tv.standard_main(run, args, ID, THEOREMS, gen_cases, 1500, 25000)
