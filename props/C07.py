"""C07 — `abort` terminates the program and cannot be intercepted."""
import corevrl as cv
from corevrl import lit, ev_field, set_field, mark
from vlib import ji, js, jo, ja

ID = "C07"
THEOREMS = ["C07_abort_ends_program", "C07_abort_crosses_every_context", "C07_abort_in_iteration_one_param",
            "C07_abort_in_iteration_two_params", "C07_loop_stops_at_first_failure", "C07_example"]
MANIFEST = {
    "level": "proof",
    "technique": "Coq proof by induction over evaluation contexts on a hand model of Expression::resolve + differential correspondence on compiled VRL programs",
    "text": "Closed Coq theorems, for every function/operator semantics: an abort (with or without message) at the hole of "
            "any evaluation context ends the program with the Abort outcome carrying that message in exactly the state "
            "reached at that point; ??, ok/err assignment and all other contexts let it through; in closures the aborting "
            "iteration yields Abort and the iteration loop of every closure function stops there. Tied to the code by "
            "compiling generated VRL source and comparing Runtime::resolve's outcome, event, metadata and variables with the model.",
    "note": "Trusted: Coq kernel + vm_compute; hand model Model/Eval.v (mirrors the Rust after the fix: commits in "
            "known_findings/C07.json; tie = correspondence); abort messages are valid UTF-8 in generated programs. No axioms.",
    "design_ref": "DESIGN.md section 5 C07",
}
MSGS = ["boom", "", "m é", None]


def gen_targeted(run, n):
    rng = run.rng
    cases = []
    for _ in range(n):
        b = cv.CtxBuilder(rng)
        msg = rng.choice(MSGS)
        ab = ("abort", None if msg is None else (lit(js(msg)) if rng.random() < 0.7 else ev_field("msg")))
        if rng.random() < 0.65:
            def hole(kind, ab=ab):
                tail = ev_field("i") if kind == "inf" else cv.TAILS[kind]
                return ("block", [mark("reached"), ("if", [("op", "eq", ev_field("go"), lit(True))], [ab], None), tail])
            e, kind, names = b.build(hole, rng.randint(1, 4))
            prog = [mark("pre_top"), cv.finish_stmt(e, kind), mark("post_top"), lit(ji(1))]
        else:
            # abort inside a closure body, at iteration k
            vals = [rng.randint(1, 4) for _ in range(rng.randint(1, 4))]
            trig = rng.choice(vals)
            coll = lit(jo([(k, ji(v)) for k, v in zip("abcd", vals)])) if rng.random() < 0.5 else lit(ja([ji(v) for v in vals]))
            fn = rng.choice(["map_values", "for_each", "filter"])
            stmt = ("if", [("op", "eq", ("var", "v"), lit(ji(trig)))], [ab], None)
            last = {"map_values": ("var", "v"), "for_each": lit(None), "filter": lit(True)}[fn]
            params = ["v"] if fn == "map_values" else ["k", "v"]
            call = ("closure", fn, coll, params, [mark("reached"), stmt, last])
            if rng.random() < 0.5:
                call = ("op", "err", ("block", [call, ("call", "int", False, [ev_field("s")])]), lit(ji(0)))
            prog = [mark("pre_top"), ("assign", ("tvar", "r", []), call), mark("post_top"), lit(ji(1))]
            names = ["closure:" + fn]
        ev = cv.BASE_EVENT + ([("msg", js(msg))] if msg is not None else [("msg", js("x"))])
        want = None if msg is None else (msg if ab[1] is None or ab[1][0] == "lit" else msg)
        cases.append({"kind": "targeted", "ast": prog, "event": jo(ev), "meta": jo([]), "vars": ["r", "ok1", "err1", "tmpv", "cv", "k", "v"],
                      "expect": {"msg": None if want is None else want.encode().hex()}, "meta_info": {"ctx": names}})
    return cases


def oracle(case, out):
    res = out["result"]
    if res != {"abort": case["expect"]["msg"]}:
        return "program did not end with the abort outcome/message: expected abort(%r), got %r" % (case["expect"]["msg"], res)
    if not cv.event_has(out, "reached") or not cv.event_has(out, "pre_top"):
        return "effects before the abort point are missing from the final event"
    late = [k for k in cv.event_keys(out) if k.startswith("post")]
    if late:
        return "expressions after the abort point ran: markers %r" % late
    if out["vars"].get("r") != "none":
        return "the assignment enclosing the abort was performed"
    return None


def main(run, args):
    return cv.standard_main(run, ID, THEOREMS, MANIFEST, gen_targeted, oracle, args)
