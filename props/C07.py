"""C07 — `abort` terminates the program and cannot be intercepted."""
import corevrl as cv
from corevrl import lit, ev_field, set_field, mark
from vlib import ji, js, jo, ja

ID = "C07"
THEOREMS = ["C07_abort_ends_program", "C07_abort_crosses_every_context", "C07_abort_in_iteration_one_param",
            "C07_abort_in_iteration_two_params", "C07_loop_stops_at_first_failure", "C07_example"]
MANIFEST = {
    "level": "proof",
    "technique": "Coq proof by induction over evaluation contexts on a hand model of Expression::resolve + differential correspondence on compiled VRL programs",
    "text": "Closed Coq theorems, for every function/operator semantics: an abort (with or without message) at the hole of "
            "any evaluation context ends the program with the Abort outcome carrying that message in exactly the state "
            "reached at that point; ??, ok/err assignment and all other contexts let it through; in closures the aborting "
            "iteration yields Abort and the iteration loop of every closure function stops there. Tied to the code by "
            "compiling generated VRL source and comparing Runtime::resolve's outcome, event, metadata and variables with the model.",
    "note": "Trusted: Coq kernel + vm_compute; hand model Model/Eval.v (mirrors the Rust after the fix: commits in "
            "known_findings/C07.json; tie = correspondence); the conversion of the message bytes to a string (from_utf8_lossy) is applied in the correspondence glue (Model/CodecUtf8.v). No axioms.",
    "design_ref": "DESIGN.md section 5 C07",
}
MSGS = [b"boom", b"", "m \u00e9".encode(), None, b"bad \xff byte", b"a\xc3(", b"\xe2\x82", b"\xf0\x9f\x98\x80 ok"]


def valid_utf8(b):
    try:
        b.decode()
        return True
    except UnicodeDecodeError:
        return False


def gen_targeted(run, n):
    rng = run.rng
    cases = []
    for _ in range(n):
        b = cv.CtxBuilder(rng)
        msg = rng.choice(MSGS)
        # the message is a literal, or a run-time string taken from the event (the only way to get bytes that are not
        # valid UTF-8 into it; Abort::resolve converts the message with String::from_utf8_lossy)
        if msg is None:
            ab = ("abort", None)
        elif valid_utf8(msg) and rng.random() < 0.6:
            ab = ("abort", lit(js(msg.decode())))
        elif rng.random() < 0.5:
            ab = ("abort", ("call", "string", True, [ev_field("msg")]))
        else:
            ab = ("block", [("assign", ("tvar", "mv", []), ("call", "string", True, [ev_field("msg")])), ("abort", ("var", "mv"))])
        if rng.random() < 0.65:
            def hole(kind, ab=ab):
                tail = ev_field("i") if kind == "inf" else cv.TAILS[kind]
                return ("block", [mark("reached"), ("if", [("op", "eq", ev_field("go"), lit(True))], [ab], None), tail])
            e, kind, names = b.build(hole, rng.randint(1, 4))
            prog = [mark("pre_top"), cv.finish_stmt(e, kind), mark("post_top"), lit(ji(1))]
        else:
            # abort inside a closure body, at iteration k
            vals = [rng.randint(1, 4) for _ in range(rng.randint(1, 4))]
            trig = rng.choice(vals)
            coll = lit(jo([(k, ji(v)) for k, v in zip("abcd", vals)])) if rng.random() < 0.5 else lit(ja([ji(v) for v in vals]))
            fn = rng.choice(["map_values", "for_each", "filter"])
            stmt = ("if", [("op", "eq", ("var", "v"), lit(ji(trig)))], [ab], None)
            last = {"map_values": ("var", "v"), "for_each": lit(None), "filter": lit(True)}[fn]
            params = ["v"] if fn == "map_values" else ["k", "v"]
            call = ("closure", fn, coll, params, [mark("reached"), stmt, last])
            if rng.random() < 0.5:
                call = ("op", "err", ("block", [call, ("call", "int", False, [ev_field("s")])]), lit(ji(0)))
            prog = [mark("pre_top"), ("assign", ("tvar", "r", []), call), mark("post_top"), lit(ji(1))]
            names = ["closure:" + fn]
        ev = cv.BASE_EVENT + [("msg", {"b": (msg if msg is not None else b"x").hex()})]
        want = None if msg is None else msg.decode("utf-8", errors="replace").encode().hex()
        cases.append({"kind": "targeted", "ast": prog, "event": jo(ev), "meta": jo([]), "vars": ["r", "ok1", "err1", "tmpv", "cv", "k", "v", "mv"],
                      "expect": {"msg": want}, "meta_info": {"ctx": names + ["msg:" + ("none" if msg is None else "utf8" if valid_utf8(msg) else "non-utf8")]}})
    return cases


def oracle(case, out):
    res = out["result"]
    if res != {"abort": case["expect"]["msg"]}:
        return "program did not end with the abort outcome/message: expected abort(%r), got %r" % (case["expect"]["msg"], res)
    if not cv.event_has(out, "reached") or not cv.event_has(out, "pre_top"):
        return "effects before the abort point are missing from the final event"
    late = [k for k in cv.event_keys(out) if k.startswith("post")]
    if late:
        return "expressions after the abort point ran: markers %r" % late
    if out["vars"].get("r") != "none":
        return "the assignment enclosing the abort was performed"
    return None


def main(run, args):
    return cv.standard_main(run, ID, THEOREMS, MANIFEST, gen_targeted, oracle, args)
