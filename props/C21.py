"""C21 — JSON encoding round-trips (encode_json / parse_json / Value's serde impls)."""
import json
import struct

import vlib
from vlib import coq_value, coq_z, coq_bool, jb, js, ji, jf_bits, jts, jo, ja
import gen

ID = "C21"
THEOREMS = ["C21_string_roundtrip", "C21_bytes_roundtrip", "C21_int_roundtrip", "C21_roundtrip",
            "C21_roundtrip_floats", "C21_float_free_close_eq", "C21_utf8_lossy_id",
            "C21_roundtrip_floats_nonvacuous", "C21_depth_refuted", "C21_float_2ulp_refuted",
            "C21_duplicate_keys_last_wins"]
IMPORTS = ("From Coq Require Import List NArith ZArith String.\nFrom Coq Require Import Floats.SpecFloat.\n"
           "From VRL Require Import Base.Bytes Base.Value Base.Lit Model.Json Corr.C21.\nLocal Open Scope string_scope.")
MANIFEST = {
    "level": "proof",
    "technique": "Coq proof (structural induction over values; induction over the digit/escape loops) on a hand model of "
                 "serde_json's printer and parser as driven by Value's Serialize/Deserialize + differential correspondence "
                 "vs encode_json / parse_json / serde_json::{to_string,from_str}",
    "text": "Closed Coq theorems: every UTF-8 string (controls, quotes, backslashes, U+2028, astral) and every i64 is read "
            "back exactly; every float-free JSON-representable value of nesting depth < 128 is read back exactly from "
            "its compact and its pretty text, through the lossy-UTF-8 and BOM-stripping steps of parse_json; with floats "
            "the result is equal up to one ulp per float provided each float's printed text satisfies the decidable "
            "predicate float_text_ok (ASCII number token that serde_json's float arithmetic, modelled exactly on "
            "SpecFloat, reads back within one ulp). The model is tied to the code by running encode_json (both modes), "
            "parse_json (lossy and strict) and serde_json::to_string/from_str on generated values and on valid and "
            "mutated JSON texts and comparing texts byte for byte and parsed values bit for bit.",
    "note": "Partial on floats: float printing (zmij shortest representation) is a Section variable fmt_f64; the theorem "
            "assumes float_text_ok (fmt_f64 f) f for the floats of the value, the correspondence run evaluates the same "
            "predicate on the texts the implementation prints. Two recorded findings: nesting depth >= 128 is rejected "
            "by serde_json's recursion limit (C21_depth_refuted), and without the float_roundtrip feature some floats "
            "come back 2 ulp away (C21_float_2ulp_refuted). Trusted: Coq kernel + vm_compute, the hand-written model "
            "Model/Json.v (tied by correspondence only), harness JSON codec, Python generator. No axioms.",
    "design_ref": "DESIGN.md section 5 C21",
}

# ------------------------------------------------------------------------------------------------
# generators
# ------------------------------------------------------------------------------------------------

CP_POOL = (list(range(0x00, 0x20)) + [0x22, 0x5C, 0x2F, 0x7F, 0x80, 0xE9, 0x7FF, 0x800, 0x2028, 0x2029, 0xFEFF, 0xFFFD,
                                       0xFFFF, 0xD7FF, 0xE000, 0x10000, 0x1F600, 0x10FFFF, 0x20, 0x75, 0x6E, 0x30, 0x41,
                                       0x61, 0x7A, 0x3A, 0x2C, 0x5B, 0x7B, 0x7D, 0x5D])

FLOAT_EDGE = [0x444b1ae4d6e2ef50,  # 1e21 (first exponent form)
              0x444b1ae4d6e2ef4f, 0x444b1ae4d6e2ef51, 0x3eb0c6f7a0b5ed8d,  # 1e-6
              0x3e7ad7f29abcaf48,  # 1e-7
              0x3ee4f8b588e368f1,  # 1e-5
              0x4341c37937e08000,  # 1e16
              0x4330000000000000, 0x433fffffffffffff, 0x7fefffffffffffff, 0x0000000000000001, 0x0010000000000000,
              0x000fffffffffffff, 0x3ff0000000000000, 0x3fb999999999999a, 0x3fd3333333333333, 0x4059000000000000,
              0x8000000000000000, 0x0000000000000000, 0xbff0000000000000, 0x43e0000000000000, 0x43f0000000000000,
              0xc3e0000000000001, 0x3770000000000000, 0xb770000000000000, 0x1bcffffffffffffe, 0x7e3ffffffffffffe,
              0x651faaa814d10597, 0x40c81c8000000000]


def rand_cp(rng):
    r = rng.random()
    if r < 0.55:
        return rng.choice(CP_POOL)
    if r < 0.8:
        return rng.randint(0x20, 0x7E)
    if r < 0.9:
        c = rng.randint(0x80, 0xFFFF)
    else:
        c = rng.randint(0x10000, 0x10FFFF)
    return 0xFFFD if 0xD800 <= c <= 0xDFFF else c


def rand_str(rng):
    r = rng.random()
    n = 0 if r < 0.1 else rng.randint(1, 3) if r < 0.6 else rng.randint(4, 12) if r < 0.93 else rng.randint(40, 300)
    return "".join(chr(rand_cp(rng)) for _ in range(n))


def rand_fbits(rng):
    while True:
        b = rng.choice(FLOAT_EDGE) if rng.random() < 0.3 else gen.rand_float_bits(rng)
        if (b >> 52) & 0x7ff != 0x7ff:
            return b


def rand_jscalar(rng):
    r = rng.random()
    if r < 0.25:
        return ji(gen.clamp_i64(gen.rand_int(rng)))
    if r < 0.5:
        return jf_bits(rand_fbits(rng))
    if r < 0.8:
        return js(rand_str(rng))
    if r < 0.9:
        return rng.choice([True, False])
    return None


def rand_jvalue(rng, depth):
    r = rng.random()
    if depth <= 0 or r < 0.3:
        return rand_jscalar(rng)
    if r < 0.65:
        ks = {rand_str(rng) for _ in range(rng.randint(0, 4))}
        return jo([(k, rand_jvalue(rng, depth - 1)) for k in ks])
    return ja([rand_jvalue(rng, depth - 1) for _ in range(rng.randint(0, 4))])


def rand_nonrep(rng):
    """values outside the property's domain: what Serialize does with them is documented and tied, not required to round-trip"""
    r = rng.random()
    if r < 0.25:
        x = jts(rng.choice([0, 1, -1, 10 ** 9, 1600000000 * 10 ** 9 + 123456789, 1600000000 * 10 ** 9 + 120000000,
                            -(10 ** 15), 253402300799 * 10 ** 9]))
    elif r < 0.4:
        x = {"r": rng.choice(["a+", "^x$", ".", "\\d+\"q\"", "\\n"]).encode().hex()}
    elif r < 0.5:
        x = jf_bits(rng.choice([0x7ff0000000000000, 0xfff0000000000000]))
    else:
        x = jb(bytes(rng.choice([0x80, 0xbf, 0xc0, 0xc2, 0xe0, 0xa0, 0xed, 0xf0, 0x90, 0xf4, 0xf5, 0xff, 0x41, 0x22, 0xe2,
                                 0x82, 0xac, rng.randrange(256)]) for _ in range(rng.randint(1, 6))))
    if rng.random() < 0.5:
        return x
    return ja([x, rand_jvalue(rng, 1)]) if rng.random() < 0.5 else jo([("k", x)])


# ---- JSON texts

def lit_string(rng, s):
    out = ['"']
    for ch in s:
        c = ord(ch)
        r = rng.random()
        if c == 0x22 or c == 0x5C:
            out.append("\\" + ch if r < 0.8 else "\\u%04x" % c)
        elif c < 0x20:
            short = {8: "\\b", 9: "\\t", 10: "\\n", 12: "\\f", 13: "\\r"}
            out.append(short[c] if c in short and r < 0.6 else ("\\u%04X" if r < 0.8 else "\\u%04x") % c)
        elif c == 0x2F and r < 0.5:
            out.append("\\/")
        elif r < 0.15:
            if c >= 0x10000:
                c2 = c - 0x10000
                out.append("\\u%04x\\u%04X" % (0xD800 + (c2 >> 10), 0xDC00 + (c2 & 0x3FF)))
            else:
                out.append("\\u%04x" % c)
        else:
            out.append(ch)
    out.append('"')
    return "".join(out)


NUM_LITS = ["0", "-0", "1", "-1", "00", "01", "-01", "-", "+1", "1.", ".1", "1.0", "-0.0", "0.5", "1e3", "1E3", "1e+3", "1e-3",
            "1e", "1e+", "1e-", "1.e3", "1.5e3", "0e0", "0E-0", "0.0e99999999999", "1e99999999999", "1e-99999999999",
            "0e99999999999", "-0e-99999999999", "1e2147483647", "1e2147483648", "1e-2147483648", "0.1e2147483648",
            "1e400", "-1e400", "1e-400", "1e308", "2e308", "1.7976931348623157e308", "1.7976931348623159e308",
            "4.9e-324", "5e-324", "2e-324", "3e-324", "2.4703282292062328e-324", "2.2250738585072014e-308",
            "2.2250738585072011e-308", "18446744073709551615", "18446744073709551616", "18446744073709551614",
            "9223372036854775807", "9223372036854775808", "-9223372036854775808", "-9223372036854775809",
            "-18446744073709551615", "-18446744073709551616", "123456789012345678901234567890", "0." + "0" * 400 + "1",
            "1" + "0" * 400, "1" + "0" * 308, "1" + "0" * 309, "1" + "0" * 30 + ".5e-10", "0.1", "0.2", "0.3", "1e21", "1e22",
            "1e23", "8.5e22", "9007199254740993", "9007199254740993.0", "1.0000000000000002", "1.00000000000000011",
            "123456789012345678.9", "1844674407370955161.5", "18446744073709551615.5", "184467440737095516150",
            "0.18446744073709551616", "0.184467440737095516159", "1.8446744073709551616e5", "1e0000000000000000000001",
            "1.1479437019748901e-41", "9.242595204427925e-274", "1e1", "1E+1", "1e01", "-1E-01", "1e 1", "1 e1", "0x10",
            "1_000", "NaN", "Infinity", "-Infinity", "1,5"]

STR_LITS = ['""', '"a"', '"\\ud800"', '"\\udc00"', '"\\ud83d\\ude00"', '"\\uD83D\\uDE00"', '"\\ud83d\\u0041"', '"\\ud83dx"',
            '"\\ud83d\\n"', '"\\ud83d"', '"\\ud83d\\ud83d\\ude00"', '"\\udbff\\udfff"', '"\\ud800\\udc00"', '"\\u00e9"',
            '"\\u00E9"', '"\\u0000"', '"\\u12"', '"\\u12g4"', '"\\x41"', '"\\a"', '"\\\'"', '"\\', '"abc', '"a\\"', '"\\u"',
            '"\\ufeff"', '"\\uffff"', '"\\u2028"', "'a'", '"\t"', '"\n"', '"\x1f"', '"\x7f"', '"\\/"', '"/"',
            '"\\uD834\\uDD1E"', '"\\ud834\\udd1"', '"\\ud834\\udd1g"', '"\\ud834\\', '"\\ud834\\u']

WS = [" ", "\n", "\t", "\r", "  ", "\n  ", " \r\n\t"]
NOT_WS = ["\x0b", "\x0c", "\xa0", "\u2028", "\ufeff", "\x00", "/**/", "//x\n"]


def rand_num_lit(rng):
    r = rng.random()
    if r < 0.35:
        return rng.choice(NUM_LITS)
    if r < 0.5:
        return str(gen.rand_int(rng) * rng.choice([1, 1, 10, 3]))
    if r < 0.6:
        return repr(struct.unpack("<d", struct.pack("<Q", rand_fbits(rng)))[0])
    s = "-" if rng.random() < 0.3 else ""
    s += rng.choice(["0", str(rng.randint(1, 9)) + "".join(rng.choice("0123456789") for _ in range(rng.choice([0, 1, 5, 15, 18, 19, 20, 25])))])
    if rng.random() < 0.6:
        s += "." + "".join(rng.choice("0123456789") for _ in range(rng.choice([1, 2, 5, 17, 19, 20, 30])))
    if rng.random() < 0.5:
        s += rng.choice("eE") + rng.choice(["", "+", "-"]) + str(rng.choice([0, 1, 5, 22, 23, 100, 290, 307, 308, 309, 320, 324, 330, 400, rng.randint(0, 340)]))
    return s


def rand_text(rng, depth):
    """a (mostly) valid JSON text with free whitespace, escapes, number forms, duplicate keys"""
    def ws():
        return rng.choice(WS) if rng.random() < 0.25 else ""
    r = rng.random()
    if depth <= 0 or r < 0.35:
        q = rng.random()
        if q < 0.35:
            return rand_num_lit(rng)
        if q < 0.65:
            return lit_string(rng, rand_str(rng)) if rng.random() < 0.75 else rng.choice(STR_LITS)
        return rng.choice(["true", "false", "null", "true", "false", "null", "nul", "True", "tru", "nulll", "falsee"])
    if r < 0.7:
        n = rng.randint(0, 4)
        keys = [rand_str(rng) for _ in range(n)]
        if n >= 2 and rng.random() < 0.35:
            keys[-1] = keys[0]        # duplicate key: the last one wins
        items = [ws() + lit_string(rng, k) + ws() + ":" + ws() + rand_text(rng, depth - 1) + ws() for k in keys]
        return "{" + (",".join(items) if items else ws()) + "}"
    items = [ws() + rand_text(rng, depth - 1) + ws() for _ in range(rng.randint(0, 4))]
    return "[" + (",".join(items) if items else ws()) + "]"


MUT_BYTES = [b",", b"]", b"}", b"[", b"{", b":", b'"', b"\\", b"\x00", b"\x1f", b" ", b"\n", b"\x80", b"\xff", b"\xc3", b"\xef\xbb\xbf",
             b"-", b".", b"e", b"0", b"9", b"\\u", b"\\ud800", b"tru", b"null", b"\xe2\x80\xa8", b"\xf0\x9f\x98", b"\xed\xa0\x80", b"\xc0\xaf"]


def mutate(rng, b):
    b = bytearray(b)
    for _ in range(rng.choice([1, 1, 1, 2, 3])):
        r = rng.random()
        pos = rng.randint(0, len(b))
        if r < 0.3 and b:
            del b[min(pos, len(b) - 1)]
        elif r < 0.65:
            b[pos:pos] = rng.choice(MUT_BYTES)
        elif r < 0.8 and b:
            b[min(pos, len(b) - 1)] = rng.choice(rng.choice(MUT_BYTES))
        elif r < 0.9:
            b = b[:pos]
        else:
            q = rng.randint(pos, len(b))
            b[pos:pos] = b[pos:q]
    return bytes(b)


SMALL_ALPHA = [b"[", b"]", b"{", b"}", b",", b":", b'"', b"\\", b" ", b"1", b"0", b"-", b".", b"e", b"a", b"u", b"n", b"t", b"\n"]


def rand_parse_case(rng):
    r = rng.random()
    if r < 0.45:
        t = rand_text(rng, 3).encode("utf-8", "surrogatepass")
        if rng.random() < 0.15:
            t = rng.choice([b" ", b"\n", b"\xef\xbb\xbf", b"\xef\xbb\xbf\xef\xbb\xbf", b"\xef\xbb\xbf ", b" \xef\xbb\xbf"]) + t
        if rng.random() < 0.15:
            t = t + rng.choice([b" ", b"\n", b" x", b",", b"]", b"\x00", b"\xef\xbb\xbf", b" 1"])
    elif r < 0.8:
        t = mutate(rng, rand_text(rng, 2).encode("utf-8", "surrogatepass"))
    elif r < 0.9:
        t = b"".join(rng.choice(SMALL_ALPHA) for _ in range(rng.randint(0, 7)))
    else:
        q = rng.random()
        if q < 0.5:
            t = rng.choice(NUM_LITS).encode()
        elif q < 0.9:
            t = rng.choice(STR_LITS).encode()
        else:
            n = rng.choice([1, 2, 126, 127, 128, 129])
            o, cl = rng.choice([("[", "]"), ('{"a":', "}"), ("[ ", "\n]")])
            t = (o * n + rng.choice(["", "1", "[]", "{}"]) + cl * n).encode()
    return {"op": "parse", "s": t.hex()}


def gen_cases(run, n):
    rng = run.rng
    cases = []
    n_enc = n * 55 // 100
    for _ in range(n_enc):
        r = rng.random()
        if r < 0.86:
            cases.append({"op": "enc", "v": rand_jvalue(rng, 3)})
        elif r < 0.96:
            cases.append({"op": "enc", "v": rand_nonrep(rng)})
        else:
            # deep nesting; the levels next to serde_json's limit (127 passes, 128 is the recorded finding) are also
            # in the corpus, and a 126-level pretty text is 30 kB, so keep those rare
            d = rng.choice([125, 126, 127]) if rng.random() < 0.06 else rng.choice([1, 5, 20, 40, 60])
            cases.append({"op": "enc", "v": rand_jvalue(rng, 1), "wrap": [d, rng.choice("ao")]})
    for _ in range(n - n_enc):
        cases.append(rand_parse_case(rng))
    return cases


# ------------------------------------------------------------------------------------------------
# rendering into Gallina
# ------------------------------------------------------------------------------------------------

def coq_hex(h):
    """hex text as `hxb ["..."%bl; ...]` (see Corr/C21.v: cheaper to elaborate than a `string` literal; in pieces
    because one 60 000 character literal overflows coqc's stack)"""
    return "(hxb [%s])" % "; ".join('"%s"%%bl' % h[i:i + 4000] for i in range(0, len(h), 4000))


def coq_value_w(j):
    """coq_value, but a long chain of one-element arrays / {"k": x} objects becomes `wrapv n obj inner`
    (coqc's parser overflows its stack on literals nested a hundred levels deep)"""
    def step(x):
        if isinstance(x, dict) and "a" in x and len(x["a"]) == 1:
            return False, x["a"][0]
        if isinstance(x, dict) and "o" in x and len(x["o"]) == 1 and x["o"][0][0] == "6b":
            return True, x["o"][0][1]
        return None
    st = step(j)
    if st is not None:
        n, kind, cur = 0, st[0], j
        while True:
            st = step(cur)
            if st is None or st[0] != kind:
                break
            n, cur = n + 1, st[1]
        if n >= 6:
            return "(wrapv %d %s %s)" % (n, coq_bool(kind), coq_value_w(cur))
    if isinstance(j, dict) and "o" in j:
        return "(VObj [%s])" % "; ".join("(%s, %s)" % (coq_hex(k), coq_value_w(v)) for k, v in j["o"])
    if isinstance(j, dict) and "a" in j:
        return "(VArr [%s])" % "; ".join(coq_value_w(v) for v in j["a"])
    if isinstance(j, dict) and "b" in j:
        return "(VBytes %s)" % coq_hex(j["b"])
    return coq_value(j)


def coq_some(x):
    return "None" if x is None else "(Some %s)" % x


def to_coq(c, o):
    """identical sub-terms (the value, the two parse results, the two texts of a scalar) are written once and shared
    by `let`: elaborating the literals is what the model run spends its time on"""
    lets = []

    def share(term):
        if len(term) < 40:
            return term
        for name, t in lets:
            if t == term:
                return name
        lets.append(("x%d" % len(lets), term))
        return lets[-1][0]

    def pres(x):
        if x is None:
            return None
        return "(POk %s)" % share(coq_value_w(x["ok"])) if "ok" in x else "PErr"

    if c["op"] == "enc":
        v = share(coq_value_w(c["v"]))
        if "wrap" in c:
            v = "(wrapv %d %s %s)" % (c["wrap"][0], coq_bool(c["wrap"][1] == "o"), v)
        ftab = "[%s]" % "; ".join("(f64_of_bits 0x%s, %s)" % (b, coq_hex(t)) for b, t in o["floats"])
        ttab = "[%s]" % "; ".join("(%s, %s)" % (coq_z(ns), coq_hex(t)) for ns, t in o["tss"])
        same = o["sc"] == o["c"] and o["sp"] == o["p"] and o["src"].get("ok", "e") == o["rc"].get("ok", "e") \
            and o["srp"].get("ok", "e") == o["rp"].get("ok", "e")
        body = "CEnc %s %s %s %s %s %s %s %s" % (v, ftab, ttab, share(coq_hex(o["c"])), share(coq_hex(o["p"])),
                                                  pres(o["rc"]), pres(o["rp"]), coq_bool(same))
    else:
        body = "CParse %s %s %s %s %s %s" % (share(coq_hex(c["s"])), pres(o["r"]), pres(o["strict"]),
                                             coq_some(pres(o["serde"])), share(coq_hex(o["lossy"])),
                                             coq_some(pres(o["again"])))
    for name, t in reversed(lets):
        body = "let %s := %s in %s" % (name, t, body)
    return "(%s)" % body if lets else body


# ------------------------------------------------------------------------------------------------
# known findings
# ------------------------------------------------------------------------------------------------

def vdepth(j):
    if isinstance(j, dict) and "a" in j:
        return 1 + max([vdepth(x) for x in j["a"]] + [0])
    if isinstance(j, dict) and "o" in j:
        return 1 + max([vdepth(x) for _, x in j["o"]] + [0])
    return 0


def max_ulps(a, b):
    """largest float distance in ulps between two values of the same shape; None when they differ otherwise"""
    if isinstance(a, dict) and isinstance(b, dict):
        if "f" in a and "f" in b:
            x, y = int(a["f"], 16), int(b["f"], 16)
            if (x >> 63) != (y >> 63):
                return None
            return abs((x & (2 ** 63 - 1)) - (y & (2 ** 63 - 1)))
        if "a" in a and "a" in b and len(a["a"]) == len(b["a"]):
            ds = [max_ulps(x, y) for x, y in zip(a["a"], b["a"])]
            return None if None in ds else max(ds + [0])
        if "o" in a and "o" in b and [k for k, _ in a["o"]] == [k for k, _ in b["o"]]:
            ds = [max_ulps(x, y) for (_, x), (_, y) in zip(a["o"], b["o"])]
            return None if None in ds else max(ds + [0])
    return 0 if a == b else None


def known_matcher(entry, case, out):
    cls = entry["match"]["class"]
    if cls == "recursion-limit":
        if case["op"] != "enc":
            return False
        d = case.get("wrap", [0])[0] + vdepth(case["v"])
        return d >= entry["match"]["min_depth"] and all("recursion limit exceeded" in out[k].get("err", "") for k in ("rc", "rp"))
    if cls == "float-2ulp":
        if case["op"] == "enc":
            v = case["v"]
            for _ in range(case.get("wrap", [0])[0]):
                v = {"o": [["6b", v]]} if case["wrap"][1] == "o" else {"a": [v]}
            pairs = [(v, out[k].get("ok", "missing")) for k in ("rc", "rp")]
        else:
            if "ok" not in out["r"] or not out.get("again") or "ok" not in out["again"]:
                return False
            pairs = [(out["r"]["ok"], out["again"]["ok"])]
        ds = [max_ulps(a, b) for a, b in pairs]
        return None not in ds and max(ds) == entry["match"]["ulps"]
    return False


def nontrivial(c):
    if c["op"] == "enc":
        return vdepth(c["v"]) >= 1 or "wrap" in c or (isinstance(c["v"], dict) and ("f" in c["v"] or len(c["v"].get("b", "")) > 2))
    return len(c["s"]) >= 4


def main(run, args):
    import checklib
    n = (args.cases or 2000) if run.tier == "quick" else (args.cases or 40000)
    return checklib.standard(run, ID, THEOREMS, IMPORTS, "json", gen_cases, to_coq, n, nontrivial=nontrivial,
                             replay=args.replay, known_matcher=known_matcher)
