"""C10 — Comparisons are consistent; integer equality is exact."""
import arith_common as ac

ID = "C10"
THEOREMS = ["C10_ne_is_not_eq", "C10_int_order", "C10_int_eq_exact", "C10_int_trichotomy", "C10_int_eq_exact_refuted", "C10_int_eq_exact_small",
            "C10_float_trichotomy", "C10_float_eq_iff", "C10_bytes_trichotomy", "C10_ts_trichotomy",
            "C10_mixed_trichotomy", "C10_mixed_eq", "C10_struct_eq", "C10_struct_eq_plain", "C10_kinds_apart",
            "C10_nonvacuous"]
IMPORTS = ("From Coq Require Import List ZArith String Floats.SpecFloat.\n"
           "From VRL Require Import Base.Bytes Base.Value Base.Lit Model.Arith Corr.C10.\nLocal Open Scope string_scope.")
REALS_AXIOMS = ("ClassicalDedekindReals.sig_not_dec", "ClassicalDedekindReals.sig_forall_dec",
                "FunctionalExtensionality.functional_extensionality_dep", "Classical_Prop.classic")
MANIFEST = {
    "level": "proof",
    "technique": "Coq proofs (case analysis on SpecFloat comparison, Z order, lexicographic byte order, nested induction "
                 "on values) on a hand model of arithmetic.rs eq_lossy/try_gt/ge/lt/le + differential correspondence vs "
                 "the trait methods and vs compiled `.a <op> .b` programs",
    "text": "Closed Coq theorems over ALL operand pairs of each comparable kind: exactly one of <, ==, > holds, != is the "
            "negation of ==, <= and >= agree, for two integers (outside the recorded defect class), two non-NaN floats "
            "(infinities, both zeros), two byte strings, two timestamps, and integer/float pairs; the orderings of "
            "integers are the exact Z comparisons for all pairs; equality of non-numbers is structural equality with "
            "the two float zeros identified (nested induction). Integer `==` is exact outside the class "
            "known_int_eq (different integers with equal f64 conversions), and C10_int_eq_exact_refuted exhibits "
            "2^53+1 == 2^53 inside it: a genuine defect of the pinned tree, recorded in known_findings/C10.json. "
            "The model is tied to the code by running all six operators on generated pairs through the trait methods, "
            "through compiled programs on events, and through the Gallina definitions (vm_compute).",
    "note": "Trusted: Coq kernel + vm_compute, the hand-written model Model/Arith.v (tied by correspondence only), "
            "Coq's SpecFloat as the definition of binary64 comparison and of `i64 as f64` (binary_normalize, round to "
            "nearest even), harness JSON codec, Python generator. Error variants are abstracted to a class. "
            "Print Assumptions: every theorem is closed under the global context except C10_int_eq_exact_small, which uses Flocq's real-number semantics of binary64 and depends on the four standard axioms of Coq's classical reals (sig_not_dec, sig_forall_dec, functional_extensionality_dep, classic). KNOWN FINDING on the pinned tree: eq_lossy compares two integers "
            "after converting both to f64, so different integers above 2^53 can be `==`.",
    "design_ref": "DESIGN.md section 5 C10",
}


def gen_cases(run, n):
    return ac.gen_cases(run, n, "cmp")


def nontrivial(c):
    return c["op"] != "any/any"


def _int(v):
    return int(v["i"]) if isinstance(v, dict) and "i" in v else None


def known_matcher(entry, case, out):
    """C10-int-eq-lossy: both operands integers, different, equal after conversion to f64 (Python's int -> float
    conversion rounds to nearest even like `as f64`), and the implementation says `==`."""
    if entry.get("match", {}).get("class") != "int-int-equal-as-f64":
        return False
    a, b = _int(case["x"]), _int(case["y"])
    if a is None or b is None or a == b or float(a) != float(b):
        return False
    return out.get("direct", {}).get("eq") == {"ok": True} or out.get("e2e", {}).get("eq") == {"ok": True}


def main(run, args):
    import checklib
    n = 3000 if run.tier == "quick" else 60000
    if args.cases:
        n = args.cases
    rc = checklib.standard(run, ID, THEOREMS, IMPORTS, "arith", gen_cases, ac.cmp_to_coq, n, nontrivial=nontrivial,
                             replay=args.replay, allowed_axioms=REALS_AXIOMS, known_matcher=known_matcher)
    if args.replay:
        return rc
    return ac.axiom_guard(ID, ("C10_int_eq_exact_small",), rc)
