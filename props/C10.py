"""C10 — Comparisons are consistent; integer equality is exact."""
import arith_common as ac

ID = "C10"
THEOREMS = ["C10_ne_is_not_eq", "C10_int_order", "C10_int_eq_exact", "C10_int_trichotomy", "C10_int_eq_former_witness", "C10_int_eq_exact_small",
            "C10_float_trichotomy", "C10_float_eq_iff", "C10_bytes_trichotomy", "C10_ts_trichotomy",
            "C10_mixed_trichotomy", "C10_mixed_eq", "C10_struct_eq", "C10_struct_eq_plain", "C10_kinds_apart",
            "C10_nonvacuous"]
IMPORTS = ("From Coq Require Import List ZArith String Floats.SpecFloat.\n"
           "From VRL Require Import Base.Bytes Base.Value Base.Lit Model.Arith Corr.C10.\nLocal Open Scope string_scope.")
REALS_AXIOMS = ("ClassicalDedekindReals.sig_not_dec", "ClassicalDedekindReals.sig_forall_dec",
                "FunctionalExtensionality.functional_extensionality_dep", "Classical_Prop.classic")
MANIFEST = {
    "level": "proof",
    "technique": "Coq proofs (case analysis on SpecFloat comparison, Z order, lexicographic byte order, nested induction "
                 "on values) on a hand model of arithmetic.rs eq_lossy/try_gt/ge/lt/le + differential correspondence vs "
                 "the trait methods and vs compiled `.a <op> .b` programs",
    "text": "Closed Coq theorems over ALL operand pairs of each comparable kind: exactly one of <, ==, > holds, != is the "
            "negation of ==, <= and >= agree, for ALL pairs of integers, two non-NaN floats "
            "(infinities, both zeros), two byte strings, two timestamps, and integer/float pairs; the orderings of "
            "integers are the exact Z comparisons for all pairs; equality of non-numbers is structural equality with "
            "the two float zeros identified (nested induction). Integer `==` is exact 64-bit equality for all pairs "
            "(the defect 2^53+1 == 2^53 of the original tree was repaired in /repo by 7355ec6; the old witness is kept "
            "as a theorem and a corpus case and now compares unequal). "
            "The model is tied to the code by running all six operators on generated pairs through the trait methods, "
            "through compiled programs on events, and through the Gallina definitions (vm_compute).",
    "note": "Trusted: Coq kernel + vm_compute, the hand-written model Model/Arith.v (tied by correspondence only), "
            "Coq's SpecFloat as the definition of binary64 comparison and of `i64 as f64` (binary_normalize, round to "
            "nearest even), harness JSON codec, Python generator. Error variants are abstracted to a class. "
            "Print Assumptions: every theorem is closed under the global context except C10_int_eq_exact_small, which uses Flocq's real-number semantics of binary64 and depends on the four standard axioms of Coq's classical reals (sig_not_dec, sig_forall_dec, functional_extensionality_dep, classic). Former finding C10-int-eq-lossy (eq_lossy compared two integers through f64) is fixed by /repo 7355ec6; known_findings/C10.json records it with status fixed and suppresses nothing.",
    "design_ref": "DESIGN.md section 5 C10",
}


def gen_cases(run, n):
    return ac.gen_cases(run, n, "cmp")


def nontrivial(c):
    return c["op"] != "any/any"


def main(run, args):
    import checklib
    n = 3000 if run.tier == "quick" else 60000
    if args.cases:
        n = args.cases
    rc = checklib.standard(run, ID, THEOREMS, IMPORTS, "arith", gen_cases, ac.cmp_to_coq, n, nontrivial=nontrivial,
                             replay=args.replay, allowed_axioms=REALS_AXIOMS)
    if args.replay:
        return rc
    return ac.axiom_guard(ID, ("C10_int_eq_exact_small",), rc)
